package main

func init() { register("C19", checkC19) }

func checkC19(p *Program, tier string) *Result {
	r := newResult("C19")
	r.Explanation = "R-FRESHBODY: the body of every packet built for sending (the reply writer, the key-mismatch reply) is not read from storage that outlives the packet - the writer XORs the pad into the body where it lies, so a cached reply body goes out obfuscated twice the second time. R-SIBLING: the key-mismatch detector exempts clear-flag requests first and goes straight to the dispatch on the header type; per header type it tries exactly the bodies the specification lists (as does Request.Fields), declares a mismatch iff all of them report the length-sum error (threshold = number tried, counter incremented only on errors.As(err, *BadSecretErr) of each trial); in every body decoder the only producer of that error is 'decoded size != sum of the length fields read', before validation; the reply is the ERROR status of the reply type matching the header type; the reader writes the detector's reply exactly once, then returns (nil, error), and returns a packet only when the detector returned neither. R-LOOP(b,c): a read error means no handler and a closed connection. R-LAYOUT (decoders, cursor helpers): a well-formed body consumes exactly the announced bytes under its own layout, so it does not raise the mismatch error there (no false positive as long as the tried set contains every body of the type). R-PADSHAPE(f): the detector sees the de-obfuscated body."
	ruleSibling(p, r)
	ruleLoop(p, r, "bc")
	r.floor("R-LOOP", 3)
	ruleLayout(p, r, "d", false)
	rulePadCallSites(p, r)
	ruleFreshBody(p, r)
	r.Trusted = append(r.Trusted, "errors.As", "the body-types-per-header-type table (RFC 8907) in rule_sibling.go")
	r.Assumptions = append(r.Assumptions, "the probability that a wrong key yields consistent lengths is inherent to the protocol and not decided")
	return r
}
