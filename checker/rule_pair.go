package main

import (
	"fmt"
	"go/token"
	"go/types"
	"sort"
	"strings"

	"golang.org/x/tools/go/ssa"
)

// ---------------------------------------------------------------------------
// R-PAIR (a): wait-group discipline of the accept loop

// wgMethod: fn is, or wraps on every path, sync.WaitGroup.<name> on a field of its receiver;
// returns the WaitGroup-holding receiver type.
func wrapsWaitGroup(fn *ssa.Function, name string) bool {
	if fn == nil {
		return false
	}
	if fn.Name() == name && typeIsRecv(fn, "sync", "WaitGroup") {
		return true
	}
	if fn.Blocks == nil {
		return false
	}
	for _, c := range allCalls(fn) {
		if f := c.Common().StaticCallee(); f != nil && f.Name() == name && typeIsRecv(f, "sync", "WaitGroup") {
			// must be unconditional: in a block dominating every return
			all := true
			for _, e := range exitBlocks(fn) {
				if !(c.Block() == e || c.Block().Dominates(e)) {
					all = false
				}
			}
			return all
		}
	}
	return false
}

// wgIdentity describes which wait group a call operates on: the field path from a *Server-like base.
func wgIdentity(c ssa.CallInstruction) (field *types.Var, base ssa.Value) {
	args := c.Common().Args
	if len(args) == 0 {
		return nil, nil
	}
	v := args[0]
	for {
		f, b, ok := fieldAddrOf(v)
		if !ok {
			return nil, nil
		}
		// descend through embedded sync.WaitGroup inside the wrapper
		if typeIs(f.Type(), "sync", "WaitGroup") {
			v = b
			continue
		}
		return f, b
	}
}

func rulePairWaitGroup(p *Program, r *Result) {
	ro := rolesOK(p, r)
	for _, S := range ro.Serves {
		key := fnKey(S)
		pos := p.Pos(S.Pos())
		var accepts []ssa.CallInstruction
		for _, c := range invokesNamed(S, "Accept") {
			accepts = append(accepts, c)
		}
		var gos []*ssa.Go
		for _, b := range S.Blocks {
			for _, in := range b.Instrs {
				if g, ok := in.(*ssa.Go); ok && g.Call.StaticCallee() != nil {
					gos = append(gos, g)
				}
			}
		}
		// a1: Add dominates go, in the accepting goroutine
		for i, g := range gos {
			gk := fmt.Sprintf("%s:a:add-before-go#%d", key, i+1)
			var add ssa.CallInstruction
			for _, c := range allCalls(S) {
				if _, isGo := c.(*ssa.Go); isGo {
					continue
				}
				if wrapsWaitGroup(c.Common().StaticCallee(), "Add") && domInstr(c, g) {
					add = c
				}
			}
			if add == nil {
				r.bad("R-PAIR", gk, p.Pos(g.Pos()), "no WaitGroup.Add in the accept loop dominates the go statement: if the count is raised inside the new goroutine, Wait can return while an accepted connection is still being served")
				continue
			}
			// same iteration: from Add, the go is reached without passing Accept again
			accBlocks := map[*ssa.BasicBlock]bool{}
			for _, a := range accepts {
				accBlocks[a.Block()] = true
			}
			same := add.Block() == g.Block() || blockReach(add.Block(), accBlocks)[g.Block()]
			delta := int64(0)
			if len(add.Common().Args) >= 2 {
				delta, _ = constInt(add.Common().Args[1])
			}
			r.cond(same && delta == 1, "R-PAIR", gk, p.Pos(add.Pos()),
				"WaitGroup.Add(1) is executed by the accepting goroutine, after Accept succeeded and before the go statement",
				fmt.Sprintf("the Add dominating the go statement is not Add(1) of the same iteration (delta %d)", delta))
			// a2: the spawned function defers Done first
			callee := g.Call.StaticCallee()
			dk := fmt.Sprintf("%s:a:done-deferred-first", fnKey(callee))
			var done *ssa.Defer
			if callee.Blocks != nil {
				for _, in := range callee.Blocks[0].Instrs {
					if d, ok := in.(*ssa.Defer); ok && wrapsWaitGroup(d.Call.StaticCallee(), "Done") {
						done = d
						break
					}
					if _, isCall := in.(*ssa.Call); isCall {
						break // a call before the defer could return/panic/block first
					}
					if _, isIf := in.(*ssa.If); isIf {
						break
					}
				}
			}
			if done == nil {
				r.bad("R-PAIR", dk, p.Pos(callee.Pos()), "the connection goroutine does not defer WaitGroup.Done before doing anything else: an early return or panic would leave Serve waiting forever, or Done could be skipped")
				continue
			}
			fa, ba := wgIdentity(add)
			fd, bd := wgIdentity(done)
			sameWG := fa != nil && fa == fd
			// base of Add must be the receiver passed to the goroutine as the base of Done
			recvOK := false
			if sameWG && len(g.Call.Args) > 0 && len(callee.Params) > 0 {
				recvOK = bd == ssa.Value(callee.Params[0]) && sameValueLoose(ba, g.Call.Args[0])
			}
			r.cond(sameWG && recvOK, "R-PAIR", dk, p.Pos(done.Pos()),
				"the first instruction of the connection goroutine defers Done on the same wait group (same field of the same server object) that the accept loop raised",
				"the deferred Done is not on the wait group the accept loop raised")
		}
		if len(gos) == 0 {
			r.undecided("R-PAIR", key+":a:go", pos, "accept loop without a go statement")
		}
		// a4: deferred listener.Close and Wait before the accept loop
		var deferred []*ssa.Defer
		for _, b := range S.Blocks {
			for _, in := range b.Instrs {
				if d, ok := in.(*ssa.Defer); ok {
					deferred = append(deferred, d)
				}
			}
		}
		closeOK, waitOK := false, false
		var where ssa.Instruction
		for _, d := range deferred {
			domAll := true
			for _, a := range accepts {
				if !domInstr(d, a) {
					domAll = false
				}
			}
			if !domAll {
				continue
			}
			fns := []*ssa.Function{}
			if f := d.Call.StaticCallee(); f != nil {
				fns = append(fns, f)
			}
			for _, f := range fns {
				if wrapsWaitGroup(f, "Wait") {
					waitOK = true
					where = d
				}
				if f.Blocks == nil {
					continue
				}
				var closeCall, waitCall ssa.CallInstruction
				for _, c := range allCalls(f) {
					if cc := c.Common(); cc.IsInvoke() && cc.Method.Name() == "Close" {
						closeCall = c
					}
					if wrapsWaitGroup(c.Common().StaticCallee(), "Wait") {
						waitCall = c
					}
				}
				if closeCall != nil && unconditional(f, closeCall) {
					closeOK = true
				}
				if waitCall != nil && unconditional(f, waitCall) {
					waitOK = true
					where = d
				}
			}
			if cc := d.Common(); cc.IsInvoke() && cc.Method.Name() == "Close" {
				closeOK = true
			}
		}
		wp := pos
		if where != nil {
			wp = p.Pos(where.Pos())
		}
		r.cond(closeOK && waitOK, "R-PAIR", key+":a:deferred-close-and-wait", wp,
			"before the accept loop Serve defers, unconditionally, listener.Close() and WaitGroup.Wait(): every return of Serve closes the listener and waits for all connection goroutines",
			fmt.Sprintf("Serve does not defer both listener.Close (%v) and WaitGroup.Wait (%v) unconditionally before the accept loop", closeOK, waitOK))
		// a5: context polled and finite accept deadline between two accepts
		for i, a := range accepts {
			ak := fmt.Sprintf("%s:a:accept-deadline#%d", key, i+1)
			var dl ssa.CallInstruction
			for _, c := range allCalls(S) {
				if _, ok := methodCallNamed(c, "SetDeadline"); ok && domInstr(c, a) {
					dl = c
				}
			}
			if dl == nil {
				r.bad("R-PAIR", ak, p.Pos(a.Pos()), "no SetDeadline on the listener dominates Accept: a blocked Accept would never observe cancellation")
			} else {
				fin, why := finiteDeadlineArg(dl)
				rearm := rearmedBetween(dl, a)
				r.cond(fin && rearm, "R-PAIR", ak, p.Pos(dl.Pos()),
					"a finite accept deadline ("+why+") is armed on every path between two Accept calls",
					"accept deadline not finite ("+why+") or not re-armed before every Accept")
			}
			ck := fmt.Sprintf("%s:a:ctx-poll#%d", key, i+1)
			var done ssa.CallInstruction
			for _, c := range invokesNamed(S, "Done") {
				if typeIs(c.Common().Value.Type(), "context", "Context") && domInstr(c, a) {
					done = c
				}
			}
			if done == nil {
				r.bad("R-PAIR", ck, p.Pos(a.Pos()), "the context is not tested before Accept")
			} else {
				r.cond(rearmedBetween(done, a), "R-PAIR", ck, p.Pos(done.Pos()), "ctx.Done() is polled on every path between two Accept calls", "ctx.Done() is not polled between two Accept calls")
			}
		}
	}
	r.floor("R-PAIR", 5)
}

// unconditional: call c is on every path from f's entry to its returns.
func unconditional(f *ssa.Function, c ssa.Instruction) bool {
	for _, e := range exitBlocks(f) {
		if !(c.Block() == e || c.Block().Dominates(e)) {
			return false
		}
	}
	return true
}

// rearmedBetween: from instruction `at`, `at` is not reachable again without passing x's block.
func rearmedBetween(x, at ssa.Instruction) bool {
	if x.Block() == at.Block() {
		return true // entering the block passes x before at, or leaving it passes x after at
	}
	blocked := map[*ssa.BasicBlock]bool{x.Block(): true}
	for _, s := range at.Block().Succs {
		if blockReach(s, blocked)[at.Block()] {
			return false
		}
	}
	return true
}

// sameValueLoose: a and b are the same value, or loads of the same local cell.
func sameValueLoose(a, b ssa.Value) bool {
	if a == b {
		return true
	}
	ua, ok1 := a.(*ssa.UnOp)
	ub, ok2 := b.(*ssa.UnOp)
	if ok1 && ok2 && ua.Op == token.MUL && ub.Op == token.MUL && ua.X == ub.X {
		return true
	}
	return false
}

// ---------------------------------------------------------------------------
// R-PAIR (b): gauges

type gaugeSite struct {
	fn     *ssa.Function
	call   ssa.CallInstruction
	method string
}

func isPromGauge(t types.Type) bool {
	return typeIs(t, "github.com/prometheus/client_golang/prometheus", "Gauge")
}

// gaugeSites lists, per Gauge-typed package-level variable of the root package, every method call on it in the module.
func gaugeSites(p *Program) (map[*ssa.Global][]gaugeSite, []*ssa.Global) {
	sites := map[*ssa.Global][]gaugeSite{}
	var order []*ssa.Global
	root := p.SSAPkg[modPath]
	for _, m := range root.Members {
		if g, ok := m.(*ssa.Global); ok {
			if pt, ok := g.Type().(*types.Pointer); ok && isPromGauge(pt.Elem()) {
				sites[g] = nil
				order = append(order, g)
			}
		}
	}
	sort.Slice(order, func(i, j int) bool { return order[i].Name() < order[j].Name() })
	var gaugeUnits []*ssa.Function
	for _, fn := range p.Funcs {
		if p.isTestFile(fn.Pos()) {
			continue
		}
		if fn.Pkg != nil && inUniverse(fn.Pkg.Pkg.Path()) || fn.Parent() != nil && outermost(fn).Pkg != nil && inUniverse(outermost(fn).Pkg.Pkg.Path()) {
			if p.folded(fn) {
				continue
			}
			gaugeUnits = append(gaugeUnits, p.view(fn))
		} else {
			gaugeUnits = append(gaugeUnits, fn)
		}
	}
	for _, fn := range gaugeUnits {
		for _, c := range allCalls(fn) {
			cc := c.Common()
			if !cc.IsInvoke() {
				continue
			}
			if u, ok := cc.Value.(*ssa.UnOp); ok && u.Op == token.MUL {
				if g, ok := u.X.(*ssa.Global); ok {
					if _, tracked := sites[g]; tracked {
						sites[g] = append(sites[g], gaugeSite{fn, c, cc.Method.Name()})
					}
				}
			}
		}
		// a gauge global passed around or re-assigned is outside the idioms
		for _, b := range fn.Blocks {
			for _, in := range b.Instrs {
				if st, ok := in.(*ssa.Store); ok {
					if g, ok := st.Addr.(*ssa.Global); ok {
						if _, tracked := sites[g]; tracked && fn.Name() != "init" {
							sites[g] = append(sites[g], gaugeSite{fn, nil, "<reassigned>"})
						}
					}
				}
			}
		}
	}
	return sites, order
}

func rulePairGauges(p *Program, r *Result) {
	sites, order := gaugeSites(p)
	if len(order) == 0 {
		r.undecided("R-PAIR", "gauges", "-", "UNRESOLVED: no prometheus.Gauge globals in the root package")
		return
	}
	for _, g := range order {
		ss := sites[g]
		gk := "gauge:" + g.Name()
		if len(ss) == 0 {
			r.ok("R-PAIR", gk+":unused", p.Pos(g.Pos()), false, "gauge is never modified")
			continue
		}
		var incs, decs []gaugeSite
		bad := false
		for _, s := range ss {
			switch s.method {
			case "Inc":
				incs = append(incs, s)
			case "Dec":
				decs = append(decs, s)
			case "Set", "Add", "Sub", "SetToCurrentTime", "<reassigned>":
				pos := p.Pos(g.Pos())
				if s.call != nil {
					pos = p.Pos(s.call.Pos())
				}
				r.bad("R-PAIR", gk+":only-inc-dec:"+fnKey(s.fn), pos, "in-flight gauge %s is modified by %s in %s: an absolute or multi-unit update is not paired with the event it counts (it overwrites what other connections or servers contributed)", g.Name(), s.method, fnKey(s.fn))
				bad = true
			}
		}
		if bad {
			continue
		}
		// classify
		if population := rulePopulationGauge(p, r, g, incs, decs); population {
			continue
		}
		// bracket gauge: per function, Dec post-dominates Inc, or Add/Done wrappers
		byFn := map[*ssa.Function][2][]gaugeSite{}
		for _, s := range incs {
			e := byFn[s.fn]
			e[0] = append(e[0], s)
			byFn[s.fn] = e
		}
		for _, s := range decs {
			e := byFn[s.fn]
			e[1] = append(e[1], s)
			byFn[s.fn] = e
		}
		var fns []*ssa.Function
		for f := range byFn {
			fns = append(fns, f)
		}
		sort.Slice(fns, func(i, j int) bool { return fns[i].String() < fns[j].String() })
		var incOnly, decOnly []*ssa.Function
		for _, f := range fns {
			e := byFn[f]
			bk := gk + ":bracket:" + fnKey(f)
			switch {
			case len(e[0]) > 0 && len(e[1]) > 0:
				good := len(e[0]) == 1 && len(e[1]) == 1
				why := ""
				if good {
					inc, dec := e[0][0].call, e[1][0].call
					if _, isDefer := dec.(*ssa.Defer); isDefer {
						good = domInstr(dec, inc) || domInstr(inc, dec)
						if !domInstr(inc, dec) {
							// deferred Dec armed before Inc: Dec runs even if Inc did not
							good = false
							why = "the deferred Dec is armed before the Inc"
						}
					} else {
						okPass, leak := mustPassAfter(inc, func(in ssa.Instruction) bool { return in == dec.(ssa.Instruction) })
						if !okPass {
							good = false
							why = fmt.Sprintf("a path from Inc reaches the return at %s without Dec", blockLabel(p, leak))
						}
						if !domInstr(inc, dec) {
							good = false
							why = "Dec is reachable without a preceding Inc"
						}
						// no loop carrying Inc without Dec: Inc not reachable from itself without Dec
						if good && !rearmedBetween(dec.(ssa.Instruction), inc.(ssa.Instruction)) {
							good = false
							why = "Inc can execute twice without a Dec in between"
						}
					}
				} else {
					why = fmt.Sprintf("%d Inc and %d Dec sites", len(e[0]), len(e[1]))
				}
				if good {
					r.ok("R-PAIR", bk, p.Pos(e[0][0].call.Pos()), true, "Inc and Dec bracket a region of %s: Dec is on every path from Inc to return and never runs without it", fnKey(f))
				} else {
					r.bad("R-PAIR", bk, p.Pos(e[0][0].call.Pos()), "gauge %s is not bracketed in %s: %s", g.Name(), fnKey(f), why)
				}
			case len(e[0]) > 0:
				incOnly = append(incOnly, f)
			default:
				decOnly = append(decOnly, f)
			}
		}
		// Inc-only / Dec-only functions must be the paired Add/Done wrappers
		if len(incOnly)+len(decOnly) > 0 {
			wk := gk + ":wrappers"
			good := len(incOnly) == 1 && len(decOnly) == 1 && wrapsWaitGroup(incOnly[0], "Add") && wrapsWaitGroup(decOnly[0], "Done")
			if good {
				// one unconditional Inc / Dec each
				good = len(byFn[incOnly[0]][0]) == 1 && len(byFn[decOnly[0]][1]) == 1 &&
					unconditional(incOnly[0], byFn[incOnly[0]][0][0].call) && unconditional(decOnly[0], byFn[decOnly[0]][1][0].call)
			}
			if good {
				r.ok("R-PAIR", wk, p.Pos(g.Pos()), true, "gauge %s changes by one unconditional Inc in the WaitGroup.Add wrapper and one unconditional Dec in the WaitGroup.Done wrapper, which R-PAIR(a) pairs per connection goroutine", g.Name())
			} else {
				r.bad("R-PAIR", wk, p.Pos(g.Pos()), "gauge %s has unpaired sites: Inc-only functions %s, Dec-only functions %s (only the WaitGroup Add/Done wrappers may split a pair)", g.Name(), fnList(incOnly), fnList(decOnly))
			}
		}
	}
	r.floor("R-PAIR", 4)
}

// mapFieldOf: v is a load of a map-typed struct field; returns the field.
func mapFieldOf(v ssa.Value) *types.Var {
	f, _, ok := loadedField(v)
	if !ok {
		return nil
	}
	if _, isMap := f.Type().Underlying().(*types.Map); !isMap {
		return nil
	}
	return f
}

// rulePopulationGauge handles a gauge whose Inc site lives in a function inserting into a map field
// (the session table): the gauge must change exactly when the population of that map changes.
func rulePopulationGauge(p *Program, r *Result, g *ssa.Global, incs, decs []gaugeSite) bool {
	// find the map field: an Inc site in a function with an unguarded MapUpdate
	var table *types.Var
	for _, s := range incs {
		for _, b := range s.fn.Blocks {
			for _, in := range b.Instrs {
				if mu, ok := in.(*ssa.MapUpdate); ok {
					if f := mapFieldOf(mu.Map); f != nil {
						table = f
					}
				}
			}
		}
	}
	if table == nil {
		return false
	}
	gk := "gauge:" + g.Name()
	isGaugeCall := func(in ssa.Instruction, method string) bool {
		c, ok := in.(ssa.CallInstruction)
		if !ok {
			return false
		}
		cc := c.Common()
		if !cc.IsInvoke() || cc.Method.Name() != method {
			return false
		}
		u, ok := cc.Value.(*ssa.UnOp)
		return ok && u.Op == token.MUL && u.X == ssa.Value(g)
	}
	accounted := map[ssa.CallInstruction]bool{}
	// every mutation of the table in the module
	for _, fn := range p.UUnits() {
		for _, b := range fn.Blocks {
			for _, in := range b.Instrs {
				switch x := in.(type) {
				case *ssa.MapUpdate:
					if mapFieldOf(x.Map) != table {
						continue
					}
					k := fmt.Sprintf("%s:insert:%s", gk, fnKey(fn))
					// guarded by presence of the same key: population unchanged, no Inc allowed here
					if presenceGuard(x, x.Map, x.Key, true) != nil {
						hasInc := false
						for _, s := range incs {
							if s.fn == fn {
								hasInc = true
							}
						}
						r.cond(!hasInc, "R-PAIR", k+":overwrite", p.Pos(x.Pos()),
							"the map update overwrites an entry known to be present (population unchanged) and the function does not touch the gauge",
							"the gauge is incremented in a function that only overwrites an existing entry")
						continue
					}
					// insertion: exactly one Inc on every path through the function
					n := 0
					var inc ssa.CallInstruction
					for _, s := range incs {
						if s.fn == fn {
							n++
							inc = s.call
						}
					}
					good := n == 1 && unconditional(fn, inc) && unconditional(fn, x)
					if good {
						accounted[inc] = true
						r.ok("R-PAIR", k, p.Pos(x.Pos()), true, "the inserting function increments the gauge exactly once, unconditionally, together with the map insert")
					} else {
						r.bad("R-PAIR", k, p.Pos(x.Pos()), "an entry is inserted into the table without exactly one unconditional Inc of %s in the same function (%d Inc sites)", g.Name(), n)
					}
					// call sites: only on a lookup miss
					rulePopulationInsertSites(p, r, gk, fn)
				case *ssa.Call:
					bi, ok := x.Common().Value.(*ssa.Builtin)
					if !ok || bi.Name() != "delete" || mapFieldOf(x.Common().Args[0]) != table {
						continue
					}
					k := fmt.Sprintf("%s:delete:%s", gk, fnKey(fn))
					var fdecs []ssa.CallInstruction
					for _, s := range decs {
						if s.fn == fn {
							fdecs = append(fdecs, s.call)
						}
					}
					mapv, keyv := x.Common().Args[0], x.Common().Args[1]
					if inRangeOver(x, table) {
						// drain loop: one Dec per removed entry, in the loop body
						good := len(fdecs) == 1 && fdecs[0].Block() == x.Block()
						if good {
							accounted[fdecs[0]] = true
						}
						r.cond(good, "R-PAIR", k+":drain", p.Pos(x.Pos()),
							"the loop that drops every remaining entry decrements the gauge once per entry",
							"the loop that drops the remaining entries does not decrement the gauge once per entry")
						continue
					}
					t := presenceTestFor(fn, mapv, keyv, x)
					if t == nil {
						r.bad("R-PAIR", k, p.Pos(x.Pos()), "an entry is deleted from the table without a presence test of that key: the gauge cannot follow the population (decrementing unconditionally counts sessions that were never registered; not decrementing leaks)")
						continue
					}
					okEdge := t.okSucc
					good := len(fdecs) > 0
					why := ""
					for _, d := range fdecs {
						if !(okEdge == d.Block() || okEdge.Dominates(d.Block())) {
							good = false
							why = "a Dec is not confined to the 'key present' edge"
						}
					}
					if good {
						// from the present edge every path to return passes exactly one Dec
						pass := mustPassFromBlock(okEdge, func(in ssa.Instruction) bool { return isGaugeCall(in, "Dec") })
						if !pass {
							good = false
							why = "a path from the 'key present' edge reaches return without Dec"
						}
						for _, d1 := range fdecs {
							for _, d2 := range fdecs {
								if d1 != d2 && blockReach(d1.Block(), nil)[d2.Block()] {
									good = false
									why = "two Dec sites on one path"
								}
							}
						}
					} else if why == "" {
						why = "no Dec in the deleting function"
					}
					if good {
						for _, d := range fdecs {
							accounted[d] = true
						}
						r.ok("R-PAIR", k, p.Pos(x.Pos()), true, "the gauge is decremented exactly once when, and only when, the deleted key was present")
					} else {
						r.bad("R-PAIR", k, p.Pos(x.Pos()), "deleting an entry does not move %s with the population: %s", g.Name(), why)
					}
				}
			}
		}
	}
	// the table is dropped when the connection closes: the loop function must defer a drain that
	// decrements once per remaining entry
	for _, L := range p.Roles().Loops {
		k := fmt.Sprintf("%s:drain-deferred:%s", gk, fnKey(L))
		good := false
		for _, b := range L.Blocks {
			for _, in := range b.Instrs {
				d, ok := in.(*ssa.Defer)
				if !ok {
					continue
				}
				f := d.Call.StaticCallee()
				if f == nil || f.Blocks == nil {
					continue
				}
				for _, bb := range f.Blocks {
					for _, i2 := range bb.Instrs {
						if isGaugeCall(i2, "Dec") && inRangeOver(i2, table) {
							good = true
						}
					}
				}
			}
		}
		r.cond(good, "R-PAIR", k, p.Pos(L.Pos()),
			"the connection loop defers a drain of its session table that decrements the gauge once per entry still present: sessions abandoned half-way are subtracted when the connection closes",
			"the connection loop does not defer a drain that decrements the gauge for every entry still in the table at connection close: abandoned sessions stay counted as active")
	}
	for _, s := range append(append([]gaugeSite{}, incs...), decs...) {
		if !accounted[s.call] {
			r.bad("R-PAIR", gk+":stray:"+fnKey(s.fn), p.Pos(s.call.Pos()), "%s.%s in %s is not tied to an insertion into or removal from the table the gauge counts", g.Name(), s.method, fnKey(s.fn))
		}
	}
	return true
}

type presenceTest struct {
	lookup *ssa.Lookup
	okSucc *ssa.BasicBlock
}

// presenceTestFor: a comma-ok lookup of the same map field under the same key whose If dominates `at`
// (or precedes it in a dominating block).
func presenceTestFor(fn *ssa.Function, mapv, keyv ssa.Value, at ssa.Instruction) *presenceTest {
	mf := mapFieldOf(mapv)
	for _, b := range fn.Blocks {
		for _, in := range b.Instrs {
			lk, ok := in.(*ssa.Lookup)
			if !ok || !lk.CommaOk || mapFieldOf(lk.X) != mf || !sameKey(lk.Index, keyv) {
				continue
			}
			for _, rf := range refsOf(lk) {
				e, ok := rf.(*ssa.Extract)
				if !ok || e.Index != 1 {
					continue
				}
				for _, r2 := range refsOf(e) {
					if iff, ok := r2.(*ssa.If); ok && domInstr(iff, at) {
						return &presenceTest{lk, iff.Block().Succs[0]}
					}
				}
			}
		}
	}
	return nil
}

func sameKey(a, b ssa.Value) bool {
	if a == b {
		return true
	}
	return sameLoad(a, b)
}

// presenceGuard: instruction `at` is dominated by the ok-true edge of a comma-ok lookup of the same map and key.
func presenceGuard(at ssa.Instruction, mapv, keyv ssa.Value, wantPresent bool) *presenceTest {
	t := presenceTestFor(at.Parent(), mapv, keyv, at)
	if t == nil {
		return nil
	}
	if t.okSucc == at.Block() || t.okSucc.Dominates(at.Block()) {
		return t
	}
	return nil
}

// inRangeOver: instruction lies in the body of a range loop over the table field.
func inRangeOver(at ssa.Instruction, table *types.Var) bool {
	fn := at.Parent()
	for _, b := range fn.Blocks {
		for _, in := range b.Instrs {
			if rg, ok := in.(*ssa.Range); ok && mapFieldOf(rg.X) == table {
				// the body blocks are dominated by the block holding `next`
				for _, rf := range refsOf(rg) {
					if nx, ok := rf.(*ssa.Next); ok {
						if nx.Block().Dominates(at.Block()) && blockReach(at.Block(), nil)[nx.Block()] {
							return true
						}
					}
				}
			}
		}
	}
	return false
}

// mustPassFromBlock: every path from the start of block b to a return passes an instruction satisfying pred.
func mustPassFromBlock(b *ssa.BasicBlock, pred func(ssa.Instruction) bool) bool {
	seen := map[*ssa.BasicBlock]bool{}
	ok := true
	var walk func(x *ssa.BasicBlock)
	walk = func(x *ssa.BasicBlock) {
		if seen[x] || !ok {
			return
		}
		seen[x] = true
		for _, in := range x.Instrs {
			if pred(in) {
				return
			}
		}
		if _, isRet := x.Instrs[len(x.Instrs)-1].(*ssa.Return); isRet {
			ok = false
			return
		}
		for _, s := range x.Succs {
			walk(s)
		}
	}
	walk(b)
	return ok
}

// rulePopulationInsertSites: the inserting function is called only when the lookup found no entry.
func rulePopulationInsertSites(p *Program, r *Result, gk string, inserter *ssa.Function) {
	for _, fn := range p.UUnits() {
		for _, c := range allCalls(fn) {
			if !sameFn(c.Common().StaticCallee(), inserter) {
				continue
			}
			k := fmt.Sprintf("%s:insert-site:%s", gk, fnKey(fn))
			// control-dependent on "<lookup result #0> == nil" where the lookup is the (Handler, error) session lookup
			good := false
			for _, b := range fn.Blocks {
				iff, ok := b.Instrs[len(b.Instrs)-1].(*ssa.If)
				if !ok {
					continue
				}
				bo, ok := iff.Cond.(*ssa.BinOp)
				if !ok || (bo.Op != token.EQL && bo.Op != token.NEQ) || !isNilConst(bo.Y) {
					continue
				}
				// the edge on which the lookup's handler is nil
				nilEdge := b.Succs[0]
				if bo.Op == token.NEQ {
					nilEdge = b.Succs[1]
				}
				if call, idx, ok := extractOf(bo.X); ok && idx == 0 && len(call.Common().Args) > 0 && len(c.Common().Args) > 0 && sameObjectValue(call.Common().Args[0], c.Common().Args[0]) {
					if (nilEdge == c.Block() || nilEdge.Dominates(c.Block())) && len(nilEdge.Preds) == 1 {
						if g, _ := guardedBySuccess(call, c, nil); g {
							good = true
						}
					}
				}
			}
			r.cond(good, "R-PAIR", k, p.Pos(c.Pos()),
				"the insert is called only on the 'no handler found' edge of a successful lookup on the same table (a miss, given that no entry with a nil continuation survives an iteration: R-LOOP d)",
				"the insert (which increments the gauge) is called without a preceding lookup miss on the same table: an existing entry would be counted twice")
		}
	}
}

var _ = strings.Contains

// ruleGoroutineGaugePaired (C20): the goroutine gauge lives in the WaitGroup Add/Done wrappers; per spawned
// connection goroutine exactly one Add(1) and one Done run: Done is deferred in the goroutine's entry block
// with nothing but the Add wrapper before it, and the single Add(1) either dominates the go statement in
// the same iteration of the accept loop or is the first call of the goroutine itself. Where the Add sits
// matters to shutdown (C17), not to conservation.
func ruleGoroutineGaugePaired(p *Program, r *Result) {
	ro := rolesOK(p, r)
	n := 0
	for _, S := range ro.Serves {
		accBlocks := map[*ssa.BasicBlock]bool{}
		for _, c := range invokesNamed(S, "Accept") {
			accBlocks[c.Block()] = true
		}
		for _, b := range S.Blocks {
			for _, in := range b.Instrs {
				g, ok := in.(*ssa.Go)
				if !ok || g.Call.StaticCallee() == nil {
					continue
				}
				n++
				G := g.Call.StaticCallee()
				key := fnKey(S) + ":b:goroutine-gauge-paired:" + fnKey(G)
				if len(G.Blocks) == 0 {
					r.undecided("R-PAIR", key, p.Pos(g.Pos()), "goroutine function without body")
					continue
				}
				addsIn, doneFirst := 0, false
				for _, gi := range G.Blocks[0].Instrs {
					if d, ok := gi.(*ssa.Defer); ok && wrapsWaitGroup(d.Call.StaticCallee(), "Done") {
						doneFirst = true
						break
					}
					if c, ok := gi.(*ssa.Call); ok {
						if wrapsWaitGroup(c.Common().StaticCallee(), "Add") && len(c.Common().Args) >= 2 {
							if d, _ := constInt(c.Common().Args[1]); d == 1 {
								addsIn++
								continue
							}
						}
						break
					}
					if _, ok := gi.(*ssa.If); ok {
						break
					}
				}
				addsOut := 0
				for _, c := range allCalls(S) {
					if _, isGo := c.(*ssa.Go); isGo {
						continue
					}
					if !wrapsWaitGroup(c.Common().StaticCallee(), "Add") {
						continue
					}
					d := int64(0)
					if len(c.Common().Args) >= 2 {
						d, _ = constInt(c.Common().Args[1])
					}
					if d == 1 && domInstr(c, g) && (c.Block() == g.Block() || blockReach(c.Block(), accBlocks)[g.Block()]) && mustReachBlock(c.Block(), g.Block(), accBlocks) {
						addsOut++
					} else {
						addsOut += 2 // an Add that is not the paired one
					}
				}
				// other Add/Done sites anywhere else in the goroutine function
				extra := 0
				for _, c := range allCalls(G) {
					f := c.Common().StaticCallee()
					if wrapsWaitGroup(f, "Add") || wrapsWaitGroup(f, "Done") {
						extra++
					}
				}
				extra -= addsIn
				if doneFirst {
					extra--
				}
				r.cond(doneFirst && addsIn+addsOut == 1 && extra == 0, "R-PAIR", key, p.Pos(g.Pos()),
					"per connection goroutine exactly one Add(1) (before the go statement or as the goroutine's first call) and one deferred Done run: the goroutine gauge returns to rest",
					fmt.Sprintf("Add/Done of the goroutine gauge are not one-to-one per connection goroutine (Done deferred first: %v, Add(1) in the goroutine: %d, before the go statement: %d, other Add/Done in the goroutine: %d)", doneFirst, addsIn, addsOut, extra))
			}
		}
	}
	if n == 0 {
		r.undecided("R-PAIR", "b:goroutine-gauge-paired", "-", "no go statement in the accept loop")
	}
}

// mustReachBlock: every path from block a reaches block g before any block in stop (or a return).
func mustReachBlock(a, g *ssa.BasicBlock, stop map[*ssa.BasicBlock]bool) bool {
	if a == g {
		return true
	}
	seen := map[*ssa.BasicBlock]bool{}
	var walk func(b *ssa.BasicBlock) bool
	walk = func(b *ssa.BasicBlock) bool {
		if b == g {
			return true
		}
		if seen[b] {
			return true
		}
		seen[b] = true
		if (stop[b] && b != a) || len(b.Succs) == 0 {
			return false
		}
		for _, s := range b.Succs {
			if !walk(s) {
				return false
			}
		}
		return true
	}
	return walk(a)
}
