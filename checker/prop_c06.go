package main

import "golang.org/x/tools/go/ssa"

func init() { register("C06", checkC06, cfgLinux386) }

func checkC06(p *Program, tier string) *Result {
	r := newResult("C06")
	r.Explanation = "R-MIRROR: in the Reply method of the library's Response implementation the reply header is NewHeader(options) where each option is a plain 'store argument into field' setter and Version, Type, Flags and SessionID are loads of the stored request header; the sequence number is stored+1 computed at int width, or the constant 1 exactly under Status == AuthenStatusRestart; the one packet handed to the writer carries that header and body.MarshalBinary(); the stored header advances to the reply header; no reference handler bypasses Reply through Response.Write. R-LOOP(E): the response handed to the handler has its header set once, from the packet just read, before Handle, which the loop does not modify. R-FRAMING(writer): Header.Length := len(Body) before pad and marshal; Conn.Write only after a successful MarshalBinary. R-NARROW/R-VALIDATE-PASS(Header): a sequence number above 255 fails validation, so a request numbered 255 gets no packet. R-PADSHAPE(a): obfuscation is decided by the mirrored flag octet alone."
	ruleMirror(p, r)
	ruleLoop(p, r, "E")
	ruleRequestHeaderUntouched(p, r)
	r.floor("R-LOOP", 2)
	ruleFramingWriter(p, r)
	r.discard("R-FRAMING", ":no-silent-drop") // whether a reply is written at all is C07's clause
	validators := ruleValidatePass(p, r)
	ruleNarrowEncoders(p, r, map[string]*ssa.Function{"Header": validators["Header"]})
	rulePadShape(p, r, "aef")
	r.Trusted = append(r.Trusted, "the statement itself is the oracle: field-by-field copy")
	r.Assumptions = append(r.Assumptions, "third-party handlers that call Response.Write with a hand-made packet (public API, by design) are out of scope")
	return r
}
