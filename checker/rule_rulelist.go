package main

import (
	"fmt"
	"go/types"
	"strings"

	"golang.org/x/tools/go/ssa"
)

// R-RULELIST: the evaluators treat a rule whose pattern list is empty as "applies always" (a test
// len(x.Match) == 0 on the rule being evaluated). Hence no code between the loader and the evaluator may
// shrink a pattern list: every store to a Match field of a configuration rule type, outside the decoder, must
// store a list with as many elements as the one it replaces - the same list, make([]string, len(old)), or a
// list grown by exactly one unconditional append per element of a range over the old one.
func ruleRuleList(p *Program, r *Result) {
	cfgPkg := modPath + "/cmds/server/config"
	// the convention is read off the code
	conv := 0
	for _, fn := range p.UFuncs() {
		for _, b := range fn.Blocks {
			for _, in := range b.Instrs {
				bo, ok := in.(*ssa.BinOp)
				if !ok {
					continue
				}
				c, ok := bo.X.(*ssa.Call)
				if !ok {
					continue
				}
				bi, ok := c.Common().Value.(*ssa.Builtin)
				if !ok || bi.Name() != "len" {
					continue
				}
				if f, _, ok := loadedField(c.Common().Args[0]); ok && f.Name() == "Match" && f.Pkg() != nil && f.Pkg().Path() == cfgPkg {
					if z, ok := constInt(bo.Y); ok && z == 0 {
						conv++
					}
				}
			}
		}
	}
	if conv == 0 {
		r.ok("R-RULELIST", "convention", "-", false, "no evaluator treats an empty pattern list specially: nothing to protect")
		return
	}
	n, bad := 0, 0
	for _, fn := range p.UFuncs() {
		for _, b := range fn.Blocks {
			for _, in := range b.Instrs {
				st, ok := in.(*ssa.Store)
				if !ok {
					continue
				}
				f, _, ok := fieldAddrOf(st.Addr)
				if !ok || f.Name() != "Match" || f.Pkg() == nil || f.Pkg().Path() != cfgPkg {
					continue
				}
				if _, isSl := f.Type().Underlying().(*types.Slice); !isSl {
					continue
				}
				n++
				okLen, why := lengthPreserving(st.Val, 6)
				if !okLen {
					bad++
					r.bad("R-RULELIST", fmt.Sprintf("%s:match-list#%d", fnKey(fn), n), p.Pos(st.Pos()),
						"a rule's pattern list is replaced by a list that is not shown to have as many elements (%s); the evaluator treats an empty list as 'the rule applies to any arguments', so dropping patterns can turn a rule that never applies into one that always does", why)
				} else {
					r.ok("R-RULELIST", fmt.Sprintf("%s:match-list#%d", fnKey(fn), n), p.Pos(st.Pos()), true, "the pattern list stored has as many elements as the one it replaces (%s)", why)
				}
			}
		}
	}
	if bad == 0 {
		r.ok("R-RULELIST", "pattern-lists-not-shrunk", "-", true, "%d evaluator test(s) treat an empty pattern list as 'applies always'; %d stores to a rule's pattern list in the server universe, none can shrink it", conv, n)
	}
}

// lengthPreserving: v is an existing pattern list, make([]T, len(list)), or a list built by one unconditional
// append per iteration of a range loop.
func lengthPreserving(v ssa.Value, depth int) (bool, string) {
	if depth == 0 {
		return false, "too deep"
	}
	switch x := v.(type) {
	case *ssa.UnOp:
		if f, _, ok := loadedField(x); ok && f.Name() == "Match" {
			return true, "an existing pattern list"
		}
	case *ssa.MakeSlice:
		if c, ok := x.Len.(*ssa.Call); ok {
			if bi, ok := c.Common().Value.(*ssa.Builtin); ok && bi.Name() == "len" {
				if f, _, ok := loadedField(c.Common().Args[0]); ok && f.Name() == "Match" {
					return true, "make with the length of the old list"
				}
			}
		}
		return false, "make with another length"
	case *ssa.Phi:
		// loop-carried accumulator: initial make(.., 0, ..) plus append(acc, one element) per iteration
		var app *ssa.Call
		for _, e := range x.Edges {
			switch y := e.(type) {
			case *ssa.MakeSlice:
				if z, ok := constInt(y.Len); !ok || z != 0 {
					return false, "accumulator does not start empty"
				}
			case *ssa.Const:
				if !y.IsNil() {
					return false, "accumulator start"
				}
			case *ssa.Call:
				bi, ok := y.Common().Value.(*ssa.Builtin)
				if !ok || bi.Name() != "append" || y.Common().Args[0] != ssa.Value(x) {
					return false, "accumulator updated by something other than append(acc, x)"
				}
				if elems, ok := varargElems(y.Common().Args[1]); !ok || len(elems) != 1 {
					return false, "append of other than exactly one element"
				}
				app = y
			case *ssa.Phi:
				// append under a condition merges acc with append(acc, ..): not unconditional
				return false, "a pattern is appended only under a condition: patterns can be dropped"
			default:
				return false, fmt.Sprintf("accumulator edge %T", e)
			}
		}
		if app == nil {
			return false, "no append"
		}
		// the append is executed on every iteration: from the loop body entry every path back to the header passes it
		H := x.Block()
		for _, s := range H.Succs {
			if !s.Dominates(app.Block()) && s != app.Block() {
				continue
			}
			stop := map[*ssa.BasicBlock]bool{H: true}
			if !mustCallBefore(s, stop, func(c ssa.CallInstruction) bool { return c == ssa.CallInstruction(app) }) {
				return false, "the append is skipped on some iterations"
			}
		}
		return true, "one unconditional append per element"
	}
	return false, strings.TrimPrefix(fmt.Sprintf("%T", v), "*ssa.")
}
