package main

import (
	"fmt"
	"go/token"
	"go/types"
	"sort"
	"strings"

	"golang.org/x/tools/go/ssa"
)

// ReplySite is one place where a reply body is handed to the response (a "status slot" carrier).
type ReplySite struct {
	Fn      *ssa.Function
	Call    ssa.CallInstruction // invoke Response.Reply / ReplyWithContext
	Kind    string              // "Authen", "Author", "Acct" or "" when unresolved
	Ctor    *ssa.Call           // tacquito.New<Kind>Reply(...)
	Options map[string][]ssa.Value
	// Status holds the possible status constants; Resolved is false when some source is not a constant
	Status   []int64
	Resolved bool
	Why      string
	ctors    []*ssa.Call
	// At: the instruction whose execution means that this reply was chosen: the reply invocation itself, or - when
	// the body replied is a merge of several New*Reply(...) built on different paths of this function - the
	// constructor call of this alternative (the site is then listed once per alternative)
	At ssa.Instruction
}

var replyCtor = map[string]string{"NewAuthenReply": "Authen", "NewAuthorReply": "Author", "NewAcctReply": "Acct"}

// constSources resolves v to the set of integer constants it may hold, following phis,
// conversions, results of module functions (their returned values) and single-store locals.
func constSources(p *Program, v ssa.Value, depth int, out map[int64]bool) bool {
	if depth <= 0 {
		return false
	}
	switch x := v.(type) {
	case *ssa.Const:
		if c, ok := constInt(x); ok {
			out[c] = true
			return true
		}
		return false
	case *ssa.ChangeType:
		return constSources(p, x.X, depth, out)
	case *ssa.Convert:
		return constSources(p, x.X, depth, out)
	case *ssa.Phi:
		for _, e := range x.Edges {
			if !constSources(p, e, depth-1, out) {
				return false
			}
		}
		return true
	case *ssa.Extract:
		if call, ok := x.Tuple.(*ssa.Call); ok {
			return constResults(p, call, x.Index, depth-1, out)
		}
	case *ssa.Call:
		return constResults(p, x, 0, depth-1, out)
	case *ssa.Field:
		return structFieldConsts(p, x.X, x.Field, depth-1, out)
	case *ssa.UnOp:
		if x.Op == token.MUL {
			if fa, ok := x.X.(*ssa.FieldAddr); ok {
				if a, ok := fa.X.(*ssa.Alloc); ok && !escapesBeyondFields(a) {
					return localFieldConsts(p, a, fa.Field, depth-1, out)
				}
			}
			if a, ok := x.X.(*ssa.Alloc); ok {
				st := allocStores(a)
				if len(st) == 0 {
					return false
				}
				for _, s := range st {
					if !constSources(p, s.Val, depth-1, out) {
						return false
					}
				}
				return true
			}
			if g, ok := x.X.(*ssa.Global); ok {
				// package-level var initialised with a constant and never reassigned (config.PERMIT style)
				return globalConst(p, g, out)
			}
		}
	}
	return false
}

func constResults(p *Program, call *ssa.Call, idx int, depth int, out map[int64]bool) bool {
	f := call.Common().StaticCallee()
	if f == nil || f.Blocks == nil || f.Pkg == nil || !isModulePath(f.Pkg.Pkg.Path()) {
		return false
	}
	n := 0
	for _, b := range f.Blocks {
		if b == f.Recover {
			continue
		}
		ret, ok := b.Instrs[len(b.Instrs)-1].(*ssa.Return)
		if !ok || idx >= len(ret.Results) {
			continue
		}
		n++
		for _, rv := range returnedValues(f, ret, idx) {
			if !constSources(p, rv, depth, out) {
				return false
			}
		}
	}
	return n > 0
}

// globalConst: the only store to global g in the module is a constant in its package initialiser.
func globalConst(p *Program, g *ssa.Global, out map[int64]bool) bool {
	n := 0
	ok := true
	for _, fn := range p.Funcs {
		for _, b := range fn.Blocks {
			for _, in := range b.Instrs {
				if st, isSt := in.(*ssa.Store); isSt && st.Addr == ssa.Value(g) {
					n++
					if c, isC := constInt(st.Val); isC && fn.Name() == "init" {
						out[c] = true
					} else {
						ok = false
					}
				}
			}
		}
	}
	// package initialisers are synthetic and not in p.Funcs: look them up
	if g.Pkg != nil {
		if init := g.Pkg.Func("init"); init != nil {
			for _, b := range init.Blocks {
				for _, in := range b.Instrs {
					if st, isSt := in.(*ssa.Store); isSt && st.Addr == ssa.Value(g) {
						n++
						if c, isC := constInt(st.Val); isC {
							out[c] = true
						} else {
							ok = false
						}
					}
				}
			}
		}
	}
	return ok && n > 0
}

// optionCalls: values stored into the varargs array behind slice value v.
func varargElems(v ssa.Value) ([]ssa.Value, bool) {
	if c, ok := v.(*ssa.Const); ok && c.IsNil() {
		return nil, true
	}
	sl, ok := v.(*ssa.Slice)
	if !ok {
		return nil, false
	}
	a, ok := sl.X.(*ssa.Alloc)
	if !ok {
		return nil, false
	}
	var out []ssa.Value
	for _, rf := range refsOf(a) {
		ia, ok := rf.(*ssa.IndexAddr)
		if !ok {
			continue
		}
		for _, r2 := range refsOf(ia) {
			if st, ok := r2.(*ssa.Store); ok && st.Addr == ia {
				out = append(out, st.Val)
			}
		}
	}
	return out, true
}

// replySiteOf resolves the body argument of a reply invocation.
func replySiteOf(p *Program, fn *ssa.Function, c ssa.CallInstruction, bodyArg ssa.Value, depth int) ReplySite {
	return replySiteOf1(p, fn, c, bodyArg, depth, nil)
}

// replySitesOf: like replySiteOf, with a body merged from several constructors of this same function listed once
// per constructor (each alternative is judged where it is built).
func replySitesOf(p *Program, fn *ssa.Function, c ssa.CallInstruction, bodyArg ssa.Value, depth int) []ReplySite {
	rs := replySiteOf1(p, fn, c, bodyArg, depth, nil)
	if len(rs.ctors) < 2 || !rs.Resolved {
		return []ReplySite{rs}
	}
	for _, ct := range rs.ctors {
		if ct.Parent() != fn {
			return []ReplySite{rs}
		}
	}
	var out []ReplySite
	for _, ct := range rs.ctors {
		one := replySiteOf1(p, fn, c, bodyArg, depth, ct)
		one.At = ct
		out = append(out, one)
	}
	return out
}

func replySiteOf1(p *Program, fn *ssa.Function, c ssa.CallInstruction, bodyArg ssa.Value, depth int, only *ssa.Call) ReplySite {
	rs := ReplySite{Fn: fn, Call: c, At: c, Options: map[string][]ssa.Value{}}
	v := stripConv(bodyArg)
	var ctors []*ssa.Call
	var find func(v ssa.Value, d int) bool
	find = func(v ssa.Value, d int) bool {
		if d <= 0 {
			return false
		}
		switch x := v.(type) {
		case *ssa.Call:
			f := x.Common().StaticCallee()
			if f == nil {
				return false
			}
			if _, ok := replyCtor[f.Name()]; ok && f.Pkg != nil && f.Pkg.Pkg.Path() == modPath {
				ctors = append(ctors, x)
				return true
			}
			// helper returning a reply: look at what it returns
			if f.Blocks != nil && isModulePath(f.Pkg.Pkg.Path()) {
				n := 0
				for _, b := range f.Blocks {
					ret, ok := b.Instrs[len(b.Instrs)-1].(*ssa.Return)
					if !ok || len(ret.Results) == 0 || b == f.Recover {
						continue
					}
					for _, rv := range returnedValues(f, ret, 0) {
						if isNilConst(rv) {
							continue
						}
						n++
						if !find(stripConv(rv), d-1) {
							return false
						}
					}
				}
				return n > 0
			}
		case *ssa.Phi:
			for _, e := range x.Edges {
				if isNilConst(e) {
					continue
				}
				if !find(stripConv(e), d-1) {
					return false
				}
			}
			return true
		case *ssa.Extract:
			if call, ok := x.Tuple.(*ssa.Call); ok {
				return find(call, d)
			}
		}
		return false
	}
	if !find(v, depth) || len(ctors) == 0 {
		rs.Why = "the reply body is not built by tacquito.New*Reply(options...) within reach"
		return rs
	}
	status := map[int64]bool{}
	rs.Resolved = true
	rs.ctors = ctors
	for _, ctor := range ctors {
		if only != nil && ctor != only {
			continue
		}
		rs.Ctor = ctor
		kind := replyCtor[ctor.Common().StaticCallee().Name()]
		if rs.Kind != "" && rs.Kind != kind {
			rs.Resolved = false
			rs.Why = "mixed reply kinds"
		}
		rs.Kind = kind
		args := ctor.Common().Args
		if len(args) != 1 {
			rs.Resolved = false
			continue
		}
		opts, ok := varargElems(args[0])
		if !ok {
			rs.Resolved = false
			rs.Why = "the option list is not an inline argument list"
			continue
		}
		hasStatus := false
		for _, o := range opts {
			oc, ok := stripConv(o).(*ssa.Call)
			if !ok {
				rs.Resolved = false
				rs.Why = "an option is not a direct Set* call"
				continue
			}
			of := oc.Common().StaticCallee()
			if of == nil {
				rs.Resolved = false
				continue
			}
			name := of.Name()
			rs.Options[name] = append(rs.Options[name], oc.Common().Args...)
			if strings.HasSuffix(name, "ReplyStatus") {
				hasStatus = true
				if !constSources(p, oc.Common().Args[0], 6, status) {
					rs.Resolved = false
					rs.Why = "the status is not a finite set of constants"
				}
			}
		}
		if !hasStatus {
			status[0] = true // zero value
		}
	}
	for k := range status {
		rs.Status = append(rs.Status, k)
	}
	sort.Slice(rs.Status, func(i, j int) bool { return rs.Status[i] < rs.Status[j] })
	return rs
}

// allReplySites enumerates reply invocations on a Response in the universe.
func allReplySites(p *Program) []ReplySite {
	respT := p.lookupType("", "Response")
	var out []ReplySite
	for _, fn := range p.UUnits() {
		for _, c := range allCalls(fn) {
			cc := c.Common()
			if !cc.IsInvoke() || respT == nil || !types.Identical(cc.Value.Type(), respT) {
				continue
			}
			switch cc.Method.Name() {
			case "Reply":
				out = append(out, replySitesOf(p, fn, c, cc.Args[0], 4)...)
			case "ReplyWithContext":
				out = append(out, replySitesOf(p, fn, c, cc.Args[1], 4)...)
			}
		}
	}
	return out
}

// statusConst returns the value of a root-package constant.
func (p *Program) rootConst(name string) (int64, bool) {
	c, ok := p.Root().Types.Scope().Lookup(name).(*types.Const)
	if !ok {
		return 0, false
	}
	return constantInt64(c)
}

func siteKey(rs ReplySite, ord map[*ssa.Function]int) string {
	ord[rs.Fn]++
	return fmt.Sprintf("%s:reply#%d", fnKey(rs.Fn), ord[rs.Fn])
}

func hasStatus(rs ReplySite, v int64) bool {
	for _, s := range rs.Status {
		if s == v {
			return true
		}
	}
	return false
}

// escapesBeyondFields: the local struct is used other than through its fields and whole-value loads/stores.
func escapesBeyondFields(a *ssa.Alloc) bool {
	for _, rf := range refsOf(a) {
		switch x := rf.(type) {
		case *ssa.FieldAddr, *ssa.DebugRef:
		case *ssa.UnOp:
			if x.Op != token.MUL {
				return true
			}
		case *ssa.Store:
			if x.Addr != ssa.Value(a) {
				return true
			}
		default:
			return true
		}
	}
	return false
}

// localFieldConsts: the constants field #idx of the local struct a can hold: joined over the stores into that field
// (zero when there is none) and over the same field of struct values stored whole.
func localFieldConsts(p *Program, a *ssa.Alloc, idx int, depth int, out map[int64]bool) bool {
	if depth <= 0 {
		return false
	}
	n := 0
	for _, rf := range refsOf(a) {
		switch x := rf.(type) {
		case *ssa.FieldAddr:
			if x.Field != idx {
				continue
			}
			for _, r2 := range refsOf(x) {
				if st, ok := r2.(*ssa.Store); ok && st.Addr == ssa.Value(x) {
					n++
					if !constSources(p, st.Val, depth-1, out) {
						return false
					}
				} else if u, ok := r2.(*ssa.UnOp); !ok || u.Op != token.MUL {
					if _, dbg := r2.(*ssa.DebugRef); !dbg {
						return false // the field's address goes somewhere
					}
				}
			}
		case *ssa.Store:
			if x.Addr == ssa.Value(a) {
				n++
				if !structFieldConsts(p, x.Val, idx, depth-1, out) {
					return false
				}
			}
		}
	}
	if n == 0 {
		out[0] = true // zero value
	}
	return true
}

// structFieldConsts: the constants field #idx of struct value s can hold.
func structFieldConsts(p *Program, s ssa.Value, idx int, depth int, out map[int64]bool) bool {
	if depth <= 0 {
		return false
	}
	switch x := s.(type) {
	case *ssa.Phi:
		for _, e := range x.Edges {
			if !structFieldConsts(p, e, idx, depth-1, out) {
				return false
			}
		}
		return true
	case *ssa.UnOp:
		if x.Op == token.MUL {
			if a, ok := x.X.(*ssa.Alloc); ok && !escapesBeyondFields(a) {
				return localFieldConsts(p, a, idx, depth-1, out)
			}
		}
	}
	return false
}

// originEdge: where a chosen alternative of a merged value comes from.
type originEdge struct {
	blk  *ssa.BasicBlock // the block the alternative comes from
	into *ssa.BasicBlock // for a merged alternative: the merge block (nil for the site's own block)
}

// constOrigins: the places from which value v can take one of the constants in want: the block `at` itself, or - when
// v is a merge of alternatives (directly, or as a field of merged struct values) - the predecessor blocks of the
// alternatives that may be one of those constants.
func constOrigins(p *Program, v ssa.Value, want map[int64]bool, at *ssa.BasicBlock) []originEdge {
	var out []originEdge
	seen := map[ssa.Value]bool{}
	may := func(cs map[int64]bool, resolved bool) bool {
		if !resolved {
			return true
		}
		for c := range cs {
			if want[c] {
				return true
			}
		}
		return false
	}
	var walk func(v ssa.Value, at originEdge)
	var walkStruct func(s ssa.Value, idx int, at originEdge)
	walk = func(v ssa.Value, at originEdge) {
		v = stripConv(v)
		if seen[v] {
			return
		}
		seen[v] = true
		switch x := v.(type) {
		case *ssa.Phi:
			for i, e := range x.Edges {
				cs := map[int64]bool{}
				if !may(cs, constSources(p, e, 6, cs)) {
					continue
				}
				walk(e, originEdge{blk: x.Block().Preds[i], into: x.Block()})
			}
			return
		case *ssa.Field:
			walkStruct(x.X, x.Field, at)
			return
		case *ssa.UnOp:
			// a field of a local copy of a struct value (a spilled value receiver): the value copied decides
			if fa, ok := x.X.(*ssa.FieldAddr); ok && x.Op == token.MUL {
				if a, ok := fa.X.(*ssa.Alloc); ok && !escapesBeyondFields(a) {
					var whole []*ssa.Store
					fieldStores := 0
					for _, rf := range refsOf(a) {
						switch y := rf.(type) {
						case *ssa.Store:
							if y.Addr == ssa.Value(a) {
								whole = append(whole, y)
							}
						case *ssa.FieldAddr:
							if y.Field == fa.Field {
								for _, r2 := range refsOf(y) {
									if _, isSt := r2.(*ssa.Store); isSt {
										fieldStores++
									}
								}
							}
						}
					}
					if len(whole) == 1 && fieldStores == 0 {
						walkStruct(whole[0].Val, fa.Field, at)
						return
					}
				}
			}
		}
		out = append(out, at)
	}
	walkStruct = func(s ssa.Value, idx int, at originEdge) {
		if phi, ok := s.(*ssa.Phi); ok && !seen[s] {
			seen[s] = true
			for i, e := range phi.Edges {
				cs := map[int64]bool{}
				if !may(cs, structFieldConsts(p, e, idx, 6, cs)) {
					continue
				}
				walkStruct(e, idx, originEdge{blk: phi.Block().Preds[i], into: phi.Block()})
			}
			return
		}
		out = append(out, at)
	}
	walk(v, originEdge{blk: at})
	return out
}

// underSuccessOf: the origin is reached only after call c succeeded (see guardedBySuccess).
func underSuccessOf(c *ssa.Call, o originEdge) (bool, string) {
	errB, okB := errEdges(c)
	if len(errB) == 0 {
		return false, "the error result of " + shortCall(c) + " is never tested"
	}
	dom := false
	for _, b := range okB {
		if b == o.blk || b.Dominates(o.blk) {
			dom = true
		}
	}
	if !dom {
		return false, "no success edge of the error test on " + shortCall(c) + " dominates the place the status is chosen"
	}
	for _, e := range errB {
		if blockReach(e, nil)[o.blk] {
			return false, fmt.Sprintf("the error edge (block %d) of the test on %s reaches the place the status is chosen", e.Index, shortCall(c))
		}
	}
	return true, ""
}
