package main

import (
	"fmt"
	"go/token"
	"go/types"
	"sort"
	"strings"

	"golang.org/x/tools/go/ssa"
)

// ReplySite is one place where a reply body is handed to the response (a "status slot" carrier).
type ReplySite struct {
	Fn      *ssa.Function
	Call    ssa.CallInstruction // invoke Response.Reply / ReplyWithContext
	Kind    string              // "Authen", "Author", "Acct" or "" when unresolved
	Ctor    *ssa.Call           // tacquito.New<Kind>Reply(...)
	Options map[string][]ssa.Value
	// Status holds the possible status constants; Resolved is false when some source is not a constant
	Status   []int64
	Resolved bool
	Why      string
}

var replyCtor = map[string]string{"NewAuthenReply": "Authen", "NewAuthorReply": "Author", "NewAcctReply": "Acct"}

// constSources resolves v to the set of integer constants it may hold, following phis,
// conversions, results of module functions (their returned values) and single-store locals.
func constSources(p *Program, v ssa.Value, depth int, out map[int64]bool) bool {
	if depth <= 0 {
		return false
	}
	switch x := v.(type) {
	case *ssa.Const:
		if c, ok := constInt(x); ok {
			out[c] = true
			return true
		}
		return false
	case *ssa.ChangeType:
		return constSources(p, x.X, depth, out)
	case *ssa.Convert:
		return constSources(p, x.X, depth, out)
	case *ssa.Phi:
		for _, e := range x.Edges {
			if !constSources(p, e, depth-1, out) {
				return false
			}
		}
		return true
	case *ssa.Extract:
		if call, ok := x.Tuple.(*ssa.Call); ok {
			return constResults(p, call, x.Index, depth-1, out)
		}
	case *ssa.Call:
		return constResults(p, x, 0, depth-1, out)
	case *ssa.UnOp:
		if x.Op == token.MUL {
			if a, ok := x.X.(*ssa.Alloc); ok {
				st := allocStores(a)
				if len(st) == 0 {
					return false
				}
				for _, s := range st {
					if !constSources(p, s.Val, depth-1, out) {
						return false
					}
				}
				return true
			}
			if g, ok := x.X.(*ssa.Global); ok {
				// package-level var initialised with a constant and never reassigned (config.PERMIT style)
				return globalConst(p, g, out)
			}
		}
	}
	return false
}

func constResults(p *Program, call *ssa.Call, idx int, depth int, out map[int64]bool) bool {
	f := call.Common().StaticCallee()
	if f == nil || f.Blocks == nil || f.Pkg == nil || !isModulePath(f.Pkg.Pkg.Path()) {
		return false
	}
	n := 0
	for _, b := range f.Blocks {
		if b == f.Recover {
			continue
		}
		ret, ok := b.Instrs[len(b.Instrs)-1].(*ssa.Return)
		if !ok || idx >= len(ret.Results) {
			continue
		}
		n++
		for _, rv := range returnedValues(f, ret, idx) {
			if !constSources(p, rv, depth, out) {
				return false
			}
		}
	}
	return n > 0
}

// globalConst: the only store to global g in the module is a constant in its package initialiser.
func globalConst(p *Program, g *ssa.Global, out map[int64]bool) bool {
	n := 0
	ok := true
	for _, fn := range p.Funcs {
		for _, b := range fn.Blocks {
			for _, in := range b.Instrs {
				if st, isSt := in.(*ssa.Store); isSt && st.Addr == ssa.Value(g) {
					n++
					if c, isC := constInt(st.Val); isC && fn.Name() == "init" {
						out[c] = true
					} else {
						ok = false
					}
				}
			}
		}
	}
	// package initialisers are synthetic and not in p.Funcs: look them up
	if g.Pkg != nil {
		if init := g.Pkg.Func("init"); init != nil {
			for _, b := range init.Blocks {
				for _, in := range b.Instrs {
					if st, isSt := in.(*ssa.Store); isSt && st.Addr == ssa.Value(g) {
						n++
						if c, isC := constInt(st.Val); isC {
							out[c] = true
						} else {
							ok = false
						}
					}
				}
			}
		}
	}
	return ok && n > 0
}

// optionCalls: values stored into the varargs array behind slice value v.
func varargElems(v ssa.Value) ([]ssa.Value, bool) {
	if c, ok := v.(*ssa.Const); ok && c.IsNil() {
		return nil, true
	}
	sl, ok := v.(*ssa.Slice)
	if !ok {
		return nil, false
	}
	a, ok := sl.X.(*ssa.Alloc)
	if !ok {
		return nil, false
	}
	var out []ssa.Value
	for _, rf := range refsOf(a) {
		ia, ok := rf.(*ssa.IndexAddr)
		if !ok {
			continue
		}
		for _, r2 := range refsOf(ia) {
			if st, ok := r2.(*ssa.Store); ok && st.Addr == ia {
				out = append(out, st.Val)
			}
		}
	}
	return out, true
}

// replySiteOf resolves the body argument of a reply invocation.
func replySiteOf(p *Program, fn *ssa.Function, c ssa.CallInstruction, bodyArg ssa.Value, depth int) ReplySite {
	rs := ReplySite{Fn: fn, Call: c, Options: map[string][]ssa.Value{}}
	v := stripConv(bodyArg)
	var ctors []*ssa.Call
	var find func(v ssa.Value, d int) bool
	find = func(v ssa.Value, d int) bool {
		if d <= 0 {
			return false
		}
		switch x := v.(type) {
		case *ssa.Call:
			f := x.Common().StaticCallee()
			if f == nil {
				return false
			}
			if _, ok := replyCtor[f.Name()]; ok && f.Pkg != nil && f.Pkg.Pkg.Path() == modPath {
				ctors = append(ctors, x)
				return true
			}
			// helper returning a reply: look at what it returns
			if f.Blocks != nil && isModulePath(f.Pkg.Pkg.Path()) {
				n := 0
				for _, b := range f.Blocks {
					ret, ok := b.Instrs[len(b.Instrs)-1].(*ssa.Return)
					if !ok || len(ret.Results) == 0 || b == f.Recover {
						continue
					}
					for _, rv := range returnedValues(f, ret, 0) {
						if isNilConst(rv) {
							continue
						}
						n++
						if !find(stripConv(rv), d-1) {
							return false
						}
					}
				}
				return n > 0
			}
		case *ssa.Phi:
			for _, e := range x.Edges {
				if isNilConst(e) {
					continue
				}
				if !find(stripConv(e), d-1) {
					return false
				}
			}
			return true
		case *ssa.Extract:
			if call, ok := x.Tuple.(*ssa.Call); ok {
				return find(call, d)
			}
		}
		return false
	}
	if !find(v, depth) || len(ctors) == 0 {
		rs.Why = "the reply body is not built by tacquito.New*Reply(options...) within reach"
		return rs
	}
	status := map[int64]bool{}
	rs.Resolved = true
	for _, ctor := range ctors {
		rs.Ctor = ctor
		kind := replyCtor[ctor.Common().StaticCallee().Name()]
		if rs.Kind != "" && rs.Kind != kind {
			rs.Resolved = false
			rs.Why = "mixed reply kinds"
		}
		rs.Kind = kind
		args := ctor.Common().Args
		if len(args) != 1 {
			rs.Resolved = false
			continue
		}
		opts, ok := varargElems(args[0])
		if !ok {
			rs.Resolved = false
			rs.Why = "the option list is not an inline argument list"
			continue
		}
		hasStatus := false
		for _, o := range opts {
			oc, ok := stripConv(o).(*ssa.Call)
			if !ok {
				rs.Resolved = false
				rs.Why = "an option is not a direct Set* call"
				continue
			}
			of := oc.Common().StaticCallee()
			if of == nil {
				rs.Resolved = false
				continue
			}
			name := of.Name()
			rs.Options[name] = append(rs.Options[name], oc.Common().Args...)
			if strings.HasSuffix(name, "ReplyStatus") {
				hasStatus = true
				if !constSources(p, oc.Common().Args[0], 6, status) {
					rs.Resolved = false
					rs.Why = "the status is not a finite set of constants"
				}
			}
		}
		if !hasStatus {
			status[0] = true // zero value
		}
	}
	for k := range status {
		rs.Status = append(rs.Status, k)
	}
	sort.Slice(rs.Status, func(i, j int) bool { return rs.Status[i] < rs.Status[j] })
	return rs
}

// allReplySites enumerates reply invocations on a Response in the universe.
func allReplySites(p *Program) []ReplySite {
	respT := p.lookupType("", "Response")
	var out []ReplySite
	for _, fn := range p.UUnits() {
		for _, c := range allCalls(fn) {
			cc := c.Common()
			if !cc.IsInvoke() || respT == nil || !types.Identical(cc.Value.Type(), respT) {
				continue
			}
			switch cc.Method.Name() {
			case "Reply":
				out = append(out, replySiteOf(p, fn, c, cc.Args[0], 4))
			case "ReplyWithContext":
				out = append(out, replySiteOf(p, fn, c, cc.Args[1], 4))
			}
		}
	}
	return out
}

// statusConst returns the value of a root-package constant.
func (p *Program) rootConst(name string) (int64, bool) {
	c, ok := p.Root().Types.Scope().Lookup(name).(*types.Const)
	if !ok {
		return 0, false
	}
	return constantInt64(c)
}

func siteKey(rs ReplySite, ord map[*ssa.Function]int) string {
	ord[rs.Fn]++
	return fmt.Sprintf("%s:reply#%d", fnKey(rs.Fn), ord[rs.Fn])
}

func hasStatus(rs ReplySite, v int64) bool {
	for _, s := range rs.Status {
		if s == v {
			return true
		}
	}
	return false
}
