package main

import (
	"bytes"
	"fmt"
	"go/token"
	"go/types"
	"sort"
	"strings"

	"golang.org/x/tools/go/ssa"
)

// SSA-level layout extraction for the two positional codecs (Header: a fixed 12-byte buffer written and read
// at constant offsets; Packet: header bytes followed by the body). It is the fallback of the AST extraction
// of rule_layout.go: at SSA level an array or a made slice, named offset constants, named sub-slices and
// tuple assignments all look the same (IndexAddr / Slice with constant bounds), so the verdict does not
// depend on which of those spellings the code uses.

type ssaConstSlice struct {
	base   ssa.Value
	lo, hi int64 // hi = -1: to the end
}

// constSliceOf resolves v to base[lo:hi] through nested reslicing with constant bounds.
func constSliceOf(v ssa.Value) (ssaConstSlice, bool) {
	out := ssaConstSlice{base: v, lo: 0, hi: -1}
	for i := 0; i < 6; i++ {
		switch x := out.base.(type) {
		case *ssa.Slice:
			var lo int64
			if x.Low != nil {
				c, ok := constInt(x.Low)
				if !ok {
					return out, false
				}
				lo = c
			}
			hi := int64(-1)
			if x.High != nil {
				c, ok := constInt(x.High)
				if !ok {
					return out, false
				}
				hi = c
			}
			// out = (x.X[lo:hi])[out.lo:out.hi]
			nlo := lo + out.lo
			nhi := out.hi
			if nhi >= 0 {
				nhi += lo
			} else {
				nhi = hi
			}
			out = ssaConstSlice{base: x.X, lo: nlo, hi: nhi}
		case *ssa.ChangeType:
			out.base = x.X
		default:
			return out, true
		}
	}
	return out, true
}

func isBE(f *ssa.Function, name string) bool {
	return f != nil && f.Name() == name && f.Pkg != nil && f.Pkg.Pkg.Path() == "encoding/binary" && strings.Contains(f.String(), "bigEndian")
}

// headerFieldValue: v is conv(h.<Field>) for the receiver h; returns the field name.
func headerFieldValue(v ssa.Value, recv ssa.Value) (string, bool) {
	v = stripAllConv(v)
	f, base, ok := loadedField(v)
	if !ok || base != recv {
		return "", false
	}
	return f.Name(), true
}

// headerFieldOctet: v is byte(f >> 8k) for a field f of the receiver; returns the field and k.
func headerFieldOctet(v ssa.Value, recv ssa.Value) (string, int64, bool) {
	cv, ok := v.(*ssa.Convert)
	if !ok {
		return "", 0, false
	}
	src, k, ok := octetOf(cv)
	if !ok {
		return "", 0, false
	}
	f, ok := headerFieldValue(src, recv)
	return f, k, ok
}

// extractHeaderEncoderSSA: the function returns a 12-byte buffer every octet of which is written exactly once
// at a constant offset, by single-octet stores or big-endian 32-bit puts, from fields of the receiver.
func extractHeaderEncoderSSA(p *Program, fn *ssa.Function, lc *layoutCtx) ([]string, []string) {
	if fn == nil || len(fn.Blocks) == 0 {
		return nil, []string{"no body"}
	}
	recv := fn.Params[0]
	// the buffer: an [12]byte array or make([]byte, 12)
	var buf ssa.Value
	for _, b := range fn.Blocks {
		for _, in := range b.Instrs {
			switch x := in.(type) {
			case *ssa.Alloc:
				if at, ok := x.Type().(*types.Pointer).Elem().Underlying().(*types.Array); ok && at.Len() == 12 && isByteElem(at.Elem()) {
					if buf != nil {
						return nil, []string{"two candidate buffers"}
					}
					buf = x
				}
			case *ssa.MakeSlice:
				if c, ok := constInt(x.Len); ok && c == 12 && isByteSlice(x.Type()) {
					if buf != nil {
						return nil, []string{"two candidate buffers"}
					}
					buf = x
				}
			}
		}
	}
	if buf == nil {
		return nil, []string{"no fixed 12-byte output buffer"}
	}
	written := map[int64]string{}
	var errs []string
	for _, blk := range fn.Blocks {
		for _, in := range blk.Instrs {
			x, ok := in.(*ssa.IndexAddr)
			if !ok {
				continue
			}
			cs, okc := constSliceOf(x.X)
			if !okc || cs.base != buf {
				continue
			}
			k, ok := constInt(x.Index)
			if !ok {
				errs = append(errs, "the buffer is indexed at a non-constant offset")
				continue
			}
			k += cs.lo
			for _, r2 := range refsOf(x) {
				st, ok := r2.(*ssa.Store)
				if !ok || st.Addr != ssa.Value(x) {
					continue
				}
				if _, dup := written[k]; dup {
					errs = append(errs, fmt.Sprintf("offset %d is written twice", k))
				}
				if f, sh, ok := headerFieldOctet(st.Val, recv); ok && sh > 0 {
					written[k] = fmt.Sprintf("octet:%s:%d", f, sh)
				} else if f, ok := headerFieldValue(st.Val, recv); ok {
					written[k] = "u8:" + f
				} else if isVersionOctet(st.Val, recv) {
					written[k] = lc.versionItem()
				} else {
					errs = append(errs, fmt.Sprintf("unrecognised value stored at offset %d", k))
				}
			}
		}
	}
	// 32-bit puts into constant sub-slices of the buffer
	for _, c := range allCalls(fn) {
		f := c.Common().StaticCallee()
		if !isBE(f, "PutUint32") {
			if isBE(f, "PutUint16") || isBE(f, "PutUint64") {
				errs = append(errs, "unexpected put width in the header encoder")
			}
			continue
		}
		args := c.Common().Args
		cs, ok := constSliceOf(args[len(args)-2])
		if !ok || cs.base != buf {
			errs = append(errs, "PutUint32 target is not a constant sub-slice of the buffer")
			continue
		}
		if cs.hi >= 0 && cs.hi-cs.lo < 4 {
			errs = append(errs, "PutUint32 target shorter than 4 octets")
			continue
		}
		fld, ok := headerFieldValue(args[len(args)-1], recv)
		if !ok {
			errs = append(errs, fmt.Sprintf("PutUint32 at offset %d does not write a field of the receiver", cs.lo))
			continue
		}
		for k := cs.lo; k < cs.lo+4; k++ {
			if _, dup := written[k]; dup {
				errs = append(errs, fmt.Sprintf("offset %d is written twice", k))
			}
		}
		written[cs.lo] = "be32:" + fld
		for k := cs.lo + 1; k < cs.lo+4; k++ {
			written[k] = "-"
		}
	}
	// what is returned is the whole buffer
	for _, b := range fn.Blocks {
		ret, ok := b.Instrs[len(b.Instrs)-1].(*ssa.Return)
		if !ok || b == fn.Recover {
			continue
		}
		for _, rv := range returnedValues(fn, ret, 0) {
			if isNilConst(rv) {
				continue
			}
			cs, ok := constSliceOf(rv)
			if !ok || cs.base != buf || cs.lo != 0 || (cs.hi >= 0 && cs.hi != 12) {
				errs = append(errs, "the value returned is not the whole 12-byte buffer")
			}
		}
	}
	// a field written octet by octet, most significant first: byte(f>>24), byte(f>>16), byte(f>>8), byte(f)
	for k := int64(0); k+3 < 12; k++ {
		var f string
		var sh int64
		if n, _ := fmt.Sscanf(strings.ReplaceAll(written[k], ":", " "), "octet %s %d", &f, &sh); n != 2 || sh != 3 {
			continue
		}
		if written[k+1] == fmt.Sprintf("octet:%s:2", f) && written[k+2] == fmt.Sprintf("octet:%s:1", f) && written[k+3] == "u8:"+f {
			written[k] = "be32:" + f
			written[k+1], written[k+2], written[k+3] = "-", "-", "-"
		}
	}
	for k, it := range written {
		if strings.HasPrefix(it, "octet:") {
			errs = append(errs, fmt.Sprintf("offset %d holds one octet of a field that is not written out whole, most significant octet first", k))
		}
	}
	var out []string
	for k := int64(0); k < 12; k++ {
		it, ok := written[k]
		if !ok {
			errs = append(errs, fmt.Sprintf("no value is written at offset %d of the 12-byte header", k))
			break
		}
		if it != "-" {
			out = append(out, it)
		}
	}
	for k := range written {
		if k >= 12 || k < 0 {
			errs = append(errs, fmt.Sprintf("write at offset %d outside the 12-byte buffer", k))
		}
	}
	sort.Strings(errs)
	return out, errs
}

func isByteElem(t types.Type) bool {
	b, ok := t.Underlying().(*types.Basic)
	return ok && b.Kind() == types.Uint8
}

// isVersionOctet: v is result[0] of h.Version.MarshalBinary().
func isVersionOctet(v ssa.Value, recv ssa.Value) bool {
	u, ok := v.(*ssa.UnOp)
	if !ok || u.Op != token.MUL {
		return false
	}
	ia, ok := u.X.(*ssa.IndexAddr)
	if !ok {
		return false
	}
	if c, ok := constInt(ia.Index); !ok || c != 0 {
		return false
	}
	call, idx, ok := extractOf(ia.X)
	if !ok || idx != 0 {
		return false
	}
	f := call.Common().StaticCallee()
	if f == nil || f.Name() != "MarshalBinary" || len(call.Common().Args) != 1 {
		return false
	}
	fld, base, ok := fieldAddrOf(call.Common().Args[0])
	return ok && fld.Name() == "Version" && base == recv
}

// versionItem: the item the Version sub-encoder contributes (checked on its own declaration).
func (lc *layoutCtx) versionItem() string {
	s := lc.subEncoder("Version", "Version")
	return strings.TrimPrefix(s, "sublayout:")
}

// extractHeaderDecoderSSA: every field of the receiver is assigned, unconditionally, from the input octets at
// constant offsets (single octets, big-endian 32-bit reads, the version sub-decoder on the input); the only
// other write is the documented `Flags |= SingleConnect` under `SeqNo == 2`.
func extractHeaderDecoderSSA(p *Program, fn *ssa.Function, lc *layoutCtx) ([]string, []string) {
	if fn == nil || len(fn.Blocks) == 0 || len(fn.Params) != 2 {
		return nil, []string{"no body"}
	}
	recv, data := fn.Params[0], fn.Params[1]
	at := map[int64]string{}
	var errs []string
	single, _ := p.rootConst("SingleConnect")
	var localVersion, versionFrom *ssa.Alloc
	// the fields may be collected in a local Header value that is stored into the receiver as a whole
	var staged ssa.Value
	for _, b := range fn.Blocks {
		for _, in := range b.Instrs {
			if st, ok := in.(*ssa.Store); ok && st.Addr == ssa.Value(recv) {
				if u, ok := st.Val.(*ssa.UnOp); ok && u.Op == token.MUL {
					if al, ok := u.X.(*ssa.Alloc); ok && typeIs(al.Type().(*types.Pointer).Elem(), modPath, "Header") {
						if staged != nil && staged != ssa.Value(al) {
							errs = append(errs, "the receiver is assigned from two different local headers")
						}
						staged = al
						if !unconditionalBlock(b, fn) {
							errs = append(errs, "the receiver is assigned conditionally")
						}
					}
				}
			}
		}
	}
	isTarget := func(base ssa.Value) bool { return base == ssa.Value(recv) || (staged != nil && base == staged) }
	readOf := func(v ssa.Value) (string, int64, bool) { // kind, offset
		v = stripAllConv(v)
		if u, ok := v.(*ssa.UnOp); ok && u.Op == token.MUL {
			if ia, ok := u.X.(*ssa.IndexAddr); ok && ia.X == ssa.Value(data) {
				if k, ok := constInt(ia.Index); ok {
					return "u8", k, true
				}
			}
		}
		if call, ok := v.(*ssa.Call); ok && isBE(call.Common().StaticCallee(), "Uint32") {
			args := call.Common().Args
			cs, ok := constSliceOf(args[len(args)-1])
			if ok && cs.base == ssa.Value(data) && (cs.hi < 0 || cs.hi-cs.lo >= 4) {
				return "be32", cs.lo, true
			}
		}
		return "", 0, false
	}
	for _, b := range fn.Blocks {
		for _, in := range b.Instrs {
			switch x := in.(type) {
			case *ssa.Store:
				f, base, ok := fieldAddrOf(x.Addr)
				if !ok || !isTarget(base) {
					continue
				}
				if u, isLoad := x.Val.(*ssa.UnOp); isLoad && u.Op == token.MUL && f.Name() == "Version" {
					if al, isAlloc := u.X.(*ssa.Alloc); isAlloc {
						// a Version value built here from the first octet (a folded versionFromOctet(data[0]))
						if it, ok := versionLiteralFromOctet(al, data); ok {
							at[0] = it
							continue
						}
						versionFrom = al
						continue
					}
				}
				if kind, k, ok := readOf(x.Val); ok {
					if !unconditionalBlock(b, fn) {
						errs = append(errs, fmt.Sprintf("field %s is assigned conditionally", f.Name()))
					}
					if _, dup := at[k]; dup {
						errs = append(errs, fmt.Sprintf("offset %d is read into two fields", k))
					}
					at[k] = kind + ":" + f.Name()
					continue
				}
				// the value was read into a local first (and, for the flags, adjusted there)
				if u, isLoad := x.Val.(*ssa.UnOp); isLoad && u.Op == token.MUL {
					if al, isAlloc := u.X.(*ssa.Alloc); isAlloc {
						good, found := true, false
						for _, ref := range *al.Referrers() {
							switch y := ref.(type) {
							case *ssa.Store:
								if y.Addr != ssa.Value(al) {
									good = false
									continue
								}
								if kind, k, ok := readOf(y.Val); ok && !found && unconditionalBlock(y.Block(), fn) {
									if _, dup := at[k]; dup {
										good = false
									}
									at[k] = kind + ":" + f.Name()
									found = true
									continue
								}
								if bo, ok := stripAllConv(y.Val).(*ssa.BinOp); ok && bo.Op == token.OR && f.Name() == "Flags" {
									if c, okc := constInt(bo.Y); okc && c == single {
										if l2, ok := bo.X.(*ssa.UnOp); ok && l2.Op == token.MUL && l2.X == ssa.Value(al) {
											continue
										}
									}
								}
								good = false
							case *ssa.UnOp, *ssa.DebugRef:
							case *ssa.Call:
								// flags.Set(SingleConnect), the setter of the flag type
								cf := y.Common().StaticCallee()
								if cf != nil && cf.Name() == "Set" && typeIsRecv(cf, modPath, "HeaderFlag") && len(y.Common().Args) == 2 && f.Name() == "Flags" {
									if c, okc := constInt(y.Common().Args[1]); okc && c == single {
										continue
									}
								}
								good = false
							default:
								good = false
							}
						}
						if good && found {
							continue
						}
					}
				}
				// the documented quirk: Flags |= SingleConnect
				if bo, ok := stripAllConv(x.Val).(*ssa.BinOp); ok && bo.Op == token.OR && f.Name() == "Flags" {
					if c, okc := constInt(bo.Y); okc && c == single {
						if lf, lb, ok := loadedField(bo.X); ok && lf == f && isTarget(lb) {
							continue
						}
					}
				}
				errs = append(errs, fmt.Sprintf("VALUE: field %s is assigned from something that is not a read of the input", f.Name()))
			case *ssa.Call:
				// h.Version.UnmarshalBinary(data), or a local Version decoded from data and then assigned
				cf := x.Common().StaticCallee()
				if cf != nil && cf.Name() == "UnmarshalBinary" && len(x.Common().Args) == 2 {
					if al, isAlloc := x.Common().Args[0].(*ssa.Alloc); isAlloc && typeIs(al.Type().(*types.Pointer).Elem(), modPath, "Version") {
						cs, ok := constSliceOf(x.Common().Args[1])
						if ok && cs.base == ssa.Value(data) && cs.lo == 0 {
							localVersion = al
						} else {
							errs = append(errs, "the version is not decoded from the start of the input")
						}
						continue
					}
					if fld, base, ok := fieldAddrOf(x.Common().Args[0]); ok && fld.Name() == "Version" && isTarget(base) {
						cs, ok := constSliceOf(x.Common().Args[1])
						if ok && cs.base == ssa.Value(data) && cs.lo == 0 {
							at[0] = versionDecoderItem(lc)
						} else {
							errs = append(errs, "the version is not decoded from the start of the input")
						}
					}
				}
			}
		}
	}
	if versionFrom != nil {
		if versionFrom == localVersion {
			at[0] = versionDecoderItem(lc)
		} else {
			errs = append(errs, "the version assigned is not the one decoded from the input")
		}
	}
	var out []string
	off := int64(0)
	for off < 12 {
		it, ok := at[off]
		if !ok {
			errs = append(errs, fmt.Sprintf("no field is read from offset %d", off))
			break
		}
		out = append(out, it)
		off += itemWidth(it)
	}
	for k := range at {
		if k >= 12 {
			errs = append(errs, fmt.Sprintf("read at offset %d beyond the header", k))
		}
	}
	sort.Strings(errs)
	return out, errs
}

// unconditional (for this file): b is on every path from entry to every normal exit.
func unconditionalBlock(b *ssa.BasicBlock, fn *ssa.Function) bool {
	blocked := map[*ssa.BasicBlock]bool{b: true}
	reach := blockReach(fn.Blocks[0], blocked)
	for _, ex := range exitBlocks(fn) {
		if reach[ex] {
			// an exit reachable without passing b: fine only if that exit returns an error
			ret := ex.Instrs[len(ex.Instrs)-1].(*ssa.Return)
			if len(ret.Results) > 0 && isNilConst(ret.Results[len(ret.Results)-1]) {
				return false
			}
		}
	}
	return true
}

// extractPacketEncoderSSA: the bytes returned are Header.MarshalBinary() followed by Body: either
// append(append(make(0, n), head...), body...) or make(len(head)+len(body)) filled by two copies.
func extractPacketEncoderSSA(p *Program, fn *ssa.Function) ([]string, []string) {
	if fn == nil || len(fn.Blocks) == 0 {
		return nil, []string{"no body"}
	}
	recv := fn.Params[0]
	isHead := func(v ssa.Value) bool {
		call, idx, ok := extractOf(v)
		if !ok || idx != 0 {
			return false
		}
		f := call.Common().StaticCallee()
		if f == nil || f.Name() != "MarshalBinary" || len(call.Common().Args) != 1 {
			return false
		}
		fld, base, ok := loadedField(call.Common().Args[0])
		return ok && fld.Name() == "Header" && base == ssa.Value(recv)
	}
	isBody := func(v ssa.Value) bool {
		fld, base, ok := loadedField(stripAllConv(v))
		return ok && fld.Name() == "Body" && base == ssa.Value(recv)
	}
	isLenOf := func(v ssa.Value, pred func(ssa.Value) bool) bool {
		c, ok := v.(*ssa.Call)
		if !ok {
			return false
		}
		bi, ok := c.Common().Value.(*ssa.Builtin)
		return ok && bi.Name() == "len" && pred(c.Common().Args[0])
	}
	var errs []string
	okRet := 0
	for _, b := range fn.Blocks {
		ret, ok := b.Instrs[len(b.Instrs)-1].(*ssa.Return)
		if !ok || b == fn.Recover || len(ret.Results) != 2 {
			continue
		}
		for _, rv := range returnedValues(fn, ret, 0) {
			if isNilConst(rv) {
				continue
			}
			ms, ok := rv.(*ssa.MakeSlice)
			if !ok {
				errs = append(errs, "the value returned is not a buffer made for the purpose")
				continue
			}
			sum, ok := ms.Len.(*ssa.BinOp)
			if !ok || sum.Op != token.ADD || !((isLenOf(sum.X, isHead) && isLenOf(sum.Y, isBody)) || (isLenOf(sum.Y, isHead) && isLenOf(sum.X, isBody))) {
				errs = append(errs, "the buffer is not len(header bytes)+len(Body) long")
				continue
			}
			// two copies: copy(buf, head) and copy(buf[n:], body) with n = len(head) or the first copy's result
			var c1, c2 *ssa.Call
			for _, c := range allCalls(fn) {
				call, ok := c.(*ssa.Call)
				if !ok {
					continue
				}
				bi, ok := call.Common().Value.(*ssa.Builtin)
				if !ok || bi.Name() != "copy" {
					continue
				}
				dst, src := call.Common().Args[0], call.Common().Args[1]
				if isHead(src) {
					cs, ok := constSliceOf(dst)
					if ok && cs.base == ssa.Value(ms) && cs.lo == 0 {
						c1 = call
					}
				} else if isBody(src) {
					if sl, ok := dst.(*ssa.Slice); ok && sl.X == ssa.Value(ms) && sl.High == nil && sl.Low != nil {
						if isLenOf(sl.Low, isHead) || (c1 != nil && sl.Low == ssa.Value(c1)) {
							c2 = call
						}
					}
				} else {
					errs = append(errs, "a copy into the buffer from something else")
				}
			}
			if c1 != nil && c2 == nil {
				// the second copy may have been met before the first in instruction order
				for _, c := range allCalls(fn) {
					call, ok := c.(*ssa.Call)
					if !ok {
						continue
					}
					if bi, ok := call.Common().Value.(*ssa.Builtin); ok && bi.Name() == "copy" && isBody(call.Common().Args[1]) {
						if sl, ok := call.Common().Args[0].(*ssa.Slice); ok && sl.X == ssa.Value(ms) && sl.High == nil && sl.Low == ssa.Value(c1) {
							c2 = call
						}
					}
				}
			}
			if c1 == nil || c2 == nil || !domInstr(c1, ret) || !domInstr(c2, ret) {
				errs = append(errs, "the buffer is not filled by copy(buf, header bytes) and copy(buf[len(header bytes):], Body) before it is returned")
				continue
			}
			// nothing else writes the buffer
			for _, rf := range refsOf(ms) {
				switch x := rf.(type) {
				case *ssa.IndexAddr:
					errs = append(errs, "the buffer is also written octet by octet")
					_ = x
				}
			}
			okRet++
		}
	}
	if okRet == 0 && len(errs) == 0 {
		errs = append(errs, "no buffer is returned")
	}
	if len(errs) > 0 {
		return nil, errs
	}
	return []string{"sub:Header", "bytes:Body"}, nil
}

// extractPacketDecoderSSA: the header is decoded from v[:12] and Body is v[12 : 12+int(Header.Length)], in
// any spelling (named sub-slices, a named end offset).
func extractPacketDecoderSSA(p *Program, fn *ssa.Function) ([]string, []string) {
	if fn == nil || len(fn.Blocks) == 0 || len(fn.Params) != 2 {
		return nil, []string{"no body"}
	}
	recv, data := fn.Params[0], fn.Params[1]
	var errs []string
	hdr, body := false, false
	var hdrAlloc ssa.Value
	for _, c := range allCalls(fn) {
		call, ok := c.(*ssa.Call)
		if !ok {
			continue
		}
		f := call.Common().StaticCallee()
		if f == nil {
			continue
		}
		var src, dst ssa.Value
		switch {
		case f.Name() == "Unmarshal" && f.Signature.Recv() == nil && len(call.Common().Args) == 2:
			src, dst = call.Common().Args[0], stripConv(call.Common().Args[1])
		case f.Name() == "UnmarshalBinary" && len(call.Common().Args) == 2:
			dst, src = call.Common().Args[0], call.Common().Args[1]
		default:
			continue
		}
		pt, ok := dst.Type().(*types.Pointer)
		if !ok || !typeIs(pt.Elem(), modPath, "Header") {
			continue
		}
		cs, ok := constSliceOf(src)
		if ok && cs.base == ssa.Value(data) && cs.lo == 0 && cs.hi == 12 {
			hdr = true
			hdrAlloc = dst
		} else {
			errs = append(errs, "the header is not decoded from v[:MaxHeaderLength]")
		}
	}
	isHdrLength := func(v ssa.Value) bool {
		v = stripAllConv(v)
		f, base, ok := loadedField(v)
		if !ok || f.Name() != "Length" {
			return false
		}
		if base == hdrAlloc {
			return true
		}
		// p.Header.Length after p.Header = &h
		if hf, hb, ok := loadedField(base); ok && hf.Name() == "Header" && hb == ssa.Value(recv) {
			return true
		}
		return false
	}
	for _, b := range fn.Blocks {
		for _, in := range b.Instrs {
			st, ok := in.(*ssa.Store)
			if !ok {
				continue
			}
			f, base, ok := fieldAddrOf(st.Addr)
			if !ok || base != ssa.Value(recv) || f.Name() != "Body" {
				continue
			}
			sl, ok := st.Val.(*ssa.Slice)
			if !ok {
				errs = append(errs, "Body is not a sub-slice of the input")
				continue
			}
			// v[12:12+L]  or  (v[12:])[:L]
			good := false
			if sl.X == ssa.Value(data) {
				if lo, ok := constInt(sl.Low); ok && lo == 12 && sl.High != nil {
					if bo, ok := sl.High.(*ssa.BinOp); ok && bo.Op == token.ADD {
						c, okc := constInt(bo.X)
						if okc && c == 12 && isHdrLength(bo.Y) {
							good = true
						}
						c, okc = constInt(bo.Y)
						if okc && c == 12 && isHdrLength(bo.X) {
							good = true
						}
					}
				}
			} else if inner, ok := sl.X.(*ssa.Slice); ok && inner.X == ssa.Value(data) && inner.High == nil {
				if lo, ok := constInt(inner.Low); ok && lo == 12 && (sl.Low == nil || isZero(sl.Low)) && sl.High != nil && isHdrLength(sl.High) {
					good = true
				}
			}
			if good {
				body = true
			} else {
				errs = append(errs, "Body is not v[MaxHeaderLength : MaxHeaderLength+Header.Length]")
			}
		}
	}
	var out []string
	if hdr {
		out = append(out, "sub:Header")
	} else if len(errs) == 0 {
		errs = append(errs, "the header is not decoded from v[:MaxHeaderLength]")
	}
	if body {
		out = append(out, "bytes:Body")
	} else if len(errs) == 0 {
		errs = append(errs, "Body is not assigned from the input")
	}
	return out, errs
}

// localInlined: a clone of fn with its small helpers folded in, for the sub-codec matchers (independent of
// whether the property is being evaluated on views).
func (p *Program) localInlined(fn *ssa.Function) *ssa.Function {
	if fn == nil {
		return nil
	}
	if p.useViews {
		return p.view(fn)
	}
	nf, _ := ssa.CloneWithInlining(fn, func(caller, callee *ssa.Function) bool { return p.isHelper(fn, callee) }, 4)
	if nf == nil {
		return fn
	}
	var buf bytes.Buffer
	if !ssa.SanityCheckView(nf, &buf) && realSanityProblem(buf.String()) {
		return fn
	}
	return nf
}

// versionEncoderSSA: Version.MarshalBinary returns one octet, (field<<4) | field of the receiver.
// Returns "nib:Hi/Lo".
func versionEncoderSSA(p *Program) (string, bool) {
	fn := p.localInlined(p.LookupFunc("", "Version.MarshalBinary"))
	if fn == nil || len(fn.Blocks) == 0 {
		return "", false
	}
	item := ""
	for _, ex := range exitBlocks(fn) {
		ret := ex.Instrs[len(ex.Instrs)-1].(*ssa.Return)
		if len(ret.Results) != 2 || !isNilConst(ret.Results[1]) {
			continue
		}
		sl, ok := ret.Results[0].(*ssa.Slice)
		if !ok {
			return "", false
		}
		al, ok := sl.X.(*ssa.Alloc)
		if !ok {
			return "", false
		}
		arr, ok := al.Type().(*types.Pointer).Elem().Underlying().(*types.Array)
		if !ok || arr.Len() != 1 {
			return "", false
		}
		var stored ssa.Value
		for _, ref := range *al.Referrers() {
			ia, ok := ref.(*ssa.IndexAddr)
			if !ok {
				continue
			}
			for _, r2 := range *ia.Referrers() {
				if st, ok := r2.(*ssa.Store); ok && st.Addr == ssa.Value(ia) {
					if stored != nil {
						return "", false
					}
					stored = st.Val
				}
			}
		}
		if stored == nil {
			return "", false
		}
		or, ok := stripAllConv(stored).(*ssa.BinOp)
		if !ok || (or.Op != token.OR && or.Op != token.ADD && or.Op != token.XOR) {
			return "", false
		}
		hiV, loV := stripAllConv(or.X), stripAllConv(or.Y)
		if _, isShift := hiV.(*ssa.BinOp); !isShift {
			hiV, loV = loV, hiV
		}
		sh, ok := hiV.(*ssa.BinOp)
		if !ok || sh.Op != token.SHL {
			return "", false
		}
		if c, okc := constInt(sh.Y); !okc || c != 4 {
			return "", false
		}
		hf, _, ok1 := loadedField(stripAllConv(sh.X))
		lf, _, ok2 := loadedField(loV)
		if !ok1 || !ok2 {
			return "", false
		}
		it := "nib:" + hf.Name() + "/" + lf.Name()
		if item != "" && item != it {
			return "", false
		}
		item = it
	}
	return item, item != ""
}

// versionDecoderSSA: Version.UnmarshalBinary sets one field to data[0]>>4 and one to data[0]&0xf, directly or
// through a local Version stored into the receiver as a whole.
func versionDecoderSSA(p *Program) (string, bool) {
	fn := p.localInlined(p.LookupFunc("", "Version.UnmarshalBinary"))
	if fn == nil || len(fn.Blocks) == 0 || len(fn.Params) != 2 {
		return "", false
	}
	recv, data := fn.Params[0], fn.Params[1]
	var staged ssa.Value
	for _, b := range fn.Blocks {
		for _, in := range b.Instrs {
			if st, ok := in.(*ssa.Store); ok && st.Addr == ssa.Value(recv) {
				if u, ok := st.Val.(*ssa.UnOp); ok && u.Op == token.MUL {
					if al, ok := u.X.(*ssa.Alloc); ok {
						staged = al
					}
				}
			}
		}
	}
	firstOctet := func(v ssa.Value) bool {
		u, ok := stripAllConv(v).(*ssa.UnOp)
		if !ok || u.Op != token.MUL {
			return false
		}
		ia, ok := u.X.(*ssa.IndexAddr)
		if !ok || ia.X != ssa.Value(data) {
			return false
		}
		c, okc := constInt(ia.Index)
		return okc && c == 0
	}
	hi, lo := "", ""
	for _, b := range fn.Blocks {
		for _, in := range b.Instrs {
			st, ok := in.(*ssa.Store)
			if !ok {
				continue
			}
			f, base, ok := fieldAddrOf(st.Addr)
			if !ok || !(base == ssa.Value(recv) || (staged != nil && base == staged)) {
				continue
			}
			bo, ok := stripAllConv(st.Val).(*ssa.BinOp)
			if !ok || !firstOctet(bo.X) {
				return "", false
			}
			c, okc := constInt(bo.Y)
			switch {
			case okc && bo.Op == token.SHR && c == 4 && hi == "":
				hi = f.Name()
			case okc && bo.Op == token.AND && c == 15 && lo == "":
				lo = f.Name()
			default:
				return "", false
			}
		}
	}
	if hi == "" || lo == "" {
		return "", false
	}
	return "nib:" + hi + "/" + lo, true
}

// versionLiteralFromOctet: al is a local Version whose two fields are stored once each from data[0]>>4 and
// data[0]&0xf. Returns "nib:Hi/Lo".
func versionLiteralFromOctet(al *ssa.Alloc, data ssa.Value) (string, bool) {
	if !typeIs(al.Type().(*types.Pointer).Elem(), modPath, "Version") {
		return "", false
	}
	firstOctet := func(v ssa.Value) bool {
		u, ok := stripAllConv(v).(*ssa.UnOp)
		if !ok || u.Op != token.MUL {
			return false
		}
		ia, ok := u.X.(*ssa.IndexAddr)
		if !ok || ia.X != data {
			return false
		}
		c, okc := constInt(ia.Index)
		return okc && c == 0
	}
	hi, lo := "", ""
	for _, rf := range refsOf(al) {
		fa, ok := rf.(*ssa.FieldAddr)
		if !ok {
			continue
		}
		for _, r2 := range refsOf(fa) {
			st, ok := r2.(*ssa.Store)
			if !ok || st.Addr != ssa.Value(fa) {
				continue
			}
			bo, ok := stripAllConv(st.Val).(*ssa.BinOp)
			if !ok || !firstOctet(bo.X) {
				return "", false
			}
			c, okc := constInt(bo.Y)
			switch {
			case okc && bo.Op == token.SHR && c == 4 && hi == "":
				hi = fieldName(fa)
			case okc && bo.Op == token.AND && c == 15 && lo == "":
				lo = fieldName(fa)
			default:
				return "", false
			}
		}
	}
	if hi == "" || lo == "" {
		return "", false
	}
	return "nib:" + hi + "/" + lo, true
}
