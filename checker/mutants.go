package main

// Self-test mutants (DESIGN §6): realistic breakages that compile and pass the pinned
// tests, applied in memory through packages.Config.Overlay. Each names the rule expected
// to report it. A mutant whose target text is absent on an edited tree is skipped.

func init() {
	// ---- C07 ------------------------------------------------------------------------------
	addMutant(Mutant{Name: "c07-pap-missing-password-no-return", Props: []string{"C07"}, Rule: "R-REPLYCOUNT", KeySub: "AuthenticatePAP",
		Why: "PAP missing-password path replies FAIL and then falls through to the authenticator (second reply)",
		Edits: []Edit{{File: "cmds/server/handlers/authen_pap.go", Old: `				tq.SetAuthenReplyServerMsg("missing password"),
			),
			a.recorderWriter,
		)
		return
`, New: `				tq.SetAuthenReplyServerMsg("missing password"),
			),
			a.recorderWriter,
		)
`}}})
	addMutant(Mutant{Name: "c07-router-fallthrough", Props: []string{"C07"}, Rule: "R-REPLYCOUNT", KeySub: "AuthenticateStart",
		Why: "after delegating to the routed handler the START handler also sends the 'unknown packet' error",
		Edits: []Edit{{File: "cmds/server/handlers/authen.go", Old: `		h.Handle(response, request)
		return
`, New: `		h.Handle(response, request)
`}}})
	addMutant(Mutant{Name: "c07-stringy-revert-fix", Props: []string{"C07"}, Rule: "R-REPLYCOUNT", KeySub: "stringy.Authorizer",
		Why: "the repaired missing return after the user-mismatch reply comes back",
		Edits: []Edit{{File: "cmds/server/config/authorizers/stringy/stringy.go", Old: `				tq.SetAuthorReplyServerMsg("not authorized"),
			),
		)
		return
	}

	if authorizer := NewCommandBasedAuthorizer(`, New: `				tq.SetAuthorReplyServerMsg("not authorized"),
			),
		)
	}

	if authorizer := NewCommandBasedAuthorizer(`}}})
	addMutant(Mutant{Name: "c07-ascii-abort-no-reply", Props: []string{"C07"}, Rule: "R-REPLYCOUNT", KeySub: "getPassword",
		Why: "abort in the password state returns without any reply: the client waits until the deadline",
		Edits: []Edit{{File: "cmds/server/handlers/authen_ascii.go", Old: `	// user-msg will contain a password here, obscure it if logging
	if reply := a.authenticateContinueStop(request); reply != nil {
		response.ReplyWithContext(request.Context, reply, a.recorderWriter)
		return
	}`, New: `	// user-msg will contain a password here, obscure it if logging
	if reply := a.authenticateContinueStop(request); reply != nil {
		return
	}`}}})
	addMutant(Mutant{Name: "c07-loop-continue-on-session-error", Props: []string{"C07", "C08"}, Rule: "R-LOOP", KeySub: ":c:",
		Why: "a sequence violation no longer closes the connection: the loop goes on reading",
		Edits: []Edit{{File: "server.go", Old: `				s.Errorf(ctx, "unable to obtain a session; connection will close; %v", err)
				return`, New: `				s.Errorf(ctx, "unable to obtain a session; connection will close; %v", err)
				continue`}}})
	addMutant(Mutant{Name: "c07-loop-handler-despite-session-error", Props: []string{"C07", "C08"}, Rule: "R-LOOP", KeySub: ":b:",
		Why: "the session error is logged but the initial handler still runs for the rejected packet",
		Edits: []Edit{{File: "server.go", Old: `				s.Errorf(ctx, "unable to obtain a session; connection will close; %v", err)
				return
			}`, New: `				s.Errorf(ctx, "unable to obtain a session; connection will close; %v", err)
			}`}}})
	addMutant(Mutant{Name: "c07-loop-no-deferred-close", Props: []string{"C07", "C17"}, Rule: "R-LOOP", KeySub: ":a:",
		Why: "the deferred Close is dropped: rejected requests leave the connection open",
		Edits: []Edit{{File: "server.go", Old: `	defer c.Close()
`, New: ``}}})

	// ---- C08 ------------------------------------------------------------------------------
	addMutant(Mutant{Name: "c08-drop-parity", Props: []string{"C08"}, Rule: "R-SEQ", KeySub: "parity",
		Why: "the parity check is dropped from the session lookup; the suite only sends 1,3,5",
		Edits: []Edit{{File: "sessions.go", Old: `	if err := ClientSequenceNumber(h.SeqNo).Validate(nil); err != nil {
		s.delete(h.SessionID)
		return nil, fmt.Errorf("sessionID [%v] sequence number is corrupted; %v", h.SessionID, err)
	}
`, New: ``}}})
	addMutant(Mutant{Name: "c08-geq-to-gtr", Props: []string{"C08"}, Rule: "R-SEQ", KeySub: "progression-predicate",
		Why: "last >= current becomes last > current: a replayed number is accepted",
		Edits: []Edit{{File: "header_fields.go", Old: `	if last >= current {`, New: `	if last > current {`}}})
	addMutant(Mutant{Name: "c08-compare-with-request", Props: []string{"C08"}, Rule: "R-SEQ", KeySub: "progression",
		Why: "the progression check compares the request's number with itself instead of the stored one",
		Edits: []Edit{{File: "sessions.go", Old: `LastSequence(sc.header.SeqNo).Validate(h.SeqNo)`, New: `LastSequence(h.SeqNo - 1).Validate(h.SeqNo)`}}})
	addMutant(Mutant{Name: "c08-no-delete-when-finished", Props: []string{"C08"}, Rule: "R-LOOP", KeySub: "delete-when-no-continuation",
		Why: "finished sessions keep their entry: a later packet with that id is checked against a stale number and handler nil",
		Edits: []Edit{{File: "server.go", Old: `				sessionProvider.delete(req.Header.SessionID)
				continue`, New: `				continue`}}})
	addMutant(Mutant{Name: "c08-revert-lastsequence-width", Props: []string{"C08"}, Rule: "R-NARROW", KeySub: "progression-width",
		Why: "the repaired 8-bit comparison comes back: 256 compares as 0",
		Edits: []Edit{{File: "header_fields.go", Old: `type LastSequence uint16`, New: `type LastSequence uint8`},
			{File: "header_fields.go", Old: `	last := uint16(t)
	var current uint16`, New: `	last := uint8(t)
	var current uint8`},
			{File: "header_fields.go", Old: `		current = uint16(v)`, New: `		current = uint8(v)`}}})
	addMutant(Mutant{Name: "c08-update-with-request-header", Props: []string{"C08"}, Rule: "R-LOOP", KeySub: "update-args",
		Why: "the entry is updated with the request header: the reply's number is not recorded as 'sent'",
		Edits: []Edit{{File: "server.go", Old: `sessionProvider.update(resp.header, resp.next)`, New: `sessionProvider.update(req.Header, resp.next)`}}})
	addMutant(Mutant{Name: "c08-lookup-other-key", Props: []string{"C08"}, Rule: "R-SEQ", KeySub: "",
		Why: "the handler returned on a hit ignores the validators' outcome (returned before validation)",
		Edits: []Edit{{File: "sessions.go", Old: `	if err := LastSequence(sc.header.SeqNo).Validate(h.SeqNo); err != nil {
		return nil, fmt.Errorf(`, New: `	if err := LastSequence(sc.header.SeqNo).Validate(h.SeqNo); err != nil && sc.Handler == nil {
		return nil, fmt.Errorf(`}}})
}
