package main

// Self-test mutants (DESIGN §6): realistic breakages that compile and pass the pinned
// tests, applied in memory through packages.Config.Overlay. Each names the rule expected
// to report it. A mutant whose target text is absent on an edited tree is skipped.

func init() {
	// ---- C07 ------------------------------------------------------------------------------
	addMutant(Mutant{Name: "c07-pap-missing-password-no-return", Props: []string{"C07"}, Rule: "R-REPLYCOUNT", KeySub: "AuthenticatePAP",
		Why: "PAP missing-password path replies FAIL and then falls through to the authenticator (second reply)",
		Edits: []Edit{{File: "cmds/server/handlers/authen_pap.go", Old: `				tq.SetAuthenReplyServerMsg("missing password"),
			),
			a.recorderWriter,
		)
		return
`, New: `				tq.SetAuthenReplyServerMsg("missing password"),
			),
			a.recorderWriter,
		)
`}}})
	addMutant(Mutant{Name: "c07-router-fallthrough", Props: []string{"C07"}, Rule: "R-REPLYCOUNT", KeySub: "AuthenticateStart",
		Why: "after delegating to the routed handler the START handler also sends the 'unknown packet' error",
		Edits: []Edit{{File: "cmds/server/handlers/authen.go", Old: `		h.Handle(response, request)
		return
`, New: `		h.Handle(response, request)
`}}})
	addMutant(Mutant{Name: "c07-stringy-revert-fix", Props: []string{"C07"}, Rule: "R-REPLYCOUNT", KeySub: "stringy.Authorizer",
		Why: "the repaired missing return after the user-mismatch reply comes back",
		Edits: []Edit{{File: "cmds/server/config/authorizers/stringy/stringy.go", Old: `				tq.SetAuthorReplyServerMsg("not authorized"),
			),
		)
		return
	}

	if authorizer := NewCommandBasedAuthorizer(`, New: `				tq.SetAuthorReplyServerMsg("not authorized"),
			),
		)
	}

	if authorizer := NewCommandBasedAuthorizer(`}}})
	addMutant(Mutant{Name: "c07-ascii-abort-no-reply", Props: []string{"C07"}, Rule: "R-REPLYCOUNT", KeySub: "getPassword",
		Why: "abort in the password state returns without any reply: the client waits until the deadline",
		Edits: []Edit{{File: "cmds/server/handlers/authen_ascii.go", Old: `	// user-msg will contain a password here, obscure it if logging
	if reply := a.authenticateContinueStop(request); reply != nil {
		response.ReplyWithContext(request.Context, reply, a.recorderWriter)
		return
	}`, New: `	// user-msg will contain a password here, obscure it if logging
	if reply := a.authenticateContinueStop(request); reply != nil {
		return
	}`}}})
	addMutant(Mutant{Name: "c07-loop-continue-on-session-error", Props: []string{"C07", "C08"}, Rule: "R-LOOP", KeySub: ":c:",
		Why: "a sequence violation no longer closes the connection: the loop goes on reading",
		Edits: []Edit{{File: "server.go", Old: `				s.Errorf(ctx, "unable to obtain a session; connection will close; %v", err)
				return`, New: `				s.Errorf(ctx, "unable to obtain a session; connection will close; %v", err)
				continue`}}})
	addMutant(Mutant{Name: "c07-loop-handler-despite-session-error", Props: []string{"C07", "C08"}, Rule: "R-LOOP", KeySub: ":b:",
		Why: "the session error is logged but the initial handler still runs for the rejected packet",
		Edits: []Edit{{File: "server.go", Old: `				s.Errorf(ctx, "unable to obtain a session; connection will close; %v", err)
				return
			}`, New: `				s.Errorf(ctx, "unable to obtain a session; connection will close; %v", err)
			}`}}})
	addMutant(Mutant{Name: "c07-loop-no-deferred-close", Props: []string{"C07", "C17"}, Rule: "R-LOOP", KeySub: ":a:",
		Why: "the deferred Close is dropped: rejected requests leave the connection open",
		Edits: []Edit{{File: "server.go", Old: `	defer c.Close()
`, New: ``}}})

	// ---- C08 ------------------------------------------------------------------------------
	addMutant(Mutant{Name: "c08-drop-parity", Props: []string{"C08"}, Rule: "R-SEQ", KeySub: "parity",
		Why: "the parity check is dropped from the session lookup; the suite only sends 1,3,5",
		Edits: []Edit{{File: "sessions.go", Old: `	if err := ClientSequenceNumber(h.SeqNo).Validate(nil); err != nil {
		s.delete(h.SessionID)
		return nil, fmt.Errorf("sessionID [%v] sequence number is corrupted; %v", h.SessionID, err)
	}
`, New: ``}}})
	addMutant(Mutant{Name: "c08-geq-to-gtr", Props: []string{"C08"}, Rule: "R-SEQ", KeySub: "progression-predicate",
		Why:   "last >= current becomes last > current: a replayed number is accepted",
		Edits: []Edit{{File: "header_fields.go", Old: `	if last >= current {`, New: `	if last > current {`}}})
	addMutant(Mutant{Name: "c08-compare-with-request", Props: []string{"C08"}, Rule: "R-SEQ", KeySub: "progression",
		Why:   "the progression check compares the request's number with itself instead of the stored one",
		Edits: []Edit{{File: "sessions.go", Old: `LastSequence(sc.header.SeqNo).Validate(h.SeqNo)`, New: `LastSequence(h.SeqNo - 1).Validate(h.SeqNo)`}}})
	addMutant(Mutant{Name: "c08-no-delete-when-finished", Props: []string{"C08"}, Rule: "R-LOOP", KeySub: "delete-when-no-continuation",
		Why: "finished sessions keep their entry: a later packet with that id is checked against a stale number and handler nil",
		Edits: []Edit{{File: "server.go", Old: `				sessionProvider.delete(req.Header.SessionID)
				continue`, New: `				continue`}}})
	addMutant(Mutant{Name: "c08-revert-lastsequence-width", Props: []string{"C08"}, Rule: "R-NARROW", KeySub: "progression-width",
		Why: "the repaired 8-bit comparison comes back: 256 compares as 0",
		Edits: []Edit{{File: "header_fields.go", Old: `type LastSequence uint16`, New: `type LastSequence uint8`},
			{File: "header_fields.go", Old: `	last := uint16(t)
	var current uint16`, New: `	last := uint8(t)
	var current uint8`},
			{File: "header_fields.go", Old: `		current = uint16(v)`, New: `		current = uint8(v)`}}})
	addMutant(Mutant{Name: "c08-update-with-request-header", Props: []string{"C08"}, Rule: "R-LOOP", KeySub: "update-args",
		Why:   "the entry is updated with the request header: the reply's number is not recorded as 'sent'",
		Edits: []Edit{{File: "server.go", Old: `sessionProvider.update(resp.header, resp.next)`, New: `sessionProvider.update(req.Header, resp.next)`}}})
	addMutant(Mutant{Name: "c08-lookup-other-key", Props: []string{"C08"}, Rule: "R-SEQ", KeySub: "",
		Why: "the handler returned on a hit ignores the validators' outcome (returned before validation)",
		Edits: []Edit{{File: "sessions.go", Old: `	if err := LastSequence(sc.header.SeqNo).Validate(h.SeqNo); err != nil {
		return nil, fmt.Errorf(`, New: `	if err := LastSequence(sc.header.SeqNo).Validate(h.SeqNo); err != nil && sc.Handler == nil {
		return nil, fmt.Errorf(`}}})
}

func init() {
	// ---- C05 ------------------------------------------------------------------------------
	addMutant(Mutant{Name: "c05-readfull-to-read", Props: []string{"C05"}, Rule: "R-FRAMING", KeySub: "only-readfull",
		Why:   "the body is read with a single Read: on loopback one Read returns the whole body, on a real network it may not",
		Edits: []Edit{{File: "crypt.go", Old: `	if _, err := io.ReadFull(c.Reader, b); err != nil {`, New: `	if _, err := c.Reader.Read(b); err != nil {`}}})
	addMutant(Mutant{Name: "c05-reader-per-read", Props: []string{"C05"}, Rule: "R-FRAMING", KeySub: "",
		Why: "a new bufio.Reader is built for every read: bytes of the next packet buffered by the previous reader are lost",
		Edits: []Edit{{File: "crypt.go", Old: `	// allocate a tacacs header
	h := make([]byte, MaxHeaderLength)`, New: `	// allocate a tacacs header
	c.Reader = bufio.NewReaderSize(c.Conn, 107)
	h := make([]byte, MaxHeaderLength)`}}})
	addMutant(Mutant{Name: "c05-size-test-after-alloc", Props: []string{"C05"}, Rule: "R-FRAMING", KeySub: "oversize-guard",
		Why: "the body buffer is allocated before the announced length is checked",
		Edits: []Edit{{File: "crypt.go", Old: `	if s > MaxBodyLength {
		return nil, fmt.Errorf("max header length exceeded in crypt read, aborting")
	}
	b := make([]byte, int(s))`, New: `	b := make([]byte, int(s))
	if s > MaxBodyLength {
		return nil, fmt.Errorf("max header length exceeded in crypt read, aborting")
	}`}}})
	addMutant(Mutant{Name: "c05-body-read-error-ignored", Props: []string{"C05"}, Rule: "R-FRAMING", KeySub: "short-read-is-error#2",
		Why: "a short body read only increments a counter: a shortened packet goes on to be decoded",
		Edits: []Edit{{File: "crypt.go", Old: `	if _, err := io.ReadFull(c.Reader, b); err != nil {
		crypterReadError.Inc()
		return nil, err
	}`, New: `	if _, err := io.ReadFull(c.Reader, b); err != nil {
		crypterReadError.Inc()
	}`}}})
	addMutant(Mutant{Name: "c05-revert-386-fix", Props: []string{"C05"}, Rule: "R-", KeySub: "",
		Why: "the announced length is converted to int before the limit test (negative on 32-bit int)",
		Edits: []Edit{{File: "crypt.go", Old: `	s := binary.BigEndian.Uint32(h[8:])
	if s > MaxBodyLength {`, New: `	s := int32(binary.BigEndian.Uint32(h[8:]))
	if s > int32(MaxBodyLength) {`}}})
	addMutant(Mutant{Name: "c05-second-write", Props: []string{"C05"}, Rule: "R-FRAMING", KeySub: "",
		Why: "header and body are written with two Write calls",
		Edits: []Edit{{File: "crypt.go", Old: `	n, err := c.Write(b)
	if err != nil {`, New: `	n, err := c.Write(b[:MaxHeaderLength])
	if err == nil {
		n, err = c.Write(b[MaxHeaderLength:])
	}
	if err != nil {`}}})

	// ---- C17 ------------------------------------------------------------------------------
	addMutant(Mutant{Name: "c17-add-inside-goroutine", Props: []string{"C17"}, Rule: "R-PAIR", KeySub: "add-before-go",
		Why: "the wait-group increment moves into the connection goroutine",
		Edits: []Edit{{File: "server.go", Old: `			s.Add(1)
			go s.serve(ctx, conn)`, New: `			go s.serve(ctx, conn)`},
			{File: "server.go", Old: `	defer s.Done()
	timer := prometheus.NewTimer(`, New: `	s.Add(1)
	defer s.Done()
	timer := prometheus.NewTimer(`}}})
	addMutant(Mutant{Name: "c17-no-read-deadline", Props: []string{"C17"}, Rule: "R-LOOP", KeySub: "deadline",
		Why: "the read deadline call is dropped: idle connections are never reaped",
		Edits: []Edit{{File: "server.go", Old: `			if err := c.SetReadDeadline(time.Now().Add(15 * time.Second)); err != nil {
				s.Errorf(ctx, "unable to set read deadline on connection %v", c.RemoteAddr())
			}
`, New: ``}}})
	addMutant(Mutant{Name: "c17-zero-deadline", Props: []string{"C17"}, Rule: "R-LOOP", KeySub: "deadline",
		Why:   "a zero time.Time disables the deadline",
		Edits: []Edit{{File: "server.go", Old: `c.SetReadDeadline(time.Now().Add(15 * time.Second))`, New: `c.SetReadDeadline(time.Time{})`}}})
	addMutant(Mutant{Name: "c17-no-wait", Props: []string{"C17"}, Rule: "R-PAIR", KeySub: "deferred-close-and-wait",
		Why: "Serve no longer waits for the connection goroutines",
		Edits: []Edit{{File: "server.go", Old: `		s.Wait()
`, New: ``}}})
	addMutant(Mutant{Name: "c17-deadline-once", Props: []string{"C17"}, Rule: "R-LOOP", KeySub: "deadline",
		Why: "the deadline is armed once before the loop instead of before every read",
		Edits: []Edit{{File: "server.go", Old: `	defer sessionProvider.close()
	for {`, New: `	defer sessionProvider.close()
	c.SetReadDeadline(time.Now().Add(15 * time.Second))
	for {`},
			{File: "server.go", Old: `			if err := c.SetReadDeadline(time.Now().Add(15 * time.Second)); err != nil {
				s.Errorf(ctx, "unable to set read deadline on connection %v", c.RemoteAddr())
			}
`, New: ``}}})
	addMutant(Mutant{Name: "c17-done-not-deferred", Props: []string{"C17"}, Rule: "R-PAIR", KeySub: "done-deferred-first",
		Why: "Done is called at the end of serve instead of deferred: the refusal return skips it",
		Edits: []Edit{{File: "server.go", Old: `	defer s.Done()
	timer := prometheus.NewTimer(`, New: `	timer := prometheus.NewTimer(`},
			{File: "server.go", Old: `	serveAccepted.Dec()
}`, New: `	serveAccepted.Dec()
	s.Done()
}`}}})

	// ---- C20 ------------------------------------------------------------------------------
	addMutant(Mutant{Name: "c20-drop-handlers-dec", Props: []string{"C20"}, Rule: "R-PAIR", KeySub: "gauge:handlers",
		Why: "the handlers gauge is never decremented",
		Edits: []Edit{{File: "server.go", Old: `			handlers.Dec()
`, New: ``}}})
	addMutant(Mutant{Name: "c20-revert-conditional-dec", Props: []string{"C20"}, Rule: "R-PAIR", KeySub: "gauge:sessionsActive:delete",
		Why: "the repaired unconditional Dec in delete comes back",
		Edits: []Edit{{File: "sessions.go", Old: `	if sc, ok := s.known[session]; ok {
		sessionsActive.Dec()
		if sc != nil {
			sc.timer.ObserveDuration()
		}
	}`, New: `	sessionsActive.Dec()
	if sc := s.known[session]; sc != nil {
		sc.timer.ObserveDuration()
	}`}}})
	addMutant(Mutant{Name: "c20-inc-in-update", Props: []string{"C20"}, Rule: "R-PAIR", KeySub: "gauge:sessionsActive",
		Why: "update also increments the gauge although the population does not change",
		Edits: []Edit{{File: "sessions.go", Old: `	sc.header = h
	sc.Handler = n`, New: `	sessionsActive.Inc()
	sc.header = h
	sc.Handler = n`}}})
	addMutant(Mutant{Name: "c20-close-does-not-drain", Props: []string{"C20"}, Rule: "R-PAIR", KeySub: "",
		Why: "the repaired drain at connection close is removed",
		Edits: []Edit{{File: "sessions.go", Old: `		r.timer.ObserveDuration()
		sessionsActive.Dec()
		delete(s.known, id)`, New: `		r.timer.ObserveDuration()
		_ = id`}}})
	addMutant(Mutant{Name: "c20-early-return-skips-accepted-dec", Props: []string{"C20"}, Rule: "R-PAIR", KeySub: "gauge:serveAccepted",
		Why: "a new early return between Inc and Dec of the accepted-connections gauge",
		Edits: []Edit{{File: "server.go", Old: `	serveAccepted.Inc()
	s.handle(ctx, newCrypter(secret, conn, s.proxy), handler)`, New: `	serveAccepted.Inc()
	if s.proxy && len(secret) == 0 {
		conn.Close()
		return
	}
	s.handle(ctx, newCrypter(secret, conn, s.proxy), handler)`}}})
	addMutant(Mutant{Name: "c20-set-without-miss", Props: []string{"C20"}, Rule: "R-PAIR", KeySub: "insert-site",
		Why: "every packet re-registers its session (set is called unconditionally)",
		Edits: []Edit{{File: "server.go", Old: `			if state == nil {
				state = h
				sessionProvider.set(req.Header, nil)
			}`, New: `			sessionProvider.set(req.Header, nil)
			if state == nil {
				state = h
			}`}}})
}

func init() {
	// ---- C12 ------------------------------------------------------------------------------
	addMutant(Mutant{Name: "c12-revert-printf-fix", Props: []string{"C12"}, Rule: "R-FMT", KeySub: "Printf",
		Why:   "the record is the format string again",
		Edits: []Edit{{File: "cmds/server/config/accounters/local/local.go", Old: `a.sink.Printf("%s", jsonLog)`, New: `a.sink.Printf(string(jsonLog))`}}})
	addMutant(Mutant{Name: "c12-success-before-sink", Props: []string{"C12"}, Rule: "R-ORDER", KeySub: "sink-before-success",
		Why: "for start records the reply is sent before the record is written",
		Edits: []Edit{{File: "cmds/server/config/accounters/local/local.go", Old: `	// log accounting data
	a.sink.Printf("%s", jsonLog)

	// start/stop/watchdog don't actually log anything, this is up to you
	switch body.Flags {
	case tq.AcctFlagStart:
		response.Reply(
			tq.NewAcctReply(
				tq.SetAcctReplyStatus(tq.AcctReplyStatusSuccess),
				tq.SetAcctReplyServerMsg("success, logging started"),
			),
		)
		return`, New: `	// start/stop/watchdog don't actually log anything, this is up to you
	if body.Flags == tq.AcctFlagStart {
		response.Reply(
			tq.NewAcctReply(
				tq.SetAcctReplyStatus(tq.AcctReplyStatusSuccess),
				tq.SetAcctReplyServerMsg("success, logging started"),
			),
		)
		a.sink.Printf("%s", jsonLog)
		return
	}
	// log accounting data
	a.sink.Printf("%s", jsonLog)
	switch body.Flags {
	case tq.AcctFlagStart:
		return`}}})
	addMutant(Mutant{Name: "c12-sink-under-debug-flag", Props: []string{"C12"}, Rule: "R-ORDER", KeySub: "sink-before-success",
		Why: "the record is only written when the request is a stop record",
		Edits: []Edit{{File: "cmds/server/config/accounters/local/local.go", Old: `	a.sink.Printf("%s", jsonLog)
`, New: `	if body.Flags.Has(tq.AcctFlagStop) {
		a.sink.Printf("%s", jsonLog)
	}
`}}})
	addMutant(Mutant{Name: "c12-record-twice", Props: []string{"C12"}, Rule: "R-ORDER", KeySub: "sink-before-success",
		Why: "the record is written twice",
		Edits: []Edit{{File: "cmds/server/config/accounters/local/local.go", Old: `	a.sink.Printf("%s", jsonLog)
`, New: `	a.sink.Printf("%s", jsonLog)
	a.sink.Printf("%s", jsonLog)
`}}})
	addMutant(Mutant{Name: "c12-syslog-write-error-ignored", Props: []string{"C12"}, Rule: "R-ORDER", KeySub: "syslog",
		Why: "the syslog accounter acknowledges although the write failed",
		Edits: []Edit{{File: "cmds/server/config/accounters/syslog/syslog.go", Old: `		a.Errorf("failed to write accounting data to syslog: %v", err)
		return
`, New: `		a.Errorf("failed to write accounting data to syslog: %v", err)
`}}})
	addMutant(Mutant{Name: "c12-default-accounter-success", Props: []string{"C12"}, Rule: "R-ORDER", KeySub: "defaultAccounter",
		Why: "users without an accounter are acknowledged although nothing is recorded",
		Edits: []Edit{{File: "cmds/server/config/aaa.go", Old: `			tq.SetAcctReplyStatus(tq.AcctReplyStatusError),
			tq.SetAcctReplyServerMsg("accounting denied"),`, New: `			tq.SetAcctReplyStatus(tq.AcctReplyStatusSuccess),
			tq.SetAcctReplyServerMsg("accounting denied"),`}}})
	addMutant(Mutant{Name: "c12-arg-marshaltext", Props: []string{"C12"}, Rule: "R-JSON", KeySub: "Args",
		Why: "Arg gains a MarshalText that trims: the record silently differs from the request",
		Edits: []Edit{{File: "authorize_fields.go", Old: `// ASV splits an attribute value pair into attribute, separator, value`, New: `// MarshalText renders the trimmed argument
func (t Arg) MarshalText() ([]byte, error) { return []byte(t.String()), nil }

// ASV splits an attribute value pair into attribute, separator, value`}}})
}

func init() {
	// ---- C11 ------------------------------------------------------------------------------
	addMutant(Mutant{Name: "c11-returnbool-default-true", Props: []string{"C11"}, Rule: "R-FIRSTMATCH", KeySub: "return",
		Why: "the decision helper grants for every action other than DENY handled: default true",
		Edits: []Edit{{File: "cmds/server/config/authorizers/stringy/command.go", Old: `		default:
			return false
		}`, New: `		default:
			return true
		}`}}})
	addMutant(Mutant{Name: "c11-final-return-true", Props: []string{"C11"}, Rule: "R-FIRSTMATCH", KeySub: "return",
		Why: "no rule applies -> permit",
		Edits: []Edit{{File: "cmds/server/config/authorizers/stringy/command.go", Old: `			}
		}
	}
	return false
}`, New: `			}
		}
	}
	return true
}`}}})
	addMutant(Mutant{Name: "c11-prepend-group-rules", Props: []string{"C11"}, Rule: "R-FIRSTMATCH", KeySub: "user-rules-before-group-rules",
		Why:   "group rules are put before user rules",
		Edits: []Edit{{File: "cmds/server/config/authorizers/stringy/stringy.go", Old: `		u.Commands = append(u.Commands, g.Commands...)`, New: `		u.Commands = append(g.Commands, u.Commands...)`}}})
	addMutant(Mutant{Name: "c11-revert-anchor-fix", Props: []string{"C11"}, Rule: "R-ANCHOR", KeySub: "regexp",
		Why: "byte-inspection anchoring comes back",
		Edits: []Edit{{File: "cmds/server/config/authorizers/stringy/command.go", Old: `			regexish = regexStartStr + "(?:" + regexish + ")" + regexEndStr`, New: `			if regexish[0] != regexStartByte {
				regexish = regexStartStr + regexish
			}
			if regexish[len(regexish)-1] != regexEndByte {
				regexish = regexish + regexEndStr
			}`}}})
	addMutant(Mutant{Name: "c11-no-anchor", Props: []string{"C11"}, Rule: "R-ANCHOR", KeySub: "regexp",
		Why: "the wrapping is dropped altogether: substring match",
		Edits: []Edit{{File: "cmds/server/config/authorizers/stringy/command.go", Old: `			regexish = regexStartStr + "(?:" + regexish + ")" + regexEndStr
`, New: ``}}})
	addMutant(Mutant{Name: "c11-accumulate-decision", Props: []string{"C11"}, Rule: "R-FIRSTMATCH", KeySub: "",
		Why: "the decision is accumulated over all rules (last match wins) instead of returning at the first",
		Edits: []Edit{{File: "cmds/server/config/authorizers/stringy/command.go", Old: `	for _, c := range a.user.Commands {
		// trim into locals only; the rules are shared by every request of this user
		c.Name = strings.TrimSpace(c.Name)
		if c.Name == "*" {
			// special condition of allow anything
			return returnBool(c.Action)
		}`, New: `	decided := false
	for _, c := range a.user.Commands {
		// trim into locals only; the rules are shared by every request of this user
		c.Name = strings.TrimSpace(c.Name)
		if c.Name == "*" {
			// special condition of allow anything
			decided = returnBool(c.Action)
			continue
		}`},
			{File: "cmds/server/config/authorizers/stringy/command.go", Old: `			}
		}
	}
	return false
}`, New: `			}
		}
	}
	return decided
}`}}})
	addMutant(Mutant{Name: "c11-bad-regex-continues", Props: []string{"C11"}, Rule: "R-FIRSTMATCH", KeySub: "bad-pattern-denies",
		Why: "an invalid pattern is skipped instead of denying",
		Edits: []Edit{{File: "cmds/server/config/authorizers/stringy/command.go", Old: `				a.Errorf(a.ctx, "bad regex detected; %v", err)
				return false`, New: `				a.Errorf(a.ctx, "bad regex detected; %v", err)
				continue`}}})
	addMutant(Mutant{Name: "c11-command-handler-always-pass", Props: []string{"C11"}, Rule: "R-PROVENANCE", KeySub: "CommandBasedAuthorizer",
		Why: "the deny branch of the command handler replies PASS_ADD too",
		Edits: []Edit{{File: "cmds/server/config/authorizers/stringy/command.go", Old: `			tq.SetAuthorReplyStatus(tq.AuthorStatusFail),
			tq.SetAuthorReplyServerMsg("not authorized"),`, New: `			tq.SetAuthorReplyStatus(tq.AuthorStatusPassAdd),
			tq.SetAuthorReplyServerMsg("not authorized"),`}}})
	addMutant(Mutant{Name: "c11-default-authorizer-pass", Props: []string{"C11"}, Rule: "R-PROVENANCE", KeySub: "defaultAuthorizer",
		Why: "users without authorizer are granted",
		Edits: []Edit{{File: "cmds/server/config/aaa.go", Old: `			tq.SetAuthorReplyStatus(tq.AuthorStatusFail),
			tq.SetAuthorReplyServerMsg("authorization denied"),`, New: `			tq.SetAuthorReplyStatus(tq.AuthorStatusPassAdd),
			tq.SetAuthorReplyServerMsg("authorization denied"),`}}})
	addMutant(Mutant{Name: "c11-match-subject-with-cr", Props: []string{"C11"}, Rule: "R-FIRSTMATCH", KeySub: "subject",
		Why:   "patterns are matched against the argument string including the trailing <cr>",
		Edits: []Edit{{File: "cmds/server/config/authorizers/stringy/command.go", Old: `regexp.MatchString(regexish, a.body.Args.CommandArgsNoLE())`, New: `regexp.MatchString(regexish, a.body.Args.CommandArgs())`}}})
}

func init() {
	// ---- C15 / C16 -------------------------------------------------------------------------
	addMutant(Mutant{Name: "c15-revert-closure-capture", Props: []string{"C15", "C13"}, Rule: "R-GOCAPTURE", KeySub: "updates",
		Why: "the lookup goroutine closes over providers/prefixDeny/prefixAllow again",
		Edits: []Edit{{File: "cmds/server/loader/loader.go", Old: `			go func(providers []tq.SecretProvider, prefixDeny, prefixAllow *prefixFilter) {`, New: `			go func() {`},
			{File: "cmds/server/loader/loader.go", Old: `			}(providers, prefixDeny, prefixAllow)`, New: `			}()`}}})
	addMutant(Mutant{Name: "c15-revert-atomic-counter", Props: []string{"C15"}, Rule: "R-SHAREDWRITE", KeySub: "waitGroup",
		Why: "the connection counter is a plain integer again",
		Edits: []Edit{{File: "sessions.go", Old: `	atomic.AddInt64(&w.active, 1)`, New: `	w.active++
	_ = atomic.LoadInt64(&w.active)`},
			{File: "sessions.go", Old: `	atomic.AddInt64(&w.active, -1)`, New: `	w.active--`}}})
	addMutant(Mutant{Name: "c15-revert-trimspace", Props: []string{"C15", "C09"}, Rule: "R-SHAREDWRITE", KeySub: "TrimSpace",
		Why: "evaluate() trims the shared rule patterns in place again",
		Edits: []Edit{{File: "cmds/server/config/authorizers/stringy/command.go", Old: `		c.Name = strings.TrimSpace(c.Name)
		if c.Name == "*" {`, New: `		c.TrimSpace()
		if c.Name == "*" {`}}})
	addMutant(Mutant{Name: "c15-session-table-unlocked-read", Props: []string{"C15"}, Rule: "R-MUTEX", KeySub: "update",
		Why: "update() reads the table without taking the lock",
		Edits: []Edit{{File: "sessions.go", Old: `func (s *sessions) update(h Header, n Handler) {
	s.Lock()
	defer s.Unlock()
`, New: `func (s *sessions) update(h Header, n Handler) {
`}}})
	addMutant(Mutant{Name: "c15-global-last-user", Props: []string{"C15", "C09"}, Rule: "R-SHAREDWRITE", KeySub: "",
		Why: "a handler remembers the last user name in a package-level variable",
		Edits: []Edit{{File: "cmds/server/handlers/authen_pap.go", Old: `	a.RecordCtx(&request, tq.ContextUser, tq.ContextRemoteAddr, tq.ContextPort, tq.ContextPrivLvl)
	// missing password`, New: `	lastPAPUser = string(body.User)
	a.RecordCtx(&request, tq.ContextUser, tq.ContextRemoteAddr, tq.ContextPort, tq.ContextPrivLvl)
	// missing password`},
			{File: "cmds/server/handlers/authen_pap.go", Old: `// NewAuthenticatePAP creates`, New: `var lastPAPUser string

// NewAuthenticatePAP creates`}}})
	addMutant(Mutant{Name: "c16-revert-fresh-decode-yaml", Props: []string{"C15", "C16"}, Rule: "R-FRESHDECODE", KeySub: "yaml",
		Why: "the YAML loader decodes into its long-lived embedded ServerConfig again",
		Edits: []Edit{{File: "cmds/server/loader/yaml/yaml.go", Old: `	if err := yaml.Unmarshal(b, &c); err != nil {`, New: `	c = l.ServerConfig
	if err := yaml.Unmarshal(b, &c); err != nil {`}}})
	addMutant(Mutant{Name: "c16-decode-into-field-json", Props: []string{"C15", "C16"}, Rule: "R-FRESHDECODE", KeySub: "json",
		Why:   "the JSON loader decodes into the embedded ServerConfig",
		Edits: []Edit{{File: "cmds/server/loader/json/json.go", Old: `	if err := json.Unmarshal(b, &c); err != nil {`, New: `	if err := json.Unmarshal(b, &l.ServerConfig); err != nil {`}}})
	addMutant(Mutant{Name: "c16-publish-before-check", Props: []string{"C16"}, Rule: "R-FRESHDECODE", KeySub: "",
		Why: "the configuration is published before the minimum-content check on users",
		Edits: []Edit{{File: "cmds/server/loader/yaml/yaml.go", Old: `	if len(c.Users) < 1 {
		return fmt.Errorf("no users were unmarshalled from config, cannot serve")
	}
	l.ServerConfig = c
	l.config <- c`, New: `	l.ServerConfig = c
	l.config <- c
	if len(c.Users) < 1 {
		return fmt.Errorf("no users were unmarshalled from config, cannot serve")
	}`}}})
	addMutant(Mutant{Name: "c16-providers-appended", Props: []string{"C16"}, Rule: "R-FRESHDECODE", KeySub: "consumer-replaces",
		Why:   "providers of a new configuration are appended to the old list",
		Edits: []Edit{{File: "cmds/server/loader/loader.go", Old: `			providers = l.build(c)`, New: `			providers = append(providers, l.build(c)...)`}}})
	addMutant(Mutant{Name: "c16-publish-old-struct", Props: []string{"C16"}, Rule: "R-FRESHDECODE", KeySub: "published",
		Why:   "the loader publishes its long-lived copy rather than the fresh value",
		Edits: []Edit{{File: "cmds/server/loader/json/json.go", Old: `	l.config <- c`, New: `	l.config <- l.ServerConfig`}}})
}

func init() {
	// ---- C18 ------------------------------------------------------------------------------
	addMutant(Mutant{Name: "c18-log-pap-data", Props: []string{"C18"}, Rule: "R-TAINT", KeySub: "AuthenticatePAP",
		Why:   "the PAP debug line also prints body.Data (the password)",
		Edits: []Edit{{File: "cmds/server/handlers/authen_pap.go", Old: `		a.Debugf(request.Context, "[%v] [%v] username is missing for rem-addr: [%v]", request.Header.SessionID, body.RemAddr)`, New: `		a.Debugf(request.Context, "[%v] [%v] username is missing for rem-addr: [%v]", request.Header.SessionID, body.RemAddr, body.Data)`}}})
	addMutant(Mutant{Name: "c18-revert-obscure-data", Props: []string{"C18"}, Rule: "R-TAINT", KeySub: "record",
		Why:   "the repaired obscure list loses 'data' again",
		Edits: []Edit{{File: "cmds/server/handlers/authen.go", Old: `tq.ContextConnLocalAddr), "user-msg", "data")`, New: `tq.ContextConnLocalAddr), "user-msg")`}}})
	addMutant(Mutant{Name: "c18-retain-usermsg-in-getpassword", Props: []string{"C18"}, Rule: "R-TAINT", KeySub: "getPassword",
		Why: "getPassword retains user-msg (the password) in the logging context",
		Edits: []Edit{{File: "cmds/server/handlers/authen_ascii.go", Old: `	// missing password, don't query backend for user`, New: `	a.RecordCtx(&request, tq.ContextUserMsg)
	// missing password, don't query backend for user`}}})
	addMutant(Mutant{Name: "c18-log-secretconfig", Props: []string{"C18"}, Rule: "R-TAINT", KeySub: "build",
		Why:   "the loader logs the whole secret configuration (including the key)",
		Edits: []Edit{{File: "cmds/server/loader/loader.go", Old: `		l.Infof(l.ctx, "processing secret config [%v:%v]", provider.Name, provider.Type)`, New: `		l.Infof(l.ctx, "processing secret config [%v:%v] %+v", provider.Name, provider.Type, provider)`}}})
	addMutant(Mutant{Name: "c18-password-in-reply", Props: []string{"C18"}, Rule: "R-TAINT", KeySub: "reply-field",
		Why: "the failure reply echoes the password the client sent",
		Edits: []Edit{{File: "cmds/server/config/authenticators/bcrypt/bcrypt.go", Old: `	a.Errorf(request.Context, "failed to validate the user [%v] using a bcrypt password", a.username)
	response.Reply(
		tq.NewAuthenReply(
			tq.SetAuthenReplyStatus(tq.AuthenStatusFail),
			tq.SetAuthenReplyServerMsg("login failure"),`, New: `	a.Errorf(request.Context, "failed to validate the user [%v] using a bcrypt password", a.username)
	response.Reply(
		tq.NewAuthenReply(
			tq.SetAuthenReplyStatus(tq.AuthenStatusFail),
			tq.SetAuthenReplyServerMsg("login failure for "+password),`}}})
	addMutant(Mutant{Name: "c18-log-connection-secret", Props: []string{"C18"}, Rule: "R-TAINT", KeySub: "handle",
		Why:   "the key-mismatch error mentions the secret in use",
		Edits: []Edit{{File: "crypt.go", Old: `		return nil, fmt.Errorf("bad secret detected for ip [%s]", c.RemoteAddr().String())`, New: `		return nil, fmt.Errorf("bad secret detected for ip [%s] (ours %q)", c.RemoteAddr().String(), c.secret)`}}})
	addMutant(Mutant{Name: "c18-log-bcrypt-password", Props: []string{"C18"}, Rule: "R-TAINT", KeySub: "bcrypt",
		Why:   "the bcrypt failure line prints the candidate password",
		Edits: []Edit{{File: "cmds/server/config/authenticators/bcrypt/bcrypt.go", Old: `	a.Errorf(request.Context, "failed to validate the user [%v] using a bcrypt password", a.username)`, New: `	a.Errorf(request.Context, "failed to validate the user [%v] using a bcrypt password [%v]", a.username, password)`}}})
	addMutant(Mutant{Name: "c18-log-whole-body", Props: []string{"C18"}, Rule: "R-TAINT", KeySub: "AuthenticatePAP",
		Why: "a debug line prints the whole decoded START body",
		Edits: []Edit{{File: "cmds/server/handlers/authen_pap.go", Old: `	// missing username
	if len(body.User) == 0 {`, New: `	a.Debugf(request.Context, "pap start %+v", body)
	// missing username
	if len(body.User) == 0 {`}}})
}

func init() {
	// ---- C01 ------------------------------------------------------------------------------
	addMutant(Mutant{Name: "c01-authenreply-lengths-swapped-both-sides", Props: []string{"C01"}, Rule: "R-LAYOUT", KeySub: "AuthenReply",
		Why: "server_msg_len and data_len swapped in encoder and decoder alike: every round-trip test still passes",
		Edits: []Edit{{File: "authenticate.go", Old: `	buf = appendUint16(buf, a.ServerMsg.Len())
	buf = appendUint16(buf, a.Data.Len())
	buf = append(buf, a.ServerMsg...)`, New: `	buf = appendUint16(buf, a.Data.Len())
	buf = appendUint16(buf, a.ServerMsg.Len())
	buf = append(buf, a.ServerMsg...)`},
			{File: "authenticate.go", Old: `	serverMsgLen := buf.uint16()
	dataLen := buf.uint16()

	a.ServerMsg = AuthenServerMsg(buf.string(serverMsgLen))`, New: `	dataLen := buf.uint16()
	serverMsgLen := buf.uint16()

	a.ServerMsg = AuthenServerMsg(buf.string(serverMsgLen))`}}})
	addMutant(Mutant{Name: "c01-little-endian-16-both-sides", Props: []string{"C01"}, Rule: "R-LAYOUT", KeySub: "",
		Why: "16-bit lengths little-endian in the helper pair: self-consistent, breaks every real device",
		Edits: []Edit{{File: "packet.go", Old: `	return append(b, byte(i>>8), byte(i))`, New: `	return append(b, byte(i), byte(i>>8))`},
			{File: "packet.go", Old: `		n := int(s[0])<<8 | int(s[1])`, New: `		n := int(s[1])<<8 | int(s[0])`}}})
	addMutant(Mutant{Name: "c01-acctreply-status-first-both-sides", Props: []string{"C01"}, Rule: "R-LAYOUT", KeySub: "AcctReply",
		Why: "status before the lengths in the accounting reply, in both directions",
		Edits: []Edit{{File: "accounting.go", Old: `	buf = appendUint16(buf, a.ServerMsg.Len())
	buf = appendUint16(buf, a.Data.Len())
	buf = append(buf, uint8(a.Status))
	buf = append(buf, a.ServerMsg...)`, New: `	buf = append(buf, uint8(a.Status))
	buf = appendUint16(buf, a.ServerMsg.Len())
	buf = appendUint16(buf, a.Data.Len())
	buf = append(buf, a.ServerMsg...)`},
			{File: "accounting.go", Old: `	serverMsgLen := buf.uint16()
	dataLen := buf.uint16()
	a.Status = AcctReplyStatus(buf.byte())
`, New: `	a.Status = AcctReplyStatus(buf.byte())
	serverMsgLen := buf.uint16()
	dataLen := buf.uint16()
`}}})
	addMutant(Mutant{Name: "c01-authorrequest-port-remaddr-swapped", Props: []string{"C01"}, Rule: "R-LAYOUT", KeySub: "AuthorRequest",
		Why: "port and rem_addr bodies swapped on both sides",
		Edits: []Edit{{File: "authorize.go", Old: `	buf = append(buf, a.User...)
	buf = append(buf, a.Port...)
	buf = append(buf, a.RemAddr...)

	for _, arg := range a.Args {
		buf = append(buf, arg...)
	}

	return buf, nil
}

// UnmarshalBinary decodes decrypted tacacs bytes into AuthorRequest`, New: `	buf = append(buf, a.User...)
	buf = append(buf, a.RemAddr...)
	buf = append(buf, a.Port...)

	for _, arg := range a.Args {
		buf = append(buf, arg...)
	}

	return buf, nil
}

// UnmarshalBinary decodes decrypted tacacs bytes into AuthorRequest`},
			{File: "authorize.go", Old: `	a.User = AuthenUser(buf.string(userLen))
	a.Port = AuthenPort(buf.string(portLen))
	a.RemAddr = AuthenRemAddr(buf.string(remAddrLen))

	a.Args = make(Args, 0, argCnt)
	for _, n := range argLens {
		a.Args = append(a.Args, Arg(buf.string(n)))
	}

	// detect secret mismatch
	if a.Len() != userLen+portLen+remAddrLen+totalArgLen {
		return NewBadSecretErr("bad secret detected authorrequest")`, New: `	a.User = AuthenUser(buf.string(userLen))
	a.RemAddr = AuthenRemAddr(buf.string(remAddrLen))
	a.Port = AuthenPort(buf.string(portLen))

	a.Args = make(Args, 0, argCnt)
	for _, n := range argLens {
		a.Args = append(a.Args, Arg(buf.string(n)))
	}

	// detect secret mismatch
	if a.Len() != userLen+portLen+remAddrLen+totalArgLen {
		return NewBadSecretErr("bad secret detected authorrequest")`}}})
	addMutant(Mutant{Name: "c01-version-nibbles-swapped-both-sides", Props: []string{"C01"}, Rule: "R-LAYOUT", KeySub: "Header",
		Why: "major/minor nibbles swapped in both directions",
		Edits: []Edit{{File: "header_fields.go", Old: `	return []byte{v.MajorVersion<<4 | v.MinorVersion}, nil`, New: `	return []byte{v.MinorVersion<<4 | v.MajorVersion}, nil`},
			{File: "header_fields.go", Old: `	v.MajorVersion = data[0] >> 4
	v.MinorVersion = data[0] & 0xf`, New: `	v.MinorVersion = data[0] >> 4
	v.MajorVersion = data[0] & 0xf`}}})
	addMutant(Mutant{Name: "c01-session-id-little-endian", Props: []string{"C01"}, Rule: "R-LAYOUT", KeySub: "Header",
		Why: "session id written and read little-endian",
		Edits: []Edit{{File: "header.go", Old: `	binary.BigEndian.PutUint32(buf[4:], uint32(h.SessionID))`, New: `	binary.LittleEndian.PutUint32(buf[4:], uint32(h.SessionID))`},
			{File: "header.go", Old: `	h.SessionID = SessionID(binary.BigEndian.Uint32(data[4:]))`, New: `	h.SessionID = SessionID(binary.LittleEndian.Uint32(data[4:]))`}}})
	addMutant(Mutant{Name: "c01-authen-status-values", Props: []string{"C01"}, Rule: "R-ENUM", KeySub: "AuthenStatus",
		Why: "GETPASS and GETUSER constants exchanged",
		Edits: []Edit{{File: "authenticate_fields.go", Old: `	AuthenStatusGetUser AuthenStatus = 0x04`, New: `	AuthenStatusGetUser AuthenStatus = 0x05`},
			{File: "authenticate_fields.go", Old: `	AuthenStatusGetPass AuthenStatus = 0x05`, New: `	AuthenStatusGetPass AuthenStatus = 0x04`}}})
	addMutant(Mutant{Name: "c01-validate-misses-member", Props: []string{"C01", "C02"}, Rule: "R-ENUM", KeySub: "validate:AuthorStatus",
		Why: "AuthorStatus.Validate no longer accepts PASS_REPL: replies with optional values cannot be encoded or decoded",
		Edits: []Edit{{File: "authorize_fields.go", Old: `	case AuthorStatusPassAdd, AuthorStatusPassRepl, AuthorStatusFail, AuthorStatusError:
		return nil`, New: `	case AuthorStatusPassAdd, AuthorStatusFail, AuthorStatusError:
		return nil`}}})
}

func init() {
	// ---- C02 ------------------------------------------------------------------------------
	addMutant(Mutant{Name: "c02-drop-one-width-bound", Props: []string{"C02"}, Rule: "R-NARROW", KeySub: "AuthenStart.MarshalBinary:len:Port",
		Why:   "one of the repaired width bounds is dropped (port)",
		Edits: []Edit{{File: "authenticate.go", Old: `	if len(a.User) > 0xff || len(a.Port) > 0xff || len(a.RemAddr) > 0xff || len(a.Data) > 0xff {`, New: `	if len(a.User) > 0xff || len(a.RemAddr) > 0xff || len(a.Data) > 0xff {`}}})
	addMutant(Mutant{Name: "c02-bound-off-by-one", Props: []string{"C02"}, Rule: "R-NARROW", KeySub: "AcctReply.MarshalBinary:len:ServerMsg",
		Why:   "the 16-bit bound is written as 0x10000: a 65536-byte message wraps to length 0",
		Edits: []Edit{{File: "accounting.go", Old: `	if len(a.ServerMsg) > 0xffff || len(a.Data) > 0xffff {`, New: `	if len(a.ServerMsg) > 0x10000 || len(a.Data) > 0xffff {`}}})
	addMutant(Mutant{Name: "c02-marshal-without-validate", Props: []string{"C02"}, Rule: "R-VALIDATE-PASS", KeySub: "AuthorReply.MarshalBinary",
		Why: "AuthorReply.MarshalBinary no longer validates",
		Edits: []Edit{{File: "authorize.go", Old: `func (a *AuthorReply) MarshalBinary() ([]byte, error) {
	// validate
	if err := a.Validate(); err != nil {
		return nil, err
	}`, New: `func (a *AuthorReply) MarshalBinary() ([]byte, error) {`}}})
	addMutant(Mutant{Name: "c02-unmarshal-validate-before-fields", Props: []string{"C02"}, Rule: "R-VALIDATE-PASS", KeySub: "AcctReply.UnmarshalBinary",
		Why: "the decoder validates before it has filled the fields",
		Edits: []Edit{{File: "accounting.go", Old: `	buf := readBuffer(data)
	serverMsgLen := buf.uint16()
	dataLen := buf.uint16()
	a.Status = AcctReplyStatus(buf.byte())
`, New: `	if err := a.Validate(); err != nil {
		return err
	}
	buf := readBuffer(data)
	serverMsgLen := buf.uint16()
	dataLen := buf.uint16()
	a.Status = AcctReplyStatus(buf.byte())
`},
			{File: "accounting.go", Old: `		return NewBadSecretErr("bad secret detected acctreply")
	}
	// validate
	if err := a.Validate(); err != nil {
		return err
	}
	return nil`, New: `		return NewBadSecretErr("bad secret detected acctreply")
	}
	return nil`}}})
	addMutant(Mutant{Name: "c02-arg-upper-bound-gone", Props: []string{"C02"}, Rule: "R-NARROW", KeySub: "elemlen:Args",
		Why:   "Arg.Validate no longer bounds the argument length from above",
		Edits: []Edit{{File: "authorize_fields.go", Old: `	if len(t) < 2 || len(t) > 255 {`, New: `	if len(t) < 2 {`}}})
	addMutant(Mutant{Name: "c02-seqno-bound-gone", Props: []string{"C02", "C06"}, Rule: "R-NARROW", KeySub: "val:SeqNo",
		Why: "SequenceNumber.Validate no longer rejects numbers above 255: 256 is written as octet 0",
		Edits: []Edit{{File: "header_fields.go", Old: `	case v > HeaderMaxSequence:
		return fmt.Errorf("headerMaxSequence exceeded [%v]", t)
`, New: ``}}})
	addMutant(Mutant{Name: "c02-decoder-normalises-field", Props: []string{"C02", "C01"}, Rule: "R-LAYOUT", KeySub: "AuthorRequest:decoder",
		Why: "the decoder trims the user name after reading it: decode(encode(v)) != v for names with surrounding blanks",
		Edits: []Edit{{File: "authorize.go", Old: `	a.Args = make(Args, 0, argCnt)
	for _, n := range argLens {
		a.Args = append(a.Args, Arg(buf.string(n)))
	}

	// detect secret mismatch
	if a.Len() != userLen+portLen+remAddrLen+totalArgLen {
		return NewBadSecretErr("bad secret detected authorrequest")
	}`, New: `	a.Args = make(Args, 0, argCnt)
	for _, n := range argLens {
		a.Args = append(a.Args, Arg(buf.string(n)))
	}

	// detect secret mismatch
	if a.Len() != userLen+portLen+remAddrLen+totalArgLen {
		return NewBadSecretErr("bad secret detected authorrequest")
	}
	a.User = AuthenUser(strings.TrimSpace(string(a.User)))`},
			{File: "authorize.go", Old: `import (
	"fmt"
)`, New: `import (
	"fmt"
	"strings"
)`}}})
}

func init() {
	// ---- C04 / C14 --------------------------------------------------------------------------
	addMutant(Mutant{Name: "c04-min-length-constant-lowered", Props: []string{"C04", "C14"}, Rule: "R-BOUNDS", KeySub: "AcctRequest",
		Why:   "AcctRequestLen 9 -> 8: data[8] is read from an 8-byte input",
		Edits: []Edit{{File: "accounting.go", Old: `const AcctRequestLen = 0x9`, New: `const AcctRequestLen = 0x8`}}})
	addMutant(Mutant{Name: "c04-revert-packet-guard", Props: []string{"C04", "C14"}, Rule: "R-BOUNDS", KeySub: "Packet",
		Why: "the repaired len(v) guard of Packet.UnmarshalBinary is removed again",
		Edits: []Edit{{File: "packet.go", Old: `	if len(v) < MaxHeaderLength+int(h.Length) {
		return fmt.Errorf("data length [%v] is smaller than the header and the indicated body length [%v]", len(v), h.Length)
	}
`, New: ``}}})
	addMutant(Mutant{Name: "c04-clamp-inverted", Props: []string{"C04", "C14"}, Rule: "R-BOUNDS", KeySub: "readBuffer",
		Why: "the clamp in readBuffer.string compares the wrong way round",
		Edits: []Edit{{File: "packet.go", Old: `	if len(s) < n {
		n = len(s)
	}`, New: `	if len(s) > n {
		n = len(s)
	}`}}})
	addMutant(Mutant{Name: "c04-header-guard-off-by-one", Props: []string{"C04", "C14"}, Rule: "R-BOUNDS", KeySub: "Header",
		Why: "the header decoder accepts 11 bytes",
		Edits: []Edit{{File: "header.go", Old: `	if len(data) < MaxHeaderLength {
		return fmt.Errorf("Header size`, New: `	if len(data) < MaxHeaderLength-1 {
		return fmt.Errorf("Header size`}}})
	addMutant(Mutant{Name: "c04-uint16-reads-without-length-check", Props: []string{"C04", "C14"}, Rule: "R-BOUNDS", KeySub: "uint16",
		Why: "uint16 reads two bytes whenever at least one is present",
		Edits: []Edit{{File: "packet.go", Old: `	if len(s) >= 2 {
		n := int(s[0])<<8 | int(s[1])`, New: `	if len(s) >= 1 {
		n := int(s[0])<<8 | int(s[1])`},
			{File: "packet.go", Old: `	if len(s) == 1 {
		return b.int()
	}
`, New: ``}}})
	addMutant(Mutant{Name: "c04-body-slice-up-to-cap", Props: []string{"C04"}, Rule: "R-BOUNDS", KeySub: "Packet",
		Why:   "the packet decoder compares the announced length with cap(v) instead of len(v)",
		Edits: []Edit{{File: "packet.go", Old: `	if len(v) < MaxHeaderLength+int(h.Length) {`, New: `	if cap(v) < MaxHeaderLength+int(h.Length) {`}}})
	addMutant(Mutant{Name: "c04-oversize-check-dropped-in-packet", Props: []string{"C04"}, Rule: "R-", KeySub: "",
		Why: "Packet.UnmarshalBinary no longer limits the announced length (only matters with the 32-bit conversion)",
		Edits: []Edit{{File: "header.go", Old: `	if h.Length > MaxBodyLength {
		return fmt.Errorf("length field is too large, max size is 2^(16)")
	}
`, New: ``},
			{File: "packet.go", Old: `	if h.Length > MaxBodyLength {
		return fmt.Errorf("indicated size is too large to unmarshal; max allowed [%v] reported [%v]", MaxBodyLength, h.Length)
	}
	if len(v)`, New: `	if len(v)`}}})
	addMutant(Mutant{Name: "c14-unchecked-assertion-in-handler", Props: []string{"C14"}, Rule: "R-PANIC", KeySub: "",
		Why: "a handler asserts the context value's type without comma-ok",
		Edits: []Edit{{File: "cmds/server/handlers/author.go", Old: `	a.RecordCtx(&request, tq.ContextUser, tq.ContextRemoteAddr, tq.ContextReqArgs, tq.ContextPort, tq.ContextPrivLvl)`, New: `	_ = request.Context.Value(tq.ContextConnRemoteAddr).(string)
	a.RecordCtx(&request, tq.ContextUser, tq.ContextRemoteAddr, tq.ContextReqArgs, tq.ContextPort, tq.ContextPrivLvl)`}}})
	addMutant(Mutant{Name: "c14-unsafe-setter-in-handler", Props: []string{"C14"}, Rule: "R-PANIC", KeySub: "",
		Why: "a handler builds its reply packet with the test-only panicking option",
		Edits: []Edit{{File: "cmds/server/config/aaa.go", Old: `func (a *defaultAccounter) Handle(response tq.Response, request tq.Request) {
	response.Reply(`, New: `func (a *defaultAccounter) Handle(response tq.Response, request tq.Request) {
	_ = tq.NewPacket(tq.SetPacketBodyUnsafe(tq.NewAcctReply()))
	response.Reply(`}}})
}

func init() {
	addMutant(Mutant{Name: "c14-revert-keychain-fix", Props: []string{"C14"}, Rule: "R-NILIFACE", KeySub: "bcrypt",
		Why:   "the bcrypt factory drops the keychain again",
		Edits: []Edit{{File: "cmds/server/config/authenticators/bcrypt/bcrypt.go", Old: `	return &Authenticator{loggerProvider: a.loggerProvider, username: username, supportedOptions: opts, getSecret: a.getSecret}, nil`, New: `	return &Authenticator{loggerProvider: a.loggerProvider, username: username, supportedOptions: opts}, nil`}}})
	addMutant(Mutant{Name: "c14-getuser-unchecked", Props: []string{"C14"}, Rule: "R-NILCHECK", KeySub: "AuthenticatePAP",
		Why: "the nil check after GetUser is dropped in the PAP handler: unknown users crash the server",
		Edits: []Edit{{File: "cmds/server/handlers/authen_pap.go", Old: `	c := a.GetUser(string(body.User))
	if c == nil {`, New: `	c := a.GetUser(string(body.User))
	if c == nil && len(body.Port) > 250 {`}}})
	addMutant(Mutant{Name: "c14-private-decode-helper-nil-unchecked", Props: []string{"C14"}, Rule: "R-NILCHECK", KeySub: "getPassword",
		Why: "the password state gets the body from an unexported helper that returns nil when the packet is not a CONTINUE, and uses it without a test (the helper is folded into the inlined view: the finding must survive there)",
		Edits: []Edit{{File: "cmds/server/handlers/authen_ascii.go", Old: `	var body tq.AuthenContinue
	if err := tq.Unmarshal(request.Body, &body); err != nil {
		authenASCIIGetPasswordUnexpectedPacket.Inc()
		authenASCIIGetPasswordAuthenError.Inc()
		response.ReplyWithContext(
			request.Context,
			tq.NewAuthenReply(
				tq.SetAuthenReplyStatus(tq.AuthenStatusError),
				tq.SetAuthenReplyServerMsg("expected authenticate continue packet for AuthenStatusGetPass"),
			),
			a.recorderWriter,
		)
		return
	}
	// missing password`, New: `	body := a.continueOf(request)
	// missing password`}, {File: "cmds/server/handlers/authen_ascii.go", Old: `// AuthenticateContinueStop looks for flags`, New: `// continueOf decodes the CONTINUE of this request, nil when it is something else
func (a *AuthenticateASCII) continueOf(request tq.Request) *tq.AuthenContinue {
	var body tq.AuthenContinue
	if err := tq.Unmarshal(request.Body, &body); err != nil {
		return nil
	}
	return &body
}

// AuthenticateContinueStop looks for flags`}}})
	addMutant(Mutant{Name: "c07-header-type-zero-accepted", Props: []string{"C07", "C01"}, Rule: "R-ENUM", KeySub: "HeaderType",
		Why: "the packet type validator accepts everything below 4, including the undefined type 0: an invalid header reaches a handler",
		Edits: []Edit{{File: "header_fields.go", Old: `	switch t {
	case Authenticate, Authorize, Accounting:
		return nil
	}
	return fmt.Errorf("unknown HeaderType value [%v]", t)`, New: `	if t <= Accounting {
		return nil
	}
	return fmt.Errorf("unknown HeaderType value [%v]", t)`}}})
	addMutant(Mutant{Name: "c10-abort-compared-as-whole-octet", Props: []string{"C10"}, Rule: "R-ABORT", KeySub: "abort-first",
		Why:   "the abort flag is compared as the whole flag octet: a CONTINUE with the abort bit and another bit set is handed on and can end in PASS",
		Edits: []Edit{{File: "cmds/server/handlers/authen_ascii.go", Old: `	if body.Flags.Has(tq.AuthenContinueFlagAbort) {`, New: `	if body.Flags == tq.AuthenContinueFlagAbort {`}}})
	addMutant(Mutant{Name: "c12-sink-write-deferred", Props: []string{"C12"}, Rule: "R-ORDER", KeySub: "sink-before-success",
		Why:   "the sink write is deferred: the SUCCESS reply is on the wire before the record is written",
		Edits: []Edit{{File: "cmds/server/config/accounters/local/local.go", Old: `	a.sink.Printf("%s", jsonLog)`, New: `	defer a.sink.Printf("%s", jsonLog)`}}})
	addMutant(Mutant{Name: "c18-record-stops-at-first-absent-key", Props: []string{"C18"}, Rule: "R-OBSCURE", KeySub: "Record",
		Why: "the reference logger stops hiding at the first listed key the record does not have: later listed keys are logged in clear",
		Edits: []Edit{{File: "cmds/server/log/log.go", Old: `		if _, ok := r[key]; ok {
			r[key] = "<obscured>"
		}`, New: `		if _, ok := r[key]; !ok {
			break
		}
		r[key] = "<obscured>"`}}})
	addMutant(Mutant{Name: "c04-header-field-validator-error-dropped", Props: []string{"C04"}, Rule: "R-VALIDATE-FIELDS", KeySub: "Header.Validate",
		Why: "Header.Validate runs the field validators but drops their error: headers with an unknown type or version decode without error",
		Edits: []Edit{{File: "header.go", Old: `	for _, t := range []Field{h.Version, h.Type, h.SeqNo} {
		if err := t.Validate(nil); err != nil {
			return err
		}
	}`, New: `	for _, t := range []Field{h.Version, h.Type, h.SeqNo} {
		if err := t.Validate(nil); err != nil {
			err = fmt.Errorf("header: %w", err)
		}
	}`}}})
	addMutant(Mutant{Name: "c02-arg-decoder-skips-empty-arguments", Props: []string{"C02", "C01"}, Rule: "R-LAYOUT", KeySub: "AuthorReply:decoder",
		Why: "the argument loop of a decoder skips zero-length arguments: a legal empty argument is lost on decode",
		Edits: []Edit{{File: "authorize.go", Old: `	for _, n := range argLens {
		a.Args = append(a.Args, Arg(buf.string(n)))
	}
	// detect secret mismatch
	if a.Len() != serverMsgLen+dataLen+totalArgLen {`, New: `	for _, n := range argLens {
		if n == 0 {
			continue
		}
		a.Args = append(a.Args, Arg(buf.string(n)))
	}
	// detect secret mismatch
	if a.Len() != serverMsgLen+dataLen+totalArgLen {`}}})
	addMutant(Mutant{Name: "c15-build-reuses-the-previous-list", Props: []string{"C15", "C16"}, Rule: "R-FRESHDECODE", KeySub: "builder-allocates",
		Why: "the provider build takes over the storage of the list it is replacing: lookups in flight read elements being overwritten",
		Edits: []Edit{{File: "cmds/server/loader/loader.go", Old: `	providers := make([]tq.SecretProvider, 0, len(c.Secrets))`, New: `	providers := l.lastBuilt[:0]`}, {File: "cmds/server/loader/loader.go", Old: `type Loader struct {`, New: `type Loader struct {
	lastBuilt []tq.SecretProvider`}}})
	addMutant(Mutant{Name: "c01-encoder-fast-path-returns-own-bytes", Props: []string{"C01"}, Rule: "R-LAYOUT", KeySub: "AuthorReply:encoder",
		Why: "the authorization reply encoder gets a fast path that returns bytes laid out by a helper (message length in the data-length slot)",
		Edits: []Edit{{File: "authorize.go", Old: `	buf := make([]byte, 0, AuthorReplyLen)
	buf = append(buf, uint8(a.Status))
	buf = append(buf, uint8(len(a.Args)))`, New: `	if len(a.Args) == 0 && len(a.Data) == 0 {
		fast := make([]byte, AuthorReplyLen, AuthorReplyLen+len(a.ServerMsg))
		fast[0] = uint8(a.Status)
		fast[AuthorReplyLen-1] = uint8(len(a.ServerMsg))
		return append(fast, a.ServerMsg...), nil
	}
	buf := make([]byte, 0, AuthorReplyLen)
	buf = append(buf, uint8(a.Status))
	buf = append(buf, uint8(len(a.Args)))`}}})
	addMutant(Mutant{Name: "c02-ascii-predicate-looks-at-every-other-octet", Props: []string{"C02"}, Rule: "R-ASCII", KeySub: "isAllASCII",
		Why: "the ASCII test strides by two: non-ASCII octets at odd positions pass every ASCII-only validator",
		Edits: []Edit{{File: "packet.go", Old: `	for i := 0; i < len(s); i++ {
		if s[i] > unicode.MaxASCII {`, New: `	for i := 0; i < len(s); i += 2 {
		if s[i] > unicode.MaxASCII {`}}})
	addMutant(Mutant{Name: "c04-args-validated-as-a-list-only", Props: []string{"C04"}, Rule: "R-VALIDATE-FIELDS", KeySub: "AuthorReply.Validate:Args",
		Why: "the reply validator checks the argument list as a whole (ASCII only) and no longer each argument (length 2..255)",
		Edits: []Edit{{File: "authorize.go", Old: `	for _, t := range []Field{a.Status, a.ServerMsg, a.Data} {
		if err := t.Validate(nil); err != nil {
			return err
		}
	}
	for _, t := range a.Args {
		if err := t.Validate(nil); err != nil {
			return err
		}
	}
	return nil
}

// MarshalBinary encodes AuthorReply into tacacs bytes`, New: `	for _, t := range []Field{a.Status, a.ServerMsg, a.Data, a.Args} {
		if err := t.Validate(nil); err != nil {
			return err
		}
	}
	return nil
}

// MarshalBinary encodes AuthorReply into tacacs bytes`}}})
	addMutant(Mutant{Name: "c12-success-under-a-bit-test", Props: []string{"C12"}, Rule: "R-ORDER", KeySub: "flags-compared-whole",
		Why: "the start acknowledgement is given when the start bit is set, whatever else is: start+stop is acknowledged",
		Edits: []Edit{{File: "cmds/server/config/accounters/local/local.go", Old: `	switch body.Flags {
	case tq.AcctFlagStart:`, New: `	if body.Flags.Has(tq.AcctFlagStart) {
		response.Reply(
			tq.NewAcctReply(
				tq.SetAcctReplyStatus(tq.AcctReplyStatusSuccess),
				tq.SetAcctReplyServerMsg("success, logging started"),
			),
		)
		return
	}
	switch body.Flags {
	case tq.AcctFlagStart:`}}})
	addMutant(Mutant{Name: "c13-authenticators-cached-by-user-name-across-scopes", Props: []string{"C13"}, Rule: "R-ADMIT", KeySub: "no-cross-scope-state",
		Why: "the build keeps authenticators in a map keyed by user name that lives across the loop over the scopes: a user of the second scope gets the first scope's credential",
		Edits: []Edit{{File: "cmds/server/loader/loader.go", Old: `					a, err := af.New(u.Name, u.Authenticator.Options)`, New: `					a, err := authenticators.get(af, u)`}, {File: "cmds/server/loader/loader.go", Old: `	providers := make([]tq.SecretProvider, 0, len(c.Secrets))`, New: `	providers := make([]tq.SecretProvider, 0, len(c.Secrets))
	authenticators := make(authCache)`}, {File: "cmds/server/loader/loader.go", Old: `type Loader struct {`, New: `type authCache map[string]tq.Handler

func (s authCache) get(af authenticatorFactory, u config.User) (tq.Handler, error) {
	if a, ok := s[u.Name]; ok {
		return a, nil
	}
	a, err := af.New(u.Name, u.Authenticator.Options)
	if err == nil {
		s[u.Name] = a
	}
	return a, err
}

type Loader struct {`}}})
	addMutant(Mutant{Name: "c16-kept-configuration-scrubbed-before-replacing", Props: []string{"C16"}, Rule: "R-FRESHDECODE", KeySub: "published-written",
		Why: "the YAML loader blanks the secrets of the configuration it kept before replacing it: the slice is shared with the value already published",
		Edits: []Edit{{File: "cmds/server/loader/yaml/yaml.go", Old: `	l.ServerConfig = c
	l.config <- c`, New: `	for i := range l.ServerConfig.Secrets {
		l.ServerConfig.Secrets[i].Name = ""
	}
	l.ServerConfig = c
	l.config <- c`}}})
	addMutant(Mutant{Name: "c19-decoder-trims-arguments", Props: []string{"C19", "C01", "C02"}, Rule: "R-LAYOUT", KeySub: "AuthorReply:decoder",
		Why: "the reply decoder trims blanks off every argument it reads: a consistent body no longer adds up and is taken for a key mismatch",
		Edits: []Edit{{File: "authorize.go", Old: `	for _, n := range argLens {
		a.Args = append(a.Args, Arg(buf.string(n)))
	}
	// detect secret mismatch
	if a.Len() != serverMsgLen+dataLen+totalArgLen {`, New: `	for _, n := range argLens {
		a.Args = append(a.Args, Arg(strings.TrimSpace(buf.string(n))))
	}
	// detect secret mismatch
	if a.Len() != serverMsgLen+dataLen+totalArgLen {`}, {File: "authorize.go", Old: `import (`, New: `import (
	"strings"`}}})
	addMutant(Mutant{Name: "c14-asv-without-negative-check", Props: []string{"C14"}, Rule: "R-BOUNDS", KeySub: "ASV",
		Why: "Arg.ASV slices at the separator index without handling 'not found'",
		Edits: []Edit{{File: "authorize_fields.go", Old: `	if i < 0 {
		return "", "", ""
	}
	return s[:i], string(s[i]), s[i+1:]`, New: `	return s[:i], string(s[i]), s[i+1:]`}}})
	addMutant(Mutant{Name: "c14-router-without-nil-check", Props: []string{"C14"}, Rule: "R-NILCHECK", KeySub: "AuthenticateStart",
		Why: "the START router calls the looked-up handler without checking for the unimplemented (nil) entries",
		Edits: []Edit{{File: "cmds/server/handlers/authen.go", Old: `	if h := authenRouter[key]; h != nil {
		h.Handle(response, request)
		return
	}`, New: `	if h, ok := authenRouter[key]; ok {
		h.Handle(response, request)
		return
	}`}}})
	addMutant(Mutant{Name: "c14-logger-dropped-from-response-logger", Props: []string{"C14"}, Rule: "R-NILIFACE", KeySub: "ResponseLogger",
		Why:   "the packet logger builds its ResponseLogger without a logger: the first logged reply dereferences nil",
		Edits: []Edit{{File: "cmds/server/handlers/response_logger.go", Old: `	return &ctxLogger{loggerProvider: l, Writer: &ResponseLogger{loggerProvider: l}}`, New: `	return &ctxLogger{loggerProvider: l, Writer: &ResponseLogger{}}`}}})
}

func init() {
	// ---- C03 ------------------------------------------------------------------------------
	addMutant(Mutant{Name: "c03-writer-length-store-dropped", Props: []string{"C03", "C06"}, Rule: "R-", KeySub: "",
		Why: "the writer no longer sets Header.Length from the body before computing the pad",
		Edits: []Edit{{File: "crypt.go", Old: `	p.Header.Length = uint32(len(p.Body))
`, New: ``}}})
	addMutant(Mutant{Name: "c03-detector-before-pad", Props: []string{"C03", "C19"}, Rule: "R-PADSHAPE", KeySub: "read",
		Why: "the key-mismatch detector runs on the still obfuscated body",
		Edits: []Edit{{File: "crypt.go", Old: `	// run crypt first before we look for bad secrets
	if err := crypt(c.secret, &p); err != nil {
		crypterCryptError.Inc()
		return nil, err
	}
`, New: ``},
			{File: "crypt.go", Old: `	crypterRead.Inc()
	return &p, nil`, New: `	if err := crypt(c.secret, &p); err != nil {
		crypterCryptError.Inc()
		return nil, err
	}
	crypterRead.Inc()
	return &p, nil`}}})
	addMutant(Mutant{Name: "c03-hash-order-version-before-key", Props: []string{"C03"}, Rule: "R-PADSHAPE", KeySub: "hash-input-order",
		Why: "version octet hashed before the key: self-consistent between this client and server",
		Edits: []Edit{{File: "crypt.go", Old: `		h.Write(secret)
		h.Write(version)`, New: `		h.Write(version)
		h.Write(secret)`}}})
	addMutant(Mutant{Name: "c03-flags-cleared-in-pad", Props: []string{"C03"}, Rule: "R-PADSHAPE", KeySub: "header-untouched",
		Why: "the pad function normalises the header flags",
		Edits: []Edit{{File: "crypt.go", Old: `	headerLen := int(p.Header.Length)`, New: `	p.Header.Flags.Clear(SingleConnect)
	p.Header.Flags = p.Header.Flags &^ SingleConnect
	headerLen := int(p.Header.Length)`}}})
	addMutant(Mutant{Name: "c03-pad-from-body-length", Props: []string{"C03"}, Rule: "R-PADSHAPE", KeySub: "pad-truncated",
		Why: "no truncation of the pad (pad longer than the body changes nothing for XOR but the chain test) — truncation dropped",
		Edits: []Edit{{File: "crypt.go", Old: `		// truncate to length of body
		if len(pad) > headerLen {
			pad = pad[:headerLen]
		}
`, New: ``}}})
	addMutant(Mutant{Name: "c03-seq-octet-from-constant", Props: []string{"C03"}, Rule: "R-PADSHAPE", KeySub: "hash-input-order",
		Why:   "the sequence octet fed to the hash is always 1",
		Edits: []Edit{{File: "crypt.go", Old: `	seqNo := []byte{byte(p.Header.SeqNo)}`, New: `	seqNo := []byte{byte(1)}`}}})
	addMutant(Mutant{Name: "c03-unencrypted-check-after-pad", Props: []string{"C03"}, Rule: "R-PADSHAPE", KeySub: "clear-flag-first",
		Why: "the clear flag is tested only for non-empty secrets",
		Edits: []Edit{{File: "crypt.go", Old: `	if p.Header.Flags.Has(UnencryptedFlag) {
		return nil
	}

	sessionID, err`, New: `	if len(secret) == 0 && p.Header.Flags.Has(UnencryptedFlag) {
		return nil
	}

	sessionID, err`}}})
	addMutant(Mutant{Name: "c03-xor-skips-first-byte", Props: []string{"C03"}, Rule: "R-PADSHAPE", KeySub: "xor-in-place",
		Why:   "the XOR uses pad[i] for body[i] except a shifted index",
		Edits: []Edit{{File: "crypt.go", Old: `		p.Body[i] = b ^ pad[i]`, New: `		p.Body[i] = b ^ pad[len(pad)-1-i]`}}})
}

func init() {
	// ---- C06 ------------------------------------------------------------------------------
	addMutant(Mutant{Name: "c06-flag-not-mirrored", Props: []string{"C06"}, Rule: "R-MIRROR", KeySub: "",
		Why: "the reply header omits SetHeaderFlag: replies to cleartext or single-connect requests carry flag octet 0",
		Edits: []Edit{{File: "handlers.go", Old: `		SetHeaderFlag(r.header.Flags),
`, New: ``}}})
	addMutant(Mutant{Name: "c06-minor-version-hardcoded", Props: []string{"C06"}, Rule: "R-MIRROR", KeySub: "mirror:Version",
		Why:   "the reply always carries minor version 0",
		Edits: []Edit{{File: "handlers.go", Old: `		SetHeaderVersion(r.header.Version),`, New: `		SetHeaderVersion(Version{MajorVersion: MajorVersion, MinorVersion: MinorVersionDefault}),`}}})
	addMutant(Mutant{Name: "c06-header-stored-only-on-success", Props: []string{"C06", "C08"}, Rule: "R-MIRROR", KeySub: "stored-header-advances",
		Why: "the stored header is advanced only after a successful write",
		Edits: []Edit{{File: "handlers.go", Old: `	r.header = *header
	p := NewPacket(`, New: `	p := NewPacket(`},
			{File: "handlers.go", Old: `	return r.Write(p)
}

// Write will write the packet`, New: `	n, err := r.Write(p)
	if err == nil {
		r.header = *header
	}
	return n, err
}

// Write will write the packet`}}})
	addMutant(Mutant{Name: "c06-handler-uses-write", Props: []string{"C06"}, Rule: "R-MIRROR", KeySub: "bypass",
		Why: "a reference handler sends a hand-made packet through Response.Write",
		Edits: []Edit{{File: "cmds/server/config/aaa.go", Old: `func (a *defaultAuthorizer) Handle(response tq.Response, request tq.Request) {
	response.Reply(`, New: `func (a *defaultAuthorizer) Handle(response tq.Response, request tq.Request) {
	if request.Header.SeqNo > 200 {
		b, _ := tq.NewAuthorReply(tq.SetAuthorReplyStatus(tq.AuthorStatusError)).MarshalBinary()
		response.Write(tq.NewPacket(tq.SetPacketHeader(tq.NewHeader(tq.SetHeaderType(tq.Authorize))), tq.SetPacketBody(b)))
		return
	}
	response.Reply(`}}})
	addMutant(Mutant{Name: "c06-restart-for-error-too", Props: []string{"C06"}, Rule: "R-MIRROR", KeySub: "sequence",
		Why:   "ERROR replies also reset the sequence number to 1",
		Edits: []Edit{{File: "handlers.go", Old: `		if t.Status == AuthenStatusRestart {`, New: `		if t.Status == AuthenStatusRestart || t.Status == AuthenStatusError {`}}})
	addMutant(Mutant{Name: "c06-seq-computed-in-8-bits", Props: []string{"C06"}, Rule: "R-MIRROR", KeySub: "sequence",
		Why:   "the next sequence number is computed in 8 bits: 255+1 wraps to 0",
		Edits: []Edit{{File: "handlers.go", Old: `	seqNo := int(r.header.SeqNo)`, New: `	seqNo := int(uint8(r.header.SeqNo) + 1 - 1)`}}})
	addMutant(Mutant{Name: "c06-session-id-from-context", Props: []string{"C06"}, Rule: "R-MIRROR", KeySub: "mirror:SessionID",
		Why:   "the reply takes the session id from a fresh random value",
		Edits: []Edit{{File: "handlers.go", Old: `		SetHeaderSessionID(r.header.SessionID),`, New: `		SetHeaderSessionID(SessionID(uint32(r.header.SessionID)|0)+SessionID(len(r.writers))),`}}})
}

func init() {
	// ---- C19 ------------------------------------------------------------------------------
	addMutant(Mutant{Name: "c19-threshold-two-for-authentication", Props: []string{"C19"}, Rule: "R-SIBLING", KeySub: "Authenticate:threshold",
		Why:   "two of three failed decoders already count as a key mismatch: valid requests are flagged",
		Edits: []Edit{{File: "crypt.go", Old: `		if errCnt == 3 {`, New: `		if errCnt >= 2 && errCnt == errCnt/1 && errCnt != 0 && errCnt == 2 {`}}})
	addMutant(Mutant{Name: "c19-continue-trial-dropped", Props: []string{"C19"}, Rule: "R-SIBLING", KeySub: "Authenticate",
		Why: "the CONTINUE decoder is no longer tried (threshold lowered accordingly): a valid CONTINUE under the right key is flagged when START and REPLY layouts mismatch",
		Edits: []Edit{{File: "crypt.go", Old: `		var ac AuthenContinue
		if err := Unmarshal(p.Body, &ac); errors.As(err, &badSecret) {
			errCnt++
		}
`, New: ``},
			{File: "crypt.go", Old: `		if errCnt == 3 {`, New: `		if errCnt == 2 {`}}})
	addMutant(Mutant{Name: "c19-fail-status-instead-of-error", Props: []string{"C19"}, Rule: "R-SIBLING", KeySub: "badSecretReply:Authorize",
		Why: "the authorization mismatch reply carries FAIL instead of ERROR",
		Edits: []Edit{{File: "crypt.go", Old: `			SetAuthorReplyStatus(AuthorStatusError),
			SetAuthorReplyServerMsg("bad secret"),`, New: `			SetAuthorReplyStatus(AuthorStatusFail),
			SetAuthorReplyServerMsg("bad secret"),`}}})
	addMutant(Mutant{Name: "c19-no-clear-flag-exemption", Props: []string{"C19"}, Rule: "R-SIBLING", KeySub: "clear-flag",
		Why: "cleartext requests are judged by the detector too",
		Edits: []Edit{{File: "crypt.go", Old: `func (c crypter) detectBadSecret(p *Packet) (*Packet, error) {
	if p.Header.Flags.Has(UnencryptedFlag) {
		return nil, nil
	}`, New: `func (c crypter) detectBadSecret(p *Packet) (*Packet, error) {`}}})
	addMutant(Mutant{Name: "c19-fallthrough-after-mismatch-reply", Props: []string{"C19", "C07"}, Rule: "R-", KeySub: "",
		Why: "after writing the mismatch reply the reader returns the packet: the mismatched request reaches a handler",
		Edits: []Edit{{File: "crypt.go", Old: `		return nil, fmt.Errorf("bad secret detected for ip [%s]", c.RemoteAddr().String())
	}`, New: `	}`}}})
	addMutant(Mutant{Name: "c19-count-any-error", Props: []string{"C19"}, Rule: "R-SIBLING", KeySub: "threshold",
		Why: "any decode error counts towards the mismatch: a request with a non-ASCII user name under the right key is flagged",
		Edits: []Edit{{File: "crypt.go", Old: `		var ar AcctRequest
		if err := Unmarshal(p.Body, &ar); errors.As(err, &badSecret) {`, New: `		var ar AcctRequest
		if err := Unmarshal(p.Body, &ar); err != nil {`}}})
	addMutant(Mutant{Name: "c19-validate-before-length-test", Props: []string{"C19"}, Rule: "R-SIBLING", KeySub: "AcctReply:mismatch-producer",
		Why: "a second producer of the mismatch error: status validation failure is reported as bad secret",
		Edits: []Edit{{File: "accounting.go", Old: `	// detect secret mismatch
	if a.Len() != serverMsgLen+dataLen {
		return NewBadSecretErr("bad secret detected acctreply")
	}`, New: `	if a.Status.Validate(nil) != nil {
		return NewBadSecretErr("bad secret detected acctreply")
	}
	// detect secret mismatch
	if a.Len() != serverMsgLen+dataLen {
		return NewBadSecretErr("bad secret detected acctreply")
	}`}}})
}

func init() {
	// ---- C10 ------------------------------------------------------------------------------
	addMutant(Mutant{Name: "c10-default-authenticator-pass", Props: []string{"C10"}, Rule: "R-PROVENANCE", KeySub: "",
		Why: "users without an authenticator are passed",
		Edits: []Edit{{File: "cmds/server/config/aaa.go", Old: `			tq.SetAuthenReplyStatus(tq.AuthenStatusFail),
			tq.SetAuthenReplyServerMsg("authentication denied"),`, New: `			tq.SetAuthenReplyStatus(tq.AuthenStatusPass),
			tq.SetAuthenReplyServerMsg("authentication denied"),`}}})
	addMutant(Mutant{Name: "c10-inverted-compare", Props: []string{"C10"}, Rule: "R-PROVENANCE", KeySub: "bcrypt",
		Why:   "the bcrypt result test is inverted",
		Edits: []Edit{{File: "cmds/server/config/authenticators/bcrypt/bcrypt.go", Old: `[]byte(password)); err == nil {`, New: `[]byte(password)); err != nil {`}}})
	addMutant(Mutant{Name: "c10-getuser-constant", Props: []string{"C10"}, Rule: "R-PROVENANCE", KeySub: "authenticator-binding",
		Why:   "the PAP handler always verifies against the user 'admin'",
		Edits: []Edit{{File: "cmds/server/handlers/authen_pap.go", Old: `	c := a.GetUser(string(body.User))`, New: `	c := a.GetUser("admin")`}}})
	addMutant(Mutant{Name: "c10-password-not-from-request", Props: []string{"C10"}, Rule: "R-PROVENANCE", KeySub: "bcrypt",
		Why:   "the authenticator compares the stored hash with the user name instead of the supplied password",
		Edits: []Edit{{File: "cmds/server/config/authenticators/bcrypt/bcrypt.go", Old: `bcrypt.CompareHashAndPassword(expectedHash, []byte(password))`, New: `bcrypt.CompareHashAndPassword(expectedHash, []byte(a.username+password[:0]))`}}})
	addMutant(Mutant{Name: "c10-empty-password-reaches-authenticator", Props: []string{"C10"}, Rule: "R-ORDER", KeySub: "empty-password",
		Why: "the empty-password shortcut of the ASCII flow is removed",
		Edits: []Edit{{File: "cmds/server/handlers/authen_ascii.go", Old: `	if len(body.UserMessage) == 0 {
		authenASCIIGetPasswordMissingPassword.Inc()`, New: `	if len(body.UserMessage) == 0 && len(body.Data) > 9999 {
		authenASCIIGetPasswordMissingPassword.Inc()`}}})
	addMutant(Mutant{Name: "c10-factory-error-keeps-user", Props: []string{"C10"}, Rule: "R-ORDER", KeySub: "authenticator-factory-error",
		Why: "a user whose authenticator cannot be built is still added (with whatever handlers were collected)",
		Edits: []Edit{{File: "cmds/server/loader/loader.go", Old: `						l.Errorf(l.ctx, "authenticator factory error in scope [%v], user [%v] will not be added; %v", provider.Name, u.Name, err)
						continue
					}
					opts = append(opts, config.SetAAAAuthenticator(a))`, New: `						l.Errorf(l.ctx, "authenticator factory error in scope [%v], user [%v] will not be added; %v", provider.Name, u.Name, err)
					} else {
						opts = append(opts, config.SetAAAAuthenticator(a))
					}`}}})
	addMutant(Mutant{Name: "c10-getpass-state-via-getuser-reply", Props: []string{"C10"}, Rule: "R-PROVENANCE", KeySub: "next",
		Why:   "the initial handler registers the password continuation directly with its GETUSER prompt: the user name is then taken as password state",
		Edits: []Edit{{File: "cmds/server/handlers/authen_ascii.go", Old: `		response.Next(tq.HandlerFunc(a.getUsername))`, New: `		response.Next(tq.HandlerFunc(a.getPassword))`}}})
	addMutant(Mutant{Name: "c10-username-from-data", Props: []string{"C10"}, Rule: "R-PROVENANCE", KeySub: "authenticator-binding",
		Why:   "the user name is taken from the data field of the CONTINUE",
		Edits: []Edit{{File: "cmds/server/handlers/authen_ascii.go", Old: `		a.username = string(body.UserMessage)`, New: `		a.username = string(body.Data) + string(body.UserMessage)`}}})
}

func init() {
	// ---- C13 ------------------------------------------------------------------------------
	addMutant(Mutant{Name: "c13-allow-before-deny", Props: []string{"C13"}, Rule: "R-ADMIT", KeySub: "order",
		Why: "the allow list is consulted before the deny list",
		Edits: []Edit{{File: "cmds/server/loader/loader.go", Old: `				if prefixDeny.deny(q.remote) {
					q.cb <- secretProvider{err: fmt.Errorf("remote address connection not allowed by prefixDeny filter [%v]", q.remote.String())}
					close(q.cb)
					return
				}
				if !prefixAllow.allow(q.remote) {
					q.cb <- secretProvider{err: fmt.Errorf("remote address connection not allowed by prefixAllow filter [%v]", q.remote.String())}
					close(q.cb)
					return
				}`, New: `				if prefixAllow.allow(q.remote) && len(prefixAllow.known) > 0 {
					secret, handler, err := l.get(q.ctx, providers, q.remote)
					q.cb <- secretProvider{secret: secret, handler: handler, err: err}
					close(q.cb)
					return
				}
				if prefixDeny.deny(q.remote) {
					q.cb <- secretProvider{err: fmt.Errorf("remote address connection not allowed by prefixDeny filter [%v]", q.remote.String())}
					close(q.cb)
					return
				}
				if !prefixAllow.allow(q.remote) {
					q.cb <- secretProvider{err: fmt.Errorf("remote address connection not allowed by prefixAllow filter [%v]", q.remote.String())}
					close(q.cb)
					return
				}`}}})
	addMutant(Mutant{Name: "c13-filters-swapped-at-build", Props: []string{"C13"}, Rule: "R-ADMIT", KeySub: "",
		Why: "the deny filter is built from prefix_allow and vice versa",
		Edits: []Edit{{File: "cmds/server/loader/loader.go", Old: `	prefixDeny := newPrefixFilter(strToIPNet(c.PrefixDeny))
	prefixAllow := newPrefixFilter(strToIPNet(c.PrefixAllow))`, New: `	prefixDeny := newPrefixFilter(strToIPNet(c.PrefixAllow))
	prefixAllow := newPrefixFilter(strToIPNet(c.PrefixDeny))`}}})
	addMutant(Mutant{Name: "c13-hasscope-filter-dropped", Props: []string{"C13"}, Rule: "R-ADMIT", KeySub: "users-scoped",
		Why: "every user is added to every scope",
		Edits: []Edit{{File: "cmds/server/loader/loader.go", Old: `			if !u.HasScope(provider.Name) {
				// nope, skip
				continue
			}`, New: `			if !u.HasScope(provider.Name) && len(u.Scopes) > 0 && u.Scopes[0] == "" {
				// nope, skip
				continue
			}`}}})
	addMutant(Mutant{Name: "c13-keep-serving-after-lookup-failure", Props: []string{"C13"}, Rule: "R-ADMIT", KeySub: "refusal",
		Why:   "a refused connection is only logged; serving continues with a nil handler check removed for the secret",
		Edits: []Edit{{File: "server.go", Old: `	if err != nil || secret == nil || handler == nil {`, New: `	if err != nil || handler == nil {`}}})
	addMutant(Mutant{Name: "c13-empty-deny-list-denies", Props: []string{"C13"}, Rule: "R-ADMIT", KeySub: "deny-semantics",
		Why: "an empty deny list refuses non-TCP and then everything falls to match: the early 'no opinion' return is dropped",
		Edits: []Edit{{File: "cmds/server/loader/prefix_filter.go", Old: `func (p prefixFilter) deny(remote net.Addr) bool {
	if len(p.known) < 1 {
		return false
	}`, New: `func (p prefixFilter) deny(remote net.Addr) bool {`}}})
	addMutant(Mutant{Name: "c13-scan-last-match-wins", Props: []string{"C13"}, Rule: "R-ADMIT", KeySub: "first-match-wins",
		Why: "the scan remembers the last matching provider instead of returning the first",
		Edits: []Edit{{File: "cmds/server/loader/loader.go", Old: `		secretKnown.Inc()
		return secret, handler, err
	}
	secretUnknown.Inc()
	return nil, nil, fmt.Errorf("remote [%v] has no secret providers", remote)`, New: `		secretKnown.Inc()
		lastS, lastH = secret, handler
	}
	if lastS != nil {
		return lastS, lastH, nil
	}
	secretUnknown.Inc()
	return nil, nil, fmt.Errorf("remote [%v] has no secret providers", remote)`},
			{File: "cmds/server/loader/loader.go", Old: `	for _, sp := range providers {
		secret, handler, err := sp.Get(ctx, remote)`, New: `	var lastS []byte
	var lastH tq.Handler
	for _, sp := range providers {
		secret, handler, err := sp.Get(ctx, remote)`}}})
	addMutant(Mutant{Name: "c13-keychain-of-first-secret", Props: []string{"C13"}, Rule: "R-ADMIT", KeySub: "provider-bound",
		Why:   "every provider gets the keychain function of the first secret configuration",
		Edits: []Edit{{File: "cmds/server/loader/loader.go", Old: `		secretFunc := l.keychainProvider.Add(provider.Secret)`, New: `		secretFunc := l.keychainProvider.Add(c.Secrets[0].Secret)`}}})
}

func init() {
	addMutant(Mutant{Name: "c09-table-shared-by-connections", Props: []string{"C09"}, Rule: "R-CONFINED", KeySub: "table-per-connection",
		Why: "one session table for the whole process: equal session ids on two connections meet",
		Edits: []Edit{{File: "server.go", Old: `	sessionProvider := newSessionProvider()
	defer sessionProvider.close()`, New: `	sessionProvider := processSessions
	defer sessionProvider.close()`},
			{File: "server.go", Old: `// DeadlineListener is a net.Listener`, New: `var processSessions = newSessionProvider()

// DeadlineListener is a net.Listener`}}})
	addMutant(Mutant{Name: "c09-delete-evicts-any", Props: []string{"C09"}, Rule: "R-CONFINED", KeySub: "delete-own-session",
		Why: "finishing a session also drops one arbitrary other session of the connection",
		Edits: []Edit{{File: "sessions.go", Old: `	delete(s.known, session)
}`, New: `	delete(s.known, session)
	for other := range s.known {
		delete(s.known, other)
		break
	}
}`}}})
	addMutant(Mutant{Name: "c09-response-hoisted", Props: []string{"C09"}, Rule: "R-LOOP", KeySub: "e:response",
		Why: "one response object for the connection: a continuation left by one session is seen after another session's packet",
		Edits: []Edit{{File: "server.go", Old: `			resp := &response{ctx: req.Context, crypter: c, loggerProvider: s.loggerProvider, header: req.Header}`,
			New: `			if connResp == nil {
				connResp = &response{}
			}
			resp := connResp
			resp.ctx, resp.crypter, resp.loggerProvider, resp.header = req.Context, c, s.loggerProvider, req.Header`},
			{File: "server.go", Old: `	sessionProvider := newSessionProvider()
	defer sessionProvider.close()`, New: `	sessionProvider := newSessionProvider()
	defer sessionProvider.close()
	var connResp *response`}}})
	addMutant(Mutant{Name: "c09-ascii-handler-shared", Props: []string{"C09"}, Rule: "R-CONFINED", KeySub: "AuthenticateASCII",
		Why: "the ASCII login handler (which remembers the user name between packets) is one object per process",
		Edits: []Edit{{File: "cmds/server/handlers/authen_ascii.go", Old: `	return &AuthenticateASCII{loggerProvider: l, configProvider: c, username: username, recorderWriter: newPacketLogger(l)}`,
			New: `	if sharedASCII == nil {
		sharedASCII = &AuthenticateASCII{loggerProvider: l, configProvider: c, recorderWriter: newPacketLogger(l)}
	}
	sharedASCII.username = username
	return sharedASCII`},
			{File: "cmds/server/handlers/authen_ascii.go", Old: `// NewAuthenticateASCII ...`, New: `var sharedASCII *AuthenticateASCII

// NewAuthenticateASCII ...`}}})
	addMutant(Mutant{Name: "c09-update-under-request-key", Props: []string{"C09", "C08"}, Rule: "R-LOOP", KeySub: "updater-body",
		Why: "update stores the continuation into whichever entry iteration finds first, not the session's own",
		Edits: []Edit{{File: "sessions.go", Old: `func (s *sessions) update(h Header, n Handler) {
	s.Lock()
	defer s.Unlock()
`, New: `func (s *sessions) update(h Header, n Handler) {
	s.Lock()
	defer s.Unlock()
	for id := range s.known {
		h.SessionID = id
		break
	}
`}}})
}

func init() {
	addMutant(Mutant{Name: "c05-lossy-reader-wrapper", Props: []string{"C05"}, Rule: "R-FRAMING", KeySub: "reader-created-once",
		Why: "the connection is wrapped in a reader whose Read under-reports what it consumed: bytes vanish between packets",
		Edits: []Edit{{File: "crypt.go", Old: `Reader: bufio.NewReaderSize(c, 107)`, New: `Reader: bufio.NewReaderSize(lossyReader{Conn: c}, 107)`},
			{File: "crypt.go", Old: `// newCrypter makes a new crypter`, New: `type lossyReader struct{ net.Conn }

func (l lossyReader) Read(b []byte) (int, error) {
	n, err := l.Conn.Read(b)
	if n > 1 {
		n--
	}
	return n, err
}

// newCrypter makes a new crypter`}}})
	addMutant(Mutant{Name: "c06-response-header-not-from-request", Props: []string{"C06"}, Rule: "R-LOOP", KeySub: "E:response-header",
		Why:   "the response starts from an empty header instead of the request's: replies carry session id 0",
		Edits: []Edit{{File: "server.go", Old: `loggerProvider: s.loggerProvider, header: req.Header}`, New: `loggerProvider: s.loggerProvider, header: Header{}}`}}})
	addMutant(Mutant{Name: "c09-delete-helper-conditional", Props: []string{"C08", "C09"}, Rule: "R-LOOP", KeySub: "delete-when-no-continuation",
		Why: "the remover only deletes when the entry has a continuation: finished sessions whose entry holds nil stay",
		Edits: []Edit{{File: "sessions.go", Old: `	delete(s.known, session)
}`, New: `	if sc := s.known[session]; sc != nil && sc.Handler != nil {
		delete(s.known, session)
	}
}`}}})
}

func init() {
	addMutant(Mutant{Name: "c20-add-in-both-places", Props: []string{"C20"}, Rule: "R-PAIR", KeySub: "goroutine-gauge-paired",
		Why: "the goroutine gauge is raised in the accept loop and again in the goroutine: it climbs by one per connection",
		Edits: []Edit{{File: "server.go", Old: `func (s *Server) serve(ctx context.Context, conn net.Conn) {
	defer s.Done()`, New: `func (s *Server) serve(ctx context.Context, conn net.Conn) {
	s.Add(1)
	defer s.Done()`}}})
	addMutant(Mutant{Name: "c20-add-before-accept-error", Props: []string{"C20", "C17"}, Rule: "R-PAIR", KeySub: "",
		Why: "Add(1) moves before the accept error test: a failed accept raises the count with no goroutine to lower it",
		Edits: []Edit{{File: "server.go", Old: `			conn, err := listener.Accept()
			if err != nil {`, New: `			conn, err := listener.Accept()
			s.Add(1)
			if err != nil {`},
			{File: "server.go", Old: `			s.Add(1)
			go s.serve(ctx, conn)`, New: `			go s.serve(ctx, conn)`}}})
}

func init() {
	addMutant(Mutant{Name: "c15-config-value-receiver", Props: []string{"C15"}, Rule: "R-GOFIELD", KeySub: "yaml.YAML.ServerConfig",
		Why:   "the repaired value receiver comes back: every Config() call in the update loop copies the loader struct while the watcher goroutine assigns its ServerConfig field",
		Edits: []Edit{{File: "cmds/server/loader/yaml/yaml.go", Old: `func (l *YAML) Config() chan config.ServerConfig {`, New: `func (l YAML) Config() chan config.ServerConfig {`}}})
	addMutant(Mutant{Name: "c15-loader-generation-counter", Props: []string{"C15"}, Rule: "R-GOFIELD", KeySub: "loader.Loader.generation",
		Why: "the update goroutine counts reloads in a Loader field; Get (value receiver, called from every connection goroutine) copies the struct",
		Edits: []Edit{{File: "cmds/server/loader/loader.go", Old: `	query              chan queryGet
	warm               chan struct{}
}`, New: `	query              chan queryGet
	warm               chan struct{}
	generation         int
}`},
			{File: "cmds/server/loader/loader.go", Old: `			buildUpdate.Inc()
			// notify that we are warmed`, New: `			buildUpdate.Inc()
			l.generation++
			// notify that we are warmed`}}})
	addMutant(Mutant{Name: "c15-watcher-reload-stamp", Props: []string{"C15"}, Rule: "R-GOFIELD", KeySub: "fsnotify.Watcher.reloads",
		Why: "the watcher goroutine counts reloads in a field that Config(), called from the update goroutine, reads",
		Edits: []Edit{{File: "cmds/server/loader/fsnotify/fsnotify.go", Old: `	watchman *fsnotify.Watcher
`, New: `	watchman *fsnotify.Watcher
	reloads  int
`},
			{File: "cmds/server/loader/fsnotify/fsnotify.go", Old: `				pending = 0
`, New: `				pending = 0
				w.reloads++
`},
			{File: "cmds/server/loader/fsnotify/fsnotify.go", Old: `func (w *Watcher) Config() chan config.ServerConfig {
`, New: `func (w *Watcher) Config() chan config.ServerConfig {
	if w.reloads > 1000 {
		w.Debugf(w.ctx, "many reloads")
	}
`}}})
	addMutant(Mutant{Name: "benign-watcher-field-before-go", Benign: true, Props: []string{"C15", "C16"},
		Why: "the watcher records the watched path in a field before it starts its goroutine, which reads it",
		Edits: []Edit{{File: "cmds/server/loader/fsnotify/fsnotify.go", Old: `	watchman *fsnotify.Watcher
`, New: `	watchman *fsnotify.Watcher
	dir      string
`},
			{File: "cmds/server/loader/fsnotify/fsnotify.go", Old: `	w.watchman = watcher
	go w.watch(path)`, New: `	w.watchman = watcher
	w.dir = filepath.Dir(path)
	go w.watch(path)`},
			{File: "cmds/server/loader/fsnotify/fsnotify.go", Old: `	w.Infof(w.ctx, "watching %s", base)`, New: `	w.Infof(w.ctx, "watching %s in %s", base, w.dir)`}}})
}

func init() {
	addMutant(Mutant{Name: "c07-user-validator-relaxed", Props: []string{"C07"}, Rule: "R-ECHO", KeySub: "reply-text",
		Why: "the user name validator accepts any UTF-8: the denial replies echo the name into an ASCII-only server_msg, the encoder refuses the reply, the request gets none",
		Edits: []Edit{{File: "authenticate_fields.go", Old: `func (t AuthenUser) Validate(condition interface{}) error {
	// https://datatracker.ietf.org/doc/html/rfc8907#section-3.6
	if isAllASCII(string(t)) {
		return nil
	}`, New: `func (t AuthenUser) Validate(condition interface{}) error {
	// https://datatracker.ietf.org/doc/html/rfc8907#section-3.6
	if isAllASCII(string(t)) || len(t) < 64 {
		return nil
	}`}}})
	addMutant(Mutant{Name: "c07-reply-text-non-ascii-constant", Props: []string{"C07"}, Rule: "R-ECHO", KeySub: "reply-text",
		Why:   "a typographic dash in an authorization denial text: AuthorServerMsg is ASCII-only, the reply never marshals",
		Edits: []Edit{{File: "cmds/server/config/aaa.go", Old: `tq.SetAuthorReplyServerMsg("authorization denied")`, New: `tq.SetAuthorReplyServerMsg("authorization denied – no authorizer")`}}})
	addMutant(Mutant{Name: "c07-reply-echoes-port-unvalidated-path", Props: []string{"C07"}, Rule: "R-ECHO", KeySub: "reply-text",
		Why:   "the accounting denial echoes the raw request body instead of a validated field",
		Edits: []Edit{{File: "cmds/server/handlers/acct.go", Old: `fmt.Sprintf("failed to lookup user [%s] for accounting login", string(body.User))`, New: `fmt.Sprintf("failed to lookup user [%s] for accounting login", string(request.Body[8:]))`}}})
	addMutant(Mutant{Name: "c19-status-validated-before-length-test", Props: []string{"C19", "C07"}, Rule: "R-SIBLING", KeySub: "AuthorReply:mismatch-producer",
		Why: "a decoder returns a content error before the length-sum test: a wrong-key body fails it first, is not counted, and reaches a handler",
		Edits: []Edit{{File: "authorize.go", Old: `	if a.Len() != serverMsgLen+dataLen+totalArgLen {`, New: `	if err := a.Status.Validate(nil); err != nil {
		return err
	}
	if a.Len() != serverMsgLen+dataLen+totalArgLen {`}}})
}

func init() {
	addMutant(Mutant{Name: "c17-update-loop-exits-on-cancel", Props: []string{"C17"}, Rule: "R-NOBLOCK", KeySub: "send:query",
		Why: "the loader's update loop returns on cancellation while Get still sends on the unbuffered query channel: a connection accepted afterwards blocks forever and Serve never returns",
		Edits: []Edit{{File: "cmds/server/loader/loader.go", Old: `		select {
		case c := <-l.Config():`, New: `		select {
		case <-l.ctx.Done():
			return
		case c := <-l.Config():`}}})
	addMutant(Mutant{Name: "c17-lookup-goroutine-returns-silently", Props: []string{"C17", "C13"}, Rule: "R-", KeySub: "",
		Why: "the lookup goroutine returns on a deny hit without answering: the connection goroutine waits forever on the reply channel",
		Edits: []Edit{{File: "cmds/server/loader/loader.go", Old: `				if prefixDeny.deny(q.remote) {
					q.cb <- secretProvider{err: fmt.Errorf("remote address connection not allowed by prefixDeny filter [%v]", q.remote.String())}
					close(q.cb)
					return
				}`, New: `				if prefixDeny.deny(q.remote) {
					return
				}`}}})
	addMutant(Mutant{Name: "c09-wrapper-remembers-first-flags", Props: []string{"C09"}, Rule: "R-CONFINED", KeySub: "connection-state",
		Why: "the stream wrapper keeps the flags of the last packet read; another session's reply could use them",
		Edits: []Edit{{File: "crypt.go", Old: `	// proxy if set, will strip the ha-proxy style ascii header
	proxy bool
}`, New: `	// proxy if set, will strip the ha-proxy style ascii header
	proxy bool
	last  HeaderFlag
}`},
			{File: "crypt.go", Old: `	crypterRead.Inc()
	return &p, nil`, New: `	crypterRead.Inc()
	c.last = p.Header.Flags
	return &p, nil`}}})
	addMutant(Mutant{Name: "c15-providers-kept-when-build-empty", Props: []string{"C15", "C13", "C16"}, Rule: "R-", KeySub: "",
		Why: "providers are replaced only when the build yields some, filters always: lookups see a mixture of two configurations",
		Edits: []Edit{{File: "cmds/server/loader/loader.go", Old: `			providers = l.build(c)
`, New: `			if built := l.build(c); len(built) > 0 {
				providers = built
			}
`}}})
	addMutant(Mutant{Name: "c11-localize-scope-in-place", Props: []string{"C11", "C13", "C15", "C16"}, Rule: "R-BUILDWRITE", KeySub: "LocalizeToScope",
		Why:   "the scope is written into the backing array every per-scope copy of the user shares: the authorizer built for an earlier scope sees a later scope's name",
		Edits: []Edit{{File: "cmds/server/config/types.go", Old: `	u.Scopes = []string{scope}`, New: `	u.Scopes = append(u.Scopes[:0], scope)`}}})
	addMutant(Mutant{Name: "c13-keychain-keys-by-group", Props: []string{"C13", "C10", "C16"}, Rule: "R-BUILDWRITE", KeySub: "Keychain",
		Why: "the keychain stages keys per group in its own map: two scopes with the same group name overwrite each other's key",
		Edits: []Edit{{File: "cmds/server/config/secret/keychain.go", Old: `type Keychain struct{}`, New: `type Keychain struct{ keys map[string]string }`},
			{File: "cmds/server/config/secret/keychain.go", Old: `	return func(ctx context.Context, username string) ([]byte, error) {
		return []byte(kc.Key), nil
	}`, New: `	k.keys[kc.Group] = kc.Key
	group := kc.Group
	return func(ctx context.Context, username string) ([]byte, error) {
		return []byte(k.keys[group]), nil
	}`}}})
	addMutant(Mutant{Name: "c08-first-packet-fast-path", Props: []string{"C08", "C07", "C20"}, Rule: "R-SEQ", KeySub: "new-flow-only-on-miss",
		Why: "sequence number 1 is reported as a new flow without consulting the table: a repeated START of a live session is dispatched again and counted twice",
		Edits: []Edit{{File: "sessions.go", Old: `	s.Lock()
	defer s.Unlock()
	sc, ok := s.known[h.SessionID]
	if !ok {
		sessionsGetMiss.Inc()
		return nil, nil`, New: `	if h.SeqNo == 1 {
		return nil, nil
	}
	s.Lock()
	defer s.Unlock()
	sc, ok := s.known[h.SessionID]
	if !ok {
		sessionsGetMiss.Inc()
		return nil, nil`}}})
	addMutant(Mutant{Name: "c08-seqno-setter-keeps-one-octet", Props: []string{"C08", "C06"}, Rule: "R-MIRROR", KeySub: "",
		Why:   "the header option keeps only the low octet: 256 (after request 255) is recorded as 0 and number 1 is accepted again",
		Edits: []Edit{{File: "header.go", Old: `		h.SeqNo = SequenceNumber(v)`, New: `		h.SeqNo = SequenceNumber(uint8(v))`}}})
	addMutant(Mutant{Name: "c05-read-timeout-continues", Props: []string{"C05", "C07", "C17"}, Rule: "R-LOOP", KeySub: "",
		Why: "a read error is not terminal: the next read starts in the middle of the stalled packet",
		Edits: []Edit{{File: "server.go", Old: `			packet, err := c.read()
			if err != nil {`, New: `			packet, err := c.read()
			if ne, ok := err.(net.Error); ok && ne.Timeout() {
				continue
			}
			if err != nil {`}}})
}

func init() {
	addMutant(Mutant{Name: "c11-blank-patterns-dropped-at-construction", Props: []string{"C11"}, Rule: "R-RULELIST", KeySub: "match-list",
		Why: "blank patterns are dropped when the authorizer is built; a rule whose patterns are all blank becomes 'applies always' under the evaluator's empty-list convention",
		Edits: []Edit{{File: "cmds/server/config/authorizers/stringy/stringy.go", Old: `	a.ReduceAll(&user)
`, New: `	a.ReduceAll(&user)
	for i := range user.Commands {
		kept := make([]string, 0, len(user.Commands[i].Match))
		for _, m := range user.Commands[i].Match {
			if m != "" {
				kept = append(kept, m)
			}
		}
		user.Commands[i].Match = kept
	}
`}}})
}

func init() {
	addMutant(Mutant{Name: "c01-header-subslices-swapped", Props: []string{"C01", "C02"}, Rule: "R-LAYOUT", KeySub: "Header:encoder",
		Why: "the header encoder is rewritten with named sub-slices and the session id and length land in each other's place",
		Edits: []Edit{{File: "header.go", Old: `	binary.BigEndian.PutUint32(buf[4:], uint32(h.SessionID))
	binary.BigEndian.PutUint32(buf[8:], h.Length)`, New: `	sessionID, length := buf[8:MaxHeaderLength], buf[4:8]
	binary.BigEndian.PutUint32(sessionID, uint32(h.SessionID))
	binary.BigEndian.PutUint32(length, h.Length)`}}})
	addMutant(Mutant{Name: "c01-packet-copy-body-first", Props: []string{"C01", "C02"}, Rule: "R-LAYOUT", KeySub: "Packet:encoder",
		Why: "the packet encoder is rewritten with make+copy and copies the body before the header",
		Edits: []Edit{{File: "packet.go", Old: `	buf := make([]byte, 0, len(head)+len(p.Body))
	buf = append(buf, head...)
	buf = append(buf, p.Body...)
	return buf, nil`, New: `	buf := make([]byte, len(head)+len(p.Body))
	n := copy(buf, p.Body)
	copy(buf[n:], head)
	return buf, nil`}}})
	addMutant(Mutant{Name: "c01-header-decoder-octets-crossed", Props: []string{"C01", "C02", "C19"}, Rule: "R-LAYOUT", KeySub: "Header:decoder",
		Why: "the header decoder, rewritten as a tuple assignment, reads the flags from the sequence octet and vice versa",
		Edits: []Edit{{File: "header.go", Old: `	h.Type = HeaderType(data[1])
	h.SeqNo = SequenceNumber(data[2])
	h.Flags = HeaderFlag(data[3])`, New: `	h.Type, h.SeqNo, h.Flags = HeaderType(data[1]), SequenceNumber(data[3]), HeaderFlag(data[2])`}}})
}

func init() {
	// forms read since round 4 (symbolic header encoder, bounds through a variadic helper, table-driven enum
	// validator): each recogniser gets a breaking variant, and a benign one in benign.go
	addMutant(Mutant{Name: "c01-header-appended-pieces-length-before-session", Props: []string{"C01"}, Rule: "R-LAYOUT", KeySub: "Header:encoder",
		Why: "the header is put together by appending staged pieces, with the length ahead of the session id",
		Edits: []Edit{{File: "header.go", Old: `	buf := make([]byte, MaxHeaderLength)
	version, err := h.Version.MarshalBinary()
	if err != nil {
		return nil, err
	}
	buf[0] = version[0]
	buf[1] = uint8(h.Type)
	buf[2] = uint8(h.SeqNo)
	buf[3] = uint8(h.Flags)
	binary.BigEndian.PutUint32(buf[4:], uint32(h.SessionID))
	binary.BigEndian.PutUint32(buf[8:], h.Length)
	return buf, nil`, New: `	version, err := h.Version.MarshalBinary()
	if err != nil {
		return nil, err
	}
	var sessionID, length [4]byte
	binary.BigEndian.PutUint32(sessionID[:], uint32(h.SessionID))
	binary.BigEndian.PutUint32(length[:], h.Length)
	buf := make([]byte, 0, MaxHeaderLength)
	buf = append(buf, version...)
	buf = append(buf, uint8(h.Type), uint8(h.SeqNo), uint8(h.Flags))
	buf = append(buf, length[:]...)
	buf = append(buf, sessionID[:]...)
	return buf, nil`}}})
	addMutant(Mutant{Name: "c02-length-bounds-through-helper-with-the-wrong-limit", Props: []string{"C02"}, Rule: "R-NARROW", KeySub: "AcctRequest.MarshalBinary",
		Why: "the one-octet length fields are checked through a variadic helper against 0xffff",
		Edits: []Edit{{File: "accounting.go", Old: `	if len(a.User) > 0xff || len(a.Port) > 0xff || len(a.RemAddr) > 0xff || len(a.Args) > 0xff {
		return fmt.Errorf("user, port and rem_addr must not exceed 255 bytes each, nor args 255 entries")
	}
	// validate
	for _, t := range []Field{a.Method, a.PrivLvl, a.Type, a.Service, a.User, a.Port, a.RemAddr, a.Flags} {`, New: `	if anyLenExceeds(0xffff, len(a.User), len(a.Port), len(a.RemAddr), len(a.Args)) {
		return fmt.Errorf("user, port and rem_addr must not exceed 255 bytes each, nor args 255 entries")
	}
	// validate
	for _, t := range []Field{a.Method, a.PrivLvl, a.Type, a.Service, a.User, a.Port, a.RemAddr, a.Flags} {`}, {File: "accounting.go", Old: `// Validate all fields on this type
func (a *AcctRequest) Validate() error {`, New: `func anyLenExceeds(limit int, lens ...int) bool {
	for _, n := range lens {
		if n > limit {
			return true
		}
	}
	return false
}

// Validate all fields on this type
func (a *AcctRequest) Validate() error {`}}})
	addMutant(Mutant{Name: "c07-header-type-table-has-an-undeclared-entry", Props: []string{"C07"}, Rule: "R-ENUM", KeySub: "validate:HeaderType",
		Why: "the header types are validated against a table of names that has an entry for the undefined value 4",
		Edits: []Edit{{File: "header_fields.go", Old: `	switch t {
	case Authenticate, Authorize, Accounting:
		return nil
	}
	return fmt.Errorf("unknown HeaderType value [%v]", t)
}`, New: `	if int(t) < len(headerTypeNames) && headerTypeNames[t] != "" {
		return nil
	}
	return fmt.Errorf("unknown HeaderType value [%v]", t)
}

var headerTypeNames = [...]string{
	Authenticate: "Authenticate",
	Authorize:    "Authorize",
	Accounting:   "Accounting",
	4:            "Reserved",
}`}}})
}

func init() {
	addMutant(Mutant{Name: "c19-fields-candidate-table-misses-the-reply", Props: []string{"C19"}, Rule: "R-SIBLING", KeySub: "Request.Fields:Authenticate",
		Why: "Request.Fields takes its candidates from a per-type list that leaves out the authentication reply",
		Edits: []Edit{{File: "handlers.go", Old: `	switch r.Header.Type {
	case Authenticate:
		var as AuthenStart
		if err := Unmarshal(r.Body, &as); err == nil {
			merge(allFields, as.Fields())
			return allFields
		}
		var ac AuthenContinue
		if err := Unmarshal(r.Body, &ac); err == nil {
			merge(allFields, ac.Fields())
			return allFields
		}
		var ar AuthenReply
		if err := Unmarshal(r.Body, &ar); err == nil {
			merge(allFields, ar.Fields())
			return allFields
		}

	case Authorize:
		var ar AuthorRequest
		if err := Unmarshal(r.Body, &ar); err == nil {
			merge(allFields, ar.Fields())
			return allFields
		}
		var arr AuthorReply
		if err := Unmarshal(r.Body, &arr); err == nil {
			merge(allFields, arr.Fields())
			return allFields
		}

	case Accounting:
		var ar AcctRequest
		if err := Unmarshal(r.Body, &ar); err == nil {
			merge(allFields, ar.Fields())
			return allFields
		}
		var arr AcctReply
		if err := Unmarshal(r.Body, &arr); err == nil {
			merge(allFields, arr.Fields())
			return allFields
		}
	}
	// unknown packet
	return nil
}
`, New: `	for _, body := range fieldCandidates(r.Header.Type) {
		if err := Unmarshal(r.Body, body); err == nil {
			merge(allFields, body.Fields())
			return allFields
		}
	}
	// unknown packet
	return nil
}

func fieldCandidates(t HeaderType) []EncoderDecoder {
	switch t {
	case Authenticate:
		return []EncoderDecoder{&AuthenStart{}, &AuthenContinue{}}
	case Authorize:
		return []EncoderDecoder{&AuthorRequest{}, &AuthorReply{}}
	case Accounting:
		return []EncoderDecoder{&AcctRequest{}, &AcctReply{}}
	}
	return nil
}
`}}})
}

func init() {
	// round 5: state shared by all sessions, reached through a pointer field of the per-session handler object
	addMutant(Mutant{Name: "c09-user-names-in-a-locked-table-shared-by-all-connections", Props: []string{"C09"}, Rule: "R-CONFINED", KeySub: "state-shared-by-sessions",
		Why: "the ASCII login keeps user names in a package-level table keyed by session id alone (properly locked): two connections using the same id see each other's user name",
		Edits: []Edit{{File: "cmds/server/handlers/authen_ascii.go", Old: `import (
	"fmt"

	tq "github.com/facebookincubator/tacquito"
)

// NewAuthenticateASCII ...`, New: `import (
	"fmt"
	"sync"

	tq "github.com/facebookincubator/tacquito"
)

// NewAuthenticateASCII ...`}, {File: "cmds/server/handlers/authen_ascii.go", Old: `	return &AuthenticateASCII{loggerProvider: l, configProvider: c, username: username, recorderWriter: newPacketLogger(l)}
}`, New: `	return &AuthenticateASCII{loggerProvider: l, configProvider: c, username: username, names: asciiNames, recorderWriter: newPacketLogger(l)}
}

// asciiNames remembers the user name given for a session id, so that a client that repeats its user name
// prompt does not have to be asked again
var asciiNames = &nameTable{byID: map[tq.SessionID]string{}}

type nameTable struct {
	mu   sync.Mutex
	byID map[tq.SessionID]string
}

func (u *nameTable) note(id tq.SessionID, name string) {
	u.mu.Lock()
	defer u.mu.Unlock()
	u.byID[id] = name
}

func (u *nameTable) get(id tq.SessionID) string {
	u.mu.Lock()
	defer u.mu.Unlock()
	return u.byID[id]
}`}, {File: "cmds/server/handlers/authen_ascii.go", Old: `	configProvider
	username string
}`, New: `	configProvider
	username string
	names    *nameTable
}`}, {File: "cmds/server/handlers/authen_ascii.go", Old: `		a.username = string(body.UserMessage)
	}`, New: `		a.username = string(body.UserMessage)
		a.names.note(request.Header.SessionID, a.username)
	} else if prev := a.names.get(request.Header.SessionID); prev != "" {
		a.username = prev
	}`}}})
	addMutant(Mutant{Name: "c15-user-names-in-an-unlocked-table-behind-a-handler-field", Props: []string{"C15", "C09"}, Rule: "R-SHAREDWRITE", KeySub: "nameTable).note",
		Why: "the same table written without its lock: a data race between connection goroutines, reached through a pointer field of the per-session handler",
		Edits: []Edit{{File: "cmds/server/handlers/authen_ascii.go", Old: `import (
	"fmt"

	tq "github.com/facebookincubator/tacquito"
)

// NewAuthenticateASCII ...`, New: `import (
	"fmt"
	"sync"

	tq "github.com/facebookincubator/tacquito"
)

// NewAuthenticateASCII ...`}, {File: "cmds/server/handlers/authen_ascii.go", Old: `	return &AuthenticateASCII{loggerProvider: l, configProvider: c, username: username, recorderWriter: newPacketLogger(l)}
}`, New: `	return &AuthenticateASCII{loggerProvider: l, configProvider: c, username: username, names: asciiNames, recorderWriter: newPacketLogger(l)}
}

// asciiNames remembers the user name given for a session id, so that a client that repeats its user name
// prompt does not have to be asked again
var asciiNames = &nameTable{byID: map[tq.SessionID]string{}}

type nameTable struct {
	mu   sync.Mutex
	byID map[tq.SessionID]string
}

func (u *nameTable) note(id tq.SessionID, name string) {
	u.byID[id] = name
}

func (u *nameTable) get(id tq.SessionID) string {
	u.mu.Lock()
	defer u.mu.Unlock()
	return u.byID[id]
}`}, {File: "cmds/server/handlers/authen_ascii.go", Old: `	configProvider
	username string
}`, New: `	configProvider
	username string
	names    *nameTable
}`}, {File: "cmds/server/handlers/authen_ascii.go", Old: `		a.username = string(body.UserMessage)
	}`, New: `		a.username = string(body.UserMessage)
		a.names.note(request.Header.SessionID, a.username)
	} else if prev := a.names.get(request.Header.SessionID); prev != "" {
		a.username = prev
	}`}}})
}
