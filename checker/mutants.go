package main

// Self-test mutants (DESIGN §6): realistic breakages that compile and pass the pinned
// tests, applied in memory through packages.Config.Overlay. Each names the rule expected
// to report it. A mutant whose target text is absent on an edited tree is skipped.

func init() {
	// ---- C07 ------------------------------------------------------------------------------
	addMutant(Mutant{Name: "c07-pap-missing-password-no-return", Props: []string{"C07"}, Rule: "R-REPLYCOUNT", KeySub: "AuthenticatePAP",
		Why: "PAP missing-password path replies FAIL and then falls through to the authenticator (second reply)",
		Edits: []Edit{{File: "cmds/server/handlers/authen_pap.go", Old: `				tq.SetAuthenReplyServerMsg("missing password"),
			),
			a.recorderWriter,
		)
		return
`, New: `				tq.SetAuthenReplyServerMsg("missing password"),
			),
			a.recorderWriter,
		)
`}}})
	addMutant(Mutant{Name: "c07-router-fallthrough", Props: []string{"C07"}, Rule: "R-REPLYCOUNT", KeySub: "AuthenticateStart",
		Why: "after delegating to the routed handler the START handler also sends the 'unknown packet' error",
		Edits: []Edit{{File: "cmds/server/handlers/authen.go", Old: `		h.Handle(response, request)
		return
`, New: `		h.Handle(response, request)
`}}})
	addMutant(Mutant{Name: "c07-stringy-revert-fix", Props: []string{"C07"}, Rule: "R-REPLYCOUNT", KeySub: "stringy.Authorizer",
		Why: "the repaired missing return after the user-mismatch reply comes back",
		Edits: []Edit{{File: "cmds/server/config/authorizers/stringy/stringy.go", Old: `				tq.SetAuthorReplyServerMsg("not authorized"),
			),
		)
		return
	}

	if authorizer := NewCommandBasedAuthorizer(`, New: `				tq.SetAuthorReplyServerMsg("not authorized"),
			),
		)
	}

	if authorizer := NewCommandBasedAuthorizer(`}}})
	addMutant(Mutant{Name: "c07-ascii-abort-no-reply", Props: []string{"C07"}, Rule: "R-REPLYCOUNT", KeySub: "getPassword",
		Why: "abort in the password state returns without any reply: the client waits until the deadline",
		Edits: []Edit{{File: "cmds/server/handlers/authen_ascii.go", Old: `	// user-msg will contain a password here, obscure it if logging
	if reply := a.authenticateContinueStop(request); reply != nil {
		response.ReplyWithContext(request.Context, reply, a.recorderWriter)
		return
	}`, New: `	// user-msg will contain a password here, obscure it if logging
	if reply := a.authenticateContinueStop(request); reply != nil {
		return
	}`}}})
	addMutant(Mutant{Name: "c07-loop-continue-on-session-error", Props: []string{"C07", "C08"}, Rule: "R-LOOP", KeySub: ":c:",
		Why: "a sequence violation no longer closes the connection: the loop goes on reading",
		Edits: []Edit{{File: "server.go", Old: `				s.Errorf(ctx, "unable to obtain a session; connection will close; %v", err)
				return`, New: `				s.Errorf(ctx, "unable to obtain a session; connection will close; %v", err)
				continue`}}})
	addMutant(Mutant{Name: "c07-loop-handler-despite-session-error", Props: []string{"C07", "C08"}, Rule: "R-LOOP", KeySub: ":b:",
		Why: "the session error is logged but the initial handler still runs for the rejected packet",
		Edits: []Edit{{File: "server.go", Old: `				s.Errorf(ctx, "unable to obtain a session; connection will close; %v", err)
				return
			}`, New: `				s.Errorf(ctx, "unable to obtain a session; connection will close; %v", err)
			}`}}})
	addMutant(Mutant{Name: "c07-loop-no-deferred-close", Props: []string{"C07", "C17"}, Rule: "R-LOOP", KeySub: ":a:",
		Why: "the deferred Close is dropped: rejected requests leave the connection open",
		Edits: []Edit{{File: "server.go", Old: `	defer c.Close()
`, New: ``}}})

	// ---- C08 ------------------------------------------------------------------------------
	addMutant(Mutant{Name: "c08-drop-parity", Props: []string{"C08"}, Rule: "R-SEQ", KeySub: "parity",
		Why: "the parity check is dropped from the session lookup; the suite only sends 1,3,5",
		Edits: []Edit{{File: "sessions.go", Old: `	if err := ClientSequenceNumber(h.SeqNo).Validate(nil); err != nil {
		s.delete(h.SessionID)
		return nil, fmt.Errorf("sessionID [%v] sequence number is corrupted; %v", h.SessionID, err)
	}
`, New: ``}}})
	addMutant(Mutant{Name: "c08-geq-to-gtr", Props: []string{"C08"}, Rule: "R-SEQ", KeySub: "progression-predicate",
		Why: "last >= current becomes last > current: a replayed number is accepted",
		Edits: []Edit{{File: "header_fields.go", Old: `	if last >= current {`, New: `	if last > current {`}}})
	addMutant(Mutant{Name: "c08-compare-with-request", Props: []string{"C08"}, Rule: "R-SEQ", KeySub: "progression",
		Why: "the progression check compares the request's number with itself instead of the stored one",
		Edits: []Edit{{File: "sessions.go", Old: `LastSequence(sc.header.SeqNo).Validate(h.SeqNo)`, New: `LastSequence(h.SeqNo - 1).Validate(h.SeqNo)`}}})
	addMutant(Mutant{Name: "c08-no-delete-when-finished", Props: []string{"C08"}, Rule: "R-LOOP", KeySub: "delete-when-no-continuation",
		Why: "finished sessions keep their entry: a later packet with that id is checked against a stale number and handler nil",
		Edits: []Edit{{File: "server.go", Old: `				sessionProvider.delete(req.Header.SessionID)
				continue`, New: `				continue`}}})
	addMutant(Mutant{Name: "c08-revert-lastsequence-width", Props: []string{"C08"}, Rule: "R-NARROW", KeySub: "progression-width",
		Why: "the repaired 8-bit comparison comes back: 256 compares as 0",
		Edits: []Edit{{File: "header_fields.go", Old: `type LastSequence uint16`, New: `type LastSequence uint8`},
			{File: "header_fields.go", Old: `	last := uint16(t)
	var current uint16`, New: `	last := uint8(t)
	var current uint8`},
			{File: "header_fields.go", Old: `		current = uint16(v)`, New: `		current = uint8(v)`}}})
	addMutant(Mutant{Name: "c08-update-with-request-header", Props: []string{"C08"}, Rule: "R-LOOP", KeySub: "update-args",
		Why: "the entry is updated with the request header: the reply's number is not recorded as 'sent'",
		Edits: []Edit{{File: "server.go", Old: `sessionProvider.update(resp.header, resp.next)`, New: `sessionProvider.update(req.Header, resp.next)`}}})
	addMutant(Mutant{Name: "c08-lookup-other-key", Props: []string{"C08"}, Rule: "R-SEQ", KeySub: "",
		Why: "the handler returned on a hit ignores the validators' outcome (returned before validation)",
		Edits: []Edit{{File: "sessions.go", Old: `	if err := LastSequence(sc.header.SeqNo).Validate(h.SeqNo); err != nil {
		return nil, fmt.Errorf(`, New: `	if err := LastSequence(sc.header.SeqNo).Validate(h.SeqNo); err != nil && sc.Handler == nil {
		return nil, fmt.Errorf(`}}})
}

func init() {
	// ---- C05 ------------------------------------------------------------------------------
	addMutant(Mutant{Name: "c05-readfull-to-read", Props: []string{"C05"}, Rule: "R-FRAMING", KeySub: "only-readfull",
		Why: "the body is read with a single Read: on loopback one Read returns the whole body, on a real network it may not",
		Edits: []Edit{{File: "crypt.go", Old: `	if _, err := io.ReadFull(c.Reader, b); err != nil {`, New: `	if _, err := c.Reader.Read(b); err != nil {`}}})
	addMutant(Mutant{Name: "c05-reader-per-read", Props: []string{"C05"}, Rule: "R-FRAMING", KeySub: "",
		Why: "a new bufio.Reader is built for every read: bytes of the next packet buffered by the previous reader are lost",
		Edits: []Edit{{File: "crypt.go", Old: `	// allocate a tacacs header
	h := make([]byte, MaxHeaderLength)`, New: `	// allocate a tacacs header
	c.Reader = bufio.NewReaderSize(c.Conn, 107)
	h := make([]byte, MaxHeaderLength)`}}})
	addMutant(Mutant{Name: "c05-size-test-after-alloc", Props: []string{"C05"}, Rule: "R-FRAMING", KeySub: "oversize-guard",
		Why: "the body buffer is allocated before the announced length is checked",
		Edits: []Edit{{File: "crypt.go", Old: `	if s > MaxBodyLength {
		return nil, fmt.Errorf("max header length exceeded in crypt read, aborting")
	}
	b := make([]byte, int(s))`, New: `	b := make([]byte, int(s))
	if s > MaxBodyLength {
		return nil, fmt.Errorf("max header length exceeded in crypt read, aborting")
	}`}}})
	addMutant(Mutant{Name: "c05-body-read-error-ignored", Props: []string{"C05"}, Rule: "R-FRAMING", KeySub: "short-read-is-error#2",
		Why: "a short body read only increments a counter: a shortened packet goes on to be decoded",
		Edits: []Edit{{File: "crypt.go", Old: `	if _, err := io.ReadFull(c.Reader, b); err != nil {
		crypterReadError.Inc()
		return nil, err
	}`, New: `	if _, err := io.ReadFull(c.Reader, b); err != nil {
		crypterReadError.Inc()
	}`}}})
	addMutant(Mutant{Name: "c05-revert-386-fix", Props: []string{"C05"}, Rule: "R-", KeySub: "",
		Why: "the announced length is converted to int before the limit test (negative on 32-bit int)",
		Edits: []Edit{{File: "crypt.go", Old: `	s := binary.BigEndian.Uint32(h[8:])
	if s > MaxBodyLength {`, New: `	s := int32(binary.BigEndian.Uint32(h[8:]))
	if s > int32(MaxBodyLength) {`}}})
	addMutant(Mutant{Name: "c05-second-write", Props: []string{"C05"}, Rule: "R-FRAMING", KeySub: "",
		Why: "header and body are written with two Write calls",
		Edits: []Edit{{File: "crypt.go", Old: `	n, err := c.Write(b)
	if err != nil {`, New: `	n, err := c.Write(b[:MaxHeaderLength])
	if err == nil {
		n, err = c.Write(b[MaxHeaderLength:])
	}
	if err != nil {`}}})

	// ---- C17 ------------------------------------------------------------------------------
	addMutant(Mutant{Name: "c17-add-inside-goroutine", Props: []string{"C17"}, Rule: "R-PAIR", KeySub: "add-before-go",
		Why: "the wait-group increment moves into the connection goroutine",
		Edits: []Edit{{File: "server.go", Old: `			s.Add(1)
			go s.serve(ctx, conn)`, New: `			go s.serve(ctx, conn)`},
			{File: "server.go", Old: `	defer s.Done()
	timer := prometheus.NewTimer(`, New: `	s.Add(1)
	defer s.Done()
	timer := prometheus.NewTimer(`}}})
	addMutant(Mutant{Name: "c17-no-read-deadline", Props: []string{"C17"}, Rule: "R-LOOP", KeySub: "deadline",
		Why: "the read deadline call is dropped: idle connections are never reaped",
		Edits: []Edit{{File: "server.go", Old: `			if err := c.SetReadDeadline(time.Now().Add(15 * time.Second)); err != nil {
				s.Errorf(ctx, "unable to set read deadline on connection %v", c.RemoteAddr())
			}
`, New: ``}}})
	addMutant(Mutant{Name: "c17-zero-deadline", Props: []string{"C17"}, Rule: "R-LOOP", KeySub: "deadline",
		Why: "a zero time.Time disables the deadline",
		Edits: []Edit{{File: "server.go", Old: `c.SetReadDeadline(time.Now().Add(15 * time.Second))`, New: `c.SetReadDeadline(time.Time{})`}}})
	addMutant(Mutant{Name: "c17-no-wait", Props: []string{"C17"}, Rule: "R-PAIR", KeySub: "deferred-close-and-wait",
		Why: "Serve no longer waits for the connection goroutines",
		Edits: []Edit{{File: "server.go", Old: `		s.Wait()
`, New: ``}}})
	addMutant(Mutant{Name: "c17-deadline-once", Props: []string{"C17"}, Rule: "R-LOOP", KeySub: "deadline",
		Why: "the deadline is armed once before the loop instead of before every read",
		Edits: []Edit{{File: "server.go", Old: `	defer sessionProvider.close()
	for {`, New: `	defer sessionProvider.close()
	c.SetReadDeadline(time.Now().Add(15 * time.Second))
	for {`},
			{File: "server.go", Old: `			if err := c.SetReadDeadline(time.Now().Add(15 * time.Second)); err != nil {
				s.Errorf(ctx, "unable to set read deadline on connection %v", c.RemoteAddr())
			}
`, New: ``}}})
	addMutant(Mutant{Name: "c17-done-not-deferred", Props: []string{"C17"}, Rule: "R-PAIR", KeySub: "done-deferred-first",
		Why: "Done is called at the end of serve instead of deferred: the refusal return skips it",
		Edits: []Edit{{File: "server.go", Old: `	defer s.Done()
	timer := prometheus.NewTimer(`, New: `	timer := prometheus.NewTimer(`},
			{File: "server.go", Old: `	serveAccepted.Dec()
}`, New: `	serveAccepted.Dec()
	s.Done()
}`}}})

	// ---- C20 ------------------------------------------------------------------------------
	addMutant(Mutant{Name: "c20-drop-handlers-dec", Props: []string{"C20"}, Rule: "R-PAIR", KeySub: "gauge:handlers",
		Why: "the handlers gauge is never decremented",
		Edits: []Edit{{File: "server.go", Old: `			handlers.Dec()
`, New: ``}}})
	addMutant(Mutant{Name: "c20-revert-conditional-dec", Props: []string{"C20"}, Rule: "R-PAIR", KeySub: "gauge:sessionsActive:delete",
		Why: "the repaired unconditional Dec in delete comes back",
		Edits: []Edit{{File: "sessions.go", Old: `	if sc, ok := s.known[session]; ok {
		sessionsActive.Dec()
		if sc != nil {
			sc.timer.ObserveDuration()
		}
	}`, New: `	sessionsActive.Dec()
	if sc := s.known[session]; sc != nil {
		sc.timer.ObserveDuration()
	}`}}})
	addMutant(Mutant{Name: "c20-inc-in-update", Props: []string{"C20"}, Rule: "R-PAIR", KeySub: "gauge:sessionsActive",
		Why: "update also increments the gauge although the population does not change",
		Edits: []Edit{{File: "sessions.go", Old: `	sc.header = h
	sc.Handler = n`, New: `	sessionsActive.Inc()
	sc.header = h
	sc.Handler = n`}}})
	addMutant(Mutant{Name: "c20-close-does-not-drain", Props: []string{"C20"}, Rule: "R-PAIR", KeySub: "",
		Why: "the repaired drain at connection close is removed",
		Edits: []Edit{{File: "sessions.go", Old: `		r.timer.ObserveDuration()
		sessionsActive.Dec()
		delete(s.known, id)`, New: `		r.timer.ObserveDuration()
		_ = id`}}})
	addMutant(Mutant{Name: "c20-early-return-skips-accepted-dec", Props: []string{"C20"}, Rule: "R-PAIR", KeySub: "gauge:serveAccepted",
		Why: "a new early return between Inc and Dec of the accepted-connections gauge",
		Edits: []Edit{{File: "server.go", Old: `	serveAccepted.Inc()
	s.handle(ctx, newCrypter(secret, conn, s.proxy), handler)`, New: `	serveAccepted.Inc()
	if s.proxy && len(secret) == 0 {
		conn.Close()
		return
	}
	s.handle(ctx, newCrypter(secret, conn, s.proxy), handler)`}}})
	addMutant(Mutant{Name: "c20-set-without-miss", Props: []string{"C20"}, Rule: "R-PAIR", KeySub: "insert-site",
		Why: "every packet re-registers its session (set is called unconditionally)",
		Edits: []Edit{{File: "server.go", Old: `			if state == nil {
				state = h
				sessionProvider.set(req.Header, nil)
			}`, New: `			sessionProvider.set(req.Header, nil)
			if state == nil {
				state = h
			}`}}})
}
