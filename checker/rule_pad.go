package main

import (
	"fmt"
	"go/token"
	"go/types"
	"strings"

	"golang.org/x/tools/go/ssa"
)

// R-PADSHAPE: the pad function is the RFC 8907 §4.5 construction.
//   pad = MD5_1 .. MD5_n truncated to the body length,
//   MD5_1 = MD5{session_id, key, version, seq_no}, MD5_i = MD5{session_id, key, version, seq_no, MD5_(i-1)}

// headerFieldLoad: v is a load of p.Header.<name> (p the *Packet parameter).
func headerFieldLoad(v ssa.Value, pkt ssa.Value, name string) bool {
	f, hb, ok := loadedField(v)
	if !ok || f.Name() != name {
		return false
	}
	return isHeaderOf(hb, pkt)
}

// isHeaderOf: hb is *(&p.Header)
func isHeaderOf(hb ssa.Value, pkt ssa.Value) bool {
	f, base, ok := loadedField(hb)
	return ok && f.Name() == "Header" && base == pkt
}

func headerFieldAddr(v ssa.Value, pkt ssa.Value, name string) bool {
	f, hb, ok := fieldAddrOf(v)
	return ok && f.Name() == name && isHeaderOf(hb, pkt)
}

// bodyDerived: v is p.Body, or a (re)slice of it, possibly chosen among such alternatives.
func bodyDerived(v ssa.Value, pkt ssa.Value, depth int) bool {
	if depth == 0 {
		return false
	}
	switch x := v.(type) {
	case *ssa.Slice:
		return bodyDerived(x.X, pkt, depth-1)
	case *ssa.Phi:
		n := 0
		for _, e := range x.Edges {
			if stripSlices(e) == ssa.Value(x) {
				continue
			}
			if !bodyDerived(e, pkt, depth-1) {
				return false
			}
			n++
		}
		return n > 0
	}
	f, base, ok := loadedField(v)
	return ok && f.Name() == "Body" && base == pkt
}

// rulePadShape decides the clauses named in parts: a clear flag, b hash input, c pad length, d xor in place,
// e nothing else written, f call sites.
func rulePadShape(p *Program, r *Result, parts string) {
	full := r
	want := func(c string) *Result {
		if strings.Contains(parts, c) {
			return full
		}
		return newResult("discard")
	}

	ro := rolesOK(p, r)
	unenc, okU := p.rootConst("UnencryptedFlag")
	if !okU {
		r.undecided("R-PADSHAPE", "anchor:UnencryptedFlag", "-", "UNRESOLVED constant")
	}
	for _, F := range ro.PadFns {
		key := fnKey(F)
		pos := p.Pos(F.Pos())
		var pkt, secret ssa.Value
		for _, pr := range F.Params {
			if pt, ok := pr.Type().(*types.Pointer); ok && typeIs(pt.Elem(), modPath, "Packet") {
				pkt = pr
			}
			if sl, ok := pr.Type().Underlying().(*types.Slice); ok {
				if b, ok := sl.Elem().Underlying().(*types.Basic); ok && b.Kind() == types.Uint8 {
					secret = pr
				}
			}
		}
		if pkt == nil || secret == nil {
			r.undecided("R-PADSHAPE", key+":shape", pos, "the pad function does not take (secret []byte, packet *Packet)")
			continue
		}
		// (a) clear flag: first decision of the function, returns nil without touching anything
		entry := F.Blocks[0]
		aOK := false
		if iff, ok := entry.Instrs[len(entry.Instrs)-1].(*ssa.If); ok {
			// the mask test written out (or the flag accessor folded into a view): Flags & Unencrypted != 0
			if ne, ok := iff.Cond.(*ssa.BinOp); ok && ne.Op == token.NEQ {
				if z, okz := constInt(ne.Y); okz && z == 0 {
					if and, ok := ne.X.(*ssa.BinOp); ok && and.Op == token.AND {
						if fc, okc := constInt(and.Y); okc && fc == unenc {
							if u, ok := and.X.(*ssa.UnOp); ok && u.Op == token.MUL && headerFieldAddr(u.X, pkt, "Flags") {
								tb := entry.Succs[0]
								if ret, ok := tb.Instrs[len(tb.Instrs)-1].(*ssa.Return); ok && len(tb.Instrs) == 1 && isNilConst(ret.Results[0]) {
									aOK = true
								}
							}
						}
					}
				}
			}
			if call, ok := iff.Cond.(*ssa.Call); ok {
				if f := call.Common().StaticCallee(); f != nil && f.Name() == "Has" && len(call.Common().Args) == 2 {
					flagC, okc := constInt(call.Common().Args[1])
					if okc && flagC == unenc && headerFieldAddr(call.Common().Args[0], pkt, "Flags") && hasIsMaskTest(f) {
						tb := entry.Succs[0]
						if ret, ok := tb.Instrs[len(tb.Instrs)-1].(*ssa.Return); ok && len(tb.Instrs) == 1 && isNilConst(ret.Results[0]) {
							aOK = true
						}
					}
				}
			}
			// nothing but loads before the test
			for _, in := range entry.Instrs[:len(entry.Instrs)-1] {
				switch in.(type) {
				case *ssa.FieldAddr, *ssa.UnOp, *ssa.Call, *ssa.DebugRef, *ssa.BinOp:
				default:
					aOK = false
				}
			}
		}
		want("a").cond(aOK, "R-PADSHAPE", key+":a:clear-flag-first", pos,
			"the first decision of the pad function is Header.Flags.Has(UnencryptedFlag); when set it returns nil at once: the body travels verbatim whatever the secret",
			"the pad function does not start with 'if Header.Flags.Has(UnencryptedFlag) { return nil }'")
		// (b) hash input order
		var h ssa.Value
		for _, c := range callsPkgFunc(F, "crypto/md5", "New") {
			h = c.Value()
		}
		var seq []ssa.CallInstruction
		for _, c := range allCalls(F) {
			if cc := c.Common(); cc.IsInvoke() && cc.Value == h {
				seq = append(seq, c)
			}
		}
		names := []string{}
		for _, c := range seq {
			names = append(names, c.Common().Method.Name())
		}
		wantOrder := "Reset Write Write Write Write Write Sum"
		bOK := strings.Join(names, " ") == wantOrder
		why := ""
		if !bOK {
			why = "hash calls are [" + strings.Join(names, " ") + "], expected [" + wantOrder + "]"
		} else {
			blk := seq[0].Block()
			for _, c := range seq {
				if c.Block() != blk {
					bOK = false
					why = "the hash calls are not one straight-line sequence"
				}
			}
			if bOK && !blockReachFromSelf(blk) {
				bOK = false
				why = "the hash block is not inside the pad loop"
			}
		}
		var sum ssa.Value
		if bOK {
			ops := []ssa.Value{seq[1].Common().Args[0], seq[2].Common().Args[0], seq[3].Common().Args[0], seq[4].Common().Args[0], seq[5].Common().Args[0]}
			sum = seq[6].Value()
			// 1: session id
			if call, idx, ok := extractOf(ops[0]); !ok || idx != 0 || call.Common().StaticCallee() == nil || call.Common().StaticCallee().Name() != "MarshalBinary" ||
				!headerFieldAddr(call.Common().Args[0], pkt, "SessionID") || !sessionIDIsBE32(call.Common().StaticCallee()) {
				bOK, why = false, "1st hash input is not the big-endian session id of this header"
			}
			// 2: key
			if ops[1] != secret {
				bOK, why = false, "2nd hash input is not the secret parameter"
			}
			// 3: version octet
			if call, idx, ok := extractOf(ops[2]); !ok || idx != 0 || call.Common().StaticCallee() == nil || call.Common().StaticCallee().Name() != "MarshalBinary" ||
				!headerFieldAddr(call.Common().Args[0], pkt, "Version") {
				bOK, why = false, "3rd hash input is not this header's version octet (Version.MarshalBinary)"
			}
			// 4: sequence octet
			seqOK := false
			if sl, ok := ops[3].(*ssa.Slice); ok {
				if a, ok := sl.X.(*ssa.Alloc); ok {
					if n, ok := sliceConstLen(sl); ok && n == 1 {
						for _, rf := range refsOf(a) {
							if ia, ok := rf.(*ssa.IndexAddr); ok {
								for _, r2 := range refsOf(ia) {
									if st, ok := r2.(*ssa.Store); ok && st.Addr == ia {
										if cv, ok := st.Val.(*ssa.Convert); ok && is8bit(cv.Type()) && headerFieldLoad(cv.X, pkt, "SeqNo") {
											seqOK = true
										}
									}
								}
							}
						}
					}
				}
			}
			if !seqOK {
				bOK, why = false, "4th hash input is not the single octet byte(Header.SeqNo)"
			}
			// 5: previous digest: phi of (empty, Sum result)
			chainOK := false
			if ph, ok := ops[4].(*ssa.Phi); ok {
				nEmpty, nSum := 0, 0
				for _, e := range ph.Edges {
					if e == sum {
						nSum++
					} else if n, ok := sliceConstLen(e); ok && n == 0 {
						nEmpty++
					} else if sl, ok := e.(*ssa.Slice); ok {
						if hi, ok := constInt(sl.High); ok && hi == 0 {
							nEmpty++
						}
					}
				}
				chainOK = nEmpty == 1 && nSum >= 1 && nEmpty+nSum == len(ph.Edges)
			}
			if !chainOK {
				bOK, why = false, "5th hash input is not 'empty on the first round, the previous digest afterwards'"
			}
			if !isNilConst(seq[6].Common().Args[0]) {
				bOK, why = false, "Sum is not called with nil"
			}
		}
		want("b").cond(bOK, "R-PADSHAPE", key+":b:hash-input-order", pos,
			"each round hashes, in this order: session id (big-endian), key, version octet, sequence octet, previous digest (none on the first round) — RFC 8907 §4.5",
			"the pad is not MD5{session_id, key, version, seq_no [, previous digest]}: "+why)
		// (c) pad accumulation and truncation to Header.Length
		var padPhi *ssa.Phi
		cOK := false
		whyC := "no pad accumulator found"
		if sum != nil {
			for _, rf := range refsOf(sum) {
				// append(padphi, sum[:]...)
				var ap *ssa.Call
				if sl, ok := rf.(*ssa.Slice); ok {
					for _, r2 := range refsOf(sl) {
						if c, ok := r2.(*ssa.Call); ok {
							ap = c
						}
					}
				} else if c, ok := rf.(*ssa.Call); ok {
					ap = c
				}
				if ap == nil {
					continue
				}
				bi, ok := ap.Common().Value.(*ssa.Builtin)
				if !ok || bi.Name() != "append" {
					continue
				}
				ph, ok := ap.Common().Args[0].(*ssa.Phi)
				if !ok {
					continue
				}
				padPhi = ph
				// edges of the pad phi: initial empty, append result, or append result truncated to headerLen
				good := true
				trunc := false
				for _, e := range ph.Edges {
					switch {
					case e == ssa.Value(ap):
					default:
						if sl, ok := e.(*ssa.Slice); ok {
							if sl.X == ssa.Value(ap) && sl.Low == nil && sl.High != nil && isHeaderLen(sl.High, pkt) {
								trunc = true
								continue
							}
							if hi, ok := constInt(sl.High); ok && hi == 0 {
								continue
							}
						}
						good = false
					}
				}
				// loop condition: len(pad) < headerLen
				loopOK := false
				if iff, ok := ph.Block().Instrs[len(ph.Block().Instrs)-1].(*ssa.If); ok {
					if bo, ok := iff.Cond.(*ssa.BinOp); ok && bo.Op == token.LSS && isHeaderLen(bo.Y, pkt) {
						if lc, ok := bo.X.(*ssa.Call); ok {
							if b2, ok := lc.Common().Value.(*ssa.Builtin); ok && b2.Name() == "len" && lc.Common().Args[0] == ssa.Value(ph) {
								loopOK = true
							}
						}
					}
				}
				cOK = good && trunc && loopOK
				whyC = fmt.Sprintf("digest appended to the pad: %v, truncation pad[:int(Header.Length)]: %v, loop 'for len(pad) < int(Header.Length)': %v", good, trunc, loopOK)
			}
		}
		want("c").cond(cOK, "R-PADSHAPE", key+":c:pad-truncated-to-length", pos,
			"digests are concatenated until the pad reaches Header.Length and the pad is truncated to exactly Header.Length",
			"the pad is not the concatenation of the digests truncated to Header.Length: "+whyC)
		// (d,e) XOR in place over exactly the body, nothing else written
		dOK := false
		nBodyStores, nOther := 0, 0
		for _, b := range F.Blocks {
			for _, in := range b.Instrs {
				st, ok := in.(*ssa.Store)
				if !ok {
					continue
				}
				kind, root, _ := addrRoot(st.Addr, 10)
				if kind == rootLocal {
					continue
				}
				_ = root
				if ia, ok := st.Addr.(*ssa.IndexAddr); ok {
					if bodyDerived(ia.X, pkt, 6) {
						nBodyStores++
						// value: Body[i] ^ pad[i]
						if bo, ok := st.Val.(*ssa.BinOp); ok && bo.Op == token.XOR && padPhi != nil {
							x, y := bo.X, bo.Y
							isPadElem := func(v ssa.Value) bool {
								if u, ok := v.(*ssa.UnOp); ok && u.Op == token.MUL {
									if i2, ok := u.X.(*ssa.IndexAddr); ok && i2.X == ssa.Value(padPhi) && i2.Index == ia.Index {
										return true
									}
								}
								return false
							}
							isBodyElem := func(v ssa.Value) bool {
								if u, ok := v.(*ssa.UnOp); ok && u.Op == token.MUL {
									if i2, ok := u.X.(*ssa.IndexAddr); ok && i2.Index == ia.Index {
										if f, base, ok := loadedField(i2.X); ok && f.Name() == "Body" && base == pkt {
											return true
										}
									}
								}
								return false
							}
							if (isPadElem(x) && isBodyElem(y)) || (isPadElem(y) && isBodyElem(x)) {
								dOK = true
							}
						}
						continue
					}
				}
				nOther++
			}
		}
		want("d").cond(dOK && nBodyStores == 1, "R-PADSHAPE", key+":d:xor-in-place", pos,
			"the only write to the body is Body[i] = Body[i] ^ pad[i] for i over the body: applying the function twice with the same header and secret is the identity",
			fmt.Sprintf("the body is not obfuscated by exactly Body[i] ^= pad[i] (%d stores into Body)", nBodyStores))
		want("e").cond(nOther == 0, "R-PADSHAPE", key+":e:header-untouched", pos,
			"the pad function stores to nothing but its own buffers and the body octets: header bytes and Header.Length are never altered by obfuscation",
			fmt.Sprintf("the pad function writes to %d locations other than its own buffers and Body[i] (header fields or the Body slice itself)", nOther))
		// no call that receives the packet or header and could modify them
		esc := ""
		for _, c := range allCalls(F) {
			f := c.Common().StaticCallee()
			for _, a := range c.Common().Args {
				if a == pkt {
					esc = shortCall(c)
				}
			}
			_ = f
		}
		want("e").cond(esc == "", "R-PADSHAPE", key+":e:packet-not-passed-on", pos, "the packet is not handed to any other function inside the pad function", "the packet is passed to "+esc+" inside the pad function")
	}
	// (f) placement and secret at call sites
	if strings.Contains(parts, "f") {
		rulePadCallSites(p, r)
	}
	if parts == "abcdef" {
		r.floor("R-PADSHAPE", 9)
	} else {
		r.floor("R-PADSHAPE", len(parts))
	}
}

// isHeaderLen: v is int(p.Header.Length) (or the same value).
func isHeaderLen(v ssa.Value, pkt ssa.Value) bool {
	v = stripAllConv(v)
	return headerFieldLoad(v, pkt, "Length")
}

// hasIsMaskTest: func (b *T) Has(f T) bool { return *b&f != 0 }
func hasIsMaskTest(f *ssa.Function) bool {
	if f.Blocks == nil || len(f.Blocks) != 1 || len(f.Params) != 2 {
		return false
	}
	ret, ok := f.Blocks[0].Instrs[len(f.Blocks[0].Instrs)-1].(*ssa.Return)
	if !ok || len(ret.Results) != 1 {
		return false
	}
	ne, ok := ret.Results[0].(*ssa.BinOp)
	if !ok || ne.Op != token.NEQ {
		return false
	}
	and, ok := ne.X.(*ssa.BinOp)
	if !ok || and.Op != token.AND {
		return false
	}
	if z, ok := constInt(ne.Y); !ok || z != 0 {
		return false
	}
	u, ok := and.X.(*ssa.UnOp)
	return ok && u.Op == token.MUL && u.X == ssa.Value(f.Params[0]) && and.Y == ssa.Value(f.Params[1])
}

// sessionIDIsBE32: the method returns a 4-byte buffer filled by BigEndian.PutUint32(buf, uint32(*s)).
func sessionIDIsBE32(f *ssa.Function) bool {
	if f.Blocks == nil || len(f.Params) != 1 {
		return false
	}
	for _, c := range allCalls(f) {
		g := c.Common().StaticCallee()
		if g == nil || g.Name() != "PutUint32" || g.Pkg == nil || g.Pkg.Pkg.Path() != "encoding/binary" || !strings.Contains(g.String(), "bigEndian") {
			continue
		}
		args := c.Common().Args
		buf, val := args[len(args)-2], args[len(args)-1]
		n, ok := sliceConstLen(buf)
		if !ok || n != 4 {
			return false
		}
		v := stripAllConv(val)
		if u, ok := v.(*ssa.UnOp); ok && u.Op == token.MUL && u.X == ssa.Value(f.Params[0]) {
			// the buffer is what is returned
			for _, b := range f.Blocks {
				if ret, ok := b.Instrs[len(b.Instrs)-1].(*ssa.Return); ok && ret.Results[0] == buf {
					return true
				}
			}
		}
	}
	return false
}

// rulePadCallSites: reader de-obfuscates after unmarshalling and before the key-mismatch detector; the writer
// obfuscates after the length store and before marshalling; both use the wrapper's secret, which is set once
// in the constructor from its parameter.
func rulePadCallSites(p *Program, r *Result) {
	ro := p.Roles()
	var secretField *types.Var
	n := 0
	for _, fn := range p.UnitsIn(func(path string) bool { return path == modPath }) {
		for _, c := range allCalls(fn) {
			call, ok := c.(*ssa.Call)
			if !ok || !containsFn(ro.PadFns, call.Common().StaticCallee()) {
				continue
			}
			n++
			key := fnKey(fn) + ":f:pad-call"
			// secret argument = field of the receiver
			var sec ssa.Value
			for _, a := range call.Common().Args {
				if sl, ok := a.Type().Underlying().(*types.Slice); ok {
					if b, ok := sl.Elem().Underlying().(*types.Basic); ok && b.Kind() == types.Uint8 {
						sec = a
					}
				}
			}
			f, base, okf := loadedField(sec)
			fromRecv := okf && len(fn.Params) > 0 && base == ssa.Value(fn.Params[0])
			if fromRecv {
				if secretField == nil {
					secretField = f
				} else if secretField != f {
					fromRecv = false
				}
			}
			place := false
			how := ""
			if containsFn(ro.Readers, fn) {
				// after decode, before the detector
				var dec *ssa.Call
				for dc := range decodeCalls(fn, "Packet") {
					dec = dc
				}
				if dec == nil {
					// a reader that decodes the header on its own and attaches the body itself
					for dc := range decodeCalls(fn, "Header") {
						dec = dc
					}
				}
				var det ssa.CallInstruction
				for _, c2 := range allCalls(fn) {
					if containsFn(ro.Detectors, c2.Common().StaticCallee()) {
						det = c2
					}
				}
				if dec != nil && det != nil {
					g, _ := guardedBySuccess(dec, call, nil)
					g2, _ := guardedBySuccess(call, det, nil)
					place = g && g2
					how = "after the successful packet decode and before the key-mismatch detector"
				}
			} else if containsFn(ro.Writers, fn) {
				place = true // ordering w.r.t. the length store and MarshalBinary is R-FRAMING's writer clause
				how = "before MarshalBinary (R-FRAMING decides the order with the length store)"
			}
			if fromRecv && place {
				r.ok("R-PADSHAPE", key, p.Pos(call.Pos()), true, "the pad function is applied %s, with the connection wrapper's %s field as key", how, f.Name())
			} else {
				r.bad("R-PADSHAPE", key, p.Pos(call.Pos()), "the pad function is not applied at the right point (%v) or not with the connection wrapper's secret field (%v)", place, fromRecv)
			}
		}
	}
	if n < 2 {
		r.bad("R-PADSHAPE", "f:pad-call-sites", "-", "the pad function must be applied by the stream reader and by the stream writer; found %d call sites", n)
	}
	// the secret field is only set in constructors, from their parameter
	if secretField != nil {
		for _, fn := range p.UFuncs() {
			for _, b := range fn.Blocks {
				for _, in := range b.Instrs {
					st, ok := in.(*ssa.Store)
					if !ok {
						continue
					}
					f, base, ok := fieldAddrOf(st.Addr)
					if !ok || f != secretField {
						continue
					}
					_, fresh := base.(*ssa.Alloc)
					_, fromParam := st.Val.(*ssa.Parameter)
					r.cond(fresh && fromParam, "R-PADSHAPE", fnKey(fn)+":f:secret-set-once", p.Pos(st.Pos()),
						"the wrapper's secret is set once, at construction, from the constructor's parameter",
						"the wrapper's secret is assigned outside its constructor or not from the constructor's parameter")
				}
			}
		}
	}
}
