package main

import (
	"fmt"
	"go/token"
	"go/types"
	"strings"

	"golang.org/x/tools/go/ssa"
)

// R-PADSHAPE: the pad function is the RFC 8907 §4.5 construction.
//   pad = MD5_1 .. MD5_n truncated to the body length,
//   MD5_1 = MD5{session_id, key, version, seq_no}, MD5_i = MD5{session_id, key, version, seq_no, MD5_(i-1)}

// headerFieldLoad: v is a load of p.Header.<name> (p the *Packet parameter).
func headerFieldLoad(v ssa.Value, pkt ssa.Value, name string) bool {
	f, hb, ok := loadedField(v)
	if !ok || f.Name() != name {
		return false
	}
	return isHeaderOf(hb, pkt)
}

// isHeaderOf: hb is *(&p.Header)
func isHeaderOf(hb ssa.Value, pkt ssa.Value) bool {
	f, base, ok := loadedField(hb)
	return ok && f.Name() == "Header" && base == pkt
}

func headerFieldAddr(v ssa.Value, pkt ssa.Value, name string) bool {
	f, hb, ok := fieldAddrOf(v)
	return ok && f.Name() == name && isHeaderOf(hb, pkt)
}

// bodyDerived: v is p.Body, or a (re)slice of it, possibly chosen among such alternatives.
func bodyDerived(v ssa.Value, pkt ssa.Value, depth int) bool {
	if depth == 0 {
		return false
	}
	switch x := v.(type) {
	case *ssa.Slice:
		return bodyDerived(x.X, pkt, depth-1)
	case *ssa.Phi:
		n := 0
		for _, e := range x.Edges {
			if stripSlices(e) == ssa.Value(x) {
				continue
			}
			if !bodyDerived(e, pkt, depth-1) {
				return false
			}
			n++
		}
		return n > 0
	}
	f, base, ok := loadedField(v)
	return ok && f.Name() == "Body" && base == pkt
}

// rulePadShape decides the clauses named in parts: a clear flag, b hash input, c pad length, d xor in place,
// e nothing else written, f call sites.
func rulePadShape(p *Program, r *Result, parts string) {
	full := r
	want := func(c string) *Result {
		if strings.Contains(parts, c) {
			return full
		}
		return newResult("discard")
	}

	ro := rolesOK(p, r)
	unenc, okU := p.rootConst("UnencryptedFlag")
	if !okU {
		r.undecided("R-PADSHAPE", "anchor:UnencryptedFlag", "-", "UNRESOLVED constant")
	}
	for _, F := range ro.PadFns {
		key := fnKey(F)
		pos := p.Pos(F.Pos())
		var pkt, secret ssa.Value
		for _, pr := range F.Params {
			if pt, ok := pr.Type().(*types.Pointer); ok && typeIs(pt.Elem(), modPath, "Packet") {
				pkt = pr
			}
			if sl, ok := pr.Type().Underlying().(*types.Slice); ok {
				if b, ok := sl.Elem().Underlying().(*types.Basic); ok && b.Kind() == types.Uint8 {
					secret = pr
				}
			}
		}
		if pkt == nil || secret == nil {
			r.undecided("R-PADSHAPE", key+":shape", pos, "the pad function does not take (secret []byte, packet *Packet)")
			continue
		}
		// (a) clear flag: first decision of the function, returns nil without touching anything
		entry := F.Blocks[0]
		aOK := false
		if iff, ok := entry.Instrs[len(entry.Instrs)-1].(*ssa.If); ok {
			// the mask test written out (or the flag accessor folded into a view): Flags & Unencrypted != 0
			if ne, ok := iff.Cond.(*ssa.BinOp); ok && ne.Op == token.NEQ {
				if z, okz := constInt(ne.Y); okz && z == 0 {
					if and, ok := ne.X.(*ssa.BinOp); ok && and.Op == token.AND {
						if fc, okc := constInt(and.Y); okc && fc == unenc {
							if u, ok := and.X.(*ssa.UnOp); ok && u.Op == token.MUL && headerFieldAddr(u.X, pkt, "Flags") {
								tb := entry.Succs[0]
								if ret, ok := tb.Instrs[len(tb.Instrs)-1].(*ssa.Return); ok && len(tb.Instrs) == 1 && isNilConst(ret.Results[0]) {
									aOK = true
								}
							}
						}
					}
				}
			}
			if call, ok := iff.Cond.(*ssa.Call); ok {
				if f := call.Common().StaticCallee(); f != nil && f.Name() == "Has" && len(call.Common().Args) == 2 {
					flagC, okc := constInt(call.Common().Args[1])
					if okc && flagC == unenc && headerFieldAddr(flagsOperand(call.Common().Args[0]), pkt, "Flags") && hasIsMaskTest(f) {
						tb := entry.Succs[0]
						if ret, ok := tb.Instrs[len(tb.Instrs)-1].(*ssa.Return); ok && len(tb.Instrs) == 1 && isNilConst(ret.Results[0]) {
							aOK = true
						}
					}
				}
			}
			// nothing but loads before the test
			for _, in := range entry.Instrs[:len(entry.Instrs)-1] {
				switch in.(type) {
				case *ssa.FieldAddr, *ssa.UnOp, *ssa.Call, *ssa.DebugRef, *ssa.BinOp:
				default:
					aOK = false
				}
			}
		}
		want("a").cond(aOK, "R-PADSHAPE", key+":a:clear-flag-first", pos,
			"the first decision of the pad function is Header.Flags.Has(UnencryptedFlag); when set it returns nil at once: the body travels verbatim whatever the secret",
			"the pad function does not start with 'if Header.Flags.Has(UnencryptedFlag) { return nil }'")
		// (b) hash input order
		var h ssa.Value
		for _, c := range callsPkgFunc(F, "crypto/md5", "New") {
			h = c.Value()
		}
		var seq []ssa.CallInstruction
		for _, c := range allCalls(F) {
			if cc := c.Common(); cc.IsInvoke() && cc.Value == h {
				seq = append(seq, c)
			}
		}
		names := []string{}
		var writeOps []ssa.Value
		expanded := map[ssa.CallInstruction]bool{}
		for _, c := range seq {
			if c.Common().Method.Name() == "Write" && len(c.Common().Args) == 1 {
				// h.Write(part) for part ranging over a fixed list of inputs: one Write per entry, in order
				if parts, ok := fixedListElems(c.Common().Args[0]); ok && len(seq) > 0 && domInstrAll(parts, seq[0]) {
					for _, pv := range parts {
						names = append(names, "Write")
						writeOps = append(writeOps, pv)
					}
					expanded[c] = true
					continue
				}
				writeOps = append(writeOps, c.Common().Args[0])
			}
			names = append(names, c.Common().Method.Name())
		}
		// a fresh md5.New() per round does what Reset does
		if len(names) > 0 && names[0] != "Reset" {
			if hc, ok := h.(*ssa.Call); ok && blockReachFromSelf(hc.Block()) && len(seq) > 0 && domInstr(hc, seq[0]) {
				names = append([]string{"Reset"}, names...)
				seq = append([]ssa.CallInstruction{hc}, seq...)
			}
		}
		wantOrder := "Reset Write Write Write Write Write Sum"
		bOK := strings.Join(names, " ") == wantOrder
		why := ""
		if !bOK {
			why = "hash calls are [" + strings.Join(names, " ") + "], expected [" + wantOrder + "]"
		} else {
			blk := seq[0].Block()
			last := seq[len(seq)-1]
			for i, c := range seq {
				if c.Block() == blk {
					continue
				}
				// not in the block of Reset: still one sequence when each call follows the previous one on every
				// path of the round, runs once per round (not inside an inner loop, unless it is the expanded
				// Write of a fixed list), and lies on every path to Sum
				inner := false
				for _, sc := range c.Block().Succs {
					if sc != blk && blockReach(sc, map[*ssa.BasicBlock]bool{blk: true})[c.Block()] {
						inner = true
					}
				}
				follows := i > 0 && domInstr(seq[i-1], c)
				if i > 0 && expanded[seq[i-1]] {
					// after the loop over the list: its head is passed on every path here
					hd := seq[i-1].Block().Idom()
					follows = hd != nil && hd.Dominates(c.Block()) && blockReach(seq[i-1].Block(), nil)[c.Block()]
				}
				if i == 0 || !follows || inner != expanded[c] || !(c.Block() == last.Block() || c.Block().Dominates(last.Block()) || expanded[c]) {
					bOK = false
					why = "the hash calls are not one straight-line sequence"
				}
				if expanded[c] {
					// the loop over the list is passed on the way to Sum: its head dominates Sum's block
					hd := c.Block().Idom()
					if hd == nil || !(hd.Dominates(last.Block())) || !blockReach(c.Block(), nil)[last.Block()] {
						bOK = false
						why = "the loop over the list of hash inputs can be skipped"
					}
				}
			}
			if bOK && !blockReachFromSelf(blk) {
				bOK = false
				why = "the hash block is not inside the pad loop"
			}
		}
		var sum ssa.Value
		if bOK {
			ops := make([]ssa.Value, len(writeOps))
			for i, o := range writeOps {
				// inputs bundled in a local struct (set once) stand for what was stored there
				ops[i] = canonObject(o)
			}
			sum = seq[len(seq)-1].Value()
			// 1: session id
			if call, idx, ok := extractOf(ops[0]); !ok || idx != 0 || call.Common().StaticCallee() == nil || call.Common().StaticCallee().Name() != "MarshalBinary" ||
				!headerFieldAddr(call.Common().Args[0], pkt, "SessionID") || !sessionIDIsBE32(p.localInlined(call.Common().StaticCallee())) {
				bOK, why = false, "1st hash input is not the big-endian session id of this header"
			}
			// 2: key
			if ops[1] != secret {
				bOK, why = false, "2nd hash input is not the secret parameter"
			}
			// 3: version octet
			if call, idx, ok := extractOf(ops[2]); !ok || idx != 0 || call.Common().StaticCallee() == nil || call.Common().StaticCallee().Name() != "MarshalBinary" ||
				!headerFieldAddr(call.Common().Args[0], pkt, "Version") {
				bOK, why = false, "3rd hash input is not this header's version octet (Version.MarshalBinary)"
			}
			// 4: sequence octet
			seqOK := false
			if sl, ok := ops[3].(*ssa.Slice); ok {
				if a, ok := sl.X.(*ssa.Alloc); ok {
					if n, ok := sliceConstLen(sl); ok && n == 1 {
						for _, rf := range refsOf(a) {
							if ia, ok := rf.(*ssa.IndexAddr); ok {
								for _, r2 := range refsOf(ia) {
									if st, ok := r2.(*ssa.Store); ok && st.Addr == ia {
										if cv, ok := st.Val.(*ssa.Convert); ok && is8bit(cv.Type()) && headerFieldLoad(cv.X, pkt, "SeqNo") {
											seqOK = true
										}
									}
								}
							}
						}
					}
				}
			}
			if !seqOK {
				bOK, why = false, "4th hash input is not the single octet byte(Header.SeqNo)"
			}
			// 5: previous digest: phi of (empty, Sum result)
			chainOK := false
			if ph, ok := ops[4].(*ssa.Phi); ok {
				nEmpty, nSum := 0, 0
				for _, e := range ph.Edges {
					if e == sum {
						nSum++
					} else if isNilConst(e) {
						nEmpty++ // var lastHash []byte
					} else if n, ok := sliceConstLen(e); ok && n == 0 {
						nEmpty++
					} else if sl, ok := e.(*ssa.Slice); ok {
						if hi, ok := constInt(sl.High); ok && hi == 0 {
							nEmpty++
						}
					}
				}
				chainOK = nEmpty == 1 && nSum >= 1 && nEmpty+nSum == len(ph.Edges)
			}
			if !chainOK {
				bOK, why = false, "5th hash input is not 'empty on the first round, the previous digest afterwards'"
			}
			if !isNilConst(seq[len(seq)-1].Common().Args[0]) {
				bOK, why = false, "Sum is not called with nil"
			}
		}
		want("b").cond(bOK, "R-PADSHAPE", key+":b:hash-input-order", pos,
			"each round hashes, in this order: session id (big-endian), key, version octet, sequence octet, previous digest (none on the first round) — RFC 8907 §4.5",
			"the pad is not MD5{session_id, key, version, seq_no [, previous digest]}: "+why)
		// (c) pad accumulation and truncation to Header.Length
		var padPhi *ssa.Phi
		cOK := false
		whyC := "no pad accumulator found"
		if sum != nil {
			for _, rf := range refsOf(sum) {
				// append(padphi, sum[:]...)
				var ap *ssa.Call
				if sl, ok := rf.(*ssa.Slice); ok {
					for _, r2 := range refsOf(sl) {
						if c, ok := r2.(*ssa.Call); ok {
							ap = c
						}
					}
				} else if c, ok := rf.(*ssa.Call); ok {
					ap = c
				}
				if ap == nil {
					continue
				}
				bi, ok := ap.Common().Value.(*ssa.Builtin)
				if !ok || bi.Name() != "append" {
					continue
				}
				ph, ok := ap.Common().Args[0].(*ssa.Phi)
				if !ok {
					continue
				}
				padPhi = ph
				// edges of the pad phi: initial empty, append result, or append result truncated to headerLen
				good := true
				trunc := false
				for _, e := range ph.Edges {
					switch {
					case e == ssa.Value(ap):
					default:
						if sl, ok := e.(*ssa.Slice); ok {
							if sl.X == ssa.Value(ap) && sl.Low == nil && sl.High != nil && isHeaderLen(sl.High, pkt) {
								trunc = true
								continue
							}
							if hi, ok := constInt(sl.High); ok && hi == 0 {
								continue
							}
						}
						good = false
					}
				}
				// the other way of truncating: each digest is cut to what is still missing before it is appended,
				// append(pad, sum[:min(headerLen-len(pad), len(sum))]...)
				if sl, ok := rf.(*ssa.Slice); ok && !trunc && good && sl.Low == nil && sl.High != nil {
					if isMinOfMissingAndLen(sl.High, ph, sum, pkt) {
						trunc = true
					}
				}
				// loop condition: len(pad) < headerLen (or the exit test len(pad) >= headerLen at the head of the loop)
				loopOK := false
				for _, hb := range []*ssa.BasicBlock{ph.Block()} {
					iff, ok := hb.Instrs[len(hb.Instrs)-1].(*ssa.If)
					if !ok {
						continue
					}
					bo, ok := iff.Cond.(*ssa.BinOp)
					if !ok || !isHeaderLen(bo.Y, pkt) {
						continue
					}
					lc, ok := bo.X.(*ssa.Call)
					if !ok {
						continue
					}
					if b2, ok := lc.Common().Value.(*ssa.Builtin); !ok || b2.Name() != "len" || lc.Common().Args[0] != ssa.Value(ph) {
						continue
					}
					bodySucc := -1
					switch bo.Op {
					case token.LSS:
						bodySucc = 0
					case token.GEQ:
						bodySucc = 1
					}
					// the body side leads to the append, the other side leaves the loop
					if bodySucc >= 0 && (hb.Succs[bodySucc] == ap.Block() || hb.Succs[bodySucc].Dominates(ap.Block())) && !blockReach(hb.Succs[1-bodySucc], nil)[ap.Block()] {
						loopOK = true
					}
				}
				cOK = good && trunc && loopOK
				whyC = fmt.Sprintf("digest appended to the pad: %v, truncation pad[:int(Header.Length)]: %v, loop 'for len(pad) < int(Header.Length)': %v", good, trunc, loopOK)
			}
		}
		if !cOK && sum != nil {
			// third way of truncating: the digest is appended whole unless more than what is missing, in which
			// case only the missing part is: if rest := H - len(pad); rest < len(sum) { append(pad, sum[:rest]...) }
			// else { append(pad, sum...) }
			if ph, ok := twoAppendTruncation(sum, pkt); ok {
				padPhi, cOK = ph, true
			}
		}
		want("c").cond(cOK, "R-PADSHAPE", key+":c:pad-truncated-to-length", pos,
			"digests are concatenated until the pad reaches Header.Length and the pad is truncated to exactly Header.Length",
			"the pad is not the concatenation of the digests truncated to Header.Length: "+whyC)
		// (d,e) XOR in place over exactly the body, nothing else written
		dOK := false
		nBodyStores, nOther := 0, 0
		for _, b := range F.Blocks {
			for _, in := range b.Instrs {
				st, ok := in.(*ssa.Store)
				if !ok {
					continue
				}
				kind, root, _ := addrRoot(st.Addr, 10)
				if kind == rootLocal {
					continue
				}
				_ = root
				if ia, ok := st.Addr.(*ssa.IndexAddr); ok {
					if bodyDerived(ia.X, pkt, 6) {
						nBodyStores++
						// value: Body[i] ^ pad[i]
						if bo, ok := st.Val.(*ssa.BinOp); ok && bo.Op == token.XOR && padPhi != nil {
							x, y := bo.X, bo.Y
							isPadElem := func(v ssa.Value) bool {
								if u, ok := v.(*ssa.UnOp); ok && u.Op == token.MUL {
									if i2, ok := u.X.(*ssa.IndexAddr); ok && i2.X == ssa.Value(padPhi) && i2.Index == ia.Index {
										return true
									}
								}
								return false
							}
							isBodyElem := func(v ssa.Value) bool {
								if u, ok := v.(*ssa.UnOp); ok && u.Op == token.MUL {
									if i2, ok := u.X.(*ssa.IndexAddr); ok && i2.Index == ia.Index {
										if f, base, ok := loadedField(i2.X); ok && f.Name() == "Body" && base == pkt {
											return true
										}
									}
								}
								return false
							}
							if (isPadElem(x) && isBodyElem(y)) || (isPadElem(y) && isBodyElem(x)) {
								dOK = true
							}
						}
						continue
					}
				}
				nOther++
			}
		}
		want("d").cond(dOK && nBodyStores == 1, "R-PADSHAPE", key+":d:xor-in-place", pos,
			"the only write to the body is Body[i] = Body[i] ^ pad[i] for i over the body: applying the function twice with the same header and secret is the identity",
			fmt.Sprintf("the body is not obfuscated by exactly Body[i] ^= pad[i] (%d stores into Body)", nBodyStores))
		want("e").cond(nOther == 0, "R-PADSHAPE", key+":e:header-untouched", pos,
			"the pad function stores to nothing but its own buffers and the body octets: header bytes and Header.Length are never altered by obfuscation",
			fmt.Sprintf("the pad function writes to %d locations other than its own buffers and Body[i] (header fields or the Body slice itself)", nOther))
		// no call that receives the packet or header and could modify them
		esc := ""
		for _, c := range allCalls(F) {
			f := c.Common().StaticCallee()
			for _, a := range c.Common().Args {
				if a == pkt {
					esc = shortCall(c)
				}
			}
			_ = f
		}
		want("e").cond(esc == "", "R-PADSHAPE", key+":e:packet-not-passed-on", pos, "the packet is not handed to any other function inside the pad function", "the packet is passed to "+esc+" inside the pad function")
	}
	// (f) placement and secret at call sites
	if strings.Contains(parts, "f") {
		rulePadCallSites(p, r)
	}
	if parts == "abcdef" {
		r.floor("R-PADSHAPE", 9)
	} else {
		r.floor("R-PADSHAPE", len(parts))
	}
}

// isHeaderLen: v is int(p.Header.Length) (or the same value).
func isHeaderLen(v ssa.Value, pkt ssa.Value) bool {
	v = stripAllConv(v)
	return headerFieldLoad(v, pkt, "Length")
}

// hasIsMaskTest: func (b *T) Has(f T) bool { return *b&f != 0 }
func hasIsMaskTest(f *ssa.Function) bool {
	if f.Blocks == nil || len(f.Blocks) != 1 || len(f.Params) != 2 {
		return false
	}
	ret, ok := f.Blocks[0].Instrs[len(f.Blocks[0].Instrs)-1].(*ssa.Return)
	if !ok || len(ret.Results) != 1 {
		return false
	}
	ne, ok := ret.Results[0].(*ssa.BinOp)
	if !ok || ne.Op != token.NEQ {
		return false
	}
	and, ok := ne.X.(*ssa.BinOp)
	if !ok || and.Op != token.AND {
		return false
	}
	if z, ok := constInt(ne.Y); !ok || z != 0 {
		return false
	}
	if and.Y != ssa.Value(f.Params[1]) {
		return false
	}
	if and.X == ssa.Value(f.Params[0]) {
		return true // value receiver: func (b T) Has(f T) bool { return b&f != 0 }
	}
	u, ok := and.X.(*ssa.UnOp)
	return ok && u.Op == token.MUL && u.X == ssa.Value(f.Params[0])
}

// flagsOperand: the first argument of a Has call is the address of the flags field (pointer receiver) or its loaded
// value (value receiver); returns the address.
func flagsOperand(v ssa.Value) ssa.Value {
	if u, ok := v.(*ssa.UnOp); ok && u.Op == token.MUL {
		return u.X
	}
	return v
}

// sessionIDIsBE32: the method returns a 4-byte buffer filled by BigEndian.PutUint32(buf, uint32(*s)).
func sessionIDIsBE32(f *ssa.Function) bool {
	if f.Blocks == nil || len(f.Params) != 1 {
		return false
	}
	for _, c := range allCalls(f) {
		g := c.Common().StaticCallee()
		if g == nil || g.Name() != "PutUint32" || g.Pkg == nil || g.Pkg.Pkg.Path() != "encoding/binary" || !strings.Contains(g.String(), "bigEndian") {
			continue
		}
		args := c.Common().Args
		buf, val := args[len(args)-2], args[len(args)-1]
		n, ok := sliceConstLen(buf)
		if !ok || n != 4 {
			return false
		}
		v := stripAllConv(val)
		if u, ok := v.(*ssa.UnOp); ok && u.Op == token.MUL && u.X == ssa.Value(f.Params[0]) {
			// the buffer is what is returned
			for _, b := range f.Blocks {
				if ret, ok := b.Instrs[len(b.Instrs)-1].(*ssa.Return); ok && ret.Results[0] == buf {
					return true
				}
			}
		}
	}
	// written out octet by octet: a 4-byte array holding byte(v>>24), byte(v>>16), byte(v>>8), byte(v) of the
	// receiver's value, returned whole
	for _, b := range f.Blocks {
		ret, ok := b.Instrs[len(b.Instrs)-1].(*ssa.Return)
		if !ok || len(ret.Results) == 0 || b == f.Recover {
			continue
		}
		sl, ok := ret.Results[0].(*ssa.Slice)
		if !ok || sl.Low != nil || sl.High != nil {
			continue
		}
		arr, ok := sl.X.(*ssa.Alloc)
		if !ok {
			continue
		}
		at, ok := arr.Type().(*types.Pointer).Elem().Underlying().(*types.Array)
		if !ok || at.Len() != 4 {
			continue
		}
		got := map[int64]int64{}
		clean := true
		for _, rf := range refsOf(arr) {
			switch x := rf.(type) {
			case *ssa.IndexAddr:
				k, okk := constInt(x.Index)
				for _, r2 := range refsOf(x) {
					st, ok := r2.(*ssa.Store)
					cv, isCv := (ssa.Value)(nil), false
					if ok {
						cv, isCv = st.Val, true
					}
					c2, okc := cv.(*ssa.Convert)
					if !ok || !okk || !isCv || !okc {
						clean = false
						continue
					}
					src, sh, oko := octetOf(c2)
					if !oko {
						clean = false
						continue
					}
					v := stripAllConv(src)
					if u, ok := v.(*ssa.UnOp); !ok || u.Op != token.MUL || u.X != ssa.Value(f.Params[0]) {
						clean = false
						continue
					}
					if _, dup := got[k]; dup {
						clean = false
					}
					got[k] = sh
				}
			case *ssa.Slice, *ssa.DebugRef:
			default:
				clean = false
			}
		}
		if clean && len(got) == 4 && got[0] == 3 && got[1] == 2 && got[2] == 1 && got[3] == 0 {
			return true
		}
	}
	return false
}

// rulePadCallSites: reader de-obfuscates after unmarshalling and before the key-mismatch detector; the writer
// obfuscates after the length store and before marshalling; both use the wrapper's secret, which is set once
// in the constructor from its parameter.
func rulePadCallSites(p *Program, r *Result) {
	ro := p.Roles()
	var secretField *types.Var
	n := 0
	for _, fn := range p.UnitsIn(func(path string) bool { return path == modPath }) {
		for _, c := range allCalls(fn) {
			call, ok := c.(*ssa.Call)
			if !ok || !containsFn(ro.PadFns, call.Common().StaticCallee()) {
				continue
			}
			n++
			key := fnKey(fn) + ":f:pad-call"
			// secret argument = field of the receiver
			var sec ssa.Value
			for _, a := range call.Common().Args {
				if sl, ok := a.Type().Underlying().(*types.Slice); ok {
					if b, ok := sl.Elem().Underlying().(*types.Basic); ok && b.Kind() == types.Uint8 {
						sec = a
					}
				}
			}
			f, base, okf := loadedField(sec)
			fromRecv := okf && len(fn.Params) > 0 && base == ssa.Value(fn.Params[0])
			if fromRecv {
				if secretField == nil {
					secretField = f
				} else if secretField != f {
					fromRecv = false
				}
			}
			place := false
			how := ""
			if containsFn(ro.Readers, fn) {
				// after decode, before the detector
				var dec *ssa.Call
				for dc := range decodeCalls(fn, "Packet") {
					dec = dc
				}
				if dec == nil {
					// a reader that decodes the header on its own and attaches the body itself
					for dc := range decodeCalls(fn, "Header") {
						dec = dc
					}
				}
				var det ssa.CallInstruction
				for _, c2 := range allCalls(fn) {
					if containsFn(ro.Detectors, c2.Common().StaticCallee()) {
						det = c2
					}
				}
				if dec != nil && det != nil {
					g, _ := guardedBySuccess(dec, call, nil)
					g2, _ := guardedBySuccess(call, det, nil)
					place = g && g2
					how = "after the successful packet decode and before the key-mismatch detector"
				}
			} else if containsFn(ro.Writers, fn) {
				place = true // ordering w.r.t. the length store and MarshalBinary is R-FRAMING's writer clause
				how = "before MarshalBinary (R-FRAMING decides the order with the length store)"
			}
			if fromRecv && place {
				r.ok("R-PADSHAPE", key, p.Pos(call.Pos()), true, "the pad function is applied %s, with the connection wrapper's %s field as key", how, f.Name())
			} else {
				r.bad("R-PADSHAPE", key, p.Pos(call.Pos()), "the pad function is not applied at the right point (%v) or not with the connection wrapper's secret field (%v)", place, fromRecv)
			}
		}
	}
	if n < 2 {
		r.bad("R-PADSHAPE", "f:pad-call-sites", "-", "the pad function must be applied by the stream reader and by the stream writer; found %d call sites", n)
	}
	// the secret field is only set in constructors, from their parameter
	if secretField != nil {
		for _, fn := range p.UFuncs() {
			for _, b := range fn.Blocks {
				for _, in := range b.Instrs {
					st, ok := in.(*ssa.Store)
					if !ok {
						continue
					}
					f, base, ok := fieldAddrOf(st.Addr)
					if !ok || f != secretField {
						continue
					}
					_, fresh := base.(*ssa.Alloc)
					_, fromParam := st.Val.(*ssa.Parameter)
					r.cond(fresh && fromParam, "R-PADSHAPE", fnKey(fn)+":f:secret-set-once", p.Pos(st.Pos()),
						"the wrapper's secret is set once, at construction, from the constructor's parameter",
						"the wrapper's secret is assigned outside its constructor or not from the constructor's parameter")
				}
			}
		}
	}
}

// fixedListElems: v is the element of a fixed-size array literal of byte slices visited by a loop over the whole
// array (for _, part := range [N][]byte{a, b, c}); returns the entries in order.
func fixedListElems(v ssa.Value) ([]ssa.Value, bool) {
	var arr *ssa.Alloc
	var index ssa.Value
	var at0 ssa.Instruction
	var skip ssa.Instruction
	if ix, ok := v.(*ssa.Index); ok {
		// the array is ranged over by value: t = *arr; t[i]
		ld, ok := ix.X.(*ssa.UnOp)
		if !ok || ld.Op != token.MUL {
			return nil, false
		}
		arr, _ = ld.X.(*ssa.Alloc)
		index, at0, skip = ix.Index, ix, ld
		// the copy is taken after the entries were stored
		if arr != nil {
			for _, rf := range refsOf(arr) {
				if x, ok := rf.(*ssa.IndexAddr); ok {
					for _, r2 := range refsOf(x) {
						if st, ok := r2.(*ssa.Store); ok && !domInstr(st, ld) {
							return nil, false
						}
					}
				}
			}
		}
	} else {
		u, ok := v.(*ssa.UnOp)
		if !ok || u.Op != token.MUL {
			return nil, false
		}
		ia, ok := u.X.(*ssa.IndexAddr)
		if !ok {
			return nil, false
		}
		arr, _ = ia.X.(*ssa.Alloc)
		index, at0, skip = ia.Index, ia, ia
	}
	if arr == nil || !isAscendingIndex(index) {
		return nil, false
	}
	at, ok := arr.Type().(*types.Pointer).Elem().Underlying().(*types.Array)
	if !ok || at.Len() == 0 || at.Len() > 16 {
		return nil, false
	}
	// the loop runs the index over 0..N-1: its head compares index+1 (or index) with the constant N
	idxPhi, _ := index.(*ssa.Phi)
	if bo, ok := index.(*ssa.BinOp); ok {
		idxPhi, _ = bo.X.(*ssa.Phi)
	}
	if idxPhi == nil {
		return nil, false
	}
	whole := false
	for _, b := range arr.Parent().Blocks {
		iff, ok := b.Instrs[len(b.Instrs)-1].(*ssa.If)
		if !ok {
			continue
		}
		bo, ok := iff.Cond.(*ssa.BinOp)
		if !ok || bo.Op != token.LSS {
			continue
		}
		if c, okc := constInt(bo.Y); okc && c == at.Len() && isAscendingIndex(bo.X) {
			x := bo.X
			if b2, ok := x.(*ssa.BinOp); ok {
				x = b2.X
			}
			if x == ssa.Value(idxPhi) && (b.Succs[0] == at0.Block() || b.Succs[0].Dominates(at0.Block())) {
				whole = true
			}
		}
	}
	if !whole {
		return nil, false
	}
	out := make([]ssa.Value, at.Len())
	for _, rf := range refsOf(arr) {
		if rf == skip {
			continue
		}
		x, ok := rf.(*ssa.IndexAddr)
		if !ok {
			if _, isDbg := rf.(*ssa.DebugRef); isDbg {
				continue
			}
			return nil, false
		}
		k, okk := constInt(x.Index)
		if !okk || k < 0 || k >= at.Len() {
			return nil, false
		}
		for _, r2 := range refsOf(x) {
			st, ok := r2.(*ssa.Store)
			if !ok || st.Addr != ssa.Value(x) || out[k] != nil {
				return nil, false
			}
			out[k] = st.Val
		}
	}
	for _, v := range out {
		if v == nil {
			return nil, false
		}
	}
	return out, true
}

// domInstrAll: every value (an instruction) is computed before at, on every path.
func domInstrAll(vs []ssa.Value, at ssa.Instruction) bool {
	for _, v := range vs {
		in, ok := v.(ssa.Instruction)
		if !ok {
			continue // parameters and constants
		}
		if !domInstr(in, at) {
			return false
		}
	}
	return true
}

// isMinOfMissingAndLen: hv = min(headerLen - len(pad), len(sum)), written as
// need := headerLen - len(pad); if need > len(sum) { need = len(sum) }.
func isMinOfMissingAndLen(hv ssa.Value, pad *ssa.Phi, sum ssa.Value, pkt ssa.Value) bool {
	ph, ok := hv.(*ssa.Phi)
	if !ok || len(ph.Edges) != 2 {
		return false
	}
	isLenOf := func(v ssa.Value, of ssa.Value) bool {
		c, ok := v.(*ssa.Call)
		if !ok {
			return false
		}
		bi, ok := c.Common().Value.(*ssa.Builtin)
		return ok && bi.Name() == "len" && c.Common().Args[0] == of
	}
	isNeed := func(v ssa.Value) bool {
		bo, ok := v.(*ssa.BinOp)
		return ok && bo.Op == token.SUB && isHeaderLen(bo.X, pkt) && isLenOf(bo.Y, pad)
	}
	for i, e := range ph.Edges {
		other := ph.Edges[1-i]
		if !isNeed(e) || !isLenOf(other, sum) {
			continue
		}
		// the edge carrying `need` comes straight from the test 'need > len(sum)' on its false side; the edge
		// carrying len(sum) from its true side
		tb := ph.Block().Preds[i]
		iff, ok := tb.Instrs[len(tb.Instrs)-1].(*ssa.If)
		if !ok {
			return false
		}
		bo, ok := iff.Cond.(*ssa.BinOp)
		if !ok {
			return false
		}
		gt := (bo.Op == token.GTR && bo.X == e && isLenOf(bo.Y, sum)) || (bo.Op == token.LSS && bo.Y == e && isLenOf(bo.X, sum))
		if !gt || tb.Succs[1] != ph.Block() {
			return false
		}
		ob := ph.Block().Preds[1-i]
		return tb.Succs[0] == ob && len(ob.Preds) == 1
	}
	return false
}

// twoAppendTruncation recognises
//
//	for len(pad) < H { ...; if rest := H - len(pad); rest < len(sum) { pad = append(pad, sum[:rest]...) } else { pad = append(pad, sum...) } }
//
// and returns the pad's loop phi.
func twoAppendTruncation(sum ssa.Value, pkt ssa.Value) (*ssa.Phi, bool) {
	var full, cut *ssa.Call
	var cutSlice *ssa.Slice
	isAppend := func(c *ssa.Call) bool {
		bi, ok := c.Common().Value.(*ssa.Builtin)
		return ok && bi.Name() == "append" && len(c.Common().Args) == 2
	}
	for _, rf := range refsOf(sum) {
		switch x := rf.(type) {
		case *ssa.Call:
			if isAppend(x) && x.Common().Args[1] == sum {
				if full != nil {
					return nil, false
				}
				full = x
			}
		case *ssa.Slice:
			for _, r2 := range refsOf(x) {
				if c, ok := r2.(*ssa.Call); ok && isAppend(c) && c.Common().Args[1] == ssa.Value(x) {
					if cut != nil {
						return nil, false
					}
					cut, cutSlice = c, x
				}
			}
		}
	}
	if full == nil || cut == nil || cutSlice.Low != nil || cutSlice.High == nil {
		return nil, false
	}
	ph, ok := full.Common().Args[0].(*ssa.Phi)
	if !ok || cut.Common().Args[0] != ssa.Value(ph) {
		return nil, false
	}
	// rest = H - len(pad)
	rest, ok := cutSlice.High.(*ssa.BinOp)
	if !ok || rest.Op != token.SUB || !isHeaderLen(rest.X, pkt) {
		return nil, false
	}
	lenOf := func(v ssa.Value, of ssa.Value) bool {
		c, ok := v.(*ssa.Call)
		if !ok {
			return false
		}
		bi, ok := c.Common().Value.(*ssa.Builtin)
		return ok && bi.Name() == "len" && c.Common().Args[0] == of
	}
	if !lenOf(rest.Y, ph) {
		return nil, false
	}
	// the test rest < len(sum): cut on the true side, full on the false side
	var test *ssa.BasicBlock
	cutOnTrue := true
	for _, b := range full.Parent().Blocks {
		iff, ok := b.Instrs[len(b.Instrs)-1].(*ssa.If)
		if !ok {
			continue
		}
		bo, ok := iff.Cond.(*ssa.BinOp)
		if !ok {
			continue
		}
		switch {
		case bo.Op == token.LSS && bo.X == ssa.Value(rest) && lenOf(bo.Y, sum):
			test, cutOnTrue = b, true
		case bo.Op == token.GTR && bo.Y == ssa.Value(rest) && lenOf(bo.X, sum):
			test, cutOnTrue = b, true
		case bo.Op == token.GEQ && bo.X == ssa.Value(rest) && lenOf(bo.Y, sum):
			test, cutOnTrue = b, false
		case bo.Op == token.LEQ && bo.Y == ssa.Value(rest) && lenOf(bo.X, sum):
			test, cutOnTrue = b, false
		}
	}
	if test == nil {
		return nil, false
	}
	cs, fs := test.Succs[0], test.Succs[1]
	if !cutOnTrue {
		cs, fs = fs, cs
	}
	if cs != cut.Block() || fs != full.Block() || len(cs.Preds) != 1 || len(fs.Preds) != 1 {
		return nil, false
	}
	// the pad's loop value: initial empty, or one of the two appends
	for _, e := range ph.Edges {
		switch {
		case e == ssa.Value(full), e == ssa.Value(cut):
		default:
			if sl, ok := e.(*ssa.Slice); ok {
				if hi, ok := constInt(sl.High); ok && hi == 0 {
					continue
				}
			}
			if n, ok := sliceConstLen(e); ok && n == 0 {
				continue
			}
			if _, isParam := e.(*ssa.Parameter); isParam {
				continue // a buffer handed in by the caller: checked at the call site by the bounds rule
			}
			return nil, false
		}
	}
	// loop head: len(pad) < H leads to the test
	iff, ok := ph.Block().Instrs[len(ph.Block().Instrs)-1].(*ssa.If)
	if !ok {
		return nil, false
	}
	bo, ok := iff.Cond.(*ssa.BinOp)
	if !ok || bo.Op != token.LSS || !isHeaderLen(bo.Y, pkt) || !lenOf(bo.X, ph) {
		return nil, false
	}
	if !(ph.Block().Succs[0] == test || ph.Block().Succs[0].Dominates(test)) {
		return nil, false
	}
	return ph, true
}
