package main

import (
	"fmt"
	"go/token"
	"go/types"
	"sort"
	"strings"

	"golang.org/x/tools/go/ssa"
)

// R-ADMIT: deny beats allow, first matching scope wins, users stay scoped, refusal closes silently.

const loaderPkg = modPath + "/cmds/server/loader"
const configPkg = modPath + "/cmds/server/config"

// boolTable enumerates the paths of a loop-free bool function with tags for the conditions taken.
func boolTable(fn *ssa.Function) (map[string]bool, bool) {
	out := map[string]bool{}
	okAll := true
	if fn == nil || fn.Blocks == nil {
		return nil, false
	}
	// atomOf: the three questions a filter test asks
	atomOf := func(v ssa.Value) string {
		switch c := v.(type) {
		case *ssa.BinOp:
			if lc, ok := c.X.(*ssa.Call); ok {
				if bi, ok := lc.Common().Value.(*ssa.Builtin); ok && bi.Name() == "len" {
					if k, ok := constInt(c.Y); ok && ((c.Op == token.LSS && k == 1) || (c.Op == token.EQL && k == 0)) {
						return "empty"
					}
				}
			}
		case *ssa.Extract:
			if ta, ok := c.Tuple.(*ssa.TypeAssert); ok && c.Index == 1 && typeIs(ta.AssertedType, "net", "TCPAddr") {
				return "tcp"
			}
		case *ssa.Call:
			if _, isBuiltin := c.Common().Value.(*ssa.Builtin); !isBuiltin {
				if f := c.Common().StaticCallee(); f != nil && f.Signature.Results().Len() == 1 {
					if b, ok := f.Signature.Results().At(0).Type().Underlying().(*types.Basic); ok && b.Kind() == types.Bool {
						return "match"
					}
				}
			}
		}
		return ""
	}
	// eval: the value of a boolean expression on this path under the answers given so far; need names the
	// question whose answer is missing
	var eval func(v ssa.Value, path []*ssa.BasicBlock, ans map[string]bool, depth int) (val bool, need string, ok bool)
	eval = func(v ssa.Value, path []*ssa.BasicBlock, ans map[string]bool, depth int) (bool, string, bool) {
		if depth == 0 {
			return false, "", false
		}
		if a := atomOf(v); a != "" {
			if x, known := ans[a]; known {
				return x, "", true
			}
			return false, a, true
		}
		switch x := v.(type) {
		case *ssa.Const:
			if x.Value == nil {
				return false, "", false
			}
			return x.Value.ExactString() == "true", "", true
		case *ssa.UnOp:
			if x.Op == token.NOT {
				b, need, ok := eval(x.X, path, ans, depth-1)
				return !b, need, ok
			}
		case *ssa.Phi:
			at := -1
			for i := len(path) - 1; i >= 0; i-- {
				if path[i] == x.Block() {
					at = i
					break
				}
			}
			if at <= 0 {
				return false, "", false
			}
			for i, pr := range x.Block().Preds {
				if pr == path[at-1] {
					return eval(x.Edges[i], path[:at], ans, depth-1)
				}
			}
		}
		return false, "", false
	}
	var walk func(b *ssa.BasicBlock, tags []string, ans map[string]bool, path []*ssa.BasicBlock, depth int)
	fork := func(need string, tags []string, ans map[string]bool, f func(tags []string, ans map[string]bool)) {
		for _, tv := range []bool{true, false} {
			a2 := map[string]bool{}
			for k, v := range ans {
				a2[k] = v
			}
			a2[need] = tv
			t := "=F"
			if tv {
				t = "=T"
			}
			f(append(append([]string{}, tags...), need+t), a2)
		}
	}
	walk = func(b *ssa.BasicBlock, tags []string, ans map[string]bool, path []*ssa.BasicBlock, depth int) {
		if depth > 48 {
			okAll = false
			return
		}
		path = append(append([]*ssa.BasicBlock{}, path...), b)
		switch t := b.Instrs[len(b.Instrs)-1].(type) {
		case *ssa.Return:
			if len(t.Results) == 0 {
				okAll = false
				return
			}
			val, need, ok := eval(t.Results[0], path, ans, 12)
			if !ok {
				okAll = false
				return
			}
			if need != "" {
				fork(need, tags, ans, func(tg []string, a map[string]bool) {
					v2, n2, ok2 := eval(t.Results[0], path, a, 12)
					if !ok2 || n2 != "" {
						okAll = false
						return
					}
					out[strings.Join(tg, ",")] = v2
				})
				return
			}
			out[strings.Join(tags, ",")] = val
		case *ssa.Jump:
			walk(b.Succs[0], tags, ans, path, depth+1)
		case *ssa.If:
			val, need, ok := eval(t.Cond, path, ans, 12)
			if !ok {
				dbg("boolTable %s: cannot evaluate condition %T %v in block %d", fn.Name(), t.Cond, t.Cond, b.Index)
				okAll = false
				return
			}
			if need != "" {
				fork(need, tags, ans, func(tg []string, a map[string]bool) {
					v2, n2, ok2 := eval(t.Cond, path, a, 12)
					if !ok2 || n2 != "" {
						okAll = false
						return
					}
					if v2 {
						walk(b.Succs[0], tg, a, path, depth+1)
					} else {
						walk(b.Succs[1], tg, a, path, depth+1)
					}
				})
				return
			}
			if val {
				walk(b.Succs[0], tags, ans, path, depth+1)
			} else {
				walk(b.Succs[1], tags, ans, path, depth+1)
			}
		default:
			dbg("boolTable %s: block %d ends in %T", fn.Name(), b.Index, t)
			okAll = false
		}
	}
	walk(fn.Blocks[0], nil, map[string]bool{}, nil, 0)
	return out, okAll
}

var denyTable = map[string]bool{"empty=T": false, "empty=F,tcp=F": true, "empty=F,tcp=T,match=T": true, "empty=F,tcp=T,match=F": false}
var allowTable = map[string]bool{"empty=T": true, "empty=F,tcp=F": false, "empty=F,tcp=T,match=T": true, "empty=F,tcp=T,match=F": false}

func sameTable(a, b map[string]bool) bool {
	if len(a) != len(b) {
		return false
	}
	for k, v := range a {
		if w, ok := b[k]; !ok || w != v {
			return false
		}
	}
	return true
}

// filterSourceField: which ServerConfig field (PrefixDeny / PrefixAllow) result #k of the filter builder derives from.
func filterSourceFields(p *Program) map[int]string {
	out := map[int]string{}
	for _, fn := range p.FuncsIn(func(path string) bool { return path == loaderPkg }) {
		res := fn.Signature.Results()
		if res.Len() != 2 || !isFilterPtr(res.At(0).Type()) || !isFilterPtr(res.At(1).Type()) {
			continue
		}
		for _, b := range fn.Blocks {
			ret, ok := b.Instrs[len(b.Instrs)-1].(*ssa.Return)
			if !ok {
				continue
			}
			for i := 0; i < 2; i++ {
				for _, rv := range returnedValues(fn, ret, i) {
					// newPrefixFilter(strToIPNet(c.<Field>))
					v := rv
					for d := 0; d < 4; d++ {
						call, ok := v.(*ssa.Call)
						if !ok || len(call.Common().Args) == 0 {
							break
						}
						v = call.Common().Args[0]
					}
					if f, _, ok := loadedField(v); ok {
						out[i] = f.Name()
					}
				}
			}
		}
	}
	return out
}

func isFilterMethod(f *ssa.Function) bool {
	rv := f.Signature.Recv()
	return rv != nil && isFilterPtr(types.NewPointer(derefT(rv.Type())))
}

// filterFieldOf: the backward slice of v (through calls' arguments, φ-nodes, appends, conversions, range
// elements and loads of locals) reads exactly one of the two prefix lists of the configuration; returns its
// field name.
func filterFieldOf(v ssa.Value) string {
	found := map[string]bool{}
	seen := map[ssa.Value]bool{}
	var walk func(x ssa.Value, d int)
	walk = func(x ssa.Value, d int) {
		if x == nil || d == 0 || seen[x] {
			return
		}
		seen[x] = true
		if f, _, ok := loadedField(x); ok && (f.Name() == "PrefixDeny" || f.Name() == "PrefixAllow") {
			found[f.Name()] = true
			return
		}
		switch y := x.(type) {
		case *ssa.Call:
			for _, a := range y.Common().Args {
				walk(a, d-1)
			}
		case *ssa.Phi:
			for _, e := range y.Edges {
				walk(e, d-1)
			}
		case *ssa.Slice:
			walk(y.X, d-1)
		case *ssa.Convert:
			walk(y.X, d-1)
		case *ssa.ChangeType:
			walk(y.X, d-1)
		case *ssa.MakeInterface:
			walk(y.X, d-1)
		case *ssa.Extract:
			walk(y.Tuple, d-1)
		case *ssa.Next:
			walk(y.Iter, d-1)
		case *ssa.Range:
			walk(y.X, d-1)
		case *ssa.Index:
			walk(y.X, d-1)
		case *ssa.IndexAddr:
			walk(y.X, d-1)
		case *ssa.Alloc:
			for _, st := range allocStores(y) {
				walk(st.Val, d-1)
			}
			for _, rf := range refsOf(y) {
				if ia, ok := rf.(*ssa.IndexAddr); ok {
					for _, r2 := range refsOf(ia) {
						if st, ok := r2.(*ssa.Store); ok {
							walk(st.Val, d-1)
						}
					}
				}
			}
		case *ssa.UnOp:
			if a, ok := y.X.(*ssa.Alloc); ok {
				for _, st := range allocStores(a) {
					walk(st.Val, d-1)
				}
				// elements stored into a local array (variadic argument packs)
				for _, rf := range refsOf(a) {
					if ia, ok := rf.(*ssa.IndexAddr); ok {
						for _, r2 := range refsOf(ia) {
							if st, ok := r2.(*ssa.Store); ok {
								walk(st.Val, d-1)
							}
						}
					}
				}
			} else {
				walk(y.X, d-1)
			}
		}
	}
	walk(v, 20)
	if len(found) == 1 {
		for k := range found {
			return k
		}
	}
	return ""
}

// bundleOperand stands for field #field of the struct parameter par (the lookup state handed over as one value).
// It implements ssa.Value only to serve as a key next to plain parameters.
type bundleOperand struct {
	*ssa.Parameter
	field int
}

// operandOf: v is a parameter, or a read of a field of a struct parameter (directly or through its spill).
func operandOf(v ssa.Value) (par *ssa.Parameter, field int, ok bool) {
	for i := 0; i < 2; i++ {
		u, isLoad := v.(*ssa.UnOp)
		if !isLoad || u.Op != token.MUL {
			break
		}
		if fa, isFA := u.X.(*ssa.FieldAddr); isFA {
			if al, isAl := fa.X.(*ssa.Alloc); isAl {
				if pv := spilledParam(al); pv != nil {
					return pv, fa.Field, true
				}
			}
			return nil, 0, false
		}
		v = u.X
	}
	if f, isF := v.(*ssa.Field); isF {
		if pv, isP := f.X.(*ssa.Parameter); isP {
			return pv, f.Field, true
		}
		if u, isLoad := f.X.(*ssa.UnOp); isLoad && u.Op == token.MUL {
			if al, isAl := u.X.(*ssa.Alloc); isAl {
				if pv := spilledParam(al); pv != nil {
					return pv, f.Field, true
				}
			}
		}
	}
	if pv, isP := v.(*ssa.Parameter); isP {
		return pv, -1, true
	}
	return nil, 0, false
}

// spilledParam: al is the local a parameter is spilled into (exactly one store, of the parameter, in the entry block).
func spilledParam(al *ssa.Alloc) *ssa.Parameter {
	return spilledParamN(al, 3)
}

func spilledParamN(al *ssa.Alloc, depth int) *ssa.Parameter {
	var par *ssa.Parameter
	n := 0
	for _, ref := range *al.Referrers() {
		if st, ok := ref.(*ssa.Store); ok && st.Addr == ssa.Value(al) {
			n++
			par, _ = st.Val.(*ssa.Parameter)
			// the spilled value receiver of a folded helper: a copy of the caller's own spilled parameter
			if ld, isLoad := st.Val.(*ssa.UnOp); par == nil && isLoad && ld.Op == token.MUL && depth > 0 {
				if src, isAl := ld.X.(*ssa.Alloc); isAl && src != al {
					par = spilledParamN(src, depth-1)
				}
			}
		}
	}
	if n != 1 {
		return nil
	}
	return par
}

func sameOperand(v ssa.Value, key ssa.Value) bool {
	par, field, ok := operandOf(v)
	if !ok {
		return false
	}
	if bo, isB := key.(bundleOperand); isB {
		return par == bo.Parameter && field == bo.field
	}
	return field == -1 && ssa.Value(par) == key
}

func roleOf(role map[ssa.Value]string, v ssa.Value) string {
	for k, ro := range role {
		if sameOperand(v, k) {
			return ro
		}
	}
	return ""
}

func ruleAdmit(p *Program, r *Result) {
	src := filterSourceFields(p)
	// A1: the lookup goroutine
	foundLookup := false
	for _, upd := range p.UnitsIn(func(path string) bool { return path == loaderPkg }) {
		for _, b := range upd.Blocks {
			for _, in := range b.Instrs {
				g, ok := in.(*ssa.Go)
				if !ok {
					continue
				}
				cl := g.Call.StaticCallee()
				if cl == nil || cl.Blocks == nil {
					continue
				}
				// the filters' own methods are units of this rule: the function as written is preferred; its
				// view only when the consultation is spread over helpers
				if p.useViews {
					direct := 0
					for _, c := range allCalls(cl) {
						if f := c.Common().StaticCallee(); f != nil && isFilterMethod(f) {
							direct++
						}
					}
					if direct < 2 {
						// the filters' tests and the provider scan stay calls: they are units of this rule
						cl = p.viewKeeping(cl, func(f *ssa.Function) bool {
							if isFilterMethod(f) {
								return true
							}
							for _, pr := range f.Params {
								if isProviderSlice(pr.Type()) {
									return true
								}
							}
							return false
						})
					}
				}
				// which closure parameters are filters, and from which config field do they come?
				role := map[ssa.Value]string{}
				var provParam ssa.Value
				isProv := func(v ssa.Value) bool { return provParam != nil && sameOperand(v, provParam) }
				for i, pr := range cl.Params {
					if i >= len(g.Call.Args) {
						continue
					}
					// the three values handed over as one struct value: its fields play the roles
					if prov, filters, isB := stateBundle(pr.Type()); isB {
						provParam = bundleOperand{pr, prov}
						for _, fi := range filters {
							for _, al := range bundleAllocs(g.Call.Args[i]) {
								for _, st := range fieldStoresOf(al, fi) {
									for _, s2 := range phiSources(st.Val) {
										if _, idx, ok := extractOf(s2); ok {
											if f, ok := src[idx]; ok {
												role[bundleOperand{pr, fi}] = f
											}
										} else if f := filterFieldOf(s2); f != "" {
											role[bundleOperand{pr, fi}] = f
										}
									}
								}
							}
						}
						continue
					}
					if isProviderSlice(pr.Type()) {
						provParam = pr
					}
					if !isFilterPtr(pr.Type()) {
						continue
					}
					for _, s := range phiSources(g.Call.Args[i]) {
						if call, idx, ok := extractOf(s); ok {
							_ = call
							if f, ok := src[idx]; ok {
								role[pr] = f
							}
						} else if f := filterFieldOf(s); f != "" {
							// the filter builder was folded into this function: the value is built right here
							role[pr] = f
						}
					}
				}
				if len(role) != 2 || provParam == nil {
					continue
				}
				foundLookup = true
				key := fnKey(cl)
				ruleAnswersOnlyFromLookup(p, r, g.Call.StaticCallee(), key)
				var denyCall, allowCall, scan *ssa.Call
				for _, c := range allCalls(cl) {
					call, ok := c.(*ssa.Call)
					if !ok || len(call.Common().Args) == 0 {
						continue
					}
					switch roleOf(role, call.Common().Args[0]) {
					case "PrefixDeny":
						denyCall = call
					case "PrefixAllow":
						allowCall = call
					}
					for _, a := range call.Common().Args {
						if isProv(a) {
							scan = call
						}
					}
				}
				if denyCall == nil || allowCall == nil || scan == nil {
					r.bad("R-ADMIT", key+":order", p.Pos(cl.Pos()), "the lookup does not consult the deny filter, the allow filter and the provider list (deny: %v, allow: %v, providers: %v)", denyCall != nil, allowCall != nil, scan != nil)
					continue
				}
				order := domInstr(denyCall, allowCall) && domInstr(allowCall, scan)
				// every call that hands the provider list on must lie behind both filters
				for _, c := range allCalls(cl) {
					uses := false
					for _, a := range c.Common().Args {
						if isProv(a) {
							uses = true
						}
					}
					if !uses {
						continue
					}
					behind := func(fc *ssa.Call, passIdx int) bool {
						iff, ok := fc.Block().Instrs[len(fc.Block().Instrs)-1].(*ssa.If)
						if !ok {
							return false
						}
						cond := iff.Cond
						if u, isNot := cond.(*ssa.UnOp); isNot && u.Op == token.NOT {
							cond = u.X
							passIdx = 1 - passIdx
						}
						if cond != ssa.Value(fc) {
							return false
						}
						s := fc.Block().Succs[passIdx]
						return (s == c.Block() || s.Dominates(c.Block())) && len(s.Preds) == 1
					}
					okD, okA := false, false
					for _, c2 := range allCalls(cl) {
						call2, isCall := c2.(*ssa.Call)
						if !isCall || len(call2.Common().Args) == 0 {
							continue
						}
						if ro := roleOf(role, call2.Common().Args[0]); ro != "" {
							if ro == "PrefixDeny" && call2.Common().StaticCallee() == denyCall.Common().StaticCallee() && behind(call2, 1) {
								okD = true
							}
							if ro == "PrefixAllow" && call2.Common().StaticCallee() == allowCall.Common().StaticCallee() && behind(call2, 0) {
								okA = true
							}
						}
					}
					if !okD || !okA {
						order = false
					}
				}
				// deny==true edge and allow==false edge end the lookup without the scan
				blockedOK := true
				// edgeWhen: the successor taken when call evaluates to val (the test may be written negated)
				edgeWhen := func(call *ssa.Call, val bool) *ssa.BasicBlock {
					iff, ok := call.Block().Instrs[len(call.Block().Instrs)-1].(*ssa.If)
					if !ok {
						return nil
					}
					cond := iff.Cond
					if u, isNot := cond.(*ssa.UnOp); isNot && u.Op == token.NOT {
						cond = u.X
						val = !val
					}
					if cond != ssa.Value(call) {
						return nil
					}
					if val {
						return call.Block().Succs[0]
					}
					return call.Block().Succs[1]
				}
				if e := edgeWhen(denyCall, true); e == nil || blockReach(e, nil)[scan.Block()] {
					blockedOK = false
				}
				if e := edgeWhen(allowCall, false); e == nil || blockReach(e, nil)[scan.Block()] {
					blockedOK = false
				}
				r.cond(order && blockedOK, "R-ADMIT", key+":order", p.Pos(denyCall.Pos()),
					"the filter built from prefix_deny is consulted first and refuses on a hit; then the filter built from prefix_allow refuses on a miss; only then are the providers scanned",
					"the lookup order is not deny -> allow -> providers with refusal on the blocking edges: a denied address could be admitted by the allow list or by a provider")
				dt, ok1 := boolTable(denyCall.Common().StaticCallee())
				at, ok2 := boolTable(allowCall.Common().StaticCallee())
				// the tests written over small helpers (empty, lookup, record): read them with the helpers folded in,
				// keeping the prefix match itself a call
				keepMatch := func(f *ssa.Function) bool {
					// the function that walks the prefixes: it loops, and asks IPNet.Contains itself or through a helper
					loops := false
					for _, b := range f.Blocks {
						if blockReachFromSelf(b) {
							loops = true
						}
					}
					return loops && reachesContains(f, 3)
				}
				if !(ok1 && sameTable(dt, denyTable)) {
					dt, ok1 = boolTable(p.viewKeeping(p.orig(denyCall.Common().StaticCallee()), keepMatch))
				}
				if !(ok2 && sameTable(at, allowTable)) {
					at, ok2 = boolTable(p.viewKeeping(p.orig(allowCall.Common().StaticCallee()), keepMatch))
				}
				r.cond(ok1 && sameTable(dt, denyTable), "R-ADMIT", key+":deny-semantics", p.Pos(denyCall.Pos()),
					"the deny test: empty list = no opinion (false); non-TCP address = refused (true); otherwise true iff a prefix matches",
					fmt.Sprintf("the deny test does not have the truth table {empty:false, non-TCP:true, match:true, else:false}: %v", dt))
				r.cond(ok2 && sameTable(at, allowTable), "R-ADMIT", key+":allow-semantics", p.Pos(allowCall.Pos()),
					"the allow test: empty list = no opinion (true); non-TCP address = refused (false); otherwise true iff a prefix matches",
					fmt.Sprintf("the allow test does not have the truth table {empty:true, non-TCP:false, match:true, else:false}: %v", at))
				// A2: the scan
				ruleProviderScan(p, r, scan.Common().StaticCallee())
			}
		}
	}
	if !foundLookup {
		r.undecided("R-ADMIT", "lookup", "-", "UNRESOLVED: the lookup goroutine receiving (providers, deny filter, allow filter) was not found")
	}
	ruleContainsUnconditional(p, r)
	ruleBuildScopes(p, r)
	ruleHasScope(p, r)
	ruleAcceptRefusal(p, r)
	r.floor("R-ADMIT", 10)
}

// ruleAnswersOnlyFromLookup: a query is answered by the lookup goroutine and by nothing else. The answer type is the
// element type of the channel the lookup goroutine sends its result on; a send of that type anywhere in the loader
// outside of the code the lookup goroutine executes (the update loop answering from a table of earlier answers, a
// fast path for 'known' remotes) is an answer that did not pass the deny filter, the allow filter and the ordered
// scan of the providers of the configuration current at the time of the query.
func ruleAnswersOnlyFromLookup(p *Program, r *Result, lookup *ssa.Function, key string) {
	inLookup := map[*ssa.Function]bool{}
	var walk func(f *ssa.Function)
	walk = func(f *ssa.Function) {
		if f == nil || inLookup[f] || f.Blocks == nil {
			return
		}
		inLookup[f] = true
		for _, c := range allCalls(f) {
			if _, isGo := c.(*ssa.Go); isGo {
				continue
			}
			if g := c.Common().StaticCallee(); g != nil && g.Pkg == f.Pkg {
				walk(g)
			}
		}
		for _, a := range f.AnonFuncs {
			walk(a)
		}
	}
	walk(lookup)
	sendsOf := func(f *ssa.Function) []*ssa.Send {
		var out []*ssa.Send
		for _, b := range f.Blocks {
			for _, in := range b.Instrs {
				if sd, ok := in.(*ssa.Send); ok {
					out = append(out, sd)
				}
			}
		}
		return out
	}
	var answer []types.Type
	for f := range inLookup {
		for _, sd := range sendsOf(f) {
			if ct, ok := sd.Chan.Type().Underlying().(*types.Chan); ok {
				if _, isStruct := ct.Elem().Underlying().(*types.Struct); isStruct {
					answer = append(answer, ct.Elem())
				}
			}
		}
	}
	if len(answer) == 0 {
		r.undecided("R-ADMIT", key+":answered-only-by-the-lookup", p.Pos(lookup.Pos()), "the lookup goroutine sends no struct-typed answer on a channel")
		return
	}
	good := true
	for _, f := range p.UnitsIn(func(path string) bool { return path == loaderPkg }) {
		if inLookup[f] || inLookup[p.orig(f)] {
			continue
		}
		for _, sd := range sendsOf(f) {
			ct, ok := sd.Chan.Type().Underlying().(*types.Chan)
			if !ok {
				continue
			}
			for _, at := range answer {
				if types.Identical(ct.Elem(), at) {
					good = false
					r.bad("R-ADMIT", key+":answered-only-by-the-lookup:"+fnKey(f), p.Pos(sd.Pos()),
						"a lookup answer (%s) is sent from %s, outside of the lookup goroutine: this answer has not passed the deny filter, the allow filter and the ordered provider scan of the current configuration (an answer kept from an earlier lookup survives a reload and skips the filters)", typeName(at), fnKey(f))
				}
			}
		}
	}
	if good {
		r.ok("R-ADMIT", key+":answered-only-by-the-lookup", p.Pos(lookup.Pos()), true, "every send of the lookup's answer type in the loader is executed by the lookup goroutine (%d functions)", len(inLookup))
	}
}

// ruleProviderScan: ordered scan, first provider with (secret, handler, nil) wins, exhaustion refuses.
func ruleProviderScan(p *Program, r *Result, fn *ssa.Function) {
	if fn == nil || fn.Blocks == nil {
		r.undecided("R-ADMIT", "scan", "-", "UNRESOLVED provider scan function")
		return
	}
	key := fnKey(fn) + ":first-match-wins"
	var get *ssa.Call
	for _, c := range allCalls(fn) {
		if call, ok := c.(*ssa.Call); ok && call.Common().IsInvoke() && call.Common().Method.Name() == "Get" && typeIs(call.Common().Value.Type(), modPath, "SecretProvider") {
			get = call
		}
	}
	if get == nil {
		r.bad("R-ADMIT", key, p.Pos(fn.Pos()), "the scan does not call SecretProvider.Get")
		return
	}
	// receiver: element of the provider slice parameter at the range index
	ordered := false
	if u, ok := get.Common().Value.(*ssa.UnOp); ok && u.Op == token.MUL {
		if ia, ok := u.X.(*ssa.IndexAddr); ok {
			if _, isParam := ia.X.(*ssa.Parameter); isParam && isProviderSlice(ia.X.Type()) {
				if isAscendingIndex(ia.Index) {
					ordered = true
				}
			}
		}
	}
	hit := false
	miss := false
	for _, b := range fn.Blocks {
		ret, ok := b.Instrs[len(b.Instrs)-1].(*ssa.Return)
		if !ok || b == fn.Recover {
			continue
		}
		res := ret.Results
		if len(res) == 1 {
			// the three answers bundled in one struct value (secret, handler, error)
			if three, ok := scanAnswerOf(res[0]); ok {
				res = three
			}
		}
		if len(res) != 3 {
			continue
		}
		c0, i0, ok0 := extractOf(res[0])
		c1, i1, ok1 := extractOf(res[1])
		if ok0 && ok1 && c0 == get && c1 == get && i0 == 0 && i1 == 1 {
			g, _ := guardedBySuccess(get, ret, map[*ssa.BasicBlock]bool{get.Block(): true})
			if g && nonNilGuarded(res[0], ret) && nonNilGuarded(res[1], ret) {
				hit = true
			}
			continue
		}
		if isNilConst(res[0]) && isNilConst(res[1]) && !isNilConst(res[2]) {
			miss = true
		}
	}
	r.cond(ordered && hit && miss, "R-ADMIT", key, p.Pos(get.Pos()),
		"providers are asked in slice order; the first one returning (non-nil secret, non-nil handler, nil error) is returned at once; exhaustion returns (nil, nil, error)",
		fmt.Sprintf("the provider scan is not 'ordered, first complete answer wins, exhaustion refuses' (ordered: %v, returns first hit: %v, refuses on exhaustion: %v)", ordered, hit, miss))
}

// ruleContainsUnconditional: where configured prefixes are matched against the remote address, every
// prefix that parses is tested with IPNet.Contains — no other condition skips a prefix.
func ruleContainsUnconditional(p *Program, r *Result) {
	n := 0
	for _, fn := range p.UUnits() {
		pk := p.orig(fn).Pkg
		if pk == nil || !(pk.Pkg.Path() == loaderPkg || strings.HasPrefix(pk.Pkg.Path(), configPkg+"/secret/")) {
			continue
		}
		for _, c := range allCalls(fn) {
			f := c.Common().StaticCallee()
			if f == nil || f.Name() != "Contains" || !typeIsRecv(f, "net", "IPNet") {
				continue
			}
			n++
			key := fnKey(fn) + ":every-prefix-tested"
			good := true
			why := ""
			// Ifs inside the loop that dominate the Contains call
			for d := c.Block(); d != nil; d = d.Idom() {
				id := d.Idom()
				if id == nil || !blockReachFromSelf(id) {
					break
				}
				iff, ok := id.Instrs[len(id.Instrs)-1].(*ssa.If)
				if !ok {
					continue
				}
				if isLoopHeadTest(iff) {
					continue
				}
				// allowed: nil / error tests of the parse result
				if bo, ok := iff.Cond.(*ssa.BinOp); ok && (isNilConst(bo.X) || isNilConst(bo.Y)) {
					continue
				}
				good = false
				why = fmt.Sprintf("the test at %s decides whether a prefix is compared at all", p.Pos(iff.Pos()))
			}
			// the prefixes compared are all the configured ones: the loop runs over one collection held in a field
			// (not over a list chosen by some property of the address)
			if coll, ok := prefixCollectionOf(c.Common().Args[0]); !ok {
				good = false
				why = "the prefix compared does not come from a loop over a collection"
			} else if _, _, isField := loadedField(coll); !isField {
				good = false
				why = fmt.Sprintf("the prefixes compared are not the whole configured collection held in one field but %s: a prefix of the other part is never asked", describeValue(coll))
			}
			// argument: the IP of the remote TCP address
			arg := c.Common().Args[len(c.Common().Args)-1]
			if fl, _, ok := loadedField(arg); !ok || fl.Name() != "IP" {
				good = false
				why = "the address tested is not the remote TCP address's IP"
			}
			r.cond(good, "R-ADMIT", key, p.Pos(c.Pos()),
				"every configured prefix that parses is compared with the remote IP by IPNet.Contains (which handles IPv4-mapped forms); nothing else filters prefixes",
				"a prefix can be skipped before IPNet.Contains is asked: "+why+" — e.g. an IPv4-mapped remote would slip past an IPv4 deny prefix")
		}
	}
	if n < 2 {
		r.bad("R-ADMIT", "every-prefix-tested", "-", "expected IPNet.Contains tests in the prefix filter and in the prefix secret provider; found %d", n)
	}
}

func isLoopHeadTest(iff *ssa.If) bool {
	switch c := iff.Cond.(type) {
	case *ssa.BinOp:
		if c.Op == token.LSS {
			if bo, ok := c.X.(*ssa.BinOp); ok && bo.Op == token.ADD {
				if ph, ok := bo.X.(*ssa.Phi); ok && isRangeIndexPhi(ph) {
					return true
				}
			}
		}
	case *ssa.Extract:
		if _, ok := c.Tuple.(*ssa.Next); ok {
			return true
		}
	}
	return false
}

// ruleBuildScopes: one provider per secret configuration, in order, holding only its own users.
func ruleBuildScopes(p *Program, r *Result) {
	bp := p.buildPath()
	var build *ssa.Function
	for f := range bp {
		if isProviderSlice(resultType(f, 0)) && f.Pkg != nil && f.Pkg.Pkg.Path() == loaderPkg && len(f.Params) >= 2 {
			// the function that builds the list itself (appends to it), not a wrapper handing its result on
			builds := false
			for _, c := range allCalls(p.view(f)) {
				if bi, ok := c.Common().Value.(*ssa.Builtin); ok && bi.Name() == "append" && isProviderSlice(c.Common().Args[0].Type()) {
					builds = true
				}
			}
			if builds && (build == nil || f.String() < build.String()) {
				build = f
			}
		}
	}
	if build == nil {
		r.undecided("R-ADMIT", "build", "-", "UNRESOLVED: the function building the provider list from a ServerConfig")
		return
	}
	build = p.view(build)
	key := fnKey(build)
	// providers appended in the order of the ranged Secrets slice
	appended := false
	for _, c := range allCalls(build) {
		if bi, ok := c.Common().Value.(*ssa.Builtin); ok && bi.Name() == "append" && isProviderSlice(c.Common().Args[0].Type()) {
			if blockReachFromSelf(c.Block()) {
				appended = true
			}
		}
	}
	rangedSecrets := false
	for _, b := range build.Blocks {
		for _, in := range b.Instrs {
			if ia, ok := in.(*ssa.IndexAddr); ok {
				if f, _, ok := loadedField(ia.X); ok && f.Name() == "Secrets" {
					if bo, ok := ia.Index.(*ssa.BinOp); ok {
						if ph, ok := bo.X.(*ssa.Phi); ok && isRangeIndexPhi(ph) {
							rangedSecrets = true
						}
					}
				}
			}
		}
	}
	r.cond(appended && rangedSecrets, "R-ADMIT", key+":providers-in-config-order", p.Pos(build.Pos()),
		"providers are appended to an ordered slice while ranging the secrets list by index: configuration order is lookup order",
		"the provider list is not built by appending while ranging the ordered secrets list")
	// nothing but the provider list is carried from one secret configuration to the next: a map or other container
	// made before the loop over the configurations and written inside it would let one scope's users, credentials
	// or handlers show up in another
	{
		good := true
		why := ""
		// (read with the build's helpers folded in, whichever representation the rest is evaluated on: the write
		// may sit in a small helper of the container's type)
		for _, b := range p.localInlined(p.orig(build)).Blocks {
			if !blockReachFromSelf(b) {
				continue
			}
			for _, in := range b.Instrs {
				mu, ok := in.(*ssa.MapUpdate)
				if !ok {
					continue
				}
				var made ssa.Instruction
				for _, src := range phiSources(mu.Map) {
					if mk, ok := src.(*ssa.MakeMap); ok {
						made = mk
					} else if c, ok := src.(*ssa.Call); ok {
						made = c
					} else if _, isParam := src.(*ssa.Parameter); isParam {
						made = nil
						good, why = false, "a map handed in from outside is written while building (at "+p.Pos(mu.Pos())+")"
					}
				}
				if made != nil && !blockReachFromSelf(made.Block()) {
					good = false
					why = fmt.Sprintf("the map made at %s, before the loop over the secret configurations, is written inside it (at %s)", p.Pos(made.Pos()), p.Pos(mu.Pos()))
				}
			}
		}
		r.cond(good, "R-ADMIT", key+":no-cross-scope-state", p.Pos(build.Pos()),
			"no map made outside the loop over the secret configurations is written inside it: nothing of one scope is kept for the next",
			"state is carried from one secret configuration to the next while building: "+why+" - a user's authenticator, rights or handler of one scope can be handed to another scope")
	}
	// the per-scope user map
	for _, b := range build.Blocks {
		for _, in := range b.Instrs {
			mu, ok := in.(*ssa.MapUpdate)
			if !ok {
				continue
			}
			mt, ok := mu.Map.Type().Underlying().(*types.Map)
			if !ok {
				continue
			}
			pt, ok := mt.Elem().(*types.Pointer)
			if !ok || !typeIs(pt.Elem(), configPkg, "AAA") {
				continue
			}
			mk, isFresh := mu.Map.(*ssa.MakeMap)
			freshPerScope := isFresh && blockReachFromSelf(mk.Block())
			// value: NewAAA(...) built in this iteration
			built := false
			nBuilt := 0
			for _, src := range phiSources(mu.Value) {
				if isNilConst(src) {
					continue // the 'no AAA for this user' answer of a folded helper: that path skips the store
				}
				vcall, isCall := src.(*ssa.Call)
				if isCall && vcall.Common().StaticCallee() != nil && vcall.Common().StaticCallee().Name() == "NewAAA" && blockReachFromSelf(vcall.Block()) {
					nBuilt++
				} else {
					nBuilt = -100
				}
			}
			built = nBuilt > 0
			// guarded by HasScope(provider.Name) == true and preceded by LocalizeToScope(provider.Name)
			var has, loc *ssa.Call
			for _, c := range allCalls(build) {
				call, ok := c.(*ssa.Call)
				if !ok || call.Common().StaticCallee() == nil {
					continue
				}
				switch call.Common().StaticCallee().Name() {
				case "HasScope":
					has = call
				case "LocalizeToScope":
					loc = call
				}
			}
			scoped := false
			if has != nil && loc != nil {
				if iff, ok := has.Block().Instrs[len(has.Block().Instrs)-1].(*ssa.If); ok && iff.Cond == ssa.Value(has) {
					in := has.Block().Succs[0]
					if (in == mu.Block() || in.Dominates(mu.Block())) && len(in.Preds) == 1 && domInstr(loc, mu) {
						// both are given the name of the secret configuration of this iteration
						n1, _, ok1 := loadedField(has.Common().Args[len(has.Common().Args)-1])
						n2, _, ok2 := loadedField(loc.Common().Args[len(loc.Common().Args)-1])
						if ok1 && ok2 && n1.Name() == "Name" && n2.Name() == "Name" {
							scoped = true
						}
					}
				}
			}
			r.cond(freshPerScope && built && scoped, "R-ADMIT", key+":users-scoped", p.Pos(mu.Pos()),
				"each secret configuration gets a fresh user map; a user enters it only when HasScope(<that configuration's name>) holds, after LocalizeToScope(<that name>), with an AAA built in this very iteration",
				fmt.Sprintf("the per-scope user map is not 'fresh per scope (%v), value built in this iteration (%v), guarded by HasScope and LocalizeToScope of this scope (%v)': users of other scopes, or their credentials, can leak into this scope", freshPerScope, built, scoped))
			// the provider is created from this configuration, this user map and this keychain entry
			bound := false
			for _, c := range allCalls(build) {
				call, ok := c.(*ssa.Call)
				if !ok || !call.Common().IsInvoke() || call.Common().Method.Name() != "New" || !typeIs(call.Type(), modPath, "SecretProvider") {
					continue
				}
				args := call.Common().Args
				if len(args) != 4 {
					continue
				}
				// handler <- handlerFactory.New(ctx, configProvider.New(users), ...)
				hOK := false
				if hc, ok := args[2].(*ssa.Call); ok && hc.Common().IsInvoke() && len(hc.Common().Args) >= 2 {
					if uc, ok := hc.Common().Args[1].(*ssa.Call); ok && uc.Common().IsInvoke() && len(uc.Common().Args) == 1 && uc.Common().Args[0] == mu.Map {
						hOK = true
					}
				}
				// secret <- keychain.Add(provider.Secret)
				sOK := false
				if sc, ok := args[3].(*ssa.Call); ok && sc.Common().IsInvoke() && len(sc.Common().Args) == 1 {
					if f, sbase, ok := loadedField(sc.Common().Args[0]); ok && f.Name() == "Secret" {
						// of the very configuration handed to the factory
						if u, ok := args[1].(*ssa.UnOp); ok && u.Op == token.MUL && u.X == sbase {
							sOK = true
						}
					}
				}
				if hOK && sOK {
					bound = true
				}
			}
			r.cond(bound, "R-ADMIT", key+":provider-bound-to-its-scope", p.Pos(mu.Pos()),
				"the provider of a secret configuration is created with that configuration, a handler over that configuration's own user map and the keychain function of that configuration's own secret",
				"the provider is not created from (this configuration, handler over this scope's users, keychain entry of this configuration's secret)")
		}
	}
}

// ruleAcceptRefusal: a connection whose lookup fails is closed with no bytes written and no handler invoked.
func ruleAcceptRefusal(p *Program, r *Result) {
	ro := rolesOK(p, r)
	for _, C := range ro.ConnFns {
		key := fnKey(C) + ":refusal"
		var get *ssa.Call
		for _, c := range allCalls(C) {
			if call, ok := c.(*ssa.Call); ok && call.Common().IsInvoke() && call.Common().Method.Name() == "Get" {
				get = call
			}
		}
		var loopCall ssa.CallInstruction
		for _, c := range allCalls(C) {
			if containsFn(ro.Loops, c.Common().StaticCallee()) {
				loopCall = c
			}
		}
		if get == nil || loopCall == nil {
			r.undecided("R-ADMIT", key, p.Pos(C.Pos()), "the connection function does not 'look up, then serve'")
			continue
		}
		var sec, hnd ssa.Value
		for _, rf := range refsOf(get) {
			if e, ok := rf.(*ssa.Extract); ok {
				switch e.Index {
				case 0:
					sec = e
				case 1:
					hnd = e
				}
			}
		}
		g, _ := guardedBySuccess(get, loopCall, nil)
		good := g && sec != nil && hnd != nil && nonNilGuarded(sec, loopCall) && nonNilGuarded(hnd, loopCall)
		// on the failure edges: Close is called, nothing is written, the loop is not entered
		errB, _ := errEdges(get)
		closed := false
		clean := true
		for _, e := range errB {
			for b := range blockReach(e, nil) {
				if b == loopCall.Block() {
					clean = false
				}
				for _, in := range b.Instrs {
					if c, ok := in.(ssa.CallInstruction); ok {
						if cc := c.Common(); cc.IsInvoke() && isNetConn(cc.Value.Type()) {
							switch cc.Method.Name() {
							case "Close":
								if _, isDefer := c.(*ssa.Defer); !isDefer {
									closed = true
								}
							case "Write":
								clean = false
							}
						}
					}
				}
			}
		}
		if !(good && clean) && sec != nil && hnd != nil {
			// the lookup folded in from a helper that hands back a struct and an ok flag: the failure edges and the
			// success edge meet in one block that branches on a phi of constants. Follow each failure edge with the
			// branch it determines (path feasibility, not dominance): the connection loop must not be reachable.
			var fail [][2]*ssa.BasicBlock
			nTests := 0
			addNilEdges := func(v ssa.Value, nilIsFail bool) {
				found := false
				for _, rf := range refsOf(v) {
					bo, ok := rf.(*ssa.BinOp)
					if !ok || (bo.Op != token.EQL && bo.Op != token.NEQ) || !(isNilConst(bo.X) || isNilConst(bo.Y)) {
						continue
					}
					for _, r2 := range refsOf(bo) {
						iff, ok := r2.(*ssa.If)
						if !ok {
							continue
						}
						nilSucc := iff.Block().Succs[0]
						if bo.Op == token.NEQ {
							nilSucc = iff.Block().Succs[1]
						}
						failSucc := nilSucc
						if !nilIsFail {
							failSucc = iff.Block().Succs[0]
							if failSucc == nilSucc {
								failSucc = iff.Block().Succs[1]
							}
						}
						fail = append(fail, [2]*ssa.BasicBlock{iff.Block(), failSucc})
						found = true
					}
				}
				if found {
					nTests++
				}
			}
			addNilEdges(sec, true)
			addNilEdges(hnd, true)
			for _, rf := range refsOf(get) {
				if e, ok := rf.(*ssa.Extract); ok && e.Index == 2 {
					addNilEdges(e, false)
				}
			}
			if nTests == 3 {
				reach := threadedReach(fail)
				if !reach[loopCall.Block()] && blockReach(get.Block(), nil)[loopCall.Block()] {
					good, clean = true, true
					closed = false
					for b := range reach {
						for _, in := range b.Instrs {
							if c, ok := in.(ssa.CallInstruction); ok {
								if cc := c.Common(); cc.IsInvoke() && isNetConn(cc.Value.Type()) {
									switch cc.Method.Name() {
									case "Close":
										if _, isDefer := c.(*ssa.Defer); !isDefer {
											closed = true
										}
									case "Write":
										clean = false
									}
								}
							}
						}
					}
				}
			}
		}
		r.cond(good && closed && clean, "R-ADMIT", key, p.Pos(get.Pos()),
			"the connection is served only when the lookup returned a nil error, a non-nil secret and a non-nil handler; otherwise it is closed at once, nothing is written and the connection loop is not entered",
			fmt.Sprintf("refusal is not 'close, write nothing, invoke nothing' (served only on complete lookup: %v, closed on failure: %v, no write/serve on failure: %v)", good, closed, clean))
	}
}

var _ = sort.Strings

// threadedReach: blocks reachable from the given edges, where a block that branches on a phi of boolean constants
// defined in that very block is left only through the successor the arriving edge determines.
func threadedReach(edges [][2]*ssa.BasicBlock) map[*ssa.BasicBlock]bool {
	type e2 struct{ from, to *ssa.BasicBlock }
	seen := map[e2]bool{}
	out := map[*ssa.BasicBlock]bool{}
	var queue []e2
	for _, e := range edges {
		queue = append(queue, e2{e[0], e[1]})
	}
	for len(queue) > 0 {
		e := queue[0]
		queue = queue[1:]
		if seen[e] {
			continue
		}
		seen[e] = true
		b := e.to
		out[b] = true
		succs := b.Succs
		if iff, ok := b.Instrs[len(b.Instrs)-1].(*ssa.If); ok {
			if ph, ok := iff.Cond.(*ssa.Phi); ok && ph.Block() == b {
				for i, pr := range b.Preds {
					if pr != e.from || i >= len(ph.Edges) {
						continue
					}
					if c, ok := ph.Edges[i].(*ssa.Const); ok && c.Value != nil {
						if c.Value.ExactString() == "true" {
							succs = b.Succs[:1]
						} else {
							succs = b.Succs[1:2]
						}
					}
				}
			}
		}
		for _, s := range succs {
			queue = append(queue, e2{b, s})
		}
	}
	return out
}

// isAscendingIndex: v is the index of a loop that visits 0, 1, 2, ... in order: the induction variable of a
// range loop (φ+1 with φ starting at -1) or of a counting loop (φ starting at a constant, stepped by +1).
func isAscendingIndex(v ssa.Value) bool {
	if bo, ok := v.(*ssa.BinOp); ok && bo.Op == token.ADD {
		if ph, ok := bo.X.(*ssa.Phi); ok && isRangeIndexPhi(ph) {
			if c, ok := constInt(bo.Y); ok && c == 1 {
				return true
			}
		}
	}
	if ph, ok := v.(*ssa.Phi); ok && isRangeIndexPhi(ph) {
		return true
	}
	return false
}

// prefixCollectionOf traces the *IPNet a Contains call is made on back to the collection the loop runs over:
// through ParseCIDR of the element, the element load s[i], the key/value of a map range.
func prefixCollectionOf(v ssa.Value) (ssa.Value, bool) {
	for i := 0; i < 8; i++ {
		switch x := v.(type) {
		case *ssa.Extract:
			switch t := x.Tuple.(type) {
			case *ssa.Call:
				if isFuncNamed(t.Common().StaticCallee(), "net", "ParseCIDR") && len(t.Common().Args) == 1 {
					v = t.Common().Args[0]
					continue
				}
				return nil, false
			case *ssa.Next:
				if rg, ok := t.Iter.(*ssa.Range); ok {
					return rg.X, true
				}
				return nil, false
			}
			return nil, false
		case *ssa.UnOp:
			if x.Op != token.MUL {
				return nil, false
			}
			if ia, ok := x.X.(*ssa.IndexAddr); ok {
				return ia.X, true
			}
			// a local copy of the element
			if a, ok := x.X.(*ssa.Alloc); ok {
				st := allocStores(a)
				if len(st) == 1 {
					v = st[0].Val
					continue
				}
			}
			return nil, false
		case *ssa.Phi:
			// the nil-guarded form: ipNet != nil && ...
			var next ssa.Value
			for _, e := range x.Edges {
				if isNilConst(e) {
					continue
				}
				if next != nil && next != e {
					return nil, false
				}
				next = e
			}
			if next == nil {
				return nil, false
			}
			v = next
			continue
		case *ssa.ChangeType:
			v = x.X
			continue
		}
		return nil, false
	}
	return nil, false
}

func describeValue(v ssa.Value) string {
	switch x := v.(type) {
	case *ssa.Phi:
		return fmt.Sprintf("one of %d alternatives chosen by a condition", len(x.Edges))
	case *ssa.Call:
		return "the result of " + shortCall(x)
	case *ssa.Extract:
		return "a result of a call"
	}
	return fmt.Sprintf("a %T", v)
}

// callsNamedContains: the calls of f to (*net.IPNet).Contains (f is the prefix match itself).
func callsNamedContains(f *ssa.Function) []ssa.CallInstruction {
	var out []ssa.CallInstruction
	for _, c := range allCalls(f) {
		if g := c.Common().StaticCallee(); g != nil && g.Name() == "Contains" && typeIsRecv(g, "net", "IPNet") {
			out = append(out, c)
		}
	}
	return out
}

func reachesContains(f *ssa.Function, depth int) bool {
	if f == nil || depth == 0 {
		return false
	}
	if len(callsNamedContains(f)) > 0 {
		return true
	}
	for _, c := range allCalls(f) {
		if g := c.Common().StaticCallee(); g != nil && g.Pkg == f.Pkg && g != f && reachesContains(g, depth-1) {
			return true
		}
	}
	return false
}

// scanAnswerOf: v is a struct value built right here whose fields carry the scan's answer: a []byte (secret), a
// tacquito.Handler and an error. Returns them in that order; a field that is not set is its zero value (nil).
func scanAnswerOf(v ssa.Value) ([]ssa.Value, bool) {
	u, ok := v.(*ssa.UnOp)
	if !ok || u.Op != token.MUL {
		return nil, false
	}
	al, ok := u.X.(*ssa.Alloc)
	if !ok {
		return nil, false
	}
	st, ok := al.Type().(*types.Pointer).Elem().Underlying().(*types.Struct)
	if !ok {
		return nil, false
	}
	idx := [3]int{-1, -1, -1}
	for i := 0; i < st.NumFields(); i++ {
		t := st.Field(i).Type()
		switch {
		case isByteSlice(t) && idx[0] < 0:
			idx[0] = i
		case typeIs(t, modPath, "Handler") && idx[1] < 0:
			idx[1] = i
		case isErrorType(t) && idx[2] < 0:
			idx[2] = i
		}
	}
	if idx[0] < 0 || idx[1] < 0 || idx[2] < 0 {
		return nil, false
	}
	out := make([]ssa.Value, 3)
	for k, fi := range idx {
		sts := fieldStoresOf(al, fi)
		switch len(sts) {
		case 0:
			out[k] = ssa.NewConst(nil, st.Field(fi).Type())
		case 1:
			out[k] = sts[0].Val
		default:
			return nil, false
		}
	}
	return out, true
}
