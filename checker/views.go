package main

import (
	"bytes"
	"fmt"
	"go/token"
	"go/types"
	"golang.org/x/tools/go/callgraph"
	"os"
	"strings"

	"golang.org/x/tools/go/ssa"
)

// Views: semantics-preserving copies of functions in which small unexported helpers of the same package
// have been inlined (vendored go/ssa, verif_inline.go). Path rules are evaluated on views so that their
// verdict does not depend on how a function is split into helpers.

type viewInfo struct {
	fn     *ssa.Function
	origin map[ssa.Instruction]ssa.Instruction
	of     *ssa.Function
}

// isHelper: callee may be folded into its callers' views.
func (p *Program) isHelper(caller, callee *ssa.Function) bool {
	if callee == nil || callee.Pkg == nil || !(ssa.Inlinable(callee) || p.tailOnly(callee)) {
		return false
	}
	if !inUniverse(callee.Pkg.Pkg.Path()) || p.isTestFile(callee.Pos()) {
		return false
	}
	if callee.Object() == nil {
		return false
	}
	if callee.Object().Exported() {
		// API functions are anchors of their own, except trivial pure accessors (one block, no calls) and
		// small package-level checks (no receiver, result error or bool only) such as a shared validity test
		if tinyPure(callee) && (caller.Pkg == nil || caller.Pkg == callee.Pkg) {
			return true
		}
		sig := callee.Signature
		if sig.Recv() == nil && sig.Results().Len() == 1 && !strings.HasPrefix(callee.Name(), "New") && !strings.HasPrefix(callee.Name(), "Set") {
			rt := sig.Results().At(0).Type()
			isBool := false
			if b, ok := rt.Underlying().(*types.Basic); ok && b.Kind() == types.Bool {
				isBool = true
			}
			if isErrorType(rt) || isBool {
				n := 0
				for _, b := range callee.Blocks {
					n += len(b.Instrs)
				}
				// a check on its own arguments: no calls into the module, no interface dispatch
				for _, c := range allCalls(callee) {
					if c.Common().IsInvoke() {
						return false
					}
					if cf := c.Common().StaticCallee(); cf != nil && cf.Pkg != nil && isModulePath(cf.Pkg.Pkg.Path()) {
						return false
					}
				}
				return n <= 60 && !p.protected(callee)
			}
		}
		return false
	}
	if caller.Pkg != nil && caller.Pkg != callee.Pkg {
		return false
	}
	if p.protected(callee) {
		return false
	}
	n := 0
	for _, b := range callee.Blocks {
		n += len(b.Instrs)
	}
	return n <= 400
}

// tailOnly: callee defers, and every call of it (outside tests) is a tail call of its caller: it can be folded
// into each of them without changing when the deferred calls run.
func (p *Program) tailOnly(callee *ssa.Function) bool {
	if v, ok := p.tailOnlyMemo[callee]; ok {
		return v
	}
	if p.tailOnlyMemo == nil {
		p.tailOnlyMemo = map[*ssa.Function]bool{}
	}
	res := false
	defer func() { p.tailOnlyMemo[callee] = res }()
	if len(callee.Blocks) == 0 || len(callee.FreeVars) > 0 || callee.Parent() != nil {
		return false
	}
	node := p.CallGraph().Nodes[callee]
	if node == nil {
		return false
	}
	n := 0
	for _, e := range node.In {
		c := e.Caller.Func
		if c == nil || e.Site == nil || p.isTestFile(c.Pos()) {
			continue
		}
		if e.Site.Common().StaticCallee() != callee {
			return false // reached dynamically: it is called in ways the views cannot fold
		}
		call, isCall := e.Site.(*ssa.Call)
		if !isCall || !ssa.TailSite(call, callee) {
			return false
		}
		n++
	}
	res = n > 0
	return res
}

// protected: functions the rules address directly (roles, constructors, session-table methods).
func (p *Program) protected(f *ssa.Function) bool {
	if p.prot == nil {
		p.prot = map[*ssa.Function]bool{}
		p.computeProtected()
	}
	return p.prot[f]
}

// setViews switches between the code as written (false) and the inlined views (true); everything derived
// from the representation is recomputed.
func (p *Program) setViews(on bool) {
	if p.useViews == on {
		return
	}
	p.useViews = on
	p.roles = nil
	p.rp = nil
	p.bp = nil
}

func (p *Program) view(fn *ssa.Function) *ssa.Function {
	if fn == nil {
		return nil
	}
	if !p.useViews {
		return fn
	}
	if p.views == nil {
		p.views = map[*ssa.Function]*viewInfo{}
		p.viewOf = map[*ssa.Function]*viewInfo{}
	}
	if v, ok := p.views[fn]; ok {
		return v.fn
	}
	if _, isView := p.viewOf[fn]; isView {
		return fn
	}
	nf, origin := ssa.CloneWithInlining(fn, func(caller, callee *ssa.Function) bool { return p.isHelper(fn, callee) }, 4)
	if nf == nil {
		p.views[fn] = &viewInfo{fn: fn, of: fn}
		return fn
	}
	var buf bytes.Buffer
	if !ssa.SanityCheckView(nf, &buf) && realSanityProblem(buf.String()) {
		dbg("view of %s fails the SSA sanity check, using the original: %s", fn.String(), strings.TrimSpace(buf.String()))
		p.views[fn] = &viewInfo{fn: fn, of: fn}
		p.viewFailures = append(p.viewFailures, fn.String()+": "+firstLine(buf.String()))
		return fn
	}
	vi := &viewInfo{fn: nf, origin: origin, of: fn}
	p.views[fn] = vi
	p.viewOf[nf] = vi
	return nf
}

// orig maps a view back to the function it was made from (identity for originals).
func (p *Program) orig(fn *ssa.Function) *ssa.Function {
	if vi, ok := p.viewOf[fn]; ok {
		return vi.of
	}
	return fn
}

func dumpView(p *Program, name string) {
	for _, f := range p.Funcs {
		if !strings.HasSuffix(f.String(), name) {
			continue
		}
		v := p.view(f)
		fmt.Fprintf(os.Stderr, "=== view of %s (original %d blocks, view %d blocks)\n", f.String(), len(f.Blocks), len(v.Blocks))
		v.WriteTo(os.Stderr)
	}
	_ = token.NoPos
}

// realSanityProblem filters the two complaints that are inherent to views: closures created by a view still
// belong to (and are referred to by) the function the view was made from.
func realSanityProblem(out string) bool {
	for _, l := range strings.Split(out, "\n") {
		l = strings.TrimSpace(l)
		if l == "" {
			continue
		}
		if strings.Contains(l, "does not refer to us") && strings.Contains(l, "$") {
			continue
		}
		if strings.Contains(l, "AnonFuncs[") {
			continue
		}
		return true
	}
	return false
}

// cgNode: the call-graph node of fn (of the function a view was made from).
func (p *Program) cgNode(fn *ssa.Function) *callgraph.Node {
	return p.CallGraph().Nodes[p.orig(fn)]
}

func cgNodeOf(cg *callgraph.Graph, fn *ssa.Function) *callgraph.Node {
	if gProg != nil {
		fn = gProg.orig(fn)
	}
	return cg.Nodes[fn]
}

func sameFn(a, b *ssa.Function) bool {
	if a == b {
		return true
	}
	if a == nil || b == nil || gProg == nil {
		return false
	}
	return gProg.orig(a) == gProg.orig(b)
}

// folded: fn is a helper that the views of its callers contain; it is not analysed as a unit of its own by
// the rules that work on units.
func (p *Program) folded(fn *ssa.Function) bool {
	if !p.useViews || !p.isHelper(fn, fn) {
		return false
	}
	node := p.CallGraph().Nodes[fn]
	if node == nil {
		return false
	}
	n := 0
	for _, e := range node.In {
		c := e.Caller.Func
		if c == nil || e.Site == nil || p.isTestFile(c.Pos()) || e.Site.Common().StaticCallee() != fn {
			continue
		}
		if _, isCall := e.Site.(*ssa.Call); !isCall {
			return false // go/defer of the helper: it stays a unit
		}
		if c.Pkg != fn.Pkg {
			return false
		}
		n++
	}
	// also not folded when its address is taken (method value, callback)
	for _, e := range node.In {
		if e.Site != nil && e.Site.Common().StaticCallee() != fn && !p.isTestFile(e.Caller.Func.Pos()) {
			return false
		}
	}
	return n > 0
}

// UnitsIn: the functions of the selected packages as the path rules see them: helpers folded into their
// callers are left out, every other function is represented by its view.
func (p *Program) UnitsIn(pred func(path string) bool) []*ssa.Function {
	var out []*ssa.Function
	for _, f := range p.FuncsIn(pred) {
		if p.folded(f) {
			continue
		}
		out = append(out, p.view(f))
	}
	return out
}

func (p *Program) UUnits() []*ssa.Function { return p.UnitsIn(inUniverse) }

// viewKeeping builds a view of fn in which the callees satisfying keep stay calls (they are units of the rule
// that asks); not cached.
func (p *Program) viewKeeping(fn *ssa.Function, keep func(*ssa.Function) bool) *ssa.Function {
	nf, origin := ssa.CloneWithInlining(fn, func(caller, callee *ssa.Function) bool {
		return p.isHelper(fn, callee) && !keep(callee)
	}, 4)
	if nf == nil {
		return fn
	}
	var buf bytes.Buffer
	if !ssa.SanityCheckView(nf, &buf) && realSanityProblem(buf.String()) {
		return fn
	}
	vi := &viewInfo{fn: nf, origin: origin, of: fn}
	p.viewOf[nf] = vi
	return nf
}

// tinyPure: a single basic block of at most eight instructions without calls, stores or allocation.
func tinyPure(f *ssa.Function) bool {
	if len(f.Blocks) != 1 || len(f.Blocks[0].Instrs) > 8 {
		return false
	}
	for _, in := range f.Blocks[0].Instrs {
		switch in.(type) {
		case *ssa.BinOp, *ssa.UnOp, *ssa.Convert, *ssa.ChangeType, *ssa.Return, *ssa.DebugRef, *ssa.FieldAddr, *ssa.Field:
		default:
			return false
		}
	}
	return true
}

// asUnits: in view mode, replace each function by its view and leave out the helpers folded into others.
func (p *Program) asUnits(fns []*ssa.Function) []*ssa.Function {
	if !p.useViews {
		return fns
	}
	var out []*ssa.Function
	for _, f := range fns {
		if p.folded(f) {
			continue
		}
		out = append(out, p.view(f))
	}
	return out
}
