package main

import (
	"sort"
	"strings"

	"golang.org/x/tools/go/ssa"
)

// R-RECURSION (C14): no module function on the request path calls itself, directly or through other module functions,
// by static calls. A goroutine's stack overflow is a fatal runtime error that no recover can catch: it ends the whole
// server and every other client with it. A handler that re-enters the reply path to "answer with an error instead"
// recurses without bound when the substituted reply fails the same test again.
//
// Decided on static call edges (StaticCallee) only: recursion through an interface or a function value is not seen.
// The clean tree has no static cycle on the request path; the self-test keeps a mutant.
func ruleRecursion(p *Program, r *Result, fns []*ssa.Function) {
	in := map[*ssa.Function]bool{}
	for _, f := range fns {
		in[p.orig(f)] = true
	}
	var list []*ssa.Function
	for f := range in {
		list = append(list, f)
	}
	sort.Slice(list, func(i, j int) bool { return list[i].String() < list[j].String() })
	succ := func(f *ssa.Function) []*ssa.Function {
		var out []*ssa.Function
		for _, c := range allCalls(f) {
			if _, isGo := c.(*ssa.Go); isGo {
				continue
			}
			if g := c.Common().StaticCallee(); g != nil && in[g] && g.Pkg != nil && isModulePath(g.Pkg.Pkg.Path()) {
				out = append(out, g)
			}
		}
		return out
	}
	// Tarjan
	index, low := map[*ssa.Function]int{}, map[*ssa.Function]int{}
	onStack := map[*ssa.Function]bool{}
	var stack []*ssa.Function
	n := 0
	nCyc := 0
	var strong func(v *ssa.Function)
	strong = func(v *ssa.Function) {
		n++
		index[v], low[v] = n, n
		stack = append(stack, v)
		onStack[v] = true
		self := false
		for _, w := range succ(v) {
			if w == v {
				self = true
			}
			if index[w] == 0 {
				strong(w)
				if low[w] < low[v] {
					low[v] = low[w]
				}
			} else if onStack[w] && index[w] < low[v] {
				low[v] = index[w]
			}
		}
		if low[v] == index[v] {
			var comp []string
			for {
				w := stack[len(stack)-1]
				stack = stack[:len(stack)-1]
				onStack[w] = false
				comp = append(comp, fnKey(w))
				if w == v {
					break
				}
			}
			if len(comp) > 1 || self {
				nCyc++
				sort.Strings(comp)
				r.bad("R-RECURSION", "cycle:"+comp[0], p.Pos(v.Pos()), "static recursion on the request path (%s): nothing bounds its depth statically, and a stack overflow is a fatal error that ends the server for every client", strings.Join(comp, " -> "))
			}
		}
	}
	for _, f := range list {
		if index[f] == 0 {
			strong(f)
		}
	}
	if nCyc == 0 {
		r.ok("R-RECURSION", "request-path-acyclic", "-", true, "the static call graph of the %d module functions on the request path has no cycle", len(list))
	}
}
