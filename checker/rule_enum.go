package main

import (
	"fmt"
	"go/constant"
	"go/types"
	"golang.org/x/tools/go/ssa"
	"sort"
	"strconv"
	"strings"
)

// rfcConsts: values of RFC 8907 the table's author is certain of (RFC name in the comment), by Go constant name.
var rfcConsts = map[string]int64{
	// §4.1 header
	"MajorVersion": 0xc, "MinorVersionDefault": 0x0, "MinorVersionOne": 0x1,
	"Authenticate": 0x01, "Authorize": 0x02, "Accounting": 0x03, // TAC_PLUS_AUTHEN / AUTHOR / ACCT
	"UnencryptedFlag": 0x01, "SingleConnect": 0x04, // TAC_PLUS_UNENCRYPTED_FLAG, TAC_PLUS_SINGLE_CONNECT_FLAG
	"HeaderMaxSequence": 255, "MaxHeaderLength": 12, "MaxBodyLength": 65536,
	// §5.1 authentication START
	"AuthenActionLogin": 0x01, "AuthenActionPass": 0x02, "AuthenActionSendAuth": 0x04, // LOGIN, CHPASS, SENDAUTH
	"AuthenTypeNotSet": 0x00, "AuthenTypeASCII": 0x01, "AuthenTypePAP": 0x02, "AuthenTypeCHAP": 0x03, "AuthenTypeMSCHAP": 0x05, "AuthenTypeMSCHAPV2": 0x06,
	"AuthenServiceNone": 0x00, "AuthenServiceLogin": 0x01, "AuthenServiceEnable": 0x02, "AuthenServicePPP": 0x03, "AuthenServicePT": 0x05, "AuthenServiceRCMD": 0x06, "AuthenServiceX25": 0x07, "AuthenServiceNASI": 0x08, "AuthenServiceFwProxy": 0x09,
	"PrivLvlMin": 0x00, "PrivLvlUser": 0x01, "PrivLvlRoot": 0x0f, "PrivLvlMax": 0x0f,
	// §5.2 authentication REPLY
	"AuthenStatusPass": 0x01, "AuthenStatusFail": 0x02, "AuthenStatusGetData": 0x03, "AuthenStatusGetUser": 0x04, "AuthenStatusGetPass": 0x05, "AuthenStatusRestart": 0x06, "AuthenStatusError": 0x07,
	"AuthenReplyFlagNoEcho": 0x01,
	// §5.3 CONTINUE
	"AuthenContinueFlagAbort": 0x01,
	// §6.1 authorization REQUEST
	"AuthenMethodNotSet": 0x00, "AuthenMethodNone": 0x01, "AuthenMethodKrb5": 0x02, "AuthenMethodLine": 0x03, "AuthenMethodEnable": 0x04, "AuthenMethodLocal": 0x05, "AuthenMethodTacacsPlus": 0x06, "AuthenMethodGuest": 0x08, "AuthenMethodRadius": 0x10,
	// §6.2 authorization REPLY
	"AuthorStatusPassAdd": 0x01, "AuthorStatusPassRepl": 0x02, "AuthorStatusFail": 0x10, "AuthorStatusError": 0x11,
	// §7.1 / §7.2 accounting
	"AcctFlagStart": 0x02, "AcctFlagStop": 0x04, "AcctFlagWatchdog": 0x08,
	"AcctReplyStatusSuccess": 0x01, "AcctReplyStatusError": 0x02,
}

// enumTypes: types whose Validate must accept exactly their declared constants.
var enumTypes = []string{"HeaderType", "AuthenAction", "AuthenType", "AuthenService", "AuthenStatus", "AuthenMethod", "AuthorStatus", "AcctReplyStatus"}

func ruleEnum(p *Program, r *Result) {
	sc := p.Root().Types.Scope()
	names := make([]string, 0, len(rfcConsts))
	for n := range rfcConsts {
		names = append(names, n)
	}
	sort.Strings(names)
	for _, n := range names {
		want := rfcConsts[n]
		c, ok := sc.Lookup(n).(*types.Const)
		if !ok {
			r.undecided("R-ENUM", "value:"+n, "-", "UNRESOLVED: constant tacquito.%s no longer exists", n)
			continue
		}
		got, ok := constantInt64(c)
		if ok && got == want {
			r.ok("R-ENUM", "value:"+n, p.Pos(c.Pos()), false, "%s = %#x as in RFC 8907", n, got)
		} else {
			r.bad("R-ENUM", "value:"+n, p.Pos(c.Pos()), "%s = %#x but RFC 8907 assigns %#x: a conformant peer reads a different meaning", n, got, want)
		}
	}
	// judged and unjudged constants
	var unjudged []string
	for _, n := range sc.Names() {
		if c, ok := sc.Lookup(n).(*types.Const); ok && c.Exported() {
			if _, in := rfcConsts[n]; !in {
				if nt, ok := c.Type().(*types.Named); ok {
					for _, et := range enumTypes {
						if nt.Obj().Name() == et {
							unjudged = append(unjudged, n)
						}
					}
				}
			}
		}
	}
	r.Notes = append(r.Notes, "constants of enum types not in the certain-values table (not judged against the RFC, still covered by the Validate agreement rule): "+strings.Join(unjudged, ", "))
	// (b) Validate accepts exactly the declared constants
	for _, et := range enumTypes {
		nt := p.lookupType("", et)
		if nt == nil {
			r.undecided("R-ENUM", "validate:"+et, "-", "UNRESOLVED type tacquito.%s", et)
			continue
		}
		declared := declaredConsts(nt)
		fn := p.LookupFunc("", et+".Validate")
		if fn == nil {
			r.undecided("R-ENUM", "validate:"+et, p.Pos(nt.Obj().Pos()), "no Validate method")
			continue
		}
		paths, _, err := validatorPaths(p.predicateView(fn), p.Sizes)
		if err != nil {
			r.undecided("R-ENUM", "validate:"+et, p.Pos(fn.Pos()), "Validate is not a loop-free predicate: %v", err)
			continue
		}
		accepted := map[int64]bool{}
		open := false
		if acc, ok := enumerateAccepted(p, nt, paths); ok {
			// every accept path is made of comparisons that can be evaluated for each of the 256 octet values
			accepted = acc
			paths = nil
		}
		for _, pa := range paths {
			if !pa.accept {
				continue
			}
			var eq *Atom
			for i := range pa.atoms {
				a := pa.atoms[i]
				if a.Op == "==" && strings.HasPrefix(a.L, "param:") && strings.HasPrefix(a.R, "const:") {
					eq = &pa.atoms[i]
				}
			}
			if eq == nil {
				open = true
				continue
			}
			var v int64
			fmt.Sscanf(strings.TrimPrefix(eq.R, "const:"), "%d", &v)
			accepted[v] = true
		}
		var acc []int64
		for v := range accepted {
			acc = append(acc, v)
		}
		sort.Slice(acc, func(i, j int) bool { return acc[i] < acc[j] })
		same := !open && len(acc) == len(declared)
		if same {
			for i := range acc {
				if acc[i] != declared[i] {
					same = false
				}
			}
		}
		if same {
			r.ok("R-ENUM", "validate:"+et, p.Pos(fn.Pos()), true, "%s.Validate returns nil exactly for the declared constants %v (both encoder and decoder call it)", et, declared)
		} else {
			r.bad("R-ENUM", "validate:"+et, p.Pos(fn.Pos()), "%s.Validate accepts %v (open-ended: %v) but the declared constants are %v: encoder and decoder would accept a value with no meaning, or refuse a defined one", et, acc, open, declared)
		}
	}
	// PrivLvl: 0..15
	if fn := p.LookupFunc("", "PrivLvl.Validate"); fn != nil {
		paths, _, err := validatorPaths(p.predicateView(fn), p.Sizes)
		good := err == nil
		nacc := 0
		for _, pa := range paths {
			if !pa.accept {
				continue
			}
			nacc++
			found := false
			for _, a := range pa.atoms {
				if a.Op == "<=" && strings.HasPrefix(a.L, "param:") && a.R == "const:15" {
					found = true
				}
				if a.Op == "<" && strings.HasPrefix(a.L, "param:") && a.R == "const:16" {
					found = true
				}
			}
			if !found {
				good = false
			}
		}
		r.cond(good && nacc > 0, "R-ENUM", "validate:PrivLvl", p.Pos(fn.Pos()), "PrivLvl.Validate accepts exactly 0..15", "PrivLvl.Validate does not accept exactly 0..15")
	} else {
		r.undecided("R-ENUM", "validate:PrivLvl", "-", "UNRESOLVED PrivLvl.Validate")
	}
	// Version: major 0xc, minor 0 or 1
	if fn := p.LookupFunc("", "Version.Validate"); fn != nil {
		paths, _, err := validatorPaths(p.predicateView(fn), p.Sizes)
		good := err == nil
		minors := map[string]bool{}
		if err != nil {
			dbg("Version.Validate paths: %v", err)
		}
		for _, pa := range paths {
			dbg("Version.Validate path accept=%v atoms=%v", pa.accept, pa.atoms)
			if !pa.accept {
				continue
			}
			major := false
			for _, a := range pa.atoms {
				s := a.String()
				if strings.Contains(s, "== const:12") && !strings.Contains(s, "!=") {
					major = true
				}
				if a.Op == "==" && (a.R == "const:0" || a.R == "const:1") {
					minors[a.R] = true
				}
			}
			if !major {
				good = false
			}
		}
		r.cond(good && len(minors) == 2, "R-ENUM", "validate:Version", p.Pos(fn.Pos()), "Version.Validate accepts exactly major 0xc with minor 0 or 1", "Version.Validate does not accept exactly major 0xc with minor 0 or 1")
	}
	r.floor("R-ENUM", 70)
}

// enumerateAccepted evaluates the accept paths of a validator of a one-octet type for each of the 256 values: every
// atom must be a comparison between the receiver, constants and entries of package-level tables of constants that
// only the package initialiser writes (tbl:...[receiver]). ok=false when something cannot be evaluated.
func enumerateAccepted(p *Program, nt *types.Named, paths []vPath) (map[int64]bool, bool) {
	b, isBasic := nt.Underlying().(*types.Basic)
	if !isBasic || (b.Kind() != types.Uint8 && b.Kind() != types.Int8) {
		return nil, false
	}
	tables := map[string]map[int64]string{}
	tableLen := map[string]int64{}
	type val struct {
		i   int64
		s   string
		str bool
	}
	var evalTerm func(t string, v int64) (val, bool)
	evalTerm = func(t string, v int64) (val, bool) {
		switch {
		case strings.HasPrefix(t, "param:"):
			return val{i: v}, true
		case strings.HasPrefix(t, "const:"):
			c := strings.TrimPrefix(t, "const:")
			if strings.HasPrefix(c, "\"") {
				if u, err := strconv.Unquote(c); err == nil {
					return val{s: u, str: true}, true
				}
				return val{}, false
			}
			if c == "true" || c == "false" {
				return val{s: c, str: true}, true
			}
			n, err := strconv.ParseInt(c, 10, 64)
			return val{i: n}, err == nil
		case strings.HasPrefix(t, "tbl:") && strings.HasSuffix(t, "]"):
			i := strings.Index(t, "[")
			name := t[len("tbl:"):i]
			ix, ok := evalTerm(t[i+1:len(t)-1], v)
			if !ok || ix.str {
				return val{}, false
			}
			tb, seen := tables[name]
			if !seen {
				tb, tableLen[name] = constStringTable(p, name)
				tables[name] = tb
			}
			if tb == nil || ix.i < 0 || ix.i >= tableLen[name] {
				return val{}, false // unknown table, or an index that panics: not an accept
			}
			e, set := tb[ix.i]
			if !set {
				e = tb[-1] // the element type's zero value
			}
			return val{s: e, str: true}, true
		}
		return val{}, false
	}
	acc := map[int64]bool{}
	for v := int64(0); v < 256; v++ {
		for _, pa := range paths {
			if !pa.accept {
				continue
			}
			if len(pa.raw) > 0 {
				return nil, false
			}
			holds := true
			for _, a := range pa.atoms {
				l, ok1 := evalTerm(a.L, v)
				r, ok2 := evalTerm(a.R, v)
				if !ok1 || !ok2 || l.str != r.str {
					// an index beyond the table cannot be reached on an accept path when an earlier atom already fails
					if !holds {
						continue
					}
					return nil, false
				}
				var c int
				if l.str {
					c = strings.Compare(l.s, r.s)
				} else if l.i < r.i {
					c = -1
				} else if l.i > r.i {
					c = 1
				}
				switch a.Op {
				case "==":
					holds = holds && c == 0
				case "!=":
					holds = holds && c != 0
				case "<":
					holds = holds && c < 0
				case "<=":
					holds = holds && c <= 0
				default:
					return nil, false
				}
			}
			if holds {
				acc[v] = true
			}
		}
	}
	return acc, true
}

// constStringTable: the entries of the package-level array of strings named pkgpath.name, which the package
// initialiser fills with constants at constant indexes and nothing else writes. Returns nil when that is not so.
func constStringTable(p *Program, full string) (map[int64]string, int64) {
	i := strings.LastIndex(full, ".")
	if i < 0 {
		return nil, 0
	}
	sp := p.SSAPkg[full[:i]]
	if sp == nil {
		return nil, 0
	}
	g, ok := sp.Members[full[i+1:]].(*ssa.Global)
	if !ok {
		return nil, 0
	}
	arr, ok := g.Type().(*types.Pointer).Elem().Underlying().(*types.Array)
	if !ok {
		return nil, 0
	}
	eb, ok := arr.Elem().Underlying().(*types.Basic)
	if !ok || eb.Info()&(types.IsString|types.IsBoolean) == 0 {
		return nil, 0
	}
	out := map[int64]string{-1: ""}
	if eb.Info()&types.IsBoolean != 0 {
		out[-1] = "false"
	}
	init := sp.Func("init")
	fns := append([]*ssa.Function{}, p.Funcs...)
	if init != nil {
		fns = append(fns, init)
	}
	seen := map[*ssa.Function]bool{}
	for _, f := range fns {
		if f.Pkg != sp || seen[f] {
			continue
		}
		seen[f] = true
		for _, b := range f.Blocks {
			for _, in := range b.Instrs {
				switch x := in.(type) {
				case *ssa.IndexAddr:
					if x.X != ssa.Value(g) {
						continue
					}
					for _, rf := range refsOf(x) {
						switch y := rf.(type) {
						case *ssa.Store:
							k, okk := constInt(x.Index)
							c, isC := y.Val.(*ssa.Const)
							if f != init || y.Addr != ssa.Value(x) || !okk || !isC || c.Value == nil || (c.Value.Kind() != constant.String && c.Value.Kind() != constant.Bool) {
								return nil, 0
							}
							if _, dup := out[k]; dup {
								return nil, 0
							}
							if c.Value.Kind() == constant.Bool {
								out[k] = fmt.Sprintf("%v", constant.BoolVal(c.Value))
							} else {
								out[k] = constant.StringVal(c.Value)
							}
						case *ssa.UnOp, *ssa.DebugRef:
						default:
							return nil, 0
						}
					}
				case *ssa.Store:
					if x.Addr == ssa.Value(g) {
						// whole-array assignment: only the initialiser, from a literal built there
						return nil, 0
					}
				case *ssa.Slice:
					if x.X == ssa.Value(g) {
						return nil, 0
					}
				case *ssa.UnOp:
					// a copy of the whole table is a read
				}
			}
		}
	}
	return out, arr.Len()
}
