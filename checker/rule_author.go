package main

import (
	"fmt"
	"go/token"
	"go/types"
	"strings"

	"golang.org/x/tools/go/ssa"
)

var regexpEntry = map[string]bool{"MatchString": true, "Match": true, "Compile": true, "MustCompile": true, "MatchReader": true, "CompilePOSIX": true, "MustCompilePOSIX": true}

// concatSegments flattens a string concatenation tree into its leaves, left to right.
func concatSegments(v ssa.Value, out *[]ssa.Value) {
	if b, ok := v.(*ssa.BinOp); ok && b.Op == token.ADD {
		if bt, ok := b.Type().Underlying().(*types.Basic); ok && bt.Info()&types.IsString != 0 {
			concatSegments(b.X, out)
			concatSegments(b.Y, out)
			return
		}
	}
	*out = append(*out, v)
}

func constString(v ssa.Value) (string, bool) {
	if c, ok := v.(*ssa.Const); ok && c.Value != nil {
		if s := c.Value.ExactString(); len(s) >= 2 && s[0] == '"' {
			// ExactString is a quoted Go string
			var out string
			if _, err := fmt.Sscanf(s, "%q", &out); err == nil {
				return out, true
			}
		}
	}
	return "", false
}

// authorizerFuncs: functions of packages under cmds/server/config/authorizers.
func authorizerFuncs(p *Program) []*ssa.Function {
	return p.UnitsIn(func(path string) bool {
		return strings.HasPrefix(path, modPath+"/cmds/server/config/authorizers/") && !strings.HasSuffix(path, "/test")
	})
}

// R-ANCHOR: every regular expression built in the authorizers is matched against the whole string.
func ruleAnchor(p *Program, r *Result) []*ssa.Call {
	var sites []*ssa.Call
	for _, fn := range authorizerFuncs(p) {
		for _, c := range allCalls(fn) {
			call, ok := c.(*ssa.Call)
			if !ok {
				continue
			}
			f := call.Common().StaticCallee()
			if f == nil || f.Pkg == nil || f.Pkg.Pkg.Path() != "regexp" || !regexpEntry[f.Name()] || f.Signature.Recv() != nil {
				continue
			}
			sites = append(sites, call)
			key := fmt.Sprintf("%s:regexp.%s", fnKey(fn), f.Name())
			pat := call.Common().Args[0]
			if _, isConst := pat.(*ssa.Const); isConst {
				r.ok("R-ANCHOR", key, p.Pos(call.Pos()), false, "constant pattern, not derived from configuration")
				continue
			}
			if _, isPhi := pat.(*ssa.Phi); isPhi {
				r.bad("R-ANCHOR", key, p.Pos(call.Pos()), "the pattern handed to regexp.%s depends on a decision taken by looking at the configured expression (conditional anchoring): that is wrong for alternations — 'terminal|exclusive' would also match 'terminal ; reload'", f.Name())
				continue
			}
			var segs []ssa.Value
			concatSegments(pat, &segs)
			good := false
			why := "the pattern is not the concatenation \"^(?:\" + configured expression + \")$\""
			if len(segs) >= 3 {
				first, ok1 := constString(segs[0])
				last, ok2 := constString(segs[len(segs)-1])
				mid := segs[1 : len(segs)-1]
				// allow ")" + "$" split into two constants
				tail := last
				k := len(segs) - 2
				for k > 0 {
					if s, ok := constString(segs[k]); ok {
						tail = s + tail
						mid = segs[1:k]
						k--
						continue
					}
					break
				}
				head := first
				j := 1
				for j < len(segs)-1 {
					if s, ok := constString(segs[j]); ok && len(mid) > 0 && segs[j] == mid[0] {
						head += s
						mid = mid[1:]
						j++
						continue
					}
					break
				}
				okHead := ok1 && (head == "^(?:" || head == `\A(?:`)
				okTail := ok2 && (tail == ")$" || tail == `)\z`)
				if okHead && okTail && len(mid) == 1 {
					if _, isPhi := mid[0].(*ssa.Phi); isPhi {
						why = "the wrapped expression is chosen conditionally"
					} else {
						good = true
					}
				} else {
					why = fmt.Sprintf("prefix %q / suffix %q around %d non-constant parts", head, tail, len(mid))
				}
			}
			if good {
				r.ok("R-ANCHOR", key, p.Pos(call.Pos()), true, "the pattern is, unconditionally, \"^(?:\" + expression + \")$\": the non-capturing group keeps both anchors outside any alternation, so a match is a match of the entire argument string")
			} else {
				r.bad("R-ANCHOR", key, p.Pos(call.Pos()), "a configured expression reaches regexp.%s without being wrapped as ^(?:...)$ on every path: %s; a partial or alternation match would authorize commands the policy does not name", f.Name(), why)
			}
		}
	}
	r.floor("R-ANCHOR", 1)
	return sites
}

// R-FIRSTMATCH: the command evaluator decides by the first applying rule, default deny.
func ruleFirstMatch(p *Program, r *Result, regexSites []*ssa.Call) []*ssa.Function {
	var evals []*ssa.Function
	seen := map[*ssa.Function]bool{}
	for _, s := range regexSites {
		fn := s.Parent()
		if !seen[fn] && fn.Signature.Results().Len() == 1 {
			if b, ok := fn.Signature.Results().At(0).Type().Underlying().(*types.Basic); ok && b.Kind() == types.Bool {
				seen[fn] = true
				evals = append(evals, fn)
			}
		}
	}
	if len(evals) == 0 {
		r.undecided("R-FIRSTMATCH", "evaluator", "-", "UNRESOLVED: no boolean evaluator containing the pattern match was found")
		return nil
	}
	permit := p.Pkg("cmds/server/config")
	var permitVal int64 = -1
	if permit != nil {
		if g := p.SSAPkg[permit.PkgPath].Var("PERMIT"); g != nil {
			m := map[int64]bool{}
			if globalConst(p, g, m) && len(m) == 1 {
				for k := range m {
					permitVal = k
				}
			}
		}
	}
	if permitVal < 0 {
		r.undecided("R-FIRSTMATCH", "anchor:PERMIT", "-", "UNRESOLVED: config.PERMIT is not a package variable initialised once with a constant")
	}
	for _, E := range evals {
		key := fnKey(E)
		if p.useViews {
			// a named decision function (permits(action) bool) stays a call in the evaluator's view: folded in, its
			// 'return true / return false' would look like grants and denials of the evaluator's own
			E = p.viewKeeping(p.orig(E), func(f *ssa.Function) bool {
				sig := f.Signature
				if sig.Results().Len() != 1 || sig.Params().Len() == 0 {
					return false
				}
				if b, ok := sig.Results().At(0).Type().Underlying().(*types.Basic); !ok || b.Kind() != types.Bool {
					return false
				}
				return typeIs(sig.Params().At(sig.Params().Len()-1).Type(), modPath+"/cmds/server/config", "Action")
			})
			regexSites = nil
			for _, c := range allCalls(E) {
				if call, ok := c.(*ssa.Call); ok {
					if f := call.Common().StaticCallee(); f != nil && f.Pkg != nil && f.Pkg.Pkg.Path() == "regexp" && regexpEntry[f.Name()] && f.Signature.Recv() == nil {
						regexSites = append(regexSites, call)
					}
				}
			}
		}
		// (f2) nothing accumulates across rules
		var carried []string
		for _, b := range E.Blocks {
			for _, in := range b.Instrs {
				ph, ok := in.(*ssa.Phi)
				if !ok {
					continue
				}
				if isRangeIndexPhi(ph) {
					continue
				}
				// a phi in a block that is part of a cycle carries state around the loop
				if blockReachFromSelf(b) {
					carried = append(carried, fmt.Sprintf("%s at %s", ph.Comment, p.Pos(ph.Pos())))
				}
			}
		}
		// allocs written inside a loop and read in a later iteration also carry state; only the range copy is allowed
		for _, b := range E.Blocks {
			for _, in := range b.Instrs {
				st, ok := in.(*ssa.Store)
				if !ok || !blockReachFromSelf(b) {
					continue
				}
				base := st.Addr
				for {
					if fa, ok := base.(*ssa.FieldAddr); ok {
						base = fa.X
						continue
					}
					break
				}
				a, ok := base.(*ssa.Alloc)
				if !ok {
					continue
				}
				if isRangeCopy(a) {
					continue
				}
				if isVarargArray(a) {
					continue
				}
				// a variable declared inside the loop body is a new (zeroed) one in every iteration: the spill of a
				// folded helper's parameter, a per-iteration temporary
				if blockReachFromSelf(a.Block()) && sameInnermostLoop(a.Block(), b) {
					continue
				}
				carried = append(carried, fmt.Sprintf("local %s written in the loop at %s", a.Comment, p.Pos(st.Pos())))
			}
		}
		r.cond(len(carried) == 0, "R-FIRSTMATCH", key+":no-accumulation", p.Pos(E.Pos()),
			"the loop over the rules carries nothing but range indices and the per-iteration copy of the rule: no decision accumulates across rules",
			"state is carried from one rule to the next ("+strings.Join(carried, "; ")+"): a later rule could override the first applying rule")
		// (f1,f3) returns
		nDec, nFalse := 0, 0
		for _, b := range E.Blocks {
			ret, ok := b.Instrs[len(b.Instrs)-1].(*ssa.Return)
			if !ok || b == E.Recover {
				continue
			}
			for _, rv := range returnedValues(E, ret, 0) {
				rk := fmt.Sprintf("%s:return@%s", key, retDescr(E, ret))
				if c, ok := rv.(*ssa.Const); ok {
					if c.Value != nil && c.Value.ExactString() == "false" {
						nFalse++
						r.ok("R-FIRSTMATCH", rk, p.Pos(ret.Pos()), false, "returns the constant false (deny)")
					} else {
						r.bad("R-FIRSTMATCH", rk, p.Pos(ret.Pos()), "the evaluator returns the constant true: a grant that does not come from a rule's PERMIT action (exhaustion, a bad pattern or a shortcut would permit)")
					}
					continue
				}
				nDec++
				okDec, why := decisionFromAction(p, rv, permitVal)
				if !okDec {
					r.bad("R-FIRSTMATCH", rk, p.Pos(ret.Pos()), "the value returned is not 'this rule's action == PERMIT': %s", why)
					continue
				}
				// must be under "rule applies": Name == "*" or Name == cmd (and, with patterns, matched)
				applies, how := ruleApplies(p, E, ret)
				if applies {
					r.ok("R-FIRSTMATCH", rk, p.Pos(ret.Pos()), true, "returns (action of the current rule == PERMIT) at the first applying rule: %s", how)
				} else {
					r.bad("R-FIRSTMATCH", rk, p.Pos(ret.Pos()), "a decision is returned for a rule that was not shown to apply (%s)", how)
				}
			}
		}
		r.cond(nFalse >= 2 && nDec >= 1, "R-FIRSTMATCH", key+":default-deny", p.Pos(E.Pos()),
			fmt.Sprintf("exhaustion of the rule list and pattern errors return false (%d deny returns, %d decision returns)", nFalse, nDec),
			"the evaluator lacks constant-false returns for exhaustion and for pattern errors")
		// exhaustion: the exit of the outermost loop returns false; regex error edge returns false
		for _, s := range regexSites {
			if s.Parent() != E {
				continue
			}
			errB, _ := errEdges(s)
			good := len(errB) > 0
			for _, e := range errB {
				for b := range blockReach(e, nil) {
					if ret, ok := b.Instrs[len(b.Instrs)-1].(*ssa.Return); ok {
						for _, rv := range returnedValues(E, ret, 0) {
							if c, ok := rv.(*ssa.Const); !ok || c.Value == nil || c.Value.ExactString() != "false" {
								good = false
							}
						}
					} else if blockReachFromSelf(b) {
						good = false // goes on with the next rule instead of denying
					}
				}
			}
			r.cond(good, "R-FIRSTMATCH", key+":bad-pattern-denies", p.Pos(s.Pos()),
				"an invalid pattern makes the evaluator return false at once",
				"an invalid pattern does not deny at once (the error edge of the match continues or returns a grant)")
			// subject: the argument string without trailing <cr>
			subj := s.Common().Args[len(s.Common().Args)-1]
			// compiled first, matched by a method of the compiled expression: the subject is that call's argument
			if cf := s.Common().StaticCallee(); cf != nil && strings.Contains(cf.Name(), "Compile") {
				subj = nil
				for _, c := range allCalls(E) {
					mf := c.Common().StaticCallee()
					if mf == nil || mf.Pkg == nil || mf.Pkg.Pkg.Path() != "regexp" || mf.Signature.Recv() == nil || mf.Name() != "MatchString" || len(c.Common().Args) != 2 {
						continue
					}
					re := c.Common().Args[0]
					if call, idx, ok := extractOf(re); (ok && call == s && idx == 0) || re == ssa.Value(s) {
						subj = c.Common().Args[1]
					}
				}
			}
			okSubj := false
			if sc, ok := subj.(*ssa.Call); ok {
				if f := sc.Common().StaticCallee(); f != nil && f.Name() == "CommandArgsNoLE" && typeIsRecv(f, modPath, "Args") {
					okSubj = true
				}
			}
			r.cond(okSubj, "R-FIRSTMATCH", key+":subject", p.Pos(s.Pos()),
				"the pattern is matched against Args.CommandArgsNoLE() of the request (cmd-arg values joined by spaces, trailing <cr> dropped)",
				"the pattern is not matched against the request's joined cmd-arg string")
		}
		// (f5) the rule list is the ordered slice user.Commands
		ranged := false
		for _, b := range E.Blocks {
			for _, in := range b.Instrs {
				if ia, ok := in.(*ssa.IndexAddr); ok {
					if f, _, ok := loadedField(ia.X); ok && f.Name() == "Commands" {
						if _, isSlice := f.Type().Underlying().(*types.Slice); isSlice {
							ranged = true
						}
					}
				}
			}
		}
		r.cond(ranged, "R-FIRSTMATCH", key+":ordered-rules", p.Pos(E.Pos()),
			"the evaluator walks the ordered slice user.Commands by index",
			"the evaluator does not walk the ordered slice user.Commands")
	}
	// builder: group rules appended after user rules
	built := false
	for _, fn := range authorizerFuncs(p) {
		for _, b := range fn.Blocks {
			for _, in := range b.Instrs {
				st, ok := in.(*ssa.Store)
				if !ok {
					continue
				}
				f, base, ok := fieldAddrOf(st.Addr)
				if !ok || f.Name() != "Commands" {
					continue
				}
				ap, ok := st.Val.(*ssa.Call)
				if !ok {
					continue
				}
				if bi, ok := ap.Common().Value.(*ssa.Builtin); !ok || bi.Name() != "append" {
					continue
				}
				a := ap.Common().Args
				f0, b0, ok0 := loadedField(a[0])
				f1, _, ok1 := loadedField(a[1])
				userFirst := ok0 && f0 == f && b0 == base
				groupSecond := ok1 && f1.Name() == "Commands" && f1 != f
				k := fnKey(fn) + ":user-rules-before-group-rules"
				if userFirst && groupSecond {
					built = true
					r.ok("R-FIRSTMATCH", k, p.Pos(st.Pos()), true, "the effective rule list is append(user.Commands, group.Commands...): user-level rules precede group rules, groups in configured order")
				} else {
					r.bad("R-FIRSTMATCH", k, p.Pos(st.Pos()), "the effective rule list is not built as append(user.Commands, group.Commands...): group rules would be evaluated before user rules")
				}
			}
		}
	}
	if !built {
		r.bad("R-FIRSTMATCH", "builder:user-rules-before-group-rules", "-", "no construction of the effective rule list append(user.Commands, group.Commands...) was found")
	}
	r.floor("R-FIRSTMATCH", 9)
	return evals
}

func retDescr(f *ssa.Function, ret *ssa.Return) string {
	n := 0
	for _, b := range f.Blocks {
		if r2, ok := b.Instrs[len(b.Instrs)-1].(*ssa.Return); ok {
			n++
			if r2 == ret {
				return fmt.Sprintf("#%d", n)
			}
		}
	}
	return "#?"
}

func isRangeIndexPhi(ph *ssa.Phi) bool {
	if b, ok := ph.Type().Underlying().(*types.Basic); !ok || b.Info()&types.IsInteger == 0 {
		return false
	}
	// edges: constant -1 / 0, or phi+1
	for _, e := range ph.Edges {
		if _, ok := constInt(e); ok {
			continue
		}
		if bo, ok := e.(*ssa.BinOp); ok && bo.Op == token.ADD && bo.X == ssa.Value(ph) {
			if c, ok := constInt(bo.Y); ok && c == 1 {
				continue
			}
		}
		return false
	}
	return true
}

// isRangeCopy: alloc that receives, as its only whole-value stores, elements of a ranged slice.
func isRangeCopy(a *ssa.Alloc) bool {
	n := 0
	for _, st := range allocStores(a) {
		n++
		u, ok := st.Val.(*ssa.UnOp)
		if !ok || u.Op != token.MUL {
			return false
		}
		if _, ok := u.X.(*ssa.IndexAddr); !ok {
			return false
		}
	}
	return n > 0
}

func isVarargArray(a *ssa.Alloc) bool { return a.Comment == "varargs" }

// decisionFromAction: v is D(rule.Action) where D returns true only when its parameter equals PERMIT,
// or v is directly rule.Action == PERMIT.
func decisionFromAction(p *Program, v ssa.Value, permitVal int64) (bool, string) {
	isAction := func(x ssa.Value) bool {
		f, _, ok := loadedField(x)
		return ok && f.Name() == "Action"
	}
	isPermit := func(x ssa.Value) bool {
		m := map[int64]bool{}
		if constSources(p, x, 3, m) && len(m) == 1 && m[permitVal] {
			return true
		}
		return false
	}
	if bo, ok := v.(*ssa.BinOp); ok && bo.Op == token.EQL {
		if (isAction(bo.X) && isPermit(bo.Y)) || (isAction(bo.Y) && isPermit(bo.X)) {
			return true, ""
		}
		return false, "comparison is not action == PERMIT"
	}
	call, ok := v.(*ssa.Call)
	if !ok {
		return false, fmt.Sprintf("value of kind %T does not come from the rule's action", v)
	}
	f := call.Common().StaticCallee()
	if f == nil || f.Blocks == nil {
		return false, "dynamic decision function"
	}
	args := call.Common().Args
	if len(args) == 0 || !isAction(args[len(args)-1]) {
		return false, "the decision function is not applied to the current rule's Action"
	}
	// every 'true' return of f is under param == PERMIT
	param := f.Params[len(f.Params)-1]
	for _, b := range f.Blocks {
		ret, ok := b.Instrs[len(b.Instrs)-1].(*ssa.Return)
		if !ok {
			continue
		}
		for _, rv := range returnedValues(f, ret, 0) {
			c, ok := rv.(*ssa.Const)
			if !ok {
				if bo, ok := rv.(*ssa.BinOp); ok && bo.Op == token.EQL && ((bo.X == ssa.Value(param) && isPermit(bo.Y)) || (bo.Y == ssa.Value(param) && isPermit(bo.X))) {
					continue
				}
				return false, "the decision function returns a non-constant that is not param == PERMIT"
			}
			if c.Value.ExactString() != "true" {
				continue
			}
			guarded := false
			for _, bb := range f.Blocks {
				iff, ok := bb.Instrs[len(bb.Instrs)-1].(*ssa.If)
				if !ok {
					continue
				}
				bo, ok := iff.Cond.(*ssa.BinOp)
				if !ok || bo.Op != token.EQL {
					continue
				}
				if (bo.X == ssa.Value(param) && isPermit(bo.Y)) || (bo.Y == ssa.Value(param) && isPermit(bo.X)) {
					if bb.Succs[0] == b || bb.Succs[0].Dominates(b) {
						guarded = true
					}
				}
			}
			if !guarded {
				return false, "the decision function can return true when the action is not PERMIT"
			}
		}
	}
	return true, ""
}

// ruleApplies: the return is control-dependent on Name == "*" or on Name == requested command
// (false edge of Name != cmd), and for rules with patterns on the match result.
func ruleApplies(p *Program, E *ssa.Function, ret *ssa.Return) (bool, string) {
	var conds []string
	nameOK := false
	for _, b := range E.Blocks {
		iff, ok := b.Instrs[len(b.Instrs)-1].(*ssa.If)
		if !ok {
			continue
		}
		for i, s := range b.Succs {
			if !(s == ret.Block() || s.Dominates(ret.Block())) {
				continue
			}
			if len(s.Preds) != 1 {
				continue
			}
			taken := i == 0
			switch c := iff.Cond.(type) {
			case *ssa.BinOp:
				nameV := c.X
				if tc, ok := nameV.(*ssa.Call); ok {
					if tf := tc.Common().StaticCallee(); tf != nil && tf.Pkg != nil && tf.Pkg.Pkg.Path() == "strings" && tf.Name() == "TrimSpace" {
						nameV = tc.Common().Args[0] // the rule's name, trimmed into a local
					}
				}
				fx, _, okx := loadedField(nameV)
				if okx && fx.Name() == "Name" {
					if cs, isC := constString(c.Y); isC && cs == "*" && c.Op == token.EQL && taken {
						nameOK = true
						conds = append(conds, `Name == "*"`)
					} else if !isC && ((c.Op == token.NEQ && !taken) || (c.Op == token.EQL && taken)) {
						if call, ok := c.Y.(*ssa.Call); ok {
							if f := call.Common().StaticCallee(); f != nil && f.Name() == "Command" && typeIsRecv(f, modPath, "Args") {
								nameOK = true
								conds = append(conds, "Name == requested command")
							}
						}
					}
				}
				if call, ok := c.X.(*ssa.Call); ok && c.Op == token.EQL && taken {
					if bi, ok := call.Common().Value.(*ssa.Builtin); ok && bi.Name() == "len" {
						if z, ok := constInt(c.Y); ok && z == 0 {
							conds = append(conds, "no patterns")
						}
					}
				}
			case *ssa.Extract:
				if call, ok := c.Tuple.(*ssa.Call); ok && taken && c.Index == 0 {
					if f := call.Common().StaticCallee(); f != nil && f.Pkg != nil && f.Pkg.Pkg.Path() == "regexp" {
						conds = append(conds, "pattern matched")
					}
				}
			case *ssa.Call:
				// re.MatchString(s) on a compiled expression
				if f := c.Common().StaticCallee(); f != nil && f.Pkg != nil && f.Pkg.Pkg.Path() == "regexp" && f.Signature.Recv() != nil && (f.Name() == "MatchString" || f.Name() == "Match") && taken {
					conds = append(conds, "pattern matched")
				}
			}
		}
	}
	how := strings.Join(conds, " and ")
	if !nameOK {
		return false, "not under Name == \"*\" nor Name == requested command; conditions: " + how
	}
	// a non-wildcard decision needs 'no patterns' or 'pattern matched'
	if !strings.Contains(how, `Name == "*"`) && !strings.Contains(how, "no patterns") && !strings.Contains(how, "pattern matched") {
		return false, "rule with patterns decided without a pattern match; conditions: " + how
	}
	return true, how
}

// ruleAuthorProvenance: grant constants only behind the evaluators.
func ruleAuthorProvenance(p *Program, r *Result, evals []*ssa.Function) {
	passAdd, ok1 := p.rootConst("AuthorStatusPassAdd")
	passRepl, ok2 := p.rootConst("AuthorStatusPassRepl")
	if !ok1 || !ok2 {
		r.undecided("R-PROVENANCE", "anchor:AuthorStatusPass*", "-", "UNRESOLVED constants")
		return
	}
	ord := map[*ssa.Function]int{}
	n := 0
	for _, rs := range allReplySites(p) {
		if rs.Kind != "Author" && !(rs.Kind == "" && len(decodeCalls(rs.Fn, "AuthorRequest")) > 0) {
			continue
		}
		n++
		k := siteKey(rs, ord)
		if !rs.Resolved {
			r.undecided("R-PROVENANCE", k, p.Pos(rs.Call.Pos()), "authorization reply whose status cannot be resolved to constants: %s", rs.Why)
			continue
		}
		if !hasStatus(rs, passAdd) && !hasStatus(rs, passRepl) {
			r.ok("R-PROVENANCE", k, p.Pos(rs.Call.Pos()), false, "authorization reply with status %v (no grant)", rs.Status)
			continue
		}
		// (i) command path: dominated by the true edge of a call to an evaluator
		good := false
		how := ""
		for _, b := range rs.Fn.Blocks {
			iff, ok := b.Instrs[len(b.Instrs)-1].(*ssa.If)
			if !ok {
				continue
			}
			if call, ok := iff.Cond.(*ssa.Call); ok && containsFn(evals, call.Common().StaticCallee()) {
				if b.Succs[0] == rs.At.Block() || b.Succs[0].Dominates(rs.At.Block()) {
					good = true
					how = "the true edge of " + shortCall(call)
				}
			}
			// (ii) session path: len(args) > 0 with args = result #0 of the session evaluator, status = its result #1
			if lc, yes, ok := lenPositiveTest(iff); ok {
				{
					{
						{
							if ev, idx, ok := extractOf(lc.Common().Args[0]); ok && idx == 0 {
								if y, n := b.Succs[yes], b.Succs[1-yes]; (y == rs.At.Block() || y.Dominates(rs.At.Block())) && n != rs.At.Block() && !n.Dominates(rs.At.Block()) {
									// the args replied are that same result
									sameArgs := false
									for _, a := range rs.Options["SetAuthorReplyArgs"] {
										if a == lc.Common().Args[0] {
											sameArgs = true
										}
									}
									statusFromEval := false
									for _, a := range rs.Options["SetAuthorReplyStatus"] {
										if e2, i2, ok := extractOf(a); ok && e2 == ev && i2 == 1 {
											statusFromEval = true
										}
									}
									if sameArgs && statusFromEval {
										good = true
										how = "len(values) > 0 of " + shortCall(ev) + " with status and values taken from that same evaluation"
									}
								}
							}
						}
					}
				}
			}
		}
		if good {
			r.ok("R-PROVENANCE", k, p.Pos(rs.Call.Pos()), true, "a grant status %v is replied only behind %s", rs.Status, how)
		} else {
			r.bad("R-PROVENANCE", k, p.Pos(rs.Call.Pos()), "a grant status (PASS_ADD/PASS_REPL, %v) can be replied without the policy evaluator having granted: not dominated by the true edge of the command evaluator nor by 'values returned' of the session evaluator", rs.Status)
		}
	}
	if n == 0 {
		r.undecided("R-PROVENANCE", "author-replies", "-", "no authorization reply site found")
	}
	r.floor("R-PROVENANCE", 9)
}

// sameInnermostLoop: every cycle through block x also passes block a (the allocation runs again before x can be
// reached a second time).
func sameInnermostLoop(a, x *ssa.BasicBlock) bool {
	if a == x {
		return true
	}
	for _, s := range x.Succs {
		if blockReach(s, map[*ssa.BasicBlock]bool{a: true})[x] {
			return false
		}
	}
	return true
}

// lenPositiveTest: the block ends in a test of len(x) > 0 in one of its spellings (len(x) > 0, len(x) != 0,
// len(x) >= 1, and the negations len(x) == 0, len(x) <= 0, len(x) < 1, under any number of '!'); returns the len
// call and the index of the successor taken when the length is positive.
func lenPositiveTest(iff *ssa.If) (*ssa.Call, int, bool) {
	cond, yes := iff.Cond, 0
	for {
		u, ok := cond.(*ssa.UnOp)
		if !ok || u.Op != token.NOT {
			break
		}
		cond, yes = u.X, 1-yes
	}
	bo, ok := cond.(*ssa.BinOp)
	if !ok {
		return nil, 0, false
	}
	lc, ok := bo.X.(*ssa.Call)
	if !ok {
		return nil, 0, false
	}
	if bi, ok := lc.Common().Value.(*ssa.Builtin); !ok || bi.Name() != "len" {
		return nil, 0, false
	}
	z, ok := constInt(bo.Y)
	if !ok {
		return nil, 0, false
	}
	switch {
	case (bo.Op == token.GTR || bo.Op == token.NEQ) && z == 0, bo.Op == token.GEQ && z == 1:
		return lc, yes, true
	case (bo.Op == token.EQL || bo.Op == token.LEQ) && z == 0, bo.Op == token.LSS && z == 1:
		return lc, 1 - yes, true
	}
	return nil, 0, false
}
