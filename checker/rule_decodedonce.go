package main

import (
	"go/types"

	"golang.org/x/tools/go/ssa"
)

// R-DECODEDONCE (C02, C12): a body decoder stores into each scalar field of the value it decodes exactly what
// it read, once. A second store into the same field, or a call after the fact of a module function that writes through
// a pointer to the field (flags.Clear(reservedBits), a "normalising" setter), makes the decoded value differ from the
// octets on the wire: the accounting record then says something other than what the client sent, and re-encoding the
// value does not give the packet back.
func ruleDecodedOnce(p *Program, r *Result) {
	n := 0
	for _, f0 := range p.FuncsIn(func(path string) bool { return path == modPath }) {
		if f0.Name() != "UnmarshalBinary" || f0.Signature.Recv() == nil || p.isTestFile(f0.Pos()) || len(f0.Params) == 0 {
			continue
		}
		pt, ok := f0.Signature.Recv().Type().(*types.Pointer)
		if !ok {
			continue
		}
		st, ok := pt.Elem().Underlying().(*types.Struct)
		if !ok {
			continue
		}
		// the seven AAA bodies (the header decoder turns the single-connect flag on for sequence number 2 by design:
		// the property says so)
		if nt := namedOf(pt.Elem()); nt == nil || nt.Obj().Name() == "Header" || nt.Obj().Name() == "Packet" {
			continue
		} else if _, isBody := rfcLayouts[nt.Obj().Name()]; !isBody {
			continue
		}
		f := p.view(f0)
		recv := f.Params[0]
		n++
		stores := map[int]int{}
		bad := ""
		for _, b := range f.Blocks {
			for _, in := range b.Instrs {
				switch x := in.(type) {
				case *ssa.Store:
					if fa, ok := x.Addr.(*ssa.FieldAddr); ok && fa.X == ssa.Value(recv) {
						if _, isBasic := st.Field(fa.Field).Type().Underlying().(*types.Basic); isBasic {
							stores[fa.Field]++
							if stores[fa.Field] > 1 && bad == "" {
								bad = "field " + st.Field(fa.Field).Name() + " is stored a second time at " + p.Pos(x.Pos())
							}
						}
					}
				case *ssa.Call:
					g := x.Call.StaticCallee()
					if g == nil || g.Pkg == nil || !isModulePath(g.Pkg.Pkg.Path()) || g.Name() == "UnmarshalBinary" || len(g.Params) == 0 {
						continue
					}
					for i, a := range x.Call.Args {
						fa, ok := a.(*ssa.FieldAddr)
						if !ok || fa.X != ssa.Value(recv) || i >= len(g.Params) {
							continue
						}
						if _, isBasic := st.Field(fa.Field).Type().Underlying().(*types.Basic); !isBasic {
							continue
						}
						if writesThroughParam(g, g.Params[i], 3) && bad == "" {
							bad = "field " + st.Field(fa.Field).Name() + " is modified by " + fnKey(g) + " at " + p.Pos(x.Pos())
						}
					}
				}
			}
		}
		r.cond(bad == "", "R-DECODEDONCE", typeName(pt.Elem())+":scalars-stored-once", p.Pos(f0.Pos()),
			"every scalar field is stored once, with what was read, and not modified afterwards",
			"the decoder does not keep what it read: "+bad+" - the decoded value differs from the octets on the wire (a record made from it does not say what the client sent)")
	}
	if n < 7 {
		r.undecided("R-DECODEDONCE", "decoders", "-", "expected the seven body decoders; found %d", n)
	}
}
