package main

import "golang.org/x/tools/go/ssa"

func init() { register("C13", checkC13) }

func checkC13(p *Program, tier string) *Result {
	r := newResult("C13")
	r.Explanation = "R-ADMIT: the lookup goroutine consults the filter built from prefix_deny first (refuse on hit), then the filter built from prefix_allow (refuse on miss), then scans the providers; the two filter predicates have the truth tables {empty list: no opinion, non-TCP address: refused, else by prefix match}; every configured prefix is compared with the remote IP by IPNet.Contains with no other skip condition; the scan is ordered and returns the first provider answering (non-nil secret, non-nil handler, nil error), exhaustion refuses; providers are built in configuration order, each with a fresh user map filled only under HasScope(scope) after LocalizeToScope(scope) with an AAA built in that iteration, a handler over that map and the keychain function of that configuration's secret; the accept path serves only on a complete lookup and otherwise closes without writing or invoking a handler. R-GOCAPTURE/R-ATOMICRELOAD (shared with C15): a lookup observes one configuration."
	ruleAdmit(p, r)
	ruleGoCapture(p, r, func(f *ssa.Function) bool { return f.Pkg != nil && f.Pkg.Pkg.Path() == loaderPkg })
	ruleAtomicReload(p, r)
	ruleBuildKeepsConfig(p, r)
	// every lookup is answered (a refused connection is closed, not left waiting)
	ruleNoBlock(p, r)
	r.Trusted = append(r.Trusted, "net.ParseCIDR / IPNet.Contains (incl. IPv4-mapped addresses)", "the prefix provider's map iteration order does not matter because all entries of one provider hold the same configuration")
	r.Assumptions = append(r.Assumptions, "the DNS secret provider's resolution behaviour is not analysed")
	return r
}
