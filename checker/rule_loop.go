package main

import (
	"fmt"
	"go/token"
	"go/types"
	"strings"

	"golang.org/x/tools/go/ssa"
)

// errEdges finds the If instructions testing the error result of call c and returns
// the successor blocks taken on error and on success.
func errEdges(c *ssa.Call) (errB, okB []*ssa.BasicBlock) {
	var errVals []ssa.Value
	if tup, ok := c.Type().(*types.Tuple); ok {
		for _, r := range refsOf(c) {
			if e, ok := r.(*ssa.Extract); ok && isErrorType(tup.At(e.Index).Type()) {
				errVals = append(errVals, e)
			}
		}
	} else if isErrorType(c.Type()) {
		errVals = append(errVals, c)
	}
	for _, ev := range errVals {
		for _, r := range refsOf(ev) {
			b, ok := r.(*ssa.BinOp)
			if !ok {
				continue
			}
			x, trueIsErr, ok := errNilCheck(b)
			if !ok || x != ev {
				continue
			}
			for _, rr := range refsOf(b) {
				if iff, ok := rr.(*ssa.If); ok {
					blk := iff.Block()
					if trueIsErr {
						errB = append(errB, blk.Succs[0])
						okB = append(okB, blk.Succs[1])
					} else {
						errB = append(errB, blk.Succs[1])
						okB = append(okB, blk.Succs[0])
					}
				}
			}
		}
	}
	return
}

// guardedBySuccess: instruction target executes only after call c succeeded:
// c's error is tested, the success edge dominates target, and no error edge reaches target
// without passing `barrier` blocks again.
func guardedBySuccess(c *ssa.Call, target ssa.Instruction, barrier map[*ssa.BasicBlock]bool) (bool, string) {
	errB, okB := errEdges(c)
	if len(errB) == 0 {
		return false, "the error result of " + shortCall(c) + " is never tested"
	}
	dom := false
	for _, b := range okB {
		if b == target.Block() || b.Dominates(target.Block()) {
			dom = true
		}
	}
	if !dom {
		return false, "no success edge of the error test on " + shortCall(c) + " dominates the instruction"
	}
	for _, e := range errB {
		if blockReach(e, barrier)[target.Block()] {
			return false, fmt.Sprintf("the error edge (block %d) of the test on %s reaches the instruction", e.Index, shortCall(c))
		}
	}
	return true, ""
}

// R-LOOP: typestate of the connection loop. parts selects clauses a..g.
func ruleLoop(p *Program, r *Result, parts string) {
	ro := rolesOK(p, r)
	has := func(c string) bool { return strings.Contains(parts, c) }
	isReader := map[*ssa.Function]bool{}
	for _, f := range ro.Readers {
		isReader[f] = true
		isReader[p.orig(f)] = true
	}
	hn := p.lookupType("", "Handler")
	for _, L := range ro.Loops {
		key := fnKey(L)
		pos := p.Pos(L.Pos())
		var reads []*ssa.Call
		var handles []ssa.CallInstruction
		var lookups []*ssa.Call
		for _, c := range allCalls(L) {
			if call, ok := c.(*ssa.Call); ok {
				if isReader[call.Common().StaticCallee()] {
					reads = append(reads, call)
				}
			}
			if cc := c.Common(); cc.IsInvoke() && cc.Method.Name() == "Handle" && hn != nil && types.Identical(cc.Value.Type(), hn) {
				if _, isGo := c.(*ssa.Go); !isGo {
					handles = append(handles, c)
				}
			}
		}
		readBlocks := map[*ssa.BasicBlock]bool{}
		for _, rd := range reads {
			readBlocks[rd.Block()] = true
		}
		// session lookups: static calls returning (Handler, error) whose result flows into a Handle receiver
		for _, h := range handles {
			for _, src := range phiSources(h.Common().Value) {
				if call, idx, ok := extractOf(src); ok && idx == 0 {
					dup := false
					for _, l := range lookups {
						if l == call {
							dup = true
						}
					}
					if !dup {
						lookups = append(lookups, call)
					}
				}
			}
		}
		if len(reads) == 0 || len(handles) == 0 {
			r.undecided("R-LOOP", key+":shape", pos, "connection loop without a stream read or without a Handle invoke")
			continue
		}

		if has("a") {
			// (a) deferred Close of the connection, executed before the first read
			var closeDefer *ssa.Defer
			for _, b := range L.Blocks {
				for _, in := range b.Instrs {
					if d, ok := in.(*ssa.Defer); ok {
						if _, ok := methodCallNamed(d, "Close"); ok && closesConn(d) {
							closeDefer = d
						}
					}
				}
			}
			if closeDefer == nil {
				r.bad("R-LOOP", key+":a:defer-close", pos, "the connection loop has no deferred Close of the connection: a return on a read or session error would leave the connection open")
			} else {
				all := true
				for _, rd := range reads {
					if !domInstr(closeDefer, rd) {
						all = false
					}
				}
				r.cond(all, "R-LOOP", key+":a:defer-close", p.Pos(closeDefer.Pos()),
					"defer conn.Close() dominates every stream read, so it runs on every exit of the loop function",
					"defer conn.Close() does not dominate every stream read")
			}
		}

		if has("b") {
			// (b) every Handle invoke is guarded by the success of the read and of the session lookup
			for i, h := range handles {
				hk := fmt.Sprintf("%s:b:handle#%d", key, i+1)
				okAll := true
				var why []string
				guards := 0
				for _, rd := range reads {
					if g, w := guardedBySuccess(rd, h, readBlocks); !g {
						okAll = false
						why = append(why, w)
					} else {
						guards++
					}
				}
				if len(lookups) == 0 {
					okAll = false
					why = append(why, "the handler invoked does not come from a session lookup returning (Handler, error)")
				}
				for _, lk := range lookups {
					if g, w := guardedBySuccess(lk, h, readBlocks); !g {
						okAll = false
						why = append(why, w)
					} else {
						guards++
					}
				}
				if okAll {
					r.ok("R-LOOP", hk, p.Pos(h.Pos()), true, "Handle is dominated by the success edges of %d read/lookup error tests and no error edge reaches it without a new read", guards)
				} else {
					r.bad("R-LOOP", hk, p.Pos(h.Pos()), "a handler can run for a rejected request: %s", strings.Join(why, "; "))
				}
			}
		}

		if has("c") {
			// (c) error edges of read/lookup lead to return: no Handle, no write, no further read
			for _, c := range append(append([]*ssa.Call{}, reads...), lookups...) {
				errB, _ := errEdges(c)
				ck := fmt.Sprintf("%s:c:%s", key, shortCall(c))
				if len(errB) == 0 {
					r.bad("R-LOOP", ck, p.Pos(c.Pos()), "the error result of %s is never tested", shortCall(c))
					continue
				}
				bad := ""
				// the only way on to another read, a handler or a write is the success edge of the test
				_, okB := errEdges(c)
				blocked := map[*ssa.BasicBlock]bool{}
				for _, ob := range okB {
					blocked[ob] = true
				}
				for _, sc := range c.Block().Succs {
					for b := range blockReach(sc, blocked) {
						if readBlocks[b] {
							bad = fmt.Sprintf("after %s a path leads to another read (block %d) without passing the success edge of its error test: a failed read is not terminal", shortCall(c), b.Index)
						}
					}
				}
				for _, e := range errB {
					reach := blockReach(e, nil)
					for b := range reach {
						if readBlocks[b] {
							bad = fmt.Sprintf("after an error of %s the loop goes on to another read (block %d): the connection is not closed", shortCall(c), b.Index)
						}
						for _, in := range b.Instrs {
							if ci, ok := in.(ssa.CallInstruction); ok {
								if cc := ci.Common(); cc.IsInvoke() && (cc.Method.Name() == "Handle" || (cc.Method.Name() == "Write" && isNetConn(cc.Value.Type()))) {
									bad = fmt.Sprintf("after an error of %s the path reaches %s at %s", shortCall(c), shortCall(ci), p.Pos(in.Pos()))
								}
								if f := ci.Common().StaticCallee(); f != nil && containsFn(p.Roles().Writers, f) {
									bad = fmt.Sprintf("after an error of %s the path reaches the stream writer at %s", shortCall(c), p.Pos(in.Pos()))
								}
							}
						}
					}
				}
				if bad == "" {
					r.ok("R-LOOP", ck, p.Pos(c.Pos()), true, "every path from the error edge of %s ends in return (deferred Close) without a Handle invoke, a write or another read", shortCall(c))
				} else {
					r.bad("R-LOOP", ck, p.Pos(c.Pos()), "%s", bad)
				}
			}
		}

		if has("g") {
			// (g) exactly one Handle invoke between two reads: every path from a Handle invoke to another Handle invoke passes a read
			okOne := true
			for _, h := range handles {
				start := map[*ssa.BasicBlock]bool{}
				// blocks reachable from after h without passing a read block
				for _, s := range h.Block().Succs {
					for b := range blockReach(s, readBlocks) {
						start[b] = true
					}
				}
				// later instructions in the same block
				idx := instrIndex(h)
				for _, in := range h.Block().Instrs[idx+1:] {
					if ci, ok := in.(ssa.CallInstruction); ok && ci != h {
						if cc := ci.Common(); cc.IsInvoke() && cc.Method.Name() == "Handle" {
							okOne = false
						}
					}
				}
				for _, h2 := range handles {
					if start[h2.Block()] && !readBlocks[h2.Block()] {
						okOne = false
					}
				}
			}
			r.cond(okOne, "R-LOOP", key+":g:one-handler-per-read", pos,
				fmt.Sprintf("every path from a Handle invoke to the next passes a stream read (%d invoke sites)", len(handles)),
				"two handler invocations can happen for one request (a path from a Handle invoke to another does not pass a read)")
		}

		if has("e") {
			// (e) the response object is allocated per request and seeded with this request's header
			for i, h := range handles {
				ek := fmt.Sprintf("%s:e:response#%d", key, i+1)
				args := h.Common().Args
				if len(args) < 2 {
					r.undecided("R-LOOP", ek, p.Pos(h.Pos()), "Handle invoke with unexpected arity")
					continue
				}
				respAlloc, _ := canonObject(stripConv(args[0])).(*ssa.Alloc)
				if respAlloc == nil {
					r.bad("R-LOOP", ek, p.Pos(h.Pos()), "the response passed to Handle is not a fresh allocation of the loop body")
					continue
				}
				fresh := false
				for _, rd := range reads {
					if domInstr(rd, respAlloc) {
						fresh = true
					}
				}
				// header field seeded from the packet that was just read
				seeded := false
				detail := ""
				for _, ref := range refsOf(respAlloc) {
					fa, ok := ref.(*ssa.FieldAddr)
					if !ok {
						continue
					}
					f, _, _ := fieldAddrOf(fa)
					if f == nil || !typeIs(f.Type(), modPath, "Header") {
						continue
					}
					for _, st := range refsOf(fa) {
						if s, ok := st.(*ssa.Store); ok && s.Addr == fa {
							for _, rd := range reads {
								if derivesFromCallResult(s.Val, rd, 0, 8) {
									seeded = true
									detail = "field " + f.Name()
								}
							}
						}
					}
				}
				if fresh && seeded {
					r.ok("R-LOOP", ek, p.Pos(respAlloc.Pos()), true, "response is allocated after the read inside the loop body and its %s is a copy of the header of the packet just read", detail)
				} else {
					r.bad("R-LOOP", ek, p.Pos(respAlloc.Pos()), "response object is not per-request (allocated after the read: %v) or its header is not seeded from the packet just read (%v)", fresh, seeded)
				}
			}
		}

		if has("E") {
			// (E) weaker form of (e) for properties that only need the reply header to start from this
			// request's header: the object handed to Handle (fresh or re-used) has its header field
			// stored exactly once in the loop function, from the packet just read, between the read and Handle
			for i, h := range handles {
				ek := fmt.Sprintf("%s:E:response-header#%d", key, i+1)
				args := h.Common().Args
				if len(args) < 2 {
					r.undecided("R-LOOP", ek, p.Pos(h.Pos()), "Handle invoke with unexpected arity")
					continue
				}
				V := canonObject(stripConv(args[0]))
				nStores, good := 0, false
				for _, b := range L.Blocks {
					for _, in := range b.Instrs {
						st, ok := in.(*ssa.Store)
						if !ok {
							continue
						}
						fa, ok := st.Addr.(*ssa.FieldAddr)
						if !ok || canonObject(fa.X) != V {
							continue
						}
						f, _, _ := fieldAddrOf(fa)
						if f == nil || !typeIs(f.Type(), modPath, "Header") {
							continue
						}
						nStores++
						for _, rd := range reads {
							if derivesFromCallResult(st.Val, rd, 0, 8) && domInstr(rd, st) && domInstr(st, h) {
								good = true
							}
						}
					}
				}
				r.cond(good && nStores == 1, "R-LOOP", ek, p.Pos(h.Pos()),
					"the response handed to Handle has its header stored once, from the packet just read, after the read and before Handle",
					fmt.Sprintf("the header of the response handed to Handle is not set exactly once from the packet just read before Handle (%d stores)", nStores))
			}
		}

		if has("f") {
			// (f) a finite read deadline is armed before every read, and re-armed between two reads;
			// the context is tested between two reads
			for i, rd := range reads {
				fk := fmt.Sprintf("%s:f:deadline#%d", key, i+1)
				var dl ssa.CallInstruction
				for _, c := range allCalls(L) {
					if _, ok := methodCallNamed(c, "SetReadDeadline"); ok && domInstr(c, rd) {
						dl = c
					}
				}
				if dl == nil {
					r.bad("R-LOOP", fk, p.Pos(rd.Pos()), "no SetReadDeadline call dominates the stream read: an idle connection is never reaped and shutdown can wait forever")
					continue
				}
				finite, why := finiteDeadlineArg(dl)
				// re-armed each iteration: from the read, the read is not reachable again without passing the deadline call
				rearmed := true
				if dl.Block() != rd.Block() {
					blocked := map[*ssa.BasicBlock]bool{dl.Block(): true}
					for _, s := range rd.Block().Succs {
						if blockReach(s, blocked)[rd.Block()] {
							rearmed = false
						}
					}
				}
				if finite && rearmed {
					r.ok("R-LOOP", fk, p.Pos(dl.Pos()), true, "SetReadDeadline(%s) dominates the read and lies on every path between two reads", why)
				} else {
					r.bad("R-LOOP", fk, p.Pos(dl.Pos()), "read deadline is not finite and positive (%s) or not re-armed before every read (re-armed: %v)", why, rearmed)
				}
				// context polled between reads
				ck := fmt.Sprintf("%s:f:ctx-poll#%d", key, i+1)
				var done ssa.CallInstruction
				for _, c := range invokesNamed(L, "Done") {
					if typeIs(c.Common().Value.Type(), "context", "Context") && domInstr(c, rd) {
						done = c
					}
				}
				if done == nil {
					r.bad("R-LOOP", ck, p.Pos(rd.Pos()), "the context is not tested before the read")
					continue
				}
				polled := true
				if done.Block() != rd.Block() {
					blocked := map[*ssa.BasicBlock]bool{done.Block(): true}
					for _, s := range rd.Block().Succs {
						if blockReach(s, blocked)[rd.Block()] {
							polled = false
						}
					}
				}
				r.cond(polled, "R-LOOP", ck, p.Pos(done.Pos()), "ctx.Done() is polled on every path between two reads", "ctx.Done() is not polled on every path between two reads")
			}
		}

		if has("d") {
			ruleLoopSessionUpdate(p, r, L, handles, lookups)
		}
	}
	r.floor("R-LOOP", 1)
}

func containsFn(fs []*ssa.Function, f *ssa.Function) bool {
	if f == nil {
		return false
	}
	for _, x := range fs {
		if x == f || (gProg != nil && gProg.orig(x) == gProg.orig(f)) {
			return true
		}
	}
	return false
}

// closesConn: the deferred Close is on a net.Conn value or on a type embedding one.
func closesConn(d *ssa.Defer) bool {
	cc := d.Common()
	if cc.IsInvoke() {
		return isNetConn(cc.Value.Type()) || typeIs(cc.Value.Type(), "io", "Closer")
	}
	if f := cc.StaticCallee(); f != nil && len(cc.Args) > 0 {
		st := derefStruct(cc.Args[0].Type())
		if st != nil {
			for i := 0; i < st.NumFields(); i++ {
				if st.Field(i).Embedded() && isNetConn(st.Field(i).Type()) {
					return true
				}
			}
		}
	}
	return false
}

// phiSources flattens phis.
func phiSources(v ssa.Value) []ssa.Value {
	seen := map[ssa.Value]bool{}
	var out []ssa.Value
	var walk func(x ssa.Value)
	walk = func(x ssa.Value) {
		if seen[x] {
			return
		}
		seen[x] = true
		if ph, ok := x.(*ssa.Phi); ok {
			for _, e := range ph.Edges {
				walk(e)
			}
			return
		}
		out = append(out, x)
	}
	walk(v)
	return out
}

// derivesFromCallResult: v is a copy (through loads, field projections, local spills) of
// data reachable from result #idx of call c.
func derivesFromCallResult(v ssa.Value, c *ssa.Call, idx int, depth int) bool {
	if depth == 0 {
		return false
	}
	if call, i, ok := extractOf(v); ok && call == c && i == idx {
		return true
	}
	if v == ssa.Value(c) {
		return true
	}
	switch x := v.(type) {
	case *ssa.UnOp:
		if x.Op == token.MUL {
			// load: from an address derived from the result, or from a local whose stores derive from it
			if derivesFromCallResult(x.X, c, idx, depth-1) {
				return true
			}
			base := x.X
			for {
				if fa, ok := base.(*ssa.FieldAddr); ok {
					// stores to this exact field address chain of a local
					if storedFieldDerives(fa, c, idx, depth-1) {
						return true
					}
					base = fa.X
					continue
				}
				break
			}
			if a, ok := base.(*ssa.Alloc); ok {
				for _, s := range allocStores(a) {
					if derivesFromCallResult(s.Val, c, idx, depth-1) {
						return true
					}
					// the local is a copy of another local struct (a value returned by a folded helper):
					// the field read here was stored into that one
					if fa, ok := x.X.(*ssa.FieldAddr); ok && fa.X == ssa.Value(a) {
						if fieldOfValueDerives(s.Val, fa.Field, c, idx, depth-1) {
							return true
						}
						if u, ok := s.Val.(*ssa.UnOp); ok && u.Op == token.MUL {
							if a2, ok := u.X.(*ssa.Alloc); ok && a2 != a {
								for _, rf := range refsOf(a2) {
									if fa2, ok := rf.(*ssa.FieldAddr); ok && fa2.Field == fa.Field {
										if storedFieldDerives(fa2, c, idx, depth-1) {
											return true
										}
									}
								}
							}
						}
					}
				}
			}
		}
	case *ssa.FieldAddr:
		return derivesFromCallResult(x.X, c, idx, depth-1)
	case *ssa.Field:
		return fieldOfValueDerives(x.X, x.Field, c, idx, depth-1) || derivesFromCallResult(x.X, c, idx, depth-1)
	case *ssa.ChangeType:
		return derivesFromCallResult(x.X, c, idx, depth-1)
	case *ssa.Phi:
		for _, e := range x.Edges {
			if !derivesFromCallResult(e, c, idx, depth-1) {
				return false
			}
		}
		return len(x.Edges) > 0
	}
	return false
}

// fieldOfValueDerives: field #field of the struct value sv derives from the call result: sv is a copy of a local
// struct one of whose stores to that field does (followed through whole-value copies between locals).
func fieldOfValueDerives(sv ssa.Value, field int, c *ssa.Call, idx, depth int) bool {
	if depth <= 0 {
		return false
	}
	switch x := sv.(type) {
	case *ssa.Phi:
		for _, e := range x.Edges {
			if !fieldOfValueDerives(e, field, c, idx, depth-1) {
				return false
			}
		}
		return len(x.Edges) > 0
	case *ssa.UnOp:
		if x.Op != token.MUL {
			return false
		}
		a, ok := x.X.(*ssa.Alloc)
		if !ok {
			return false
		}
		for _, rf := range refsOf(a) {
			switch y := rf.(type) {
			case *ssa.FieldAddr:
				if y.Field != field {
					continue
				}
				for _, st := range refsOf(y) {
					if s, ok := st.(*ssa.Store); ok && s.Addr == ssa.Value(y) && derivesFromCallResult(s.Val, c, idx, depth-1) {
						return true
					}
				}
			case *ssa.Store:
				if y.Addr == ssa.Value(a) && fieldOfValueDerives(y.Val, field, c, idx, depth-1) {
					return true
				}
			}
		}
	}
	return false
}

// storedFieldDerives: some store to the same field of the same local base derives from the call result.
func storedFieldDerives(fa *ssa.FieldAddr, c *ssa.Call, idx, depth int) bool {
	base, ok := fa.X.(*ssa.Alloc)
	if !ok {
		return false
	}
	for _, ref := range refsOf(base) {
		if fa2, ok := ref.(*ssa.FieldAddr); ok && fa2.Field == fa.Field {
			for _, st := range refsOf(fa2) {
				if s, ok := st.(*ssa.Store); ok && s.Addr == fa2 && derivesFromCallResult(s.Val, c, idx, depth) {
					return true
				}
			}
		}
	}
	return false
}

// finiteDeadlineArg: the deadline argument is time.Now().Add(c) with c a positive constant.
func finiteDeadlineArg(c ssa.CallInstruction) (bool, string) {
	args := c.Common().Args
	if len(args) == 0 {
		return false, "no argument"
	}
	arg := args[len(args)-1]
	call, ok := arg.(*ssa.Call)
	if !ok {
		return false, "the deadline is not the result of time.Now().Add(...)"
	}
	f := call.Common().StaticCallee()
	if f == nil || f.Name() != "Add" || !typeIsRecv(f, "time", "Time") {
		return false, "the deadline is not the result of time.Now().Add(...)"
	}
	a := call.Common().Args
	if len(a) != 2 {
		return false, "unexpected Add arity"
	}
	now, ok := a[0].(*ssa.Call)
	if !ok || !isFuncNamed(now.Common().StaticCallee(), "time", "Now") {
		return false, "Add is not applied to time.Now()"
	}
	d, ok := constInt(a[1])
	if !ok {
		return false, "the duration is not a compile-time constant"
	}
	if d <= 0 {
		return false, fmt.Sprintf("the duration %d ns is not positive", d)
	}
	return true, fmt.Sprintf("time.Now().Add(%d ns)", d)
}
