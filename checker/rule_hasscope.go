package main

import (
	"go/token"
	"go/types"

	"golang.org/x/tools/go/ssa"
)

// R-ADMIT HasScope: a user belongs to a scope only when one of the user's scope entries EQUALS the scope's name. The
// loader admits a user into a scope's user set on User.HasScope(name); a prefix, substring or case-folded comparison
// there puts users of scope "dc1" into scope "dc10". Every true result of the membership test (read with its helpers
// folded in) is under the taken edge of a string == between the parameter and a value that is not the parameter.
func ruleHasScope(p *Program, r *Result) {
	fn := p.LookupFunc("cmds/server/config", "User.HasScope")
	if fn == nil {
		r.undecided("R-ADMIT", "HasScope", "-", "UNRESOLVED config.User.HasScope")
		return
	}
	f := p.view(fn)
	var param ssa.Value
	for _, pr := range f.Params {
		if b, ok := pr.Type().Underlying().(*types.Basic); ok && b.Info()&types.IsString != 0 {
			param = pr
		}
	}
	isEq := func(v ssa.Value) bool {
		bo, ok := v.(*ssa.BinOp)
		if !ok || bo.Op != token.EQL || param == nil {
			return false
		}
		return (bo.X == param && bo.Y != param) || (bo.Y == param && bo.X != param)
	}
	good, nTrue := param != nil, 0
	why := ""
	for _, b := range f.Blocks {
		ret, ok := b.Instrs[len(b.Instrs)-1].(*ssa.Return)
		if !ok || len(ret.Results) != 1 {
			continue
		}
		for _, rv := range returnedValues(f, ret, 0) {
			if c, ok := rv.(*ssa.Const); ok {
				if c.Value == nil || c.Value.ExactString() != "true" {
					continue
				}
				nTrue++
				guarded := false
				for _, bb := range f.Blocks {
					if iff, ok := bb.Instrs[len(bb.Instrs)-1].(*ssa.If); ok && isEq(iff.Cond) {
						if s := bb.Succs[0]; (s == b || s.Dominates(b)) && len(s.Preds) == 1 {
							guarded = true
						}
					}
				}
				if !guarded {
					good, why = false, "true is returned at "+p.Pos(ret.Pos())+" without an equality test of the scope name on the way"
				}
				continue
			}
			nTrue++
			if !isEq(rv) {
				good, why = false, "the result at "+p.Pos(ret.Pos())+" is not an equality of the scope name with an entry"
			}
		}
	}
	r.cond(good && nTrue > 0, "R-ADMIT", "HasScope:whole-name-equality", p.Pos(fn.Pos()),
		"a user has a scope only when one of its entries equals the scope's name",
		"scope membership is not decided by equality of whole names ("+why+"): a user of one scope is admitted into another whose name merely resembles it")
}
