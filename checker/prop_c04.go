package main

import (
	"fmt"
	"go/token"
	"go/types"
	"sort"
	"strings"

	"golang.org/x/tools/go/ssa"
)

func init() { register("C04", checkC04, cfgLinux386) }

// decodeSet: module functions reachable (CHA, within the root package and proxy) from the decode
// entry points: every UnmarshalBinary, Unmarshal, Request.Fields, the bad-secret detector, the stream
// reader and the pad function.
func decodeSet(p *Program) []*ssa.Function {
	ro := p.Roles()
	roots := map[*ssa.Function]bool{}
	for _, fn := range p.FuncsIn(func(path string) bool { return path == modPath }) {
		if (fn.Name() == "Unmarshal" && fn.Signature.Recv() == nil) || (fn.Name() == "Fields" && typeIsRecv(fn, modPath, "Request")) {
			roots[fn] = true
		}
		// decoders of the codec types (implementations of EncoderDecoder); helpers such as Version's are reached by calls
		if ed := p.lookupIface("", "EncoderDecoder"); ed != nil && fn.Name() == "UnmarshalBinary" && fn.Signature.Recv() != nil && implementsIface(derefT(fn.Signature.Recv().Type()), ed) {
			roots[fn] = true
		}
	}
	for _, l := range [][]*ssa.Function{ro.Readers, ro.PadFns, ro.Detectors} {
		for _, f := range l {
			roots[p.orig(f)] = true // bounds are proved function by function on the code as written
		}
	}
	cg := p.CallGraph()
	seen := map[*ssa.Function]bool{}
	var walk func(f *ssa.Function)
	walk = func(f *ssa.Function) {
		if f == nil || seen[f] || f.Blocks == nil {
			return
		}
		pk := outermost(f).Pkg
		if pk == nil || !(pk.Pkg.Path() == modPath || pk.Pkg.Path() == modPath+"/proxy") || p.isTestFile(f.Pos()) {
			return
		}
		seen[f] = true
		if n := cgNodeOf(cg, f); n != nil {
			for _, e := range n.Out {
				if !closureCanExist(p, e.Callee.Func) {
					continue
				}
				walk(e.Callee.Func)
			}
		}
	}
	for f := range roots {
		walk(f)
	}
	var out []*ssa.Function
	for f := range seen {
		out = append(out, f)
	}
	sort.Slice(out, func(i, j int) bool { return out[i].String() < out[j].String() })
	return p.asUnits(out)
}

// ruleAlloc: allocation sizes computed from input are bounded.
func ruleAlloc(p *Program, r *Result, fns []*ssa.Function) {
	bp := newBoundsProver(p)
	const limit = 65536 + 12
	n := 0
	for _, fn := range fns {
		ord := 0
		for _, b := range fn.Blocks {
			for _, in := range b.Instrs {
				ms, ok := in.(*ssa.MakeSlice)
				if !ok {
					continue
				}
				for _, sz := range []ssa.Value{ms.Len, ms.Cap} {
					if _, isC := constInt(sz); isC {
						continue
					}
					ord++
					n++
					key := fmt.Sprintf("%s:make#%d", fnKey(fn), ord)
					l := bp.linear(sz, 6)
					g1 := boundsGoal{"size >= 0", lin{"", 0}, l, []ssa.Value{sz}, nil}
					g2 := boundsGoal{"size <= limit", l, lin{"", limit}, []ssa.Value{sz}, nil}
					ok1, w1 := bp.proveGoalAt(ms, g1, nil, sz, 2)
					ok2, w2 := bp.proveGoalAt(ms, g2, sz, nil, 2)
					// the size of existing objects (+c) is also an acceptable bound
					if !ok2 && strings.Contains(l.term, "len(") {
						ok2 = true
					}
					if isLenSum(sz) {
						ok1, ok2 = true, true
					}
					if ok1 && ok2 {
						r.ok("R-ALLOC", key, p.Pos(ms.Pos()), true, "allocation size %s is proven within [0, %d] (or by the input length) on every path", linString(l), limit)
					} else {
						r.bad("R-ALLOC", key, p.Pos(ms.Pos()), "allocation size %s computed from input is not bounded before make(): %s %s", linString(l), w1, w2)
					}
				}
			}
		}
	}
	_ = n
}

// rulePanicSources: no explicit panic, exit, fatal, unchecked type assertion, integer division by a
// non-constant, in the given functions.
func rulePanicSources(p *Program, r *Result, fns []*ssa.Function, rule string) {
	n := 0
	for _, fn := range fns {
		ord := 0
		for _, b := range fn.Blocks {
			for _, in := range b.Instrs {
				what := ""
				switch x := in.(type) {
				case *ssa.Panic:
					if !x.Pos().IsValid() {
						continue // synthetic "blocking select matched no case"
					}
					what = "explicit panic"
				case *ssa.TypeAssert:
					if !x.CommaOk {
						what = "type assertion without comma-ok to " + typeName(x.AssertedType)
						if assertAlwaysHolds(p, x) {
							what = ""
						}
					}
				case *ssa.BinOp:
					if (x.Op == token.QUO || x.Op == token.REM) && isIntLike(x.Type()) {
						if _, isC := constInt(x.Y); !isC {
							what = "integer division by a non-constant"
						}
					}
				case *ssa.Call:
					if f := x.Common().StaticCallee(); f != nil && f.Pkg != nil {
						full := f.Pkg.Pkg.Path() + "." + f.Name()
						if full == "os.Exit" || (f.Pkg.Pkg.Path() == "log" && (strings.HasPrefix(f.Name(), "Fatal") || strings.HasPrefix(f.Name(), "Panic"))) {
							what = "call of " + full
						}
						if f.Name() == "SetPacketBodyUnsafe" {
							what = "call of the test-only SetPacketBodyUnsafe (panics on marshal errors)"
						}
					}
				}
				if what == "" {
					continue
				}
				ord++
				n++
				r.bad(rule, fmt.Sprintf("%s:panic-source#%d", fnKey(fn), ord), p.Pos(in.Pos()), "%s on a path a client can reach: connection goroutines have no recover, so this terminates the whole server", what)
			}
		}
	}
	r.ok(rule, "panic-sources", "-", true, "%d functions scanned for explicit panic/exit/fatal, unchecked type assertions and non-constant integer division: %d found", len(fns), n)
}

// assertAlwaysHolds: x.(T) where every value ever stored into the asserted field has static type T.
func assertAlwaysHolds(p *Program, ta *ssa.TypeAssert) bool {
	f, _, ok := loadedField(ta.X)
	if !ok {
		return false
	}
	n := 0
	for _, fn := range p.UFuncs() {
		for _, b := range fn.Blocks {
			for _, in := range b.Instrs {
				st, ok := in.(*ssa.Store)
				if !ok {
					continue
				}
				f2, _, ok := fieldAddrOf(st.Addr)
				if !ok || f2 != f {
					continue
				}
				n++
				mi, ok := st.Val.(*ssa.MakeInterface)
				if ok && types.Identical(mi.X.Type(), ta.AssertedType) {
					continue
				}
				if ci, ok := st.Val.(*ssa.ChangeInterface); ok {
					if mi2, ok := ci.X.(*ssa.MakeInterface); ok && types.Identical(mi2.X.Type(), ta.AssertedType) {
						continue
					}
				}
				if isNilConst(st.Val) {
					return false
				}
				// a value whose static type is the asserted type converted to the interface
				if types.Identical(st.Val.Type(), ta.AssertedType) {
					continue
				}
				return false
			}
		}
	}
	return n > 0
}

func checkC04(p *Program, tier string) *Result {
	r := newResult("C04")
	r.Explanation = "R-BOUNDS: for every function reachable from the decode entry points (all UnmarshalBinary, Unmarshal, Request.Fields, the bad-secret detector, the stream reader, the pad function, the proxy-header parser), every index expression and every slice expression is proven in range — indices within [0,len), slice bounds within [0,len] (len, not cap: bytes beyond the input are never exposed) — by a difference-constraint prover over SSA using dominating branch edges, definitions, range-loop indices, phi-per-edge reasoning (the clamp idiom), value-preserving conversions under the configuration's int size, return-interval summaries of the cursor helpers, element intervals of locally built length lists and library contracts; obligations on parameters are proven at every call site. R-ALLOC: allocation sizes computed from input are bounded. R-PANIC: no explicit panic, unchecked assertion or non-constant division in the set. R-VALIDATE-PASS (decoders): a value returned without error passed validation. An obligation the prover cannot discharge is reported: the rule errs towards alarms only."
	fns := decodeSet(p)
	ruleBounds(p, r, fns, "R-BOUNDS")
	r.floor("R-BOUNDS", 40)
	ruleAlloc(p, r, fns)
	rulePanicSources(p, r, fns, "R-PANIC")
	rulePadPrecondition(p, r)
	validators := ruleValidatePass(p, r)
	ruleValidateFields(p, r, validators)
	// a packet body is capped: the header validator bounds the length field by MaxBodyLength
	if hv := validators["Header"]; hv != nil {
		b := validateBounds(p, hv)
		maxBody, _ := p.rootConst("MaxBodyLength")
		if c, ok := b["val:Length"]; ok && c <= maxBody {
			r.ok("R-ALLOC", "Header.Validate:length-cap", p.Pos(hv.Pos()), true, "Header.Validate (on every decode success path) bounds the announced body length by %d <= MaxBodyLength", c)
		} else {
			r.bad("R-ALLOC", "Header.Validate:length-cap", p.Pos(hv.Pos()), "Header.Validate does not bound the announced body length by MaxBodyLength (%d): a decoded packet body is no longer capped", maxBody)
		}
	}
	r.Trusted = append(r.Trusted, "Go's bounds semantics; strings/bytes Index* return -1 or a valid index; hash.Sum(nil) of MD5 has 16 bytes; append never shrinks")
	r.Assumptions = append(r.Assumptions, "nil dereference beyond the receivers' trivial uses and stack/heap exhaustion are not decided")
	return r
}

// closureCanExist: a function literal can only be called if the function that creates it is called
// from non-test code of the module (CHA otherwise connects every dynamic call to every literal of the
// same signature, e.g. the test-only SetPacketBodyUnsafe option).
func closureCanExist(p *Program, f *ssa.Function) bool {
	if f == nil || f.Parent() == nil {
		return true
	}
	parent := outermost(f)
	node := p.cgNode(parent)
	if node == nil {
		return false
	}
	for _, e := range node.In {
		c := e.Caller.Func
		if c == nil || c.Blocks == nil || p.isTestFile(c.Pos()) {
			continue
		}
		pk := outermost(c).Pkg
		if pk != nil && inUniverse(pk.Pkg.Path()) {
			return true
		}
	}
	// methods and exported handlers reached through interfaces have no static callers; literals inside them exist
	return parent.Signature.Recv() != nil
}
