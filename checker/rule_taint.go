package main

import (
	"fmt"
	"go/token"
	"go/types"
	"sort"
	"strings"

	"golang.org/x/tools/go/ssa"
)

// R-TAINT: secrets do not reach log sinks. Context-insensitive forward taint over the SSA of the
// server universe, with devirtualised decode trampolines, per-key treatment of Fields() records,
// and explicit sink rules (see DESIGN §3 R-TAINT, and "Changes since design").

// secret-bearing types (spec/secrets: RFC 8907 §5.4.2 — the password travels in START data or CONTINUE user_msg/data)
var secretFieldTypes = map[string]bool{"AuthenData": true, "AuthenUserMessage": true}
var secretBodyTypes = map[string]bool{"AuthenStart": true, "AuthenContinue": true}

type taintAnalysis struct {
	p       *Program
	fns     []*ssa.Function
	tainted map[ssa.Value]string // value -> why
	cells   map[*ssa.Alloc]string
	retT    map[*ssa.Function]map[int]string
	impls   map[string][]*ssa.Function // method name -> module implementations (for invoke dispatch)
	changed bool
}

func carriesData(t types.Type) bool {
	switch u := t.Underlying().(type) {
	case *types.Basic:
		// single octets and runes carry data too: a loop that copies a secret octet by octet ("printable
		// preview", hex dump, case folding) moves it as surely as copy() does
		return u.Info()&types.IsString != 0 || u.Kind() == types.UnsafePointer || u.Kind() == types.Uint8 || u.Kind() == types.Int32
	case *types.Slice, *types.Array, *types.Map, *types.Interface, *types.Struct, *types.Pointer:
		return true
	}
	return false
}

func isNamedIn(t types.Type, pkg string, names map[string]bool) bool {
	n, ok := t.(*types.Named)
	if !ok {
		if a, ok := t.(*types.Alias); ok {
			return isNamedIn(types.Unalias(a), pkg, names)
		}
		return false
	}
	return n.Obj().Pkg() != nil && n.Obj().Pkg().Path() == pkg && names[n.Obj().Name()]
}

// typeSeed: values of these types are secrets by type.
func typeSeed(t types.Type) string {
	if isNamedIn(t, modPath, secretFieldTypes) {
		return "value of type " + typeName(t) + " (may hold the password)"
	}
	cfg := modPath + "/cmds/server/config"
	if isNamedIn(t, cfg, map[string]bool{"Keychain": true, "SecretConfig": true}) {
		return "value of type " + typeName(t) + " (names or holds the shared secret)"
	}
	if pt, ok := t.(*types.Pointer); ok {
		if isNamedIn(pt.Elem(), cfg, map[string]bool{"Keychain": true, "SecretConfig": true}) {
			return "pointer to " + typeName(pt.Elem())
		}
	}
	return ""
}

func newTaint(p *Program) *taintAnalysis {
	ta := &taintAnalysis{p: p, tainted: map[ssa.Value]string{}, cells: map[*ssa.Alloc]string{}, retT: map[*ssa.Function]map[int]string{}, impls: map[string][]*ssa.Function{}}
	for _, f := range p.UFuncs() {
		// every function is analysed in the representation the rules see (its view when helpers are folded in);
		// summaries (retT) and dispatch tables are keyed by the function as written
		ta.fns = append(ta.fns, p.view(f))
		if f.Signature.Recv() != nil {
			ta.impls[f.Name()] = append(ta.impls[f.Name()], f)
		}
	}
	return ta
}

func (ta *taintAnalysis) mark(v ssa.Value, why string) {
	if v == nil {
		return
	}
	if _, ok := ta.tainted[v]; ok {
		return
	}
	if !carriesData(v.Type()) {
		return
	}
	ta.tainted[v] = why
	ta.changed = true
}

func (ta *taintAnalysis) is(v ssa.Value) (string, bool) {
	w, ok := ta.tainted[v]
	return w, ok
}

var declassifiers = map[string]bool{
	"golang.org/x/crypto/bcrypt.CompareHashAndPassword": true,
	"golang.org/x/crypto/bcrypt.GenerateFromPassword":   true,
	"crypto/md5.New": true,
}

// trampolineTarget: fn's body is a single invoke of a method on one of its interface parameters
// (tacquito.Unmarshal): returns the parameter index and method name.
func trampolineTarget(fn *ssa.Function) (int, string, bool) {
	if fn == nil || fn.Blocks == nil {
		return 0, "", false
	}
	var inv ssa.CallInstruction
	n := 0
	for _, c := range allCalls(fn) {
		if c.Common().IsInvoke() {
			inv = c
			n++
		} else if f := c.Common().StaticCallee(); f != nil && f.Pkg != nil && isModulePath(f.Pkg.Pkg.Path()) {
			return 0, "", false
		}
	}
	if n != 1 {
		return 0, "", false
	}
	for i, pr := range fn.Params {
		if inv.Common().Value == ssa.Value(pr) {
			return i, inv.Common().Method.Name(), true
		}
	}
	return 0, "", false
}

// concreteMethod resolves method name on the concrete type boxed in v.
func (ta *taintAnalysis) concreteMethod(v ssa.Value, name string) *ssa.Function {
	mi, ok := v.(*ssa.MakeInterface)
	if !ok {
		return nil
	}
	ms := ta.p.SSA.MethodSets.MethodSet(mi.X.Type())
	for i := 0; i < ms.Len(); i++ {
		if ms.At(i).Obj().Name() == name {
			if f := ta.p.SSA.MethodValue(ms.At(i)); f != nil {
				if f.Synthetic != "" {
					if obj, ok := ms.At(i).Obj().(*types.Func); ok {
						if g := ta.p.SSA.FuncValue(obj); g != nil {
							return g
						}
					}
				}
				return f
			}
		}
	}
	return nil
}

// implsFor: module methods that an invoke of `name` on interface type it can dispatch to.
func (ta *taintAnalysis) implsFor(it types.Type, name string) []*ssa.Function {
	iface, ok := it.Underlying().(*types.Interface)
	if !ok {
		return nil
	}
	var out []*ssa.Function
	for _, f := range ta.impls[name] {
		rt := f.Signature.Recv().Type()
		if types.Implements(rt, iface) || types.Implements(types.NewPointer(derefT(rt)), iface) {
			out = append(out, f)
		}
	}
	return out
}

func (ta *taintAnalysis) retTaint(f *ssa.Function, idx int) (string, bool) {
	m := ta.retT[ta.p.orig(f)]
	if m == nil {
		return "", false
	}
	w, ok := m[idx]
	return w, ok
}

func (ta *taintAnalysis) setRet(f *ssa.Function, idx int, why string) {
	if ta.retT[f] == nil {
		ta.retT[f] = map[int]string{}
	}
	if _, ok := ta.retT[f][idx]; !ok {
		ta.retT[f][idx] = why
		ta.changed = true
	}
}

func isLoggerMethod(name string) bool {
	switch name {
	case "Infof", "Errorf", "Debugf", "Fatalf", "Warnf", "Printf", "Println", "Print", "Fatal", "Fatalln", "Panicf", "Output":
		return true
	}
	return false
}

// run the global fixpoint
func (ta *taintAnalysis) run() {
	for round := 0; round < 40; round++ {
		ta.changed = false
		for _, fn := range ta.fns {
			ta.step(fn)
		}
		if !ta.changed {
			return
		}
	}
}

func (ta *taintAnalysis) step(fn *ssa.Function) {
	for _, pr := range fn.Params {
		if why := typeSeed(pr.Type()); why != "" {
			ta.mark(pr, why)
		}
	}
	for _, fv := range fn.FreeVars {
		if why := typeSeed(fv.Type()); why != "" {
			ta.mark(fv, why)
		}
	}
	for _, b := range fn.Blocks {
		for _, in := range b.Instrs {
			v, isVal := in.(ssa.Value)
			if isVal {
				if why := typeSeed(v.Type()); why != "" {
					ta.mark(v, why)
				}
			}
			switch x := in.(type) {
			case *ssa.UnOp:
				if x.Op == token.MUL {
					if a, ok := x.X.(*ssa.Alloc); ok {
						if w, ok := ta.cells[a]; ok {
							ta.mark(x, w)
						}
					}
					if w, ok := ta.is(x.X); ok && !isStructPtr(x.X.Type()) {
						ta.mark(x, w)
					}
					// secret field of the connection wrapper
					if f, base, ok := fieldAddrOf(x.X); ok && f.Name() == "secret" && typeIs(base.Type(), modPath, "crypter") {
						ta.mark(x, "the connection's shared secret (crypter.secret)")
					}
					// the body octets of a packet: once de-obfuscated they are the START data / CONTINUE user_msg in clear
					if f, base, ok := fieldAddrOf(x.X); ok && f.Name() == "Body" && isByteSlice(f.Type()) && typeIs(derefT(base.Type()), modPath, "Packet") {
						ta.mark(x, "the body octets of a packet (Packet.Body: the password-bearing fields in clear once de-obfuscated)")
					}
				}
			case *ssa.Field, *ssa.FieldAddr:
				// field projections are tainted by their own type only (typeSeed above)
			case *ssa.Convert:
				if w, ok := ta.is(x.X); ok {
					ta.mark(x, w)
				}
			case *ssa.ChangeType:
				if w, ok := ta.is(x.X); ok {
					ta.mark(x, w)
				}
			case *ssa.ChangeInterface:
				if w, ok := ta.is(x.X); ok {
					ta.mark(x, w)
				}
			case *ssa.MakeInterface:
				if w, ok := ta.is(x.X); ok {
					ta.mark(x, w)
				}
				t := x.X.Type()
				if pt, ok := t.(*types.Pointer); ok {
					t = pt.Elem()
				}
				if isNamedIn(t, modPath, secretBodyTypes) {
					ta.mark(x, "a whole "+typeName(t)+" (contains the password-bearing fields)")
				}
			case *ssa.Phi:
				for _, e := range x.Edges {
					if w, ok := ta.is(e); ok {
						ta.mark(x, w)
					}
				}
			case *ssa.BinOp:
				if x.Op == token.ADD {
					if w, ok := ta.is(x.X); ok {
						ta.mark(x, w)
					}
					if w, ok := ta.is(x.Y); ok {
						ta.mark(x, w)
					}
				}
			case *ssa.Slice:
				if w, ok := ta.is(x.X); ok {
					ta.mark(x, w)
				}
				if a, ok := x.X.(*ssa.Alloc); ok {
					if w, ok := ta.cells[a]; ok {
						ta.mark(x, w)
					}
				}
			case *ssa.Index:
				if w, ok := ta.is(x.X); ok {
					ta.mark(x, w)
				}
			case *ssa.IndexAddr:
				if w, ok := ta.is(x.X); ok {
					ta.mark(x, w)
				}
			case *ssa.Lookup:
				if w, ok := ta.is(x.X); ok {
					ta.mark(x, w)
				}
			case *ssa.Extract:
				if call, ok := x.Tuple.(*ssa.Call); ok {
					if w, ok := ta.callResult(call, x.Index); ok {
						ta.mark(x, w)
					}
				} else if w, ok := ta.is(x.Tuple); ok {
					ta.mark(x, w)
				}
			case *ssa.TypeAssert:
				if w, ok := ta.is(x.X); ok {
					ta.mark(x, w)
				}
			case *ssa.Store:
				if w, ok := ta.is(x.Val); ok {
					// into a local cell or an element of a local array/slice (varargs)
					addr := x.Addr
					for {
						if ia, ok := addr.(*ssa.IndexAddr); ok {
							addr = ia.X
							continue
						}
						break
					}
					if a, ok := addr.(*ssa.Alloc); ok {
						if _, had := ta.cells[a]; !had {
							ta.cells[a] = w
							ta.changed = true
						}
					}
					// an element of a slice made in this function (out := make([]byte, n); out[i] = c)
					if ms, ok := addr.(*ssa.MakeSlice); ok && addr != x.Addr {
						ta.mark(ms, w)
					}
				}
			case *ssa.MapUpdate:
				if w, ok := ta.is(x.Value); ok {
					ta.mark(x.Map, w)
				}
			case *ssa.Call:
				if w, ok := ta.callResult(x, 0); ok {
					if _, isTuple := x.Type().(*types.Tuple); !isTuple {
						ta.mark(x, w)
					}
				}
				ta.passArgs(fn, x)
			case *ssa.Defer:
				ta.passArgs(fn, x)
			case *ssa.Go:
				ta.passArgs(fn, x)
			case *ssa.Return:
				if b == fn.Recover {
					continue
				}
				for i := range x.Results {
					for _, rv := range returnedValues(fn, x, i) {
						if w, ok := ta.is(rv); ok {
							ta.setRet(ta.p.orig(fn), i, w)
						}
					}
				}
			}
		}
	}
}

func isStructPtr(t types.Type) bool {
	pt, ok := t.Underlying().(*types.Pointer)
	if !ok {
		return false
	}
	_, ok = pt.Elem().Underlying().(*types.Struct)
	return ok
}

// callResult: is result #idx of the call tainted?
func (ta *taintAnalysis) callResult(c *ssa.Call, idx int) (string, bool) {
	cc := c.Common()
	// result type must be able to carry data
	var rt types.Type = c.Type()
	if tup, ok := rt.(*types.Tuple); ok {
		if idx >= tup.Len() {
			return "", false
		}
		rt = tup.At(idx).Type()
	}
	if !carriesData(rt) {
		return "", false
	}
	if cc.IsInvoke() {
		// keychain: GetSecret(ctx, name, group) ([]byte, error)
		if cc.Method.Name() == "GetSecret" && idx == 0 {
			return "the result of the keychain lookup GetSecret", true
		}
		if isLoggerMethod(cc.Method.Name()) {
			return "", false
		}
		for _, f := range ta.dispatch(c.Parent(), cc.Value, cc.Method.Name()) {
			if w, ok := ta.retTaint(f, idx); ok {
				return w, true
			}
		}
		return "", false
	}
	f := cc.StaticCallee()
	if f == nil {
		if _, isB := cc.Value.(*ssa.Builtin); isB {
			b := cc.Value.(*ssa.Builtin)
			if b.Name() == "append" || b.Name() == "min" || b.Name() == "max" {
				for _, a := range cc.Args {
					if w, ok := ta.is(a); ok {
						return w, true
					}
				}
			}
			return "", false
		}
		// dynamic function value: the keychain secret function func(ctx, string) ([]byte, error)
		if sig, ok := cc.Value.Type().Underlying().(*types.Signature); ok && idx == 0 && sig.Results().Len() == 2 {
			if sl, ok := sig.Results().At(0).Type().Underlying().(*types.Slice); ok {
				if bt, ok := sl.Elem().Underlying().(*types.Basic); ok && bt.Kind() == types.Uint8 && isErrorType(sig.Results().At(1).Type()) && sig.Params().Len() == 2 {
					return "the result of the pre-shared-key function", true
				}
			}
		}
		return "", false
	}
	if declassifiers[f.String()] {
		return "", false
	}
	if f.Blocks == nil || f.Pkg == nil || !isModulePath(f.Pkg.Pkg.Path()) {
		// library call: result derives from any tainted argument
		for _, a := range cc.Args {
			if w, ok := ta.is(a); ok {
				return w + " through " + f.Name(), true
			}
		}
		return "", false
	}
	// module call: trampoline devirtualisation
	if pi, m, ok := trampolineTarget(f); ok && pi < len(cc.Args) {
		if tgt := ta.concreteMethod(cc.Args[pi], m); tgt != nil {
			return ta.retTaint(tgt, idx)
		}
	}
	return ta.retTaint(f, idx)
}

// passArgs: taint of arguments flows into the parameters of module callees.
func (ta *taintAnalysis) passArgs(fn *ssa.Function, c ssa.CallInstruction) {
	cc := c.Common()
	var targets []*ssa.Function
	off := 0
	if cc.IsInvoke() {
		if isLoggerMethod(cc.Method.Name()) || cc.Method.Name() == "Record" || cc.Method.Name() == "Set" {
			return
		}
		targets = append(targets, ta.dispatch(fn, cc.Value, cc.Method.Name())...)
		off = 1
	} else if f := cc.StaticCallee(); f != nil && f.Blocks != nil {
		if pi, m, ok := trampolineTarget(f); ok && pi < len(cc.Args) {
			if tgt := ta.concreteMethod(cc.Args[pi], m); tgt != nil {
				tgt = ta.p.view(tgt)
				// map the non-interface args onto the concrete method's params after the receiver
				k := 1
				for i, a := range cc.Args {
					if i == pi {
						continue
					}
					if w, ok := ta.is(a); ok && k < len(tgt.Params) {
						ta.mark(tgt.Params[k], w)
					}
					k++
				}
				return
			}
		}
		targets = append(targets, f)
	}
	for _, f := range targets {
		if f.Pkg != nil && strings.HasSuffix(f.Pkg.Pkg.Path(), "/cmds/server/log") {
			continue // the reference logger is the sink, not a carrier
		}
		f = ta.p.view(f)
		for i, a := range cc.Args {
			if w, ok := ta.is(a); ok && i+off < len(f.Params) {
				ta.mark(f.Params[i+off], w)
			}
		}
		if mc, ok := cc.Value.(*ssa.MakeClosure); ok {
			for i, bnd := range mc.Bindings {
				if w, ok := ta.is(bnd); ok && i < len(f.FreeVars) {
					ta.mark(f.FreeVars[i], w)
				}
			}
		}
	}
}

// taintedKeysOf: keys of the record built by T.Fields() whose value is tainted.
func (ta *taintAnalysis) taintedKeysOf(f *ssa.Function) []string {
	var keys []string
	f = ta.p.view(f)
	for _, b := range f.Blocks {
		for _, in := range b.Instrs {
			if mu, ok := in.(*ssa.MapUpdate); ok {
				if _, t := ta.is(mu.Value); t {
					if k, ok := constString(mu.Key); ok {
						keys = append(keys, k)
					}
				}
			}
		}
	}
	sort.Strings(keys)
	return keys
}

// recordSource describes where a record map passed to a sink comes from.
type recordSource struct {
	known bool     // recognised Fields() provenance
	keys  []string // tainted keys
	desc  string
}

func (ta *taintAnalysis) recordSourceOf(fn *ssa.Function, m ssa.Value, depth int) recordSource {
	if depth == 0 {
		return recordSource{}
	}
	switch x := m.(type) {
	case *ssa.Call:
		f := x.Common().StaticCallee()
		if f == nil {
			if x.Common().IsInvoke() && x.Common().Method.Name() == "Fields" {
				// EncoderDecoder.Fields(): union over the password-bearing body types
				var keys []string
				for _, g := range ta.impls["Fields"] {
					keys = append(keys, ta.taintedKeysOf(g)...)
				}
				return recordSource{true, dedupSorted(keys), "Fields() of some packet body"}
			}
			return recordSource{}
		}
		if f.Name() == "Fields" && f.Signature.Recv() != nil {
			if typeIsRecv(f, modPath, "Request") {
				// Request.Fields: a source only if the request is the handler's own request (raw client bytes)
				recv := x.Common().Args[0]
				if !ta.isHandlerRequest(fn, recv) {
					return recordSource{true, nil, "Fields() of a Request built locally (not client input)"}
				}
				var keys []string
				for _, c := range allCalls(ta.p.view(f)) {
					if g := c.Common().StaticCallee(); g != nil && g.Name() == "Fields" && g != f {
						keys = append(keys, ta.taintedKeysOf(g)...)
					}
				}
				return recordSource{true, dedupSorted(keys), "Request.Fields() of the client's request"}
			}
			return recordSource{true, ta.taintedKeysOf(f), fnKey(f)}
		}
		// helper returning a record: follow its returns
		if f.Blocks != nil {
			f = ta.p.view(f)
			var keys []string
			known := false
			for _, b := range f.Blocks {
				ret, ok := b.Instrs[len(b.Instrs)-1].(*ssa.Return)
				if !ok || b == f.Recover || len(ret.Results) == 0 {
					continue
				}
				for _, rv := range returnedValues(f, ret, 0) {
					if isNilConst(rv) {
						continue
					}
					rs := ta.recordSourceOf(f, rv, depth-1)
					if !rs.known {
						return recordSource{}
					}
					known = true
					keys = append(keys, rs.keys...)
				}
			}
			return recordSource{known, dedupSorted(keys), "record returned by " + fnKey(f)}
		}
	case *ssa.Phi:
		var keys []string
		for _, e := range x.Edges {
			rs := ta.recordSourceOf(fn, e, depth-1)
			if !rs.known {
				return recordSource{}
			}
			keys = append(keys, rs.keys...)
		}
		return recordSource{true, dedupSorted(keys), "merge"}
	case *ssa.Parameter:
		// a record parameter: judged at the callers (not followed); treat as unknown
		return recordSource{}
	}
	return recordSource{}
}

func dedupSorted(xs []string) []string {
	sort.Strings(xs)
	var out []string
	for i, x := range xs {
		if i == 0 || x != xs[i-1] {
			out = append(out, x)
		}
	}
	return out
}

// isHandlerRequest: v is (a copy of, or pointer to) the Request parameter of a handler-shaped function.
func (ta *taintAnalysis) isHandlerRequest(fn *ssa.Function, v ssa.Value) bool {
	v = stripConv(v)
	if u, ok := v.(*ssa.UnOp); ok && u.Op == token.MUL {
		v = u.X
	}
	switch x := v.(type) {
	case *ssa.Parameter:
		return typeIs(x.Type(), modPath, "Request")
	case *ssa.Alloc:
		sts := allocStores(x)
		for _, st := range sts {
			if pr, ok := st.Val.(*ssa.Parameter); ok && typeIs(pr.Type(), modPath, "Request") {
				return true
			}
			if u, ok := st.Val.(*ssa.UnOp); ok && u.Op == token.MUL {
				if ta.isHandlerRequest(fn, u.X) {
					return true
				}
			}
		}
		return false
	case *ssa.FreeVar:
		return true
	}
	return false
}

// sink scan -----------------------------------------------------------------

func constStringsOf(vals []ssa.Value) ([]string, bool) {
	var out []string
	for _, v := range vals {
		s, ok := constString(stripAllConv(v))
		if !ok {
			return out, false
		}
		out = append(out, s)
	}
	return out, true
}

// callArgsFlat: arguments with a trailing varargs slice expanded.
func callArgsFlat(c ssa.CallInstruction) []ssa.Value {
	args := c.Common().Args
	if len(args) == 0 {
		return nil
	}
	sig := c.Common().Signature()
	if sig != nil && sig.Variadic() {
		last := args[len(args)-1]
		if elems, ok := varargElems(last); ok {
			return append(append([]ssa.Value{}, args[:len(args)-1]...), elems...)
		}
	}
	return args
}

func ruleTaint(p *Program, r *Result) {
	ta := newTaint(p)
	ta.run()
	nSinks := 0
	// user-name state: functions registered with Next only together with a GETUSER reply
	getUser, _ := p.rootConst("AuthenStatusGetUser")
	userNameState := map[*ssa.Function]bool{}
	registered := map[*ssa.Function]bool{}
	ra, _ := newReplyAnalysis(p)
	sites := allReplySites(p)
	for _, fn := range ta.fns {
		for _, c := range allCalls(fn) {
			cc := c.Common()
			if !cc.IsInvoke() || cc.Method.Name() != "Next" || !typeIs(cc.Value.Type(), modPath, "Response") {
				continue
			}
			var tgt *ssa.Function
			if ra != nil {
				tgt = ra.funcOfValue(stripConv(cc.Args[0]))
			}
			if tgt == nil {
				continue
			}
			ok := false
			for _, rs := range sites {
				if rs.Fn == fn && rs.Call.Block() == c.Block() && rs.Resolved && len(rs.Status) == 1 && rs.Status[0] == getUser {
					ok = true
				}
			}
			tgt = p.orig(tgt)
			if !registered[tgt] {
				registered[tgt] = true
				userNameState[tgt] = ok
			} else if !ok {
				userNameState[tgt] = false
			}
		}
	}
	// helpers folded into their callers are judged there (their sinks appear in every caller's view with that
	// caller's values); one that some view still calls (inlining bound) is judged on its own as well
	residual := map[*ssa.Function]bool{}
	if p.useViews {
		for _, fn := range ta.fns {
			for _, c := range allCalls(fn) {
				if f := c.Common().StaticCallee(); f != nil {
					residual[p.orig(f)] = true
				}
			}
		}
	}
	for _, fn := range ta.fns {
		if fn.Pkg != nil && strings.HasSuffix(fn.Pkg.Pkg.Path(), "/cmds/server/log") {
			continue
		}
		if p.useViews && p.folded(p.orig(fn)) && !residual[p.orig(fn)] {
			continue
		}
		ord := map[string]int{}
		for _, c := range allCalls(fn) {
			cc := c.Common()
			name := ""
			var recvT types.Type
			if cc.IsInvoke() {
				name, recvT = cc.Method.Name(), cc.Value.Type()
			} else if f := cc.StaticCallee(); f != nil {
				name = f.Name()
				if f.Signature.Recv() != nil {
					recvT = f.Signature.Recv().Type()
				} else if f.Pkg != nil && (f.Pkg.Pkg.Path() == "log" || f.Pkg.Pkg.Path() == "fmt") {
					if !strings.HasPrefix(name, "Print") && !strings.HasPrefix(name, "Fatal") && !strings.HasPrefix(name, "Panic") {
						continue
					}
				} else if !strings.HasSuffix(name, "ReplyServerMsg") && !strings.HasSuffix(name, "ReplyData") && name != "SetAuthorReplyArgs" {
					continue
				}
			} else {
				continue
			}
			_ = recvT
			args := callArgsFlat(c)
			mk := func(kind string) string {
				ord[kind]++
				return fmt.Sprintf("%s:%s#%d", fnKey(fn), kind, ord[kind])
			}
			switch {
			case isLoggerMethod(name) && (cc.IsInvoke() || recvT != nil || true) && !isReplySetter(name):
				if !cc.IsInvoke() && cc.StaticCallee() != nil && cc.StaticCallee().Signature.Recv() == nil {
					pk := cc.StaticCallee().Pkg
					if pk == nil || (pk.Pkg.Path() != "log" && pk.Pkg.Path() != "fmt") {
						continue
					}
				}
				nSinks++
				k := mk("log")
				var bad []string
				for _, a := range args {
					if w, ok := ta.is(a); ok {
						bad = append(bad, w)
					}
				}
				if len(bad) == 0 {
					r.ok("R-TAINT", k, p.Pos(c.Pos()), true, "no argument of %s derives from a password-bearing field, the raw body, the shared secret or keychain material (%d arguments traced)", shortCall(c), len(args))
				} else {
					r.bad("R-TAINT", k, p.Pos(c.Pos()), "a secret reaches the log: an argument of %s derives from %s", shortCall(c), strings.Join(dedupSorted(bad), "; "))
				}
			case name == "Record" && len(cc.Args) >= 2:
				nSinks++
				k := mk("record")
				mi := 1
				if !cc.IsInvoke() {
					mi = 2
				}
				if mi >= len(cc.Args) {
					continue
				}
				m := cc.Args[mi]
				obsVals := args[mi+1:]
				obs, constOK := constStringsOf(obsVals)
				rs := ta.recordSourceOf(fn, m, 4)
				if !rs.known {
					if _, t := ta.is(m); t {
						r.bad("R-TAINT", k, p.Pos(c.Pos()), "a record that may contain secrets is logged, and its origin is not a recognised Fields() call, so the keys to obscure cannot be determined")
					} else {
						r.ok("R-TAINT", k, p.Pos(c.Pos()), true, "the record logged holds no secret-derived value")
					}
					continue
				}
				var missing []string
				for _, key := range rs.keys {
					found := false
					for _, o := range obs {
						if o == key {
							found = true
						}
					}
					if !found {
						missing = append(missing, key)
					}
				}
				if len(missing) == 0 && constOK {
					r.ok("R-TAINT", k, p.Pos(c.Pos()), true, "record from %s: password-bearing keys %v are all listed as obscured in this same call (obscured: %v)", rs.desc, rs.keys, obs)
				} else {
					r.bad("R-TAINT", k, p.Pos(c.Pos()), "the record from %s can hold the password under key(s) %v, which this Record call does not mark as obscured (obscured: %v): the cleartext password reaches the log", rs.desc, missing, obs)
				}
			case name == "RecordCtx" || name == "Set":
				nSinks++
				k := mk("retain")
				// keys: trailing ContextKey constants
				var keyVals []ssa.Value
				var src recordSource
				if name == "RecordCtx" {
					ri := 0
					if !cc.IsInvoke() {
						ri = 1
					}
					keyVals = args[ri+1:]
					src = recordSource{true, nil, "the client's request"}
					if ta.isHandlerRequest(fn, cc.Args[ri]) {
						var keys []string
						for _, g := range ta.impls["Fields"] {
							if g.Signature.Recv() != nil && isNamedIn(derefT(g.Signature.Recv().Type()), modPath, secretBodyTypes) {
								keys = append(keys, ta.taintedKeysOf(g)...)
							}
						}
						src.keys = dedupSorted(keys)
					}
				} else {
					mi := 1
					if !cc.IsInvoke() {
						mi = 2
					}
					if mi >= len(cc.Args) {
						continue
					}
					keyVals = args[mi+1:]
					src = ta.recordSourceOf(fn, cc.Args[mi], 4)
					if !src.known {
						if _, t := ta.is(cc.Args[mi]); !t {
							src = recordSource{true, nil, "untainted record"}
						}
					}
				}
				keys, constOK := constStringsOf(keyVals)
				if name == "Set" && forwardsOwnKeys(fn, c) {
					r.ok("R-TAINT", k, p.Pos(c.Pos()), true, "forwarding helper: the key list is this function's own variadic parameter; every call site of %s is checked as a retention sink", fn.Name())
					continue
				}
				if !src.known || !constOK {
					r.undecided("R-TAINT", k, p.Pos(c.Pos()), "context-retention call whose record origin or key list cannot be resolved to constants")
					continue
				}
				var bad []string
				for _, key := range keys {
					for _, tk := range src.keys {
						if key == tk {
							if key == "user-msg" && userNameState[p.orig(fn)] {
								continue
							}
							bad = append(bad, key)
						}
					}
				}
				if len(bad) == 0 {
					r.ok("R-TAINT", k, p.Pos(c.Pos()), true, "keys selected for retention %v exclude the password-bearing keys %v of %s (user-msg is accepted only in a state entered with a GETUSER reply)", keys, src.keys, src.desc)
				} else {
					r.bad("R-TAINT", k, p.Pos(c.Pos()), "the password-bearing field(s) %v of %s are selected for retention in the logging context", bad, src.desc)
				}
			case isReplySetter(name):
				nSinks++
				k := mk("reply-field")
				var bad []string
				for _, a := range args {
					if w, ok := ta.is(a); ok {
						bad = append(bad, w)
					}
				}
				if len(bad) == 0 {
					r.ok("R-TAINT", k, p.Pos(c.Pos()), false, "reply field set from values that do not derive from a secret")
				} else {
					r.bad("R-TAINT", k, p.Pos(c.Pos()), "a reply field (logged by the response logger) is built from %s", strings.Join(dedupSorted(bad), "; "))
				}
			}
		}
	}
	r.Analysed["taint_values"] = len(ta.tainted)
	r.Analysed["taint_sinks"] = nSinks
	r.floor("R-TAINT", 80)
}

func derefT(t types.Type) types.Type {
	if pt, ok := t.(*types.Pointer); ok {
		return pt.Elem()
	}
	return t
}

func isReplySetter(name string) bool {
	return strings.HasSuffix(name, "ReplyServerMsg") || strings.HasSuffix(name, "ReplyData") || name == "SetAuthorReplyArgs"
}

// forwardsOwnKeys: the variadic key argument of the Set call is the enclosing function's own variadic parameter,
// and the enclosing function is itself treated as a sink at its call sites (RecordCtx).
func forwardsOwnKeys(fn *ssa.Function, c ssa.CallInstruction) bool {
	if fn.Name() != "RecordCtx" || !fn.Signature.Variadic() || len(fn.Params) == 0 {
		return false
	}
	args := c.Common().Args
	return len(args) > 0 && args[len(args)-1] == ssa.Value(fn.Params[len(fn.Params)-1])
}

// dispatch resolves an interface method call to module methods, using the set of concrete types the
// receiver value can hold when that set can be determined (a small type-flow analysis: boxed values,
// elements of local slice literals, parameters joined over their call sites); otherwise every
// implementation of the interface.
func (ta *taintAnalysis) dispatch(fn *ssa.Function, recv ssa.Value, name string) []*ssa.Function {
	ts, ok := ta.typeSet(recv, 5, map[ssa.Value]bool{})
	if !ok {
		return ta.implsFor(recv.Type(), name)
	}
	var out []*ssa.Function
	seen := map[*ssa.Function]bool{}
	for _, t := range ts {
		ms := ta.p.SSA.MethodSets.MethodSet(t)
		for i := 0; i < ms.Len(); i++ {
			if ms.At(i).Obj().Name() != name {
				continue
			}
			obj, _ := ms.At(i).Obj().(*types.Func)
			if obj == nil {
				continue
			}
			f := ta.p.SSA.FuncValue(obj)
			if f != nil && f.Blocks != nil && !seen[f] {
				seen[f] = true
				out = append(out, f)
			}
		}
	}
	return out
}

// typeSet: the concrete types an interface-typed value may hold; ok=false when unknown.
func (ta *taintAnalysis) typeSet(v ssa.Value, depth int, visiting map[ssa.Value]bool) ([]types.Type, bool) {
	if depth == 0 || visiting[v] {
		return nil, !visiting[v] && false
	}
	visiting[v] = true
	defer delete(visiting, v)
	switch x := v.(type) {
	case *ssa.MakeInterface:
		return []types.Type{x.X.Type()}, true
	case *ssa.ChangeInterface:
		return ta.typeSet(x.X, depth, visiting)
	case *ssa.Phi:
		var out []types.Type
		for _, e := range x.Edges {
			if isNilConst(e) {
				continue
			}
			ts, ok := ta.typeSet(e, depth-1, visiting)
			if !ok {
				return nil, false
			}
			out = append(out, ts...)
		}
		return out, true
	case *ssa.UnOp:
		if x.Op != token.MUL {
			return nil, false
		}
		// element of a local slice/array literal
		if ia, ok := x.X.(*ssa.IndexAddr); ok {
			base := ia.X
			if sl, ok := base.(*ssa.Slice); ok {
				base = sl.X
			}
			if a, ok := base.(*ssa.Alloc); ok {
				if out, ok := ta.elemTypeSet(a, depth, visiting); ok {
					return out, true
				}
			}
		}
		// local cell
		if a, ok := x.X.(*ssa.Alloc); ok {
			var out []types.Type
			sts := allocStores(a)
			if len(sts) == 0 {
				return nil, false
			}
			for _, st := range sts {
				ts, ok := ta.typeSet(st.Val, depth-1, visiting)
				if !ok {
					return nil, false
				}
				out = append(out, ts...)
			}
			return out, true
		}
		return nil, false
	case *ssa.Parameter:
		fn := x.Parent()
		idx := -1
		for i, pr := range fn.Params {
			if pr == x {
				idx = i
			}
		}
		node := ta.p.cgNode(fn)
		if node == nil || idx < 0 {
			return nil, false
		}
		var out []types.Type
		n := 0
		for _, e := range node.In {
			if e.Site == nil || e.Caller.Func == nil || e.Caller.Func.Blocks == nil {
				continue
			}
			pk := outermost(e.Caller.Func).Pkg
			if pk == nil || !inUniverse(pk.Pkg.Path()) || ta.p.isTestFile(e.Caller.Func.Pos()) {
				continue
			}
			args := e.Site.Common().Args
			ai := idx
			if e.Site.Common().IsInvoke() {
				ai = idx - 1
			}
			if ai < 0 || ai >= len(args) {
				return nil, false
			}
			n++
			ts, ok := ta.typeSet(args[ai], depth-1, visiting)
			if !ok {
				return nil, false
			}
			out = append(out, ts...)
		}
		if n == 0 {
			return nil, false
		}
		return out, true
	}
	return nil, false
}

// elemTypeSet: the concrete types held by the elements of a local array (or the array behind a local slice): joined
// over the stores into its elements and, for an array copied whole from another local array (the result of a folded
// helper returning an array), over that one's elements.
func (ta *taintAnalysis) elemTypeSet(a *ssa.Alloc, depth int, visiting map[ssa.Value]bool) ([]types.Type, bool) {
	if depth == 0 {
		return nil, false
	}
	var out []types.Type
	n := 0
	for _, rf := range refsOf(a) {
		switch r := rf.(type) {
		case *ssa.IndexAddr:
			for _, r2 := range refsOf(r) {
				if st, ok := r2.(*ssa.Store); ok && st.Addr == ssa.Value(r) {
					n++
					ts, ok := ta.typeSet(st.Val, depth-1, visiting)
					if !ok {
						return nil, false
					}
					out = append(out, ts...)
				}
			}
		case *ssa.Store:
			if r.Addr != ssa.Value(a) {
				continue
			}
			u, ok := r.Val.(*ssa.UnOp)
			if !ok || u.Op != token.MUL {
				return nil, false
			}
			b, ok := u.X.(*ssa.Alloc)
			if !ok || b == a {
				return nil, false
			}
			ts, ok := ta.elemTypeSet(b, depth-1, visiting)
			if !ok {
				return nil, false
			}
			n++
			out = append(out, ts...)
		}
	}
	return out, n > 0
}
