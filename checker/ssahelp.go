package main

import (
	"fmt"
	"go/constant"
	"go/token"
	"go/types"
	"os"
	"strings"

	"golang.org/x/tools/go/ssa"
)

// ---------------------------------------------------------------------------
// instruction order, dominance

func instrIndex(i ssa.Instruction) int {
	for k, x := range i.Block().Instrs {
		if x == i {
			return k
		}
	}
	return -1
}

// domInstr: a executes before b on every path reaching b (same function).
func domInstr(a, b ssa.Instruction) bool {
	if a.Block() == b.Block() {
		return instrIndex(a) < instrIndex(b)
	}
	return a.Block().Dominates(b.Block())
}

// blockReach computes blocks reachable from start without entering blocked.
func blockReach(start *ssa.BasicBlock, blocked map[*ssa.BasicBlock]bool) map[*ssa.BasicBlock]bool {
	seen := map[*ssa.BasicBlock]bool{}
	var walk func(b *ssa.BasicBlock)
	walk = func(b *ssa.BasicBlock) {
		if seen[b] || blocked[b] {
			return
		}
		seen[b] = true
		for _, s := range b.Succs {
			walk(s)
		}
	}
	walk(start)
	return seen
}

// exits lists blocks ending in Return (panics excluded).
func exitBlocks(fn *ssa.Function) []*ssa.BasicBlock {
	var out []*ssa.BasicBlock
	for _, b := range fn.Blocks {
		if b == fn.Recover {
			continue // reached only after a recovered panic
		}
		if len(b.Instrs) > 0 {
			if _, ok := b.Instrs[len(b.Instrs)-1].(*ssa.Return); ok {
				out = append(out, b)
			}
		}
	}
	return out
}

// mustPassAfter: every path from just after instruction `from` to a Return
// passes an instruction satisfying pred. Returns a witness exit block if not.
func mustPassAfter(from ssa.Instruction, pred func(ssa.Instruction) bool) (bool, *ssa.BasicBlock) {
	b := from.Block()
	idx := instrIndex(from)
	for _, in := range b.Instrs[idx+1:] {
		if pred(in) {
			return true, nil
		}
	}
	if _, ok := b.Instrs[len(b.Instrs)-1].(*ssa.Return); ok {
		return false, b
	}
	blocked := map[*ssa.BasicBlock]bool{}
	for _, blk := range b.Parent().Blocks {
		for _, in := range blk.Instrs {
			if pred(in) {
				blocked[blk] = true // conservative: entering the block counts only if pred is before any return in it, which holds since Return is last
				break
			}
		}
	}
	seen := map[*ssa.BasicBlock]bool{}
	var bad *ssa.BasicBlock
	var walk func(x *ssa.BasicBlock)
	walk = func(x *ssa.BasicBlock) {
		if seen[x] || blocked[x] || bad != nil {
			return
		}
		seen[x] = true
		if len(x.Instrs) > 0 {
			if _, ok := x.Instrs[len(x.Instrs)-1].(*ssa.Return); ok {
				bad = x
				return
			}
		}
		for _, s := range x.Succs {
			walk(s)
		}
	}
	for _, s := range b.Succs {
		walk(s)
	}
	return bad == nil, bad
}

// ---------------------------------------------------------------------------
// calls

func allCalls(fn *ssa.Function) []ssa.CallInstruction {
	var out []ssa.CallInstruction
	for _, b := range fn.Blocks {
		for _, in := range b.Instrs {
			if c, ok := in.(ssa.CallInstruction); ok {
				out = append(out, c)
			}
		}
	}
	return out
}

// calleeFunc resolves the static callee (function, method, or closure made in place).
func calleeFunc(c ssa.CallInstruction) *ssa.Function {
	return c.Common().StaticCallee()
}

// invokeOf returns (interface named type or nil, method name) for an interface call.
func invokeMethod(c ssa.CallInstruction) (recv types.Type, name string, ok bool) {
	cc := c.Common()
	if !cc.IsInvoke() {
		return nil, "", false
	}
	return cc.Value.Type(), cc.Method.Name(), true
}

// calleeString describes the callee for reports and matching:
// static: "pkgpath.Func" or "(pkgpath.T).M" / "(*pkgpath.T).M"; invoke: "invoke pkgpath.I.M".
func calleeString(c ssa.CallInstruction) string {
	cc := c.Common()
	if cc.IsInvoke() {
		return "invoke " + types.TypeString(cc.Value.Type(), nil) + "." + cc.Method.Name()
	}
	if f := cc.StaticCallee(); f != nil {
		return f.String()
	}
	if b, ok := cc.Value.(*ssa.Builtin); ok {
		return "builtin " + b.Name()
	}
	return "dynamic " + cc.Value.Name()
}

// isStaticCall reports whether c statically calls the function named full (ssa String form).
func isStaticCall(c ssa.CallInstruction, full string) bool {
	f := c.Common().StaticCallee()
	return f != nil && f.String() == full
}

// methodCallNamed: call (static or invoke) of a method with the given name; returns receiver value.
func methodCallNamed(c ssa.CallInstruction, name string) (ssa.Value, bool) {
	cc := c.Common()
	if cc.IsInvoke() {
		if cc.Method.Name() == name {
			return cc.Value, true
		}
		return nil, false
	}
	if f := cc.StaticCallee(); f != nil && f.Signature.Recv() != nil && f.Name() == name && len(cc.Args) > 0 {
		return cc.Args[0], true
	}
	return nil, false
}

// ---------------------------------------------------------------------------
// values

func constValue(v ssa.Value) (constant.Value, bool) {
	if c, ok := v.(*ssa.Const); ok && c.Value != nil {
		return c.Value, true
	}
	return nil, false
}

func constInt(v ssa.Value) (int64, bool) {
	v = stripConv(v)
	if c, ok := v.(*ssa.Const); ok && c.Value != nil && c.Value.Kind() == constant.Int {
		return c.Int64(), true
	}
	return 0, false
}

func isNilConst(v ssa.Value) bool {
	c, ok := v.(*ssa.Const)
	return ok && c.IsNil()
}

// stripConv removes value-preserving wrappers (ChangeType, MakeInterface, ChangeInterface)
// and integer conversions of constants.
func stripConv(v ssa.Value) ssa.Value {
	for {
		switch x := v.(type) {
		case *ssa.ChangeType:
			v = x.X
		case *ssa.MakeInterface:
			v = x.X
		case *ssa.ChangeInterface:
			v = x.X
		default:
			return v
		}
	}
}

// stripAllConv additionally removes Convert.
func stripAllConv(v ssa.Value) ssa.Value {
	for {
		switch x := v.(type) {
		case *ssa.ChangeType:
			v = x.X
		case *ssa.MakeInterface:
			v = x.X
		case *ssa.ChangeInterface:
			v = x.X
		case *ssa.Convert:
			v = x.X
		default:
			return v
		}
	}
}

// namedOf returns the named type behind pointers.
func namedOf(t types.Type) *types.Named {
	for {
		switch x := t.(type) {
		case *types.Pointer:
			t = x.Elem()
		case *types.Named:
			return x
		case *types.Alias:
			t = types.Unalias(x)
		default:
			return nil
		}
	}
}

func typeIs(t types.Type, pkgPath, name string) bool {
	n := namedOf(t)
	if n == nil || n.Obj() == nil || n.Obj().Pkg() == nil {
		return false
	}
	return n.Obj().Pkg().Path() == pkgPath && n.Obj().Name() == name
}

func typeName(t types.Type) string {
	return types.TypeString(t, func(p *types.Package) string {
		if p.Path() == modPath {
			return "tacquito"
		}
		return strings.TrimPrefix(p.Path(), modPath+"/")
	})
}

// fieldOf: if v is a load of (or address of) x.F, return the field var and base.
func fieldAddrOf(v ssa.Value) (*types.Var, ssa.Value, bool) {
	switch x := v.(type) {
	case *ssa.FieldAddr:
		st := derefStruct(x.X.Type())
		if st == nil {
			return nil, nil, false
		}
		return st.Field(x.Field), x.X, true
	case *ssa.Field:
		st, _ := x.X.Type().Underlying().(*types.Struct)
		if st == nil {
			return nil, nil, false
		}
		return st.Field(x.Field), x.X, true
	}
	return nil, nil, false
}

// loadedField: v is `*(&x.F)` or `x.F`: returns field and base value.
func loadedField(v ssa.Value) (*types.Var, ssa.Value, bool) {
	if u, ok := v.(*ssa.UnOp); ok && u.Op == token.MUL {
		return fieldAddrOf(u.X)
	}
	if f, ok := v.(*ssa.Field); ok {
		return fieldAddrOf(f)
	}
	return nil, nil, false
}

func derefStruct(t types.Type) *types.Struct {
	if p, ok := t.Underlying().(*types.Pointer); ok {
		t = p.Elem()
	}
	st, _ := t.Underlying().(*types.Struct)
	return st
}

// fnName renders a function as pkgrel.Name for keys: "tacquito.(*Packet).UnmarshalBinary".
func fnKey(f *ssa.Function) string {
	if f == nil {
		return "<nil>"
	}
	s := f.String()
	s = strings.ReplaceAll(s, modPath+"/", "")
	s = strings.ReplaceAll(s, modPath, "tacquito")
	return s
}

// isErrNilCheck: v is `err != nil` or `err == nil` over an error-typed value;
// returns the error value and whether the true branch is the error branch.
func errNilCheck(v ssa.Value) (errv ssa.Value, trueIsErr bool, ok bool) {
	b, isb := v.(*ssa.BinOp)
	if !isb || (b.Op != token.NEQ && b.Op != token.EQL) {
		return nil, false, false
	}
	var x ssa.Value
	if isNilConst(b.Y) {
		x = b.X
	} else if isNilConst(b.X) {
		x = b.Y
	} else {
		return nil, false, false
	}
	if !isErrorType(x.Type()) {
		return nil, false, false
	}
	return x, b.Op == token.NEQ, true
}

func isErrorType(t types.Type) bool {
	n, ok := t.(*types.Named)
	return ok && n.Obj().Pkg() == nil && n.Obj().Name() == "error"
}

// extractOf: if v is Extract #i of a call, return the call.
func extractOf(v ssa.Value) (*ssa.Call, int, bool) {
	if e, ok := v.(*ssa.Extract); ok {
		if c, ok := e.Tuple.(*ssa.Call); ok {
			return c, e.Index, true
		}
	}
	return nil, 0, false
}

// refsOf returns the referrers of v (nil-safe).
func refsOf(v ssa.Value) []ssa.Instruction {
	r := v.Referrers()
	if r == nil {
		return nil
	}
	return *r
}

// allocStores lists the stores whose address is exactly the alloc a.
func allocStores(a *ssa.Alloc) []*ssa.Store {
	var out []*ssa.Store
	for _, r := range refsOf(a) {
		if s, ok := r.(*ssa.Store); ok && s.Addr == a {
			out = append(out, s)
		}
	}
	return out
}

// describeBlockPath renders a witness path of blocks.
func blockLabel(p *Program, b *ssa.BasicBlock) string {
	for _, in := range b.Instrs {
		if in.Pos().IsValid() {
			return fmt.Sprintf("b%d(%s)", b.Index, p.Pos(in.Pos()))
		}
	}
	return fmt.Sprintf("b%d", b.Index)
}

// enclosing returns the outermost named function of a closure.
func outermost(f *ssa.Function) *ssa.Function {
	for f.Parent() != nil {
		f = f.Parent()
	}
	return f
}

// implements reports whether T or *T implements iface.
func implementsIface(t types.Type, iface *types.Interface) bool {
	return types.Implements(t, iface) || types.Implements(types.NewPointer(t), iface)
}

// lookupType finds a named type in a module package.
func (p *Program) lookupType(rel, name string) *types.Named {
	pkg := p.Pkg(rel)
	if pkg == nil {
		return nil
	}
	obj := pkg.Types.Scope().Lookup(name)
	if obj == nil {
		return nil
	}
	n, _ := obj.Type().(*types.Named)
	return n
}

func (p *Program) lookupIface(rel, name string) *types.Interface {
	n := p.lookupType(rel, name)
	if n == nil {
		return nil
	}
	i, _ := n.Underlying().(*types.Interface)
	return i
}

func constantInt64(c *types.Const) (int64, bool) {
	if c.Val().Kind() != constant.Int {
		return 0, false
	}
	v, ok := constant.Int64Val(c.Val())
	return v, ok
}

// localFieldValue: v is a load of field f of a local struct (a stack or heap allocation of this function) that is
// stored to exactly once in the function: returns the value stored. A per-connection object kept in a field of a
// local 'connection' struct is the same object wherever that field is read.
func localFieldValue(v ssa.Value) (ssa.Value, bool) {
	u, ok := v.(*ssa.UnOp)
	if !ok || u.Op != token.MUL {
		return nil, false
	}
	fa, ok := u.X.(*ssa.FieldAddr)
	if !ok {
		return nil, false
	}
	base := fa.X
	al, ok := base.(*ssa.Alloc)
	if !ok {
		return nil, false
	}
	return fieldOfLocal(al, fa.Field, 3)
}

// fieldOfLocal: the one value field #field of the local al can hold: its only field store, or - when al is a
// copy of another local (a value receiver, a struct passed on) - that local's.
func fieldOfLocal(al *ssa.Alloc, field int, depth int) (ssa.Value, bool) {
	if depth == 0 {
		return nil, false
	}
	var stored ssa.Value
	n := 0
	var whole []*ssa.Store
	for _, rf := range refsOf(al) {
		if fa2, ok := rf.(*ssa.FieldAddr); ok && fa2.Field == field {
			for _, r2 := range refsOf(fa2) {
				if st, ok := r2.(*ssa.Store); ok && st.Addr == ssa.Value(fa2) {
					n++
					stored = st.Val
				}
			}
		}
		if st, ok := rf.(*ssa.Store); ok && st.Addr == ssa.Value(al) {
			whole = append(whole, st)
		}
	}
	if n == 1 && len(whole) == 0 {
		return stored, true
	}
	if n == 0 && len(whole) == 1 {
		if u, ok := whole[0].Val.(*ssa.UnOp); ok && u.Op == token.MUL {
			if src, ok := u.X.(*ssa.Alloc); ok && src != al {
				return fieldOfLocal(src, field, depth-1)
			}
		}
	}
	return nil, false
}

// canonObject follows localFieldValue (twice at most) so that two reads of the same once-set local field compare equal.
func canonObject(v ssa.Value) ssa.Value {
	for i := 0; i < 2; i++ {
		w, ok := localFieldValue(v)
		if !ok {
			return v
		}
		v = w
	}
	return v
}

func sameObjectValue(a, b ssa.Value) bool {
	return a == b || canonObject(a) == canonObject(b)
}

// closureOnlyCalledDirectly: fn is a function literal whose every closure value is used only as the callee of a call
// (it is never stored, passed or returned), so its callers are exactly the static call sites.
func closureOnlyCalledDirectly(fn *ssa.Function) bool {
	par := fn.Parent()
	if par == nil {
		return false
	}
	found := false
	for _, b := range par.Blocks {
		for _, in := range b.Instrs {
			mc, ok := in.(*ssa.MakeClosure)
			if !ok || mc.Fn != ssa.Value(fn) {
				continue
			}
			found = true
			for _, ref := range *mc.Referrers() {
				switch r := ref.(type) {
				case *ssa.DebugRef:
				case ssa.CallInstruction:
					if r.Common().Value != ssa.Value(mc) {
						return false
					}
					for _, a := range r.Common().Args {
						if a == ssa.Value(mc) {
							return false
						}
					}
				default:
					if os.Getenv("VERIF_DEBUG") != "" {
						fmt.Fprintf(os.Stderr, "closureOnlyCalledDirectly(%s): used by %T %v\n", fn, ref, ref)
					}
					return false
				}
			}
		}
	}
	if os.Getenv("VERIF_DEBUG") != "" {
		fmt.Fprintf(os.Stderr, "closureOnlyCalledDirectly(%s): found=%v parent=%s\n", fn, found, par)
	}
	return found
}
