package main

import (
	"fmt"
	"os"
	"path/filepath"
	"runtime"
	"sort"
	"strings"
)

// Edit is one exact text replacement inside a file; Old must occur exactly once.
type Edit struct {
	File     string // relative to the repo
	Old, New string
}

// Mutant is a realistic breakage that still compiles; applied in memory through
// packages.Config.Overlay (nothing is written to disk).
type Mutant struct {
	Name   string
	Props  []string // properties whose check must report it
	Edits  []Edit
	Rule   string // rule expected to report (prefix match on obligation rule)
	KeySub string // optional substring the reporting key must contain
	Why    string // what the mutant breaks and why the pinned tests do not see it
	// Benign marks a behaviour-preserving refactor: the property still holds, so the check must stay
	// silent; any new failing obligation is a false alarm of the checker.
	Benign bool
}

var mutants []Mutant

func addMutant(m Mutant) { mutants = append(mutants, m) }

// SelfTestSummary goes into the evidence file of a thorough run.
type SelfTestSummary struct {
	Mutants  int      `json:"mutants"`
	Killed   int      `json:"killed"`
	Skipped  int      `json:"skipped"`
	Survived int      `json:"survived"`
	Invalid  int      `json:"invalid"`
	Benign   int      `json:"benign_refactors"`
	Silent   int      `json:"benign_silent"`
	Lines    []string `json:"outcomes"`
}

func violKeys(r *Result) map[string]Obligation {
	m := map[string]Obligation{}
	for _, ob := range r.Obls {
		if ob.Status != Discharged {
			m[ob.Key] = ob
		}
	}
	return m
}

func selfTestFor(repo, id string) SelfTestSummary {
	var s SelfTestSummary
	var base map[string]Obligation
	for _, m := range mutants {
		applies := false
		for _, p := range m.Props {
			if p == id {
				applies = true
			}
		}
		if !applies {
			continue
		}
		if m.Benign {
			s.Benign++
		} else {
			s.Mutants++
		}
		overlay := map[string][]byte{}
		skipped := ""
		for _, e := range m.Edits {
			path := filepath.Join(repo, e.File)
			src, ok := overlay[path]
			if !ok {
				b, err := os.ReadFile(path)
				if err != nil {
					skipped = "file absent: " + e.File
					break
				}
				src = b
			}
			if n := strings.Count(string(src), e.Old); n != 1 {
				skipped = fmt.Sprintf("target construct absent or ambiguous in %s (%d matches)", e.File, n)
				break
			}
			overlay[path] = []byte(strings.Replace(string(src), e.Old, e.New, 1))
		}
		if skipped != "" {
			if m.Benign {
				s.Benign--
				s.Mutants++
			}
			s.Skipped++
			s.Lines = append(s.Lines, fmt.Sprintf("%s %s: skipped: %s", id, m.Name, skipped))
			continue
		}
		if base == nil {
			p0, err := Load(repo, cfgLinuxAMD64, nil)
			if err != nil {
				s.Invalid++
				s.Lines = append(s.Lines, fmt.Sprintf("%s: baseline does not load: %v", id, err))
				return s
			}
			base = violKeys(runProp(p0, id, "quick"))
		}
		pm, err := Load(repo, cfgLinuxAMD64, overlay)
		if err != nil {
			s.Invalid++
			s.Lines = append(s.Lines, fmt.Sprintf("%s %s: INVALID mutant (does not compile): %v", id, m.Name, firstLine(err.Error())))
			continue
		}
		rm := runProp(pm, id, "quick")
		var newKeys []string
		hit := false
		for k, ob := range violKeys(rm) {
			if _, ok := base[k]; ok {
				continue
			}
			newKeys = append(newKeys, k)
			if strings.HasPrefix(ob.Rule, m.Rule) && (m.KeySub == "" || strings.Contains(k, m.KeySub)) {
				hit = true
			}
		}
		sort.Strings(newKeys)
		if m.Benign {
			if len(newKeys) == 0 {
				s.Silent++
				s.Lines = append(s.Lines, fmt.Sprintf("%s %s: benign refactor, check stays silent", id, m.Name))
			} else {
				s.Survived++
				s.Lines = append(s.Lines, fmt.Sprintf("%s %s: FALSE ALARM on a behaviour-preserving refactor: %v", id, m.Name, newKeys))
			}
			pm = nil
			runtime.GC()
			continue
		}
		if hit {
			s.Killed++
			s.Lines = append(s.Lines, fmt.Sprintf("%s %s: killed by %s", id, m.Name, strings.Join(newKeys, ", ")))
		} else {
			s.Survived++
			s.Lines = append(s.Lines, fmt.Sprintf("%s %s: SURVIVED (expected %s %s; new reports: %v)", id, m.Name, m.Rule, m.KeySub, newKeys))
		}
		pm = nil
		runtime.GC()
	}
	return s
}

func firstLine(s string) string {
	lines := strings.Split(s, "\n")
	if len(lines) > 2 {
		return strings.Join(lines[:2], " | ")
	}
	return strings.Join(lines, " | ")
}

// runSelfTest is `./check selftest [id]`: fails if an applicable mutant survives or is invalid.
func runSelfTest(repo, prop, verif string) int {
	var props []string
	if prop == "" || prop == "all" {
		props = ids()
	} else {
		props = []string{prop}
	}
	exit := 0
	tot := SelfTestSummary{}
	for _, id := range props {
		s := selfTestFor(repo, id)
		for _, l := range s.Lines {
			fmt.Println("SELFTEST " + l)
		}
		tot.Mutants += s.Mutants
		tot.Killed += s.Killed
		tot.Skipped += s.Skipped
		tot.Survived += s.Survived
		tot.Invalid += s.Invalid
		tot.Benign += s.Benign
		tot.Silent += s.Silent
		if s.Survived > 0 || s.Invalid > 0 {
			exit = 1
		}
	}
	fmt.Printf("SELFTEST total: %d mutants, %d killed, %d skipped, %d survived, %d invalid; %d benign refactors, %d silent\n", tot.Mutants, tot.Killed, tot.Skipped, tot.Survived, tot.Invalid, tot.Benign, tot.Silent)
	return exit
}
