package main

// Behaviour-preserving refactors ("benign mutants"). Every property still holds on each of them, so every
// check listed must stay silent; a new failing obligation is a false alarm of the checker. They are run by
// ./check selftest together with the breaking mutants and by the thorough tier of the properties listed.

var allProps = []string{"C01", "C02", "C03", "C04", "C05", "C06", "C07", "C08", "C09", "C10", "C11", "C12", "C13", "C14", "C15", "C16", "C17", "C18", "C19", "C20"}

func init() {
	addMutant(Mutant{Name: "benign-reader-length-in-variable", Benign: true, Props: []string{"C03", "C04", "C05", "C07", "C14", "C19"},
		Why: "the reader names the announced length and the limit before comparing them",
		Edits: []Edit{{File: "crypt.go", Old: `	s := binary.BigEndian.Uint32(h[8:])
	if s > MaxBodyLength {`, New: `	s := binary.BigEndian.Uint32(h[8:])
	tooLong := s > MaxBodyLength
	if tooLong {`}}})
	addMutant(Mutant{Name: "benign-reader-error-message", Benign: true, Props: []string{"C05", "C07", "C19"},
		Why:   "an error text changes",
		Edits: []Edit{{File: "crypt.go", Old: `"max header length exceeded in crypt read, aborting"`, New: `"announced body length above the limit"`}}})
	addMutant(Mutant{Name: "benign-writer-early-return-merged", Benign: true, Props: []string{"C03", "C05", "C06", "C07"},
		Why: "the writer's two nil guards become one condition",
		Edits: []Edit{{File: "crypt.go", Old: `	if p == nil {
		return 0, fmt.Errorf("handler error, packet cannot be nil")
	}
	if p.Body == nil {
		return 0, fmt.Errorf("handler error, packet.Body cannot be nil")
	}`, New: `	if p == nil || p.Body == nil {
		return 0, fmt.Errorf("handler error, packet and packet.Body cannot be nil")
	}`}}})
	addMutant(Mutant{Name: "benign-crypt-index-loop", Benign: true, Props: []string{"C03", "C04", "C06", "C14", "C15", "C09"},
		Why: "the XOR loop is written with an index instead of range",
		Edits: []Edit{{File: "crypt.go", Old: `	for i, b := range p.Body {
		p.Body[i] = b ^ pad[i]
	}`, New: `	for i := 0; i < len(p.Body); i++ {
		p.Body[i] = p.Body[i] ^ pad[i]
	}`}}})
	addMutant(Mutant{Name: "benign-loop-debug-line", Benign: true, Props: allProps,
		Why: "a debug line is added to the connection loop after the handler",
		Edits: []Edit{{File: "server.go", Old: `			handlers.Dec()
			if resp.next == nil {`, New: `			handlers.Dec()
			s.Debugf(ctx, "[%v] handler returned", req.Header.SessionID)
			if resp.next == nil {`}}})
	addMutant(Mutant{Name: "benign-loop-continuation-test-inverted", Benign: true, Props: []string{"C06", "C07", "C08", "C09", "C20"},
		Why: "the loop tests 'continuation registered' first and deletes in the else branch",
		Edits: []Edit{{File: "server.go", Old: `			if resp.next == nil {
				s.Debugf(ctx, "[%v] sessionID is complete", req.Header.SessionID)
				sessionProvider.delete(req.Header.SessionID)
				continue
			}
			sessionProvider.update(resp.header, resp.next)`, New: `			if resp.next != nil {
				sessionProvider.update(resp.header, resp.next)
				continue
			}
			s.Debugf(ctx, "[%v] sessionID is complete", req.Header.SessionID)
			sessionProvider.delete(req.Header.SessionID)`}}})
	addMutant(Mutant{Name: "benign-sessions-get-local-id", Benign: true, Props: []string{"C07", "C08", "C09", "C15", "C20"},
		Why: "sessions.get names the session id once",
		Edits: []Edit{{File: "sessions.go", Old: `	s.Lock()
	defer s.Unlock()
	sc, ok := s.known[h.SessionID]
	if !ok {
		sessionsGetMiss.Inc()
		return nil, nil
	}`, New: `	s.Lock()
	defer s.Unlock()
	id := h.SessionID
	sc, ok := s.known[id]
	if !ok {
		sessionsGetMiss.Inc()
		return nil, nil
	}`}}})
	addMutant(Mutant{Name: "benign-reply-seq-if-instead-of-switch", Benign: true, Props: []string{"C06", "C07", "C08"},
		Why: "Reply computes the sequence number with an if on the type assertion instead of a type switch",
		Edits: []Edit{{File: "handlers.go", Old: `	switch t := v.(type) {
	case *AuthenReply:
		if t.Status == AuthenStatusRestart {
			seqNo = 1
		} else {
			seqNo++
		}
	default:
		seqNo++
	}`, New: `	if t, ok := v.(*AuthenReply); ok && t.Status == AuthenStatusRestart {
		seqNo = 1
	} else {
		seqNo++
	}`}}})
	addMutant(Mutant{Name: "benign-serve-metric-renamed-local", Benign: true, Props: []string{"C13", "C17", "C20"},
		Why: "the per-connection function keeps the crypter in a local before entering the loop",
		Edits: []Edit{{File: "server.go", Old: `	s.handle(ctx, newCrypter(secret, conn, s.proxy), handler)`, New: `	wrapped := newCrypter(secret, conn, s.proxy)
	s.handle(ctx, wrapped, handler)`}}})
}

func init() {
	addMutant(Mutant{Name: "benign-option-clamps-captured-argument", Benign: true, Props: []string{"C09", "C14", "C15"},
		Why: "an option closure assigns to its own captured argument before storing it (no shared state involved; what it stores is a C06 matter)",
		Edits: []Edit{{File: "header.go", Old: `		h.SeqNo = SequenceNumber(v)`, New: `		if v < 0 {
			v = 0
		}
		h.SeqNo = SequenceNumber(v)`}}})
	addMutant(Mutant{Name: "benign-wrapper-configured-before-loop", Benign: true, Props: []string{"C09", "C15", "C05"},
		Why: "the per-connection function sets a field of the stream wrapper before the request loop starts",
		Edits: []Edit{{File: "server.go", Old: `	s.handle(ctx, newCrypter(secret, conn, s.proxy), handler)`, New: `	wrapped := newCrypter(secret, conn, false)
	wrapped.proxy = s.proxy
	s.handle(ctx, wrapped, handler)`}}})
}

func init() {
	addMutant(Mutant{Name: "benign-crypt-consumes-body-slice", Benign: true, Props: []string{"C06", "C09", "C15"},
		Why: "the XOR loop walks a shrinking sub-slice of the body (same bytes written, same order)",
		Edits: []Edit{{File: "crypt.go", Old: `	for i, b := range p.Body {
		p.Body[i] = b ^ pad[i]
	}`, New: `	rest := p.Body
	for i := 0; len(rest) > 0; i++ {
		rest[0] ^= pad[i]
		rest = rest[1:]
	}`}}})
}

func init() {
	addMutant(Mutant{Name: "benign-patterns-copied-at-construction", Benign: true, Props: []string{"C11", "C15", "C16"},
		Why: "the authorizer copies every pattern list when it is built, keeping every pattern (one append per element)",
		Edits: []Edit{{File: "cmds/server/config/authorizers/stringy/stringy.go", Old: `	a.ReduceAll(&user)
`, New: `	a.ReduceAll(&user)
	cmds := make([]config.Command, 0, len(user.Commands))
	for _, c := range user.Commands {
		match := make([]string, 0, len(c.Match))
		for _, m := range c.Match {
			match = append(match, m)
		}
		c.Match = match
		cmds = append(cmds, c)
	}
	user.Commands = cmds
`}}})
}

func init() {
	addMutant(Mutant{Name: "benign-header-encoder-array-and-subslices", Benign: true, Props: []string{"C01", "C02", "C03", "C04", "C06", "C14", "C19"},
		Why: "the header encoder fills a [12]byte array through named sub-slices and returns fixed[:]",
		Edits: []Edit{{File: "header.go", Old: `	buf := make([]byte, MaxHeaderLength)
	version, err := h.Version.MarshalBinary()
	if err != nil {
		return nil, err
	}
	buf[0] = version[0]
	buf[1] = uint8(h.Type)
	buf[2] = uint8(h.SeqNo)
	buf[3] = uint8(h.Flags)
	binary.BigEndian.PutUint32(buf[4:], uint32(h.SessionID))
	binary.BigEndian.PutUint32(buf[8:], h.Length)
	return buf, nil`, New: `	version, err := h.Version.MarshalBinary()
	if err != nil {
		return nil, err
	}
	var fixed [MaxHeaderLength]byte
	sessionID, length := fixed[4:8], fixed[8:MaxHeaderLength]
	binary.BigEndian.PutUint32(sessionID, uint32(h.SessionID))
	binary.BigEndian.PutUint32(length, h.Length)
	fixed[0], fixed[1], fixed[2], fixed[3] = version[0], uint8(h.Type), uint8(h.SeqNo), uint8(h.Flags)
	return fixed[:], nil`}}})
	addMutant(Mutant{Name: "benign-packet-encoder-make-and-copy", Benign: true, Props: []string{"C01", "C02", "C03", "C04", "C05", "C14"},
		Why: "the packet encoder makes the buffer at its final length and fills it with two copies",
		Edits: []Edit{{File: "packet.go", Old: `	buf := make([]byte, 0, len(head)+len(p.Body))
	buf = append(buf, head...)
	buf = append(buf, p.Body...)
	return buf, nil`, New: `	buf := make([]byte, len(head)+len(p.Body))
	n := copy(buf, head)
	copy(buf[n:], p.Body)
	return buf, nil`}}})
	addMutant(Mutant{Name: "benign-session-id-octet-literal", Benign: true, Props: []string{"C01", "C02", "C03", "C04", "C06"},
		Why: "the session id is serialised as an octet literal, most significant octet first, instead of PutUint32",
		Edits: []Edit{{File: "header_fields.go", Old: `	sb := make([]byte, 4)
	binary.BigEndian.PutUint32(sb, uint32(*s))
	return sb, nil`, New: `	id := uint32(*s)
	return []byte{byte(id >> 24), byte(id >> 16), byte(id >> 8), byte(id)}, nil`}}})
	addMutant(Mutant{Name: "benign-lookup-split-into-check-and-locked-part", Benign: true, Props: []string{"C05", "C06", "C07", "C08", "C09", "C14", "C15", "C20"},
		Why: "the session lookup is split: the sequence check stays, the locked table access moves to a helper that is tail-called",
		Edits: []Edit{{File: "sessions.go", Old: `		return nil, fmt.Errorf("sessionID [%v] sequence number is corrupted; %v", h.SessionID, err)
	}
	s.Lock()
	defer s.Unlock()
	sc, ok := s.known[h.SessionID]`, New: `		return nil, fmt.Errorf("sessionID [%v] sequence number is corrupted; %v", h.SessionID, err)
	}
	return s.lookupLocked(h)
}

// lookupLocked finds the handler left for the session named in h
func (s *sessions) lookupLocked(h Header) (Handler, error) {
	s.Lock()
	defer s.Unlock()
	sc, ok := s.known[h.SessionID]`}}})
	addMutant(Mutant{Name: "benign-size-test-written-the-other-way", Benign: true, Props: []string{"C01", "C04", "C07", "C19"},
		Why: "the accounting reply decoder tests for equal sizes first and validates in that branch",
		Edits: []Edit{{File: "accounting.go", Old: `	if a.Len() != serverMsgLen+dataLen {
		return NewBadSecretErr("bad secret detected acctreply")
	}
	// validate
	if err := a.Validate(); err != nil {
		return err
	}
	return nil`, New: `	if a.Len() == serverMsgLen+dataLen {
		return a.Validate()
	}
	return NewBadSecretErr("bad secret detected acctreply")`}}})
	addMutant(Mutant{Name: "benign-reader-single-frame-buffer", Benign: true, Props: []string{"C04", "C05", "C14", "C19"},
		Why: "the stream reader reads the body into one buffer behind a copy of the header bytes",
		Edits: []Edit{{File: "crypt.go", Old: `	b := make([]byte, int(s))
	if _, err := io.ReadFull(c.Reader, b); err != nil {
		crypterReadError.Inc()
		return nil, err
	}

	var p Packet
	err := Unmarshal(append(h, b...), &p)`, New: `	frame := make([]byte, MaxHeaderLength+int(s))
	copy(frame, h)
	if _, err := io.ReadFull(c.Reader, frame[MaxHeaderLength:]); err != nil {
		crypterReadError.Inc()
		return nil, err
	}

	var p Packet
	err := Unmarshal(frame, &p)`}}})
	addMutant(Mutant{Name: "benign-hash-inputs-from-a-fixed-list", Benign: true, Props: []string{"C03", "C04", "C06"},
		Why: "the four fixed hash inputs are written from an array literal in a loop",
		Edits: []Edit{{File: "crypt.go", Old: `		h.Write(sessionID)
		h.Write(secret)
		h.Write(version)
		h.Write(seqNo)`, New: `		for _, part := range [...][]byte{sessionID, secret, version, seqNo} {
			h.Write(part)
		}`}}})
}

func init() {
	addMutant(Mutant{Name: "benign-header-appended-pieces", Benign: true, Props: []string{"C01", "C02", "C03", "C06"},
		Why: "the header is put together by appending staged pieces in wire order",
		Edits: []Edit{{File: "header.go", Old: `	buf := make([]byte, MaxHeaderLength)
	version, err := h.Version.MarshalBinary()
	if err != nil {
		return nil, err
	}
	buf[0] = version[0]
	buf[1] = uint8(h.Type)
	buf[2] = uint8(h.SeqNo)
	buf[3] = uint8(h.Flags)
	binary.BigEndian.PutUint32(buf[4:], uint32(h.SessionID))
	binary.BigEndian.PutUint32(buf[8:], h.Length)
	return buf, nil`, New: `	version, err := h.Version.MarshalBinary()
	if err != nil {
		return nil, err
	}
	var sessionID, length [4]byte
	binary.BigEndian.PutUint32(sessionID[:], uint32(h.SessionID))
	binary.BigEndian.PutUint32(length[:], h.Length)
	buf := make([]byte, 0, MaxHeaderLength)
	buf = append(buf, version...)
	buf = append(buf, uint8(h.Type), uint8(h.SeqNo), uint8(h.Flags))
	buf = append(buf, sessionID[:]...)
	buf = append(buf, length[:]...)
	return buf, nil`}}})
	addMutant(Mutant{Name: "benign-length-bounds-through-helper", Benign: true, Props: []string{"C02", "C04", "C14"},
		Why: "the one-octet length fields are checked through a variadic helper against 0xff",
		Edits: []Edit{{File: "accounting.go", Old: `	if len(a.User) > 0xff || len(a.Port) > 0xff || len(a.RemAddr) > 0xff || len(a.Args) > 0xff {
		return fmt.Errorf("user, port and rem_addr must not exceed 255 bytes each, nor args 255 entries")
	}
	// validate
	for _, t := range []Field{a.Method, a.PrivLvl, a.Type, a.Service, a.User, a.Port, a.RemAddr, a.Flags} {`, New: `	if anyLenExceeds(0xff, len(a.User), len(a.Port), len(a.RemAddr), len(a.Args)) {
		return fmt.Errorf("user, port and rem_addr must not exceed 255 bytes each, nor args 255 entries")
	}
	// validate
	for _, t := range []Field{a.Method, a.PrivLvl, a.Type, a.Service, a.User, a.Port, a.RemAddr, a.Flags} {`}, {File: "accounting.go", Old: `// Validate all fields on this type
func (a *AcctRequest) Validate() error {`, New: `func anyLenExceeds(limit int, lens ...int) bool {
	for _, n := range lens {
		if n > limit {
			return true
		}
	}
	return false
}

// Validate all fields on this type
func (a *AcctRequest) Validate() error {`}}})
	addMutant(Mutant{Name: "benign-header-type-table", Benign: true, Props: []string{"C07", "C01", "C02"},
		Why: "the header types are validated against a table of names with exactly the declared entries",
		Edits: []Edit{{File: "header_fields.go", Old: `	switch t {
	case Authenticate, Authorize, Accounting:
		return nil
	}
	return fmt.Errorf("unknown HeaderType value [%v]", t)
}`, New: `	if int(t) < len(headerTypeNames) && headerTypeNames[t] != "" {
		return nil
	}
	return fmt.Errorf("unknown HeaderType value [%v]", t)
}

var headerTypeNames = [...]string{
	Authenticate: "Authenticate",
	Authorize:    "Authorize",
	Accounting:   "Accounting",
}`}}})
}

func init() {
	addMutant(Mutant{Name: "benign-fields-candidate-table", Benign: true, Props: []string{"C19", "C18", "C07"},
		Why: "Request.Fields takes its candidates from a per-type list of fresh body values",
		Edits: []Edit{{File: "handlers.go", Old: `	switch r.Header.Type {
	case Authenticate:
		var as AuthenStart
		if err := Unmarshal(r.Body, &as); err == nil {
			merge(allFields, as.Fields())
			return allFields
		}
		var ac AuthenContinue
		if err := Unmarshal(r.Body, &ac); err == nil {
			merge(allFields, ac.Fields())
			return allFields
		}
		var ar AuthenReply
		if err := Unmarshal(r.Body, &ar); err == nil {
			merge(allFields, ar.Fields())
			return allFields
		}

	case Authorize:
		var ar AuthorRequest
		if err := Unmarshal(r.Body, &ar); err == nil {
			merge(allFields, ar.Fields())
			return allFields
		}
		var arr AuthorReply
		if err := Unmarshal(r.Body, &arr); err == nil {
			merge(allFields, arr.Fields())
			return allFields
		}

	case Accounting:
		var ar AcctRequest
		if err := Unmarshal(r.Body, &ar); err == nil {
			merge(allFields, ar.Fields())
			return allFields
		}
		var arr AcctReply
		if err := Unmarshal(r.Body, &arr); err == nil {
			merge(allFields, arr.Fields())
			return allFields
		}
	}
	// unknown packet
	return nil
}
`, New: `	for _, body := range fieldCandidates(r.Header.Type) {
		if err := Unmarshal(r.Body, body); err == nil {
			merge(allFields, body.Fields())
			return allFields
		}
	}
	// unknown packet
	return nil
}

func fieldCandidates(t HeaderType) []EncoderDecoder {
	switch t {
	case Authenticate:
		return []EncoderDecoder{&AuthenStart{}, &AuthenContinue{}, &AuthenReply{}}
	case Authorize:
		return []EncoderDecoder{&AuthorRequest{}, &AuthorReply{}}
	case Accounting:
		return []EncoderDecoder{&AcctRequest{}, &AcctReply{}}
	}
	return nil
}
`}}})
}
