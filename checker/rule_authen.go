package main

import (
	"fmt"
	"go/token"
	"go/types"
	"strings"

	"golang.org/x/tools/go/ssa"
)

// R-PROVENANCE for authentication: PASS only behind a successful verification of this request's
// password against the configured credential; the authenticator used is the session user's.

func isHandlerRequestParam(fn *ssa.Function, v ssa.Value) bool {
	v = stripConv(v)
	if u, ok := v.(*ssa.UnOp); ok && u.Op == token.MUL {
		v = u.X
	}
	switch x := v.(type) {
	case *ssa.Parameter:
		return typeIs(x.Type(), modPath, "Request")
	case *ssa.Alloc:
		for _, st := range allocStores(x) {
			if pr, ok := st.Val.(*ssa.Parameter); ok && typeIs(pr.Type(), modPath, "Request") {
				return true
			}
		}
	}
	return false
}

func ruleAuthenProvenance(p *Program, r *Result) {
	pass, ok := p.rootConst("AuthenStatusPass")
	if !ok {
		r.undecided("R-PROVENANCE", "anchor:AuthenStatusPass", "-", "UNRESOLVED constant")
		return
	}
	ord := map[*ssa.Function]int{}
	nPass := 0
	n := 0
	for _, rs := range allReplySites(p) {
		if rs.Kind != "Authen" && !(rs.Kind == "" && isAuthenFn(rs.Fn)) {
			continue
		}
		n++
		k := siteKey(rs, ord)
		if !rs.Resolved {
			r.undecided("R-PROVENANCE", k, p.Pos(rs.Call.Pos()), "authentication reply whose status cannot be resolved to constants: %s", rs.Why)
			continue
		}
		if !hasStatus(rs, pass) {
			r.ok("R-PROVENANCE", k, p.Pos(rs.Call.Pos()), false, "authentication reply with status %v (not PASS)", rs.Status)
			continue
		}
		nPass++
		fn := rs.Fn
		// dominated by the err == nil edge of bcrypt.CompareHashAndPassword(h, p)
		var cmp *ssa.Call
		for _, c := range allCalls(fn) {
			if call, ok := c.(*ssa.Call); ok {
				if f := call.Common().StaticCallee(); f != nil && f.Name() == "CompareHashAndPassword" && f.Pkg != nil && strings.HasSuffix(f.Pkg.Pkg.Path(), "/bcrypt") {
					// wherever the PASS status is chosen (the reply itself, or the alternative of a merged status or
					// verdict that can be PASS), the comparison has succeeded
					origins := []originEdge{{blk: rs.At.Block()}}
					if vals := rs.Options["SetAuthenReplyStatus"]; len(vals) > 0 {
						origins = nil
						for _, v := range vals {
							origins = append(origins, constOrigins(p, v, map[int64]bool{pass: true}, rs.At.Block())...)
						}
					}
					g := len(origins) > 0
					for _, o := range origins {
						if ok, _ := underSuccessOf(call, o); !ok {
							g = false
						}
					}
					if g {
						cmp = call
					}
				}
			}
		}
		if cmp == nil {
			r.bad("R-PROVENANCE", k, p.Pos(rs.Call.Pos()), "AuthenStatusPass can be replied without a successful bcrypt.CompareHashAndPassword on this path: a cache hit, a shortcut or an inverted test would pass a session that did not present the user's password")
			continue
		}
		// password: derives from GetPassword(request) of this handler's request (or from the body decoded from request.Body)
		pwOK, pwWhy := passwordOfThisRequest(fn, cmp.Common().Args[1])
		// hash: from the authenticator's configured hash field (hex-decoded) or the keychain result
		hashOK := true
		for _, src := range phiSources(cmp.Common().Args[0]) {
			call, idx, ok := extractOf(src)
			if !ok || idx != 0 {
				hashOK = false
				continue
			}
			cc := call.Common()
			if f := cc.StaticCallee(); f != nil && f.Name() == "DecodeString" && f.Pkg != nil && f.Pkg.Pkg.Path() == "encoding/hex" {
				if fl, base, ok := loadedField(cc.Args[0]); !ok || fl.Name() != "hash" || !recvRooted(fn, base) {
					hashOK = false
				}
				continue
			}
			if cc.IsInvoke() && cc.Method.Name() == "GetSecret" {
				continue
			}
			hashOK = false
		}
		if pwOK && hashOK {
			r.ok("R-PROVENANCE", k, p.Pos(rs.Call.Pos()), true, "PASS is replied only on the success edge of bcrypt.CompareHashAndPassword(configured hash or keychain result of this authenticator, password extracted from this request)")
		} else {
			r.bad("R-PROVENANCE", k, p.Pos(rs.Call.Pos()), "PASS is behind a bcrypt comparison, but not of this request's password (%v: %s) against this authenticator's credential (%v)", pwOK, pwWhy, hashOK)
		}
	}
	r.cond(nPass == 1, "R-PROVENANCE", "pass-sites", "-",
		"exactly one reply site in the server universe can carry AuthenStatusPass",
		fmt.Sprintf("%d reply sites can carry AuthenStatusPass; the reference server has one producer (the bcrypt authenticator)", nPass))
	if n == 0 {
		r.undecided("R-PROVENANCE", "authen-replies", "-", "no authentication reply site found")
	}
	r.floor("R-PROVENANCE", 20)
}

func isAuthenFn(fn *ssa.Function) bool {
	return len(decodeCalls(fn, "AuthenStart")) > 0 || len(decodeCalls(fn, "AuthenContinue")) > 0
}

func recvRooted(fn *ssa.Function, base ssa.Value) bool {
	if len(fn.Params) == 0 {
		return false
	}
	for i := 0; i < 10; i++ {
		if sameObject(base, fn.Params[0]) {
			return true
		}
		switch x := base.(type) {
		case *ssa.FieldAddr:
			base = x.X
		case *ssa.Field:
			base = x.X
		case *ssa.UnOp:
			base = x.X
		case *ssa.Alloc:
			// a local copy of the receiver (the parameter of a folded value-receiver helper)
			st := allocStores(x)
			if len(st) != 1 {
				return false
			}
			base = st[0].Val
		default:
			return false
		}
	}
	return false
}

// passwordOfThisRequest: v derives (string/[]byte conversions) from result #0 of a GetPassword-like
// call on this handler's request: a module function whose results come from the Data / UserMessage
// fields of bodies decoded from its Request parameter's Body.
func passwordOfThisRequest(fn *ssa.Function, v ssa.Value) (bool, string) {
	v = stripAllConv(v)
	call, idx, ok := extractOf(v)
	if !ok || idx != 0 {
		return false, "the password argument is not the result of a password extraction call"
	}
	f := call.Common().StaticCallee()
	if f == nil || f.Blocks == nil {
		return false, "dynamic password extraction"
	}
	// the request passed is the handler's own
	reqOK := false
	for _, a := range call.Common().Args {
		if typeIs(a.Type(), modPath, "Request") && isHandlerRequestParam(fn, a) {
			reqOK = true
		}
	}
	if !reqOK {
		return false, "the request passed to " + fnKey(f) + " is not this handler's request"
	}
	// callee: every non-empty string it returns is body.Data / body.UserMessage of a body decoded from its request
	for _, b := range f.Blocks {
		ret, ok := b.Instrs[len(b.Instrs)-1].(*ssa.Return)
		if !ok || len(ret.Results) == 0 {
			continue
		}
		for _, rv := range returnedValues(f, ret, 0) {
			if c, isC := rv.(*ssa.Const); isC && c.Value != nil && c.Value.ExactString() == `""` {
				continue
			}
			fl, base, ok := loadedField(stripAllConv(rv))
			if !ok || !(fl.Name() == "Data" || fl.Name() == "UserMessage") {
				return false, fnKey(f) + " returns something other than the Data / UserMessage field of a decoded body"
			}
			// base: a body decoded right here from the request's Body, or the value a helper decoded from it
			if decodedHereOrByValueHelper(f, stripAllConv(base)) {
				continue
			}
			// base: result of a helper that decodes f's request parameter's Body
			dc, ok := stripAllConv(base).(*ssa.Call)
			if !ok {
				// one of several results of the decoding helper
				dc, _, ok = extractOf(stripAllConv(base))
			}
			if !ok || dc.Common().StaticCallee() == nil {
				return false, "the body is not decoded from the request"
			}
			g := dc.Common().StaticCallee()
			good := false
			for _, a := range dc.Common().Args {
				if typeIs(a.Type(), modPath, "Request") && isHandlerRequestParam(f, a) {
					for dcall := range decodeCalls(g, "") {
						if isRequestBody(dcall.Common().Args[0]) {
							good = true
						}
					}
				}
			}
			if !good {
				return false, "the body whose field is returned is not decoded from this request's Body"
			}
		}
	}
	return true, ""
}

// ruleAuthenBinding: the authenticator a session is handed to is GetUser(u).Authenticate for the
// session's own user name u, after the nil check and after the empty-password test.
func ruleAuthenBinding(p *Program, r *Result) {
	n := 0
	for _, fn := range p.UnitsIn(func(path string) bool { return path == modPath+"/cmds/server/handlers" }) {
		for _, b := range fn.Blocks {
			for _, in := range b.Instrs {
				// load of AAA.Authenticate
				u, ok := in.(*ssa.UnOp)
				if !ok || u.Op != token.MUL {
					continue
				}
				f, base, ok := fieldAddrOf(u.X)
				if !ok || f.Name() != "Authenticate" || !typeIs(base.Type(), modPath+"/cmds/server/config", "AAA") {
					continue
				}
				n++
				key := fnKey(fn) + ":authenticator-binding"
				gu, ok := base.(*ssa.Call)
				if !ok || !gu.Common().IsInvoke() || gu.Common().Method.Name() != "GetUser" {
					r.bad("R-PROVENANCE", key, p.Pos(in.Pos()), "the authenticator used is not that of GetUser(<session user>)")
					continue
				}
				arg := stripAllConv(gu.Common().Args[0])
				how := ""
				if fl, bb, ok := loadedField(arg); ok {
					switch {
					case fl.Name() == "User":
						// body.User of the START decoded from this request
						if a, ok := bb.(*ssa.Alloc); ok {
							for dc, da := range decodeCalls(fn, "AuthenStart") {
								if da == a && isRequestBody(dc.Common().Args[0]) {
									if g, _ := guardedBySuccess(dc, gu, nil); g {
										how = "the user field of the START decoded from this request"
									}
								}
							}
						}
					case fl.Name() == "username" && recvRooted(fn, bb):
						if userFieldOnlyFromSession(p, fl) {
							how = "the handler object's user name, whose only assignments are the START user / the CONTINUE user message of this session"
						}
					}
				}
				// empty password and unknown user are answered before the authenticator is reached
				nilOK := nonNilGuarded(gu, in)
				if how != "" && nilOK {
					r.ok("R-PROVENANCE", key, p.Pos(in.Pos()), true, "the session is handed to GetUser(u).Authenticate with u = %s, behind the nil test of the lookup", how)
				} else {
					r.bad("R-PROVENANCE", key, p.Pos(in.Pos()), "the authenticator is not bound to this session's user (user name provenance: %q, nil-checked: %v): one user's password could be verified against another user's credential", how, nilOK)
				}
			}
		}
	}
	if n < 2 {
		r.bad("R-PROVENANCE", "authenticator-binding-sites", "-", "expected the PAP and the ASCII handlers to select the authenticator through GetUser; found %d sites", n)
	}
}

// userFieldOnlyFromSession: every store to the handler's username field is the user of a START or the
// user message of a CONTINUE decoded in the storing function from its request, or the constructor's
// parameter whose call sites pass such a value.
func userFieldOnlyFromSession(p *Program, field *types.Var) bool {
	n := 0
	for _, fn := range p.UFuncs() {
		for _, b := range fn.Blocks {
			for _, in := range b.Instrs {
				st, ok := in.(*ssa.Store)
				if !ok {
					continue
				}
				f, _, ok := fieldAddrOf(st.Addr)
				if !ok || f != field {
					continue
				}
				n++
				v := stripAllConv(st.Val)
				if fromSessionBody(fn, v) {
					continue
				}
				if pr, ok := v.(*ssa.Parameter); ok && paramFromSession(p, fn, pr, 3) {
					continue
				}
				return false
			}
		}
	}
	return n > 0
}

// paramFromSession: every call site (in the server universe) of fn passes, for parameter pr, the user field of a
// body decoded from that caller's request - directly, or as a parameter of its own that satisfies the same.
func paramFromSession(p *Program, fn *ssa.Function, pr *ssa.Parameter, depth int) bool {
	if depth == 0 {
		return false
	}
	idx := paramIndex(fn, pr)
	node := p.cgNode(fn)
	if node == nil || idx < 0 {
		return false
	}
	n := 0
	for _, e := range node.In {
		c := e.Caller.Func
		if e.Site == nil || c == nil || p.isTestFile(c.Pos()) {
			continue
		}
		if pk := outermost(c).Pkg; pk == nil || !inUniverse(pk.Pkg.Path()) {
			continue
		}
		if !sameFn(e.Site.Common().StaticCallee(), fn) || idx >= len(e.Site.Common().Args) {
			return false
		}
		n++
		arg := stripAllConv(e.Site.Common().Args[idx])
		if fromSessionBody(c, arg) {
			continue
		}
		if p2, ok := arg.(*ssa.Parameter); ok && paramFromSession(p, c, p2, depth-1) {
			continue
		}
		return false
	}
	return n > 0
}

// fromSessionBody: v is body.User / body.UserMessage of a body decoded in fn from its request's Body.
func fromSessionBody(fn *ssa.Function, v ssa.Value) bool {
	// a variable of the enclosing function captured by this function literal: every value it is given there
	if u, ok := v.(*ssa.UnOp); ok && u.Op == token.MUL {
		if fv, ok := u.X.(*ssa.FreeVar); ok {
			stores, parent, ok := capturedCellStores(fn, fv)
			if !ok || len(stores) == 0 {
				return false
			}
			for _, st := range stores {
				if !fromSessionBody(parent, stripAllConv(st.Val)) {
					return false
				}
			}
			return true
		}
	}
	// the result of a helper that is handed this function's request and returns either the empty string or the
	// user field of the body it decoded from that request
	if call, idx, ok := extractOf(v); ok || isCallValue(v) {
		if !ok {
			call, idx = v.(*ssa.Call), 0
		}
		g := call.Common().StaticCallee()
		passes := false
		for _, a := range call.Common().Args {
			if isHandlerRequestParam(fn, a) {
				passes = true
			}
		}
		if g != nil && len(g.Blocks) > 0 && passes && g != fn {
			n := 0
			for _, b := range g.Blocks {
				ret, ok := b.Instrs[len(b.Instrs)-1].(*ssa.Return)
				if !ok || b == g.Recover || idx >= len(ret.Results) {
					continue
				}
				for _, rv := range returnedValues(g, ret, idx) {
					if c, isC := rv.(*ssa.Const); isC && c.Value != nil && c.Value.ExactString() == `""` {
						continue
					}
					if !fromSessionBody(g, stripAllConv(rv)) {
						return false
					}
					n++
				}
			}
			return n > 0
		}
	}
	fl, base, ok := loadedField(v)
	if !ok || !(fl.Name() == "User" || fl.Name() == "UserMessage") {
		return false
	}
	a, ok := base.(*ssa.Alloc)
	if !ok {
		// a pointer to the decoded body handed in by the callers
		if pr, isParam := base.(*ssa.Parameter); isParam && gProg != nil {
			return bodyParamDecodedAtCallers(gProg, fn, pr)
		}
		return decodedByHelper(fn, base)
	}
	for dc, da := range decodeCalls(fn, "") {
		if da == a && isRequestBody(dc.Common().Args[0]) {
			return true
		}
	}
	return false
}

// bodyParamDecodedAtCallers: every caller of fn passes, for the pointer parameter pr, the address of a local it
// decoded from its own request's Body (behind the success of that decode).
func bodyParamDecodedAtCallers(p *Program, fn *ssa.Function, pr *ssa.Parameter) bool {
	idx := paramIndex(fn, pr)
	node := p.cgNode(fn)
	if node == nil || idx < 0 {
		return false
	}
	n := 0
	for _, e := range node.In {
		c := e.Caller.Func
		if e.Site == nil || c == nil || p.isTestFile(c.Pos()) {
			continue
		}
		if !sameFn(e.Site.Common().StaticCallee(), fn) || idx >= len(e.Site.Common().Args) {
			return false
		}
		a, ok := e.Site.Common().Args[idx].(*ssa.Alloc)
		if !ok {
			return false
		}
		found := false
		for dc, da := range decodeCalls(c, "") {
			if da == a && isRequestBody(dc.Common().Args[0]) {
				if g, _ := guardedBySuccess(dc, e.Site, nil); g {
					found = true
				}
			}
		}
		if !found {
			return false
		}
		n++
	}
	return n > 0
}

// decodedByHelper: base is the pointer a statically called helper returns, where the helper is given this
// function's request and returns, at that result position, only nil or the address of a body it decoded
// from its own request's Body.
func decodedByHelper(fn *ssa.Function, base ssa.Value) bool {
	idx := 0
	var call *ssa.Call
	switch x := base.(type) {
	case *ssa.Extract:
		idx = x.Index
		call, _ = x.Tuple.(*ssa.Call)
	case *ssa.Call:
		call = x
	}
	if call == nil {
		return false
	}
	g := call.Common().StaticCallee()
	if g == nil || len(g.Blocks) == 0 {
		return false
	}
	// the helper sees this function's request
	sawReq := false
	for _, a := range call.Common().Args {
		if !typeIs(a.Type(), modPath, "Request") {
			continue
		}
		v := a
		if u, ok := v.(*ssa.UnOp); ok && u.Op == token.MUL {
			if al, ok := u.X.(*ssa.Alloc); ok && isParamSpill(al) {
				sawReq = true
			}
		}
		if _, ok := v.(*ssa.Parameter); ok {
			sawReq = true
		}
	}
	if !sawReq {
		return false
	}
	dcs := decodeCalls(g, "")
	n := 0
	for _, b := range g.Blocks {
		ret, ok := b.Instrs[len(b.Instrs)-1].(*ssa.Return)
		if !ok || b == g.Recover {
			continue
		}
		if idx >= len(ret.Results) {
			return false
		}
		res := ret.Results[idx]
		if isNilConst(res) {
			continue
		}
		al, ok := res.(*ssa.Alloc)
		if !ok {
			return false
		}
		good := false
		for dc, da := range dcs {
			if da == al && isRequestBody(dc.Common().Args[0]) {
				good = true
			}
		}
		if !good {
			return false
		}
		n++
	}
	return n > 0
}

// ruleEmptyPasswordBeforeAuthenticator: the delegation to the authenticator is dominated by the
// "password present" edge.
func ruleEmptyPassword(p *Program, r *Result) {
	n := 0
	for _, fn := range p.UnitsIn(func(path string) bool { return path == modPath+"/cmds/server/handlers" }) {
		var deleg ssa.CallInstruction
		for _, b := range fn.Blocks {
			for _, in := range b.Instrs {
				u, ok := in.(*ssa.UnOp)
				if !ok || u.Op != token.MUL {
					continue
				}
				if f, base, ok := fieldAddrOf(u.X); ok && f.Name() == "Authenticate" && typeIs(base.Type(), modPath+"/cmds/server/config", "AAA") {
					for _, c := range allCalls(fn) {
						if c.Common().IsInvoke() && c.Common().Method.Name() == "Handle" && domInstr(u, c) {
							deleg = c
						}
						if f := c.Common().StaticCallee(); f != nil && f.Name() == "Handle" && domInstr(u, c) {
							deleg = c
						}
					}
				}
			}
		}
		if deleg == nil {
			continue
		}
		n++
		key := fnKey(fn) + ":empty-password-first"
		good := false
		for _, b := range fn.Blocks {
			iff, ok := b.Instrs[len(b.Instrs)-1].(*ssa.If)
			if !ok {
				continue
			}
			bo, ok := iff.Cond.(*ssa.BinOp)
			if !ok || bo.Op != token.EQL {
				continue
			}
			if z, ok := constInt(bo.Y); !ok || z != 0 {
				continue
			}
			lc, ok := bo.X.(*ssa.Call)
			if !ok {
				continue
			}
			if bi, ok := lc.Common().Value.(*ssa.Builtin); !ok || bi.Name() != "len" {
				continue
			}
			fl, _, ok := loadedField(stripAllConv(lc.Common().Args[0]))
			if !ok || !(fl.Name() == "Data" || fl.Name() == "UserMessage") {
				continue
			}
			// false edge (non-empty) dominates the delegation; true edge does not reach it
			if (b.Succs[1] == deleg.Block() || b.Succs[1].Dominates(deleg.Block())) && !blockReach(b.Succs[0], nil)[deleg.Block()] {
				good = true
			}
		}
		r.cond(good, "R-ORDER", key, p.Pos(deleg.Pos()),
			"the authenticator is reached only when the password field of this request is non-empty",
			"the authenticator can be reached with an empty password")
	}
	if n < 2 {
		r.bad("R-ORDER", "empty-password-sites", "-", "expected two delegations to the authenticator (PAP, ASCII); found %d", n)
	}
}

// ruleGetPassState: the password continuation is registered only together with a GETPASS reply, and the
// user-name continuation only with GETUSER.
func ruleContinuationStates(p *Program, r *Result) {
	ra, err := newReplyAnalysis(p)
	if err != nil {
		return
	}
	getPass, _ := p.rootConst("AuthenStatusGetPass")
	getUser, _ := p.rootConst("AuthenStatusGetUser")
	sites := allReplySites(p)
	n := 0
	for _, fn := range p.UnitsIn(func(path string) bool { return path == modPath+"/cmds/server/handlers" }) {
		for _, c := range allCalls(fn) {
			cc := c.Common()
			if !cc.IsInvoke() || cc.Method.Name() != "Next" || !typeIs(cc.Value.Type(), modPath, "Response") {
				continue
			}
			n++
			tgt := ra.funcOfValue(stripConv(cc.Args[0]))
			key := fmt.Sprintf("%s:next#%d", fnKey(fn), n)
			if tgt == nil {
				r.undecided("R-PROVENANCE", key, p.Pos(c.Pos()), "continuation registered with Next is not a method value of the handler object")
				continue
			}
			var st []int64
			var cands []ReplySite
			for _, rs := range sites {
				if rs.Fn == fn && rs.Resolved && (rs.Call.Block() == c.Block() || domInstr(c, rs.Call)) {
					cands = append(cands, rs)
				}
			}
			if len(cands) == 1 {
				st = cands[0].Status
			} else {
				for _, rs := range cands {
					if rs.Call.Block() == c.Block() {
						st = rs.Status
					}
				}
			}
			// a continuation that delegates to the authenticator must be entered through GETPASS only
			delegates := false
			for _, b := range tgt.Blocks {
				for _, in := range b.Instrs {
					if u, ok := in.(*ssa.UnOp); ok && u.Op == token.MUL {
						if f, _, ok := fieldAddrOf(u.X); ok && f.Name() == "Authenticate" {
							delegates = true
						}
					}
				}
			}
			want := getUser
			wn := "GETUSER"
			if delegates {
				want, wn = getPass, "GETPASS"
			}
			// bound to the handler object itself (fresh per START)
			boundToRecv := false
			if mc, ok := stripConv(cc.Args[0]).(*ssa.MakeClosure); ok && len(mc.Bindings) == 1 && len(fn.Params) > 0 && mc.Bindings[0] == ssa.Value(fn.Params[0]) {
				boundToRecv = true
			}
			r.cond(len(st) == 1 && st[0] == want && boundToRecv, "R-PROVENANCE", key, p.Pos(c.Pos()),
				fmt.Sprintf("continuation %s is registered together with a %s reply and is bound to this session's own handler object", fnKey(tgt), wn),
				fmt.Sprintf("continuation %s is registered with reply status %v (expected %s) or is not bound to this session's handler object (%v)", fnKey(tgt), st, wn, boundToRecv))
		}
	}
	if n < 2 {
		r.bad("R-PROVENANCE", "next-sites", "-", "expected the ASCII handler to register two continuations; found %d Next calls", n)
	}
}

// ruleLoaderAuthenticators: a user whose authenticator factory fails is left out; the authenticator
// inherited from groups is that of the first group that has one.
func ruleLoaderAuthenticators(p *Program, r *Result) {
	for _, fn := range p.FuncsIn(func(path string) bool { return path == modPath+"/cmds/server/loader" }) {
		// (1) build: error edge of authenticatorFactory.New does not reach the insertion into users
		for _, c := range allCalls(fn) {
			call, ok := c.(*ssa.Call)
			if !ok || !call.Common().IsInvoke() || call.Common().Method.Name() != "New" {
				continue
			}
			res := call.Common().Signature().Results()
			if res.Len() != 2 || !typeIs(res.At(0).Type(), modPath, "Handler") || !isErrorType(res.At(1).Type()) || call.Common().Signature().Params().Len() != 2 {
				continue
			}
			if _, isStr := call.Common().Signature().Params().At(0).Type().Underlying().(*types.Basic); !isStr {
				continue // the authorizer factory takes a config.User
			}
			key := fnKey(fn) + ":authenticator-factory-error-skips-user"
			errB, _ := errEdges(call)
			good := len(errB) > 0
			// the loop head of the users loop: the innermost loop containing the call
			for _, e := range errB {
				for b := range blockReachWithin(e, call.Block()) {
					for _, in := range b.Instrs {
						if mu, ok := in.(*ssa.MapUpdate); ok {
							if mt, ok := mu.Map.Type().Underlying().(*types.Map); ok {
								if pt, ok := mt.Elem().(*types.Pointer); ok && typeIs(pt.Elem(), modPath+"/cmds/server/config", "AAA") {
									good = false
								}
							}
						}
					}
				}
			}
			r.cond(good, "R-ORDER", key, p.Pos(call.Pos()),
				"when the authenticator factory fails the user is not added to the scope (fails closed: the user does not exist)",
				"a user whose authenticator could not be built is still added to the scope (with the default or no authenticator)")
		}
		// (2) group inheritance: first group with an authenticator, only when the user has none
		for _, b := range fn.Blocks {
			for _, in := range b.Instrs {
				st, ok := in.(*ssa.Store)
				if !ok {
					continue
				}
				f, ubase, ok := fieldAddrOf(st.Addr)
				if !ok || f.Name() != "Authenticator" || !typeIs(ubase.Type(), modPath+"/cmds/server/config", "User") {
					continue
				}
				gf, gbase, ok := loadedField(st.Val)
				if !ok || gf.Name() != "Authenticator" || !typeIs(gbase.Type(), modPath+"/cmds/server/config", "Group") {
					continue
				}
				key := fnKey(fn) + ":first-group-authenticator"
				// guarded by a test of the user's CURRENT authenticator (a load inside the loop) being nil
				good := false
				for d := st.Block(); d != nil; d = d.Idom() {
					id := d.Idom()
					if id == nil {
						break
					}
					iff, ok := id.Instrs[len(id.Instrs)-1].(*ssa.If)
					if !ok {
						continue
					}
					bo, ok := iff.Cond.(*ssa.BinOp)
					if !ok || !(isNilConst(bo.Y) || isNilConst(bo.X)) {
						continue
					}
					x := bo.X
					if isNilConst(x) {
						x = bo.Y
					}
					lf, lb, ok := loadedField(x)
					if !ok || lf != f || !sameCellValue(lb, ubase) {
						continue
					}
					// the load is inside the loop (re-evaluated per group)
					ld, _ := x.(*ssa.UnOp)
					if ld == nil || !blockReachFromSelf(ld.Block()) {
						continue
					}
					nilSucc := id.Succs[0]
					if bo.Op == token.NEQ {
						nilSucc = id.Succs[1]
					}
					if nilSucc == st.Block() || nilSucc.Dominates(st.Block()) {
						good = true
					}
				}
				// groups are ranged in order
				ranged := false
				if u, ok := gbase.(*ssa.Alloc); ok {
					_ = u
					ranged = true
				}
				for _, bb := range fn.Blocks {
					for _, i2 := range bb.Instrs {
						if ia, ok := i2.(*ssa.IndexAddr); ok {
							if lf, _, ok := loadedField(ia.X); ok && lf.Name() == "Groups" {
								ranged = true
							}
						}
					}
				}
				r.cond(good && ranged, "R-ORDER", key, p.Pos(st.Pos()),
					"a group's authenticator is inherited only while the user's current authenticator is nil (re-tested for every group, in configured order): the first group that has one wins",
					"the inheritance of the authenticator is not guarded by a per-group test of the user's current authenticator: a later group can override the first one")
			}
		}
	}
}

// ruleAuthenticatorPerUser: the authenticator factory is given the user's name and bakes it into the handler it
// returns (the keychain is asked for that name's hash). A handler built for one user must therefore never be
// handed to another: the loader keeps no container of handlers (a "build each distinct setting once" cache keyed
// by type and options gives every member of a group the first member's handler), and the name handed to the
// factory is the Name of the user being built.
func ruleAuthenticatorPerUser(p *Program, r *Result) {
	loaderPkg := modPath + "/cmds/server/loader"
	nFactory := 0
	for _, fn := range p.FuncsIn(func(path string) bool { return path == loaderPkg }) {
		for _, b := range fn.Blocks {
			for _, in := range b.Instrs {
				var m ssa.Value
				what := ""
				switch x := in.(type) {
				case *ssa.Lookup:
					m, what = x.X, "read"
				case *ssa.MapUpdate:
					m, what = x.Map, "written"
				default:
					continue
				}
				mt, ok := m.Type().Underlying().(*types.Map)
				if !ok || !typeIs(mt.Elem(), modPath, "Handler") {
					continue
				}
				r.bad("R-PROVENANCE", fnKey(fn)+":handler-container", p.Pos(in.Pos()),
					"a map of handlers is %s while the configuration is built: the authenticator factory bakes the user's name into the handler (the keychain is asked for that user's hash), so a handler kept under any other key (type, options, group) hands one user's authenticator - and password - to another", what)
			}
		}
		for _, c := range allCalls(fn) {
			call, ok := c.(*ssa.Call)
			if !ok || !call.Common().IsInvoke() || call.Common().Method.Name() != "New" {
				continue
			}
			sig := call.Common().Signature()
			res := sig.Results()
			if res.Len() != 2 || !typeIs(res.At(0).Type(), modPath, "Handler") || !isErrorType(res.At(1).Type()) || sig.Params().Len() != 2 {
				continue
			}
			if bt, isStr := sig.Params().At(0).Type().Underlying().(*types.Basic); !isStr || bt.Info()&types.IsString == 0 {
				continue
			}
			nFactory++
			isUserName := func(v ssa.Value) bool {
				lf, lb, ok := loadedField(v)
				return ok && lf.Name() == "Name" && typeIs(derefT(lb.Type()), modPath+"/cmds/server/config", "User")
			}
			good := isUserName(call.Common().Args[0])
			if pr, isParam := call.Common().Args[0].(*ssa.Parameter); isParam && !good {
				// a helper that is handed the name: every static caller passes the Name of a user
				if node := p.cgNode(fn); node != nil {
					n := 0
					good = true
					for _, e := range node.In {
						if e.Site == nil || e.Caller.Func == nil || p.isTestFile(e.Caller.Func.Pos()) {
							continue
						}
						pi := paramIndex(fn, pr)
						args := e.Site.Common().Args
						if e.Site.Common().StaticCallee() != fn || pi < 0 || pi >= len(args) || !isUserName(args[pi]) {
							good = false
						}
						n++
					}
					good = good && n > 0
				}
			}
			r.cond(good, "R-PROVENANCE", fnKey(fn)+":authenticator-named-after-its-user", p.Pos(call.Pos()),
				"the authenticator factory is called with the Name of the user being built",
				"the name handed to the authenticator factory is not the Name field of the user being built")
		}
	}
	if nFactory == 0 {
		r.undecided("R-PROVENANCE", "authenticator-named-after-its-user", "-", "UNRESOLVED: no call of the authenticator factory (New(string, options) (Handler, error)) in the loader")
	} else {
		r.ok("R-PROVENANCE", "loader:no-handler-container", "-", false, "no map with Handler elements is read or written in the loader package: every handler goes from its factory call into the AAA of the user it was built for")
	}
}

// blockReachWithin: blocks reachable from start without passing through `stop` (the loop iteration boundary).
func blockReachWithin(start, stop *ssa.BasicBlock) map[*ssa.BasicBlock]bool {
	// stop at the loop head that dominates the call: approximate the iteration boundary by blocking
	// every block that dominates `stop` and is reachable from it (loop heads)
	blocked := map[*ssa.BasicBlock]bool{}
	for d := stop.Idom(); d != nil; d = d.Idom() {
		if blockReach(stop, nil)[d] {
			blocked[d] = true
		}
	}
	return blockReach(start, blocked)
}

// ruleDefaultAAA: NewAAA installs the default-deny handlers before applying options.
func ruleDefaultAAA(p *Program, r *Result) {
	fn := p.LookupFunc("cmds/server/config", "NewAAA")
	if fn == nil {
		r.undecided("R-PROVENANCE", "NewAAA", "-", "UNRESOLVED config.NewAAA")
		return
	}
	set := map[string]string{}
	handler := map[string]*ssa.Function{}
	fn = p.localInlined(fn) // the defaults may come from a small constructor of the zero-trust value
	// handlerOf: the function that runs when the boxed value's Handle is invoked: the Handle method of its type, or
	// the function itself for a tacquito.HandlerFunc conversion
	handlerOf := func(mi *ssa.MakeInterface) *ssa.Function {
		x := mi.X
		for {
			if ct, ok := x.(*ssa.ChangeType); ok {
				x = ct.X
				continue
			}
			break
		}
		if f, ok := x.(*ssa.Function); ok {
			return f
		}
		ms := p.SSA.MethodSets.MethodSet(mi.X.Type())
		for i := 0; i < ms.Len(); i++ {
			if ms.At(i).Obj().Name() == "Handle" {
				if obj, ok := ms.At(i).Obj().(*types.Func); ok {
					return p.SSA.FuncValue(obj)
				}
			}
		}
		return nil
	}
	for _, b := range fn.Blocks {
		for _, in := range b.Instrs {
			st, ok := in.(*ssa.Store)
			if !ok {
				continue
			}
			f, base, ok := fieldAddrOf(st.Addr)
			if !ok {
				continue
			}
			if a, ok := base.(*ssa.Alloc); !ok || (a.Comment != "complit" && !typeIs(a.Type().(*types.Pointer).Elem(), modPath+"/cmds/server/config", "AAA")) {
				continue
			}
			if mi, ok := st.Val.(*ssa.MakeInterface); ok {
				if _, dup := set[f.Name()]; dup {
					set[f.Name()] = "set more than once"
					handler[f.Name()] = nil
					continue
				}
				set[f.Name()] = typeName(mi.X.Type())
				handler[f.Name()] = handlerOf(mi)
			}
		}
	}
	// each initial handler is a handler of this module that answers, and answers only with refusals of its own kind
	grant := map[string][]string{"Authen": {"AuthenStatusPass"}, "Author": {"AuthorStatusPassAdd", "AuthorStatusPassRepl"}, "Acct": {"AcctReplyStatusSuccess"}}
	kindOf := map[string]string{"Authenticate": "Authen", "Authorizer": "Author", "Accounting": "Acct"}
	sites := allReplySites(p)
	good := true
	var whyNot []string
	for _, field := range []string{"Authenticate", "Authorizer", "Accounting"} {
		h := handler[field]
		if h == nil || h.Blocks == nil {
			good = false
			whyNot = append(whyNot, field+": no initial handler with a body in this module ("+set[field]+")")
			continue
		}
		n := 0
		for _, rs := range sites {
			if p.orig(rs.Fn) != p.orig(h) {
				continue
			}
			n++
			if !rs.Resolved || rs.Kind != kindOf[field] {
				good = false
				whyNot = append(whyNot, fmt.Sprintf("%s: %s has a reply that is not a resolved %s reply", field, fnKey(h), kindOf[field]))
				continue
			}
			for _, gname := range grant[rs.Kind] {
				if gv, ok := p.rootConst(gname); !ok || hasStatus(rs, gv) {
					good = false
					whyNot = append(whyNot, fmt.Sprintf("%s: %s can reply %s", field, fnKey(h), gname))
				}
			}
		}
		if n == 0 {
			good = false
			whyNot = append(whyNot, fmt.Sprintf("%s: %s replies nothing itself", field, fnKey(h)))
		}
	}
	r.cond(good, "R-PROVENANCE", "NewAAA:defaults", p.Pos(fn.Pos()),
		fmt.Sprintf("NewAAA starts from handlers that only refuse (authenticator %s, authorizer %s, accounter %s: every reply of theirs is a FAIL/ERROR of the right kind); options only replace them", set["Authenticate"], set["Authorizer"], set["Accounting"]),
		fmt.Sprintf("NewAAA does not start from default-deny handlers: %s", strings.Join(whyNot, "; ")))
}

// sameCellValue: a and b denote the same object: identical values, or two loads of the same local cell that
// is assigned exactly once (a parameter captured by a closure is read through its cell each time).
func sameCellValue(a, b ssa.Value) bool {
	if a == b {
		return true
	}
	ua, ok1 := a.(*ssa.UnOp)
	ub, ok2 := b.(*ssa.UnOp)
	if !ok1 || !ok2 || ua.Op != token.MUL || ub.Op != token.MUL || ua.X != ub.X {
		return false
	}
	al, ok := ua.X.(*ssa.Alloc)
	return ok && len(allocStores(al)) == 1
}

// capturedCellStores: fv is a variable of the enclosing function captured by the function literal fn. Returns the
// stores into that variable, all of which must be in the enclosing function itself (literals capturing it only
// read it), and the enclosing function.
func capturedCellStores(fn *ssa.Function, fv *ssa.FreeVar) ([]*ssa.Store, *ssa.Function, bool) {
	parent := fn.Parent()
	if parent == nil {
		return nil, nil, false
	}
	idx := -1
	for i, f := range fn.FreeVars {
		if f == fv {
			idx = i
		}
	}
	if idx < 0 {
		return nil, nil, false
	}
	var cell *ssa.Alloc
	for _, b := range parent.Blocks {
		for _, in := range b.Instrs {
			if mc, ok := in.(*ssa.MakeClosure); ok && mc.Fn == ssa.Value(fn) && idx < len(mc.Bindings) {
				a, ok := mc.Bindings[idx].(*ssa.Alloc)
				if !ok || (cell != nil && cell != a) {
					return nil, nil, false
				}
				cell = a
			}
		}
	}
	if cell == nil {
		return nil, nil, false
	}
	var stores []*ssa.Store
	for _, rf := range refsOf(cell) {
		switch x := rf.(type) {
		case *ssa.Store:
			if x.Addr != ssa.Value(cell) {
				return nil, nil, false
			}
			stores = append(stores, x)
		case *ssa.UnOp, *ssa.DebugRef:
		case *ssa.MakeClosure:
			// the literal must not write the variable
			lit, _ := x.Fn.(*ssa.Function)
			if lit == nil {
				return nil, nil, false
			}
			for i, bnd := range x.Bindings {
				if bnd != ssa.Value(cell) || i >= len(lit.FreeVars) {
					continue
				}
				for _, r2 := range refsOf(lit.FreeVars[i]) {
					switch r2.(type) {
					case *ssa.UnOp, *ssa.DebugRef:
					default:
						return nil, nil, false
					}
				}
			}
		default:
			return nil, nil, false
		}
	}
	return stores, parent, true
}

// decodedHereOrByValueHelper: base is (a) a local of f that f itself decodes from its request's Body, or (b) result
// #k of a helper that is handed f's request Body (or request) and returns there only the value it decoded from
// that argument or a zero value.
func decodedHereOrByValueHelper(f *ssa.Function, base ssa.Value) bool {
	if a, ok := base.(*ssa.Alloc); ok {
		for dc, da := range decodeCalls(f, "") {
			if da == a && isRequestBody(dc.Common().Args[0]) {
				return true
			}
		}
		// a local holding the helper's result
		st := allocStores(a)
		if len(st) == 1 {
			return decodedHereOrByValueHelper(f, stripAllConv(st[0].Val))
		}
		dbg("decodedHere: %s alloc %s has %d stores", f.Name(), a.Name(), len(st))
		return false
	}
	call, idx, ok := extractOf(base)
	if !ok {
		dbg("decodedHere: %s base %T %v not extract", f.Name(), base, base)
		return false
	}
	g := call.Common().StaticCallee()
	if g == nil || g.Blocks == nil || g.Pkg == nil || !isModulePath(g.Pkg.Pkg.Path()) {
		return false
	}
	// which parameter of g receives this request's body?
	var bodyParam *ssa.Parameter
	for i, a := range call.Common().Args {
		if i < len(g.Params) && isByteSlice(a.Type()) && isRequestBody(a) {
			bodyParam = g.Params[i]
		}
	}
	if bodyParam == nil {
		dbg("decodedHere: no body param")
		return false
	}
	var decoded *ssa.Alloc
	for dc, da := range decodeCalls(g, "") {
		if dc.Common().Args[0] == ssa.Value(bodyParam) {
			decoded = da
		}
	}
	if decoded == nil {
		dbg("decodedHere: no decode in %s", g.Name())
		return false
	}
	n := 0
	for _, b := range g.Blocks {
		ret, ok := b.Instrs[len(b.Instrs)-1].(*ssa.Return)
		if !ok || b == g.Recover || len(ret.Results) <= idx {
			continue
		}
		for _, rv := range returnedValues(g, ret, idx) {
			if _, isConst := rv.(*ssa.Const); isConst {
				continue // the zero value
			}
			u, ok := rv.(*ssa.UnOp)
			if !ok || u.Op != token.MUL {
				dbg("decodedHere: %s returns %T %v", g.Name(), rv, rv)
				return false
			}
			a, ok := u.X.(*ssa.Alloc)
			if !ok {
				dbg("decodedHere: %s returns load of %T", g.Name(), u.X)
				return false
			}
			if a == decoded {
				n++
				continue
			}
			// a zero value: a local that nothing is stored into
			for _, rf := range refsOf(a) {
				switch rf.(type) {
				case *ssa.UnOp, *ssa.DebugRef:
				default:
					dbg("decodedHere: %s other alloc written", g.Name())
					return false
				}
			}
		}
	}
	dbg("decodedHere: %s n=%d", g.Name(), n)
	return n > 0
}

// ruleAbortFirst (C10: "aborted exchanges ... never end in PASS"): in every handler state that decodes a CONTINUE
// from its request and can hand the exchange on (register a continuation, delegate to another handler), the abort
// bit of that CONTINUE is tested - as a bit, not by comparing the whole octet - and the abort side never reaches
// the hand-over. Decodes of the same request body agree, so the error edge of one CONTINUE decode is not a way
// round the test when the hand-over itself sits behind the success of another.
func ruleAbortFirst(p *Program, r *Result) {
	abortC, ok := p.rootConst("AuthenContinueFlagAbort")
	if !ok {
		r.undecided("R-ABORT", "anchor:AuthenContinueFlagAbort", "-", "UNRESOLVED constant")
		return
	}
	n := 0
	for _, orig := range p.FuncsIn(func(path string) bool { return path == modPath+"/cmds/server/handlers" }) {
		if p.isTestFile(orig.Pos()) || orig.Signature.Params().Len() != 2 || !typeIs(orig.Signature.Params().At(1).Type(), modPath, "Request") {
			continue
		}
		if p.useViews && p.folded(orig) {
			continue
		}
		fn := p.localInlined(orig)
		conts := map[*ssa.Alloc]*ssa.Call{}
		for dc, a := range decodeCalls(fn, "AuthenContinue") {
			if isRequestBody(dc.Common().Args[0]) {
				conts[a] = dc
			}
		}
		if len(conts) == 0 {
			continue
		}
		// hand-overs
		var sinks []ssa.CallInstruction
		for _, c := range allCalls(fn) {
			cc := c.Common()
			if cc.IsInvoke() && (cc.Method.Name() == "Next" || cc.Method.Name() == "Handle") {
				sinks = append(sinks, c)
			} else if f := cc.StaticCallee(); f != nil && f.Name() == "Handle" && f.Signature.Params().Len() == 2 && typeIs(f.Signature.Params().At(1).Type(), modPath, "Request") {
				sinks = append(sinks, c)
			}
		}
		if len(sinks) == 0 {
			continue
		}
		// abort tests
		isAbortFlags := func(v ssa.Value) bool {
			f, base, ok := loadedField(v)
			if !ok || f.Name() != "Flags" {
				return false
			}
			a, ok := base.(*ssa.Alloc)
			return ok && conts[a] != nil
		}
		tests := map[*ssa.BasicBlock]*ssa.BasicBlock{} // test block -> abort successor
		for _, b := range fn.Blocks {
			iff, ok := b.Instrs[len(b.Instrs)-1].(*ssa.If)
			if !ok {
				continue
			}
			cond, neg := iff.Cond, false
			if u, ok := cond.(*ssa.UnOp); ok && u.Op == token.NOT {
				cond, neg = u.X, true
			}
			isTest, abortOnTrue := false, true
			switch x := cond.(type) {
			case *ssa.Call:
				if f := x.Common().StaticCallee(); f != nil && f.Name() == "Has" && hasIsMaskTest(f) && len(x.Common().Args) == 2 {
					if c, okc := constInt(x.Common().Args[1]); okc && c == abortC {
						a0 := flagsOperand(x.Common().Args[0])
						if fa, ok := a0.(*ssa.FieldAddr); ok {
							if al, ok := fa.X.(*ssa.Alloc); ok && conts[al] != nil && fieldName(fa) == "Flags" {
								isTest = true
							}
						} else if isAbortFlags(a0) {
							isTest = true
						}
					}
				}
			case *ssa.BinOp:
				// flags&abort != 0, flags&abort == abort (abort is a single bit), flags&abort == 0 (negated)
				and, ok := x.X.(*ssa.BinOp)
				if ok && and.Op == token.AND {
					if m, okm := constInt(and.Y); okm && m == abortC && isAbortFlags(stripAllConv(and.X)) {
						if c, okc := constInt(x.Y); okc {
							switch {
							case x.Op == token.NEQ && c == 0, x.Op == token.EQL && c == abortC:
								isTest = true
							case x.Op == token.EQL && c == 0, x.Op == token.NEQ && c == abortC:
								isTest, abortOnTrue = true, false
							}
						}
					}
				}
			}
			if !isTest {
				continue
			}
			if neg {
				abortOnTrue = !abortOnTrue
			}
			if abortOnTrue {
				tests[b] = b.Succs[0]
			} else {
				tests[b] = b.Succs[1]
			}
		}
		for i, s := range sinks {
			n++
			key := fmt.Sprintf("%s:abort-first#%d", fnKey(orig), i+1)
			blocked := map[*ssa.BasicBlock]bool{}
			good := true
			why := ""
			for tb, ab := range tests {
				blocked[tb] = true
				if ab == s.Block() || blockReach(ab, nil)[s.Block()] {
					good, why = false, "the abort side of the test at "+p.Pos(tb.Instrs[len(tb.Instrs)-1].Pos())+" goes on to the hand-over"
				}
			}
			// the error edge of a CONTINUE decode: the request is not a CONTINUE, there is no abort flag to honour
			// (and a later decode of the same bytes cannot succeed where this one failed)
			for _, dc := range conts {
				errB, _ := errEdges(dc)
				for _, e := range errB {
					blocked[e] = true
				}
			}
			if good && (len(tests) == 0 || blockReach(fn.Blocks[0], blocked)[s.Block()]) && !blocked[s.Block()] {
				good = false
				if len(tests) == 0 {
					why = "no test of the abort bit (flags & AuthenContinueFlagAbort) of the CONTINUE decoded from this request"
				} else {
					why = "a path reaches the hand-over without passing the abort test"
				}
			}
			r.cond(good, "R-ABORT", key, p.Pos(s.Pos()),
				"before the exchange is handed on ("+shortCall(s)+"), the abort bit of the CONTINUE decoded from this request is tested as a bit and the abort side ends the exchange",
				"a CONTINUE carrying the abort flag can be handed on ("+shortCall(s)+"): "+why+" - an aborted exchange could still end in PASS")
		}
	}
	if n == 0 {
		r.undecided("R-ABORT", "states", "-", "no handler state decoding a CONTINUE and handing the exchange on was found")
	}
}

func isCallValue(v ssa.Value) bool {
	_, ok := v.(*ssa.Call)
	return ok
}
