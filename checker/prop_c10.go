package main

func init() { register("C10", checkC10) }

func checkC10(p *Program, tier string) *Result {
	r := newResult("C10")
	r.Explanation = "Soundness direction ('PASS only if'). R-PROVENANCE: every authentication reply site of the server universe is enumerated with its status constants; exactly one can carry AuthenStatusPass and it is dominated by the success edge of bcrypt.CompareHashAndPassword(configured hash or keychain result of that authenticator, password extracted from this request's own body); the authenticator a session is handed to is GetUser(u).Authenticate with u the START user of this request or the handler object's user name (assigned only from this session's START/CONTINUE), behind the nil test; continuations are bound to the session's own handler object and the password state is entered only with a GETPASS reply. R-ORDER: the authenticator is reached only with a non-empty password; a user whose authenticator factory fails is left out; a group's authenticator is inherited only while the user has none, groups in order; the authenticator factory is called with the Name of the user being built and the loader keeps no map of handlers (a handler, which has its user's name baked in, is never handed to another user). R-NILIFACE/NewAAA defaults: users without authenticator get the default one, whose only reply is FAIL."
	ruleAuthenProvenance(p, r)
	ruleAuthenBinding(p, r)
	ruleEmptyPassword(p, r)
	ruleContinuationStates(p, r)
	ruleAbortFirst(p, r)
	ruleLoaderAuthenticators(p, r)
	ruleAuthenticatorPerUser(p, r)
	ruleDefaultAAA(p, r)
	ruleBuildKeepsConfig(p, r)
	// 'a user that exists in the connection's scope': the handler of a scope sees that scope's own, freshly
	// built user map and nothing else (R-ADMIT, loader clauses)
	sub := newResult("C13")
	ruleBuildScopes(p, sub)
	if r.takeFrom(sub, "R-ADMIT", "users-scoped")+r.takeFrom(sub, "R-ADMIT", "provider-bound-to-its-scope") < 2 {
		r.undecided("R-ADMIT", "users-scoped", "-", "the loader's per-scope user map clauses were not produced")
	}
	r.Trusted = append(r.Trusted, "bcrypt.CompareHashAndPassword returns nil only for the matching password")
	r.Assumptions = append(r.Assumptions, "completeness ('every well-formed login with the right password is answered PASS') is not decided", "GetPassword prefers the START decoding when bytes parse both ways")
	return r
}
