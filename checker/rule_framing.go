package main

import (
	"fmt"
	"go/token"
	"go/types"
	"strings"

	"golang.org/x/tools/go/ssa"
)

// R-FRAMING: reads are read-full on one shared buffered reader; one write per packet.

func isBufioReader(t types.Type) bool {
	return typeIs(t, "bufio", "Reader")
}

// recvFieldLoad: v is a load of field f of the function's receiver (first param).
func recvFieldLoad(fn *ssa.Function, v ssa.Value) (*types.Var, bool) {
	if len(fn.Params) == 0 {
		return nil, false
	}
	f, base, ok := loadedField(v)
	if !ok {
		return nil, false
	}
	if base == ssa.Value(fn.Params[0]) {
		return f, true
	}
	// value receiver spilled: load through local copy of *recv
	return nil, false
}

func ruleFramingReader(p *Program, r *Result) {
	ro := rolesOK(p, r)
	maxBody := int64(65536)
	if c, ok := p.Root().Types.Scope().Lookup("MaxBodyLength").(*types.Const); ok {
		if v, ok := constantInt64(c); ok {
			maxBody = v
		}
	} else {
		r.undecided("R-FRAMING", "anchor:MaxBodyLength", "-", "UNRESOLVED constant tacquito.MaxBodyLength")
	}
	maxHdr := int64(12)
	if c, ok := p.Root().Types.Scope().Lookup("MaxHeaderLength").(*types.Const); ok {
		if v, ok := constantInt64(c); ok {
			maxHdr = v
		}
	} else {
		r.undecided("R-FRAMING", "anchor:MaxHeaderLength", "-", "UNRESOLVED constant tacquito.MaxHeaderLength")
	}
	for _, R := range ro.Readers {
		key := fnKey(R)
		pos := p.Pos(R.Pos())
		// --- every consumer of the connection's buffered reader
		var readFulls []*ssa.Call
		var readerField *types.Var
		fieldsOK := true
		var offenders []string
		for _, b := range R.Blocks {
			for _, in := range b.Instrs {
				c, ok := in.(ssa.CallInstruction)
				if !ok {
					continue
				}
				cc := c.Common()
				usesReader := false
				var viaField *types.Var
				for _, a := range cc.Args {
					if isBufioReader(stripConv(a).Type()) {
						usesReader = true
						if f, ok := recvFieldLoad(R, stripConv(a)); ok {
							viaField = f
						} else {
							fieldsOK = false
						}
					}
				}
				if cc.IsInvoke() && (isNetConn(cc.Value.Type()) && (cc.Method.Name() == "Read")) {
					offenders = append(offenders, fmt.Sprintf("raw %s on the connection at %s", cc.Method.Name(), p.Pos(in.Pos())))
				}
				if !usesReader {
					continue
				}
				if viaField != nil {
					if readerField == nil {
						readerField = viaField
					} else if readerField != viaField {
						fieldsOK = false
					}
				}
				callee := cc.StaticCallee()
				switch {
				case isFuncNamed(callee, "io", "ReadFull"):
					if call, ok := c.(*ssa.Call); ok {
						readFulls = append(readFulls, call)
					}
				case callee != nil && callee.Name() == "ReadBytes" && typeIsRecv(callee, "bufio", "Reader"):
					// proxy-protocol line: allowed only under a boolean field of the receiver and before the header read
				default:
					offenders = append(offenders, fmt.Sprintf("%s at %s", shortCall(c), p.Pos(in.Pos())))
				}
			}
		}
		if len(offenders) > 0 {
			r.bad("R-FRAMING", key+":only-readfull", pos, "the connection's reader is consumed by something other than io.ReadFull: %s: a short read would yield a shortened packet, or bytes would be taken outside the header/body framing", strings.Join(offenders, "; "))
		} else {
			r.ok("R-FRAMING", key+":only-readfull", pos, true, "every consumer of the connection's buffered reader in the stream reader is io.ReadFull (%d calls), apart from the proxy-header line read", len(readFulls))
		}
		r.cond(fieldsOK && readerField != nil, "R-FRAMING", key+":one-reader", pos,
			"all reads go through the same *bufio.Reader field of the connection wrapper",
			"reads do not all go through one *bufio.Reader field of the connection wrapper: bytes buffered by one reader are lost to the other")
		if len(readFulls) != 2 {
			r.bad("R-FRAMING", key+":two-reads", pos, "expected exactly two io.ReadFull calls (header, body), found %d", len(readFulls))
			continue
		}
		hdrRead, bodyRead := readFulls[0], readFulls[1]
		if !domInstr(hdrRead, bodyRead) {
			hdrRead, bodyRead = bodyRead, hdrRead
		}
		// --- header buffer: exactly MaxHeaderLength bytes
		hbuf := hdrRead.Common().Args[1]
		hlen, hok := sliceConstLen(hbuf)
		r.cond(hok && hlen == maxHdr, "R-FRAMING", key+":header-size", p.Pos(hdrRead.Pos()),
			fmt.Sprintf("the first read fills a fresh buffer of exactly %d bytes", maxHdr),
			fmt.Sprintf("the header read does not fill a fresh buffer of exactly %d bytes (found %d, resolved=%v)", maxHdr, hlen, hok))
		// --- length: big-endian uint32 of header bytes 8..11
		bbuf := bodyRead.Common().Args[1]
		ms, _ := bbuf.(*ssa.MakeSlice)
		var lenVal ssa.Value
		if ms != nil {
			lenVal = stripAllConv(ms.Len)
		}
		// one buffer for the whole packet: frame := make([]byte, MaxHeaderLength+length); the body is read into
		// frame[MaxHeaderLength:] and the header bytes are copied to its start
		frameForm := false
		if sl, ok := bbuf.(*ssa.Slice); ok && ms == nil && sl.High == nil {
			if lo, ok := constInt(sl.Low); ok && lo == maxHdr {
				if fm, ok := sl.X.(*ssa.MakeSlice); ok {
					if sum, ok := fm.Len.(*ssa.BinOp); ok && sum.Op == token.ADD {
						var other ssa.Value
						if c, ok := constInt(sum.X); ok && c == maxHdr {
							other = sum.Y
						} else if c, ok := constInt(sum.Y); ok && c == maxHdr {
							other = sum.X
						}
						if other != nil {
							ms, lenVal, frameForm = fm, stripAllConv(other), true
						}
					}
				}
			}
		}
		lenOK := false
		// written out: uint32(h[8])<<24 | uint32(h[9])<<16 | uint32(h[10])<<8 | uint32(h[11])
		if base, off, ok := be32OfOctets(lenVal); ok && off == 8 && (base == hbufBase(hbuf) || base == hbuf) {
			lenOK = true
		}
		if call, ok := lenVal.(*ssa.Call); ok {
			if f := call.Common().StaticCallee(); f != nil && f.Name() == "Uint32" && f.Pkg != nil && f.Pkg.Pkg.Path() == "encoding/binary" && strings.Contains(f.String(), "bigEndian") {
				args := call.Common().Args
				if sl, ok := args[len(args)-1].(*ssa.Slice); ok && sl.X == hbufBase(hbuf) || ok && sl.X == hbuf || ok && copiedAfter(sl.X, hbufBase(hbuf), hdrRead) {
					if lo, ok := constInt(sl.Low); ok && lo == 8 && (sl.High == nil || isConstVal(sl.High, maxHdr)) {
						lenOK = true
					}
				}
			}
		}
		if ms == nil {
			r.bad("R-FRAMING", key+":body-size", p.Pos(bodyRead.Pos()), "the body read does not fill a fresh make([]byte, length) buffer")
			continue
		}
		r.cond(lenOK, "R-FRAMING", key+":length-field", p.Pos(bodyRead.Pos()),
			"the body buffer has exactly binary.BigEndian.Uint32(header[8:]) bytes",
			"the body size is not binary.BigEndian.Uint32(header[8:]) of the header just read")
		// --- oversize test dominates allocation and second read, compares without lossy conversion
		var guard *ssa.If
		guardErrIdx := 0
		for _, b := range R.Blocks {
			iff, ok := b.Instrs[len(b.Instrs)-1].(*ssa.If)
			if !ok {
				continue
			}
			bo, ok := iff.Cond.(*ssa.BinOp)
			if !ok {
				continue
			}
			var x ssa.Value
			var cst int64
			var op token.Token
			if c, ok := constInt(bo.Y); ok {
				x, cst, op = bo.X, c, bo.Op
			} else if c, ok := constInt(bo.X); ok {
				x, cst = bo.Y, c
				switch bo.Op {
				case token.LSS:
					op = token.GTR
				case token.LEQ:
					op = token.GEQ
				default:
					op = bo.Op
				}
			} else {
				continue
			}
			if stripAllConv(x) != lenVal {
				continue
			}
			// error edge is the true edge when "len > Max" / "len >= Max+1", the false edge when the test is
			// written the other way round ("len <= Max" / "len < Max+1")
			switch {
			case (op == token.GTR && cst == maxBody) || (op == token.GEQ && cst == maxBody+1):
				guardErrIdx = 0
			case (op == token.LEQ && cst == maxBody) || (op == token.LSS && cst == maxBody+1):
				guardErrIdx = 1
			default:
				continue
			}
			// comparison must not be after a sign-changing/narrowing conversion
			if !convValuePreserving(x, lenVal, p.Sizes) {
				r.bad("R-ALLOC", key+":oversize-compare-width", p.Pos(iff.Pos()), "the announced length is converted to %s before the limit test; on this configuration (%s) the conversion is not value-preserving for all uint32 values, so a huge length can pass as a negative number", typeName(x.Type()), p.Config)
				continue
			}
			guard = iff
		}
		if guard == nil {
			r.bad("R-FRAMING", key+":oversize-guard", p.Pos(ms.Pos()), "no test 'length > MaxBodyLength' on the announced length (compared at full width) guards the body allocation")
		} else {
			okSucc := guard.Block().Succs[1-guardErrIdx]
			okDom := (okSucc.Dominates(ms.Block()) || okSucc == ms.Block()) && len(okSucc.Preds) == 1
			// error edge: returns without reading again
			errReach := blockReach(guard.Block().Succs[guardErrIdx], nil)
			again := errReach[bodyRead.Block()] || errReach[hdrRead.Block()] || errReach[ms.Block()]
			r.cond(okDom && !again, "R-FRAMING", key+":oversize-guard", p.Pos(guard.Pos()),
				"the oversize test precedes the body allocation and the second read; its error edge returns at once without allocating or reading",
				"the oversize test does not dominate the body allocation, or its error edge goes on to allocate/read")
			r.ok("R-ALLOC", key+":body-alloc-bounded", p.Pos(ms.Pos()), true, "make([]byte, length) is dominated by the false edge of length > %d with length unsigned: 0 <= length <= %d", maxBody, maxBody)
		}
		// --- error edges of both reads return (nil, err)
		for i, rd := range []*ssa.Call{hdrRead, bodyRead} {
			ek := fmt.Sprintf("%s:short-read-is-error#%d", key, i+1)
			errB, _ := errEdges(rd)
			if len(errB) == 0 {
				r.bad("R-FRAMING", ek, p.Pos(rd.Pos()), "the error result of io.ReadFull is not tested: a short read would yield a shortened packet")
				continue
			}
			good := true
			n := 0
			for _, e := range errB {
				for b := range blockReach(e, nil) {
					if b == hdrRead.Block() || b == bodyRead.Block() {
						good = false
					}
					ret, ok := b.Instrs[len(b.Instrs)-1].(*ssa.Return)
					if !ok || len(ret.Results) != 2 {
						continue
					}
					n++
					if !isNilConst(ret.Results[0]) || isNilConst(ret.Results[1]) {
						good = false
					}
				}
			}
			r.cond(good && n > 0, "R-FRAMING", ek, p.Pos(rd.Pos()),
				"every path from the error edge of io.ReadFull returns (nil, non-nil error)",
				"a path from the error edge of io.ReadFull returns a packet or a nil error, or reads on")
		}
		// --- decoded from exactly header ++ body
		var decode *ssa.Call
		for _, c := range allCalls(R) {
			call, ok := c.(*ssa.Call)
			if !ok {
				continue
			}
			f := call.Common().StaticCallee()
			if f == nil || !(f.Name() == "Unmarshal" || f.Name() == "UnmarshalBinary") || f.Pkg == nil || f.Pkg.Pkg.Path() != modPath {
				continue
			}
			if domInstr(bodyRead, call) {
				decode = call
			}
		}
		if decode == nil {
			r.bad("R-FRAMING", key+":decode-input", pos, "the packet is not decoded by Unmarshal/UnmarshalBinary after the body read")
		} else {
			var data ssa.Value
			for _, a := range decode.Common().Args {
				if s, ok := a.Type().Underlying().(*types.Slice); ok {
					if b, ok := s.Elem().Underlying().(*types.Basic); ok && b.Kind() == types.Uint8 {
						data = a
					}
				}
			}
			good := false
			if ap, ok := data.(*ssa.Call); ok {
				if bi, ok := ap.Common().Value.(*ssa.Builtin); ok && bi.Name() == "append" {
					a := ap.Common().Args
					if len(a) == 2 && a[0] == hbuf && a[1] == bbuf {
						good = true
					}
				}
			}
			if frameForm && data == ssa.Value(ms) {
				// the frame is decoded whole; its first MaxHeaderLength bytes are the header bytes, copied in
				// before the decode, and nothing else writes into it
				copies, others := 0, 0
				for _, rf := range refsOf(ms) {
					switch x := rf.(type) {
					case *ssa.Call:
						if bi, ok := x.Common().Value.(*ssa.Builtin); ok && bi.Name() == "copy" && x.Common().Args[0] == ssa.Value(ms) {
							src := x.Common().Args[1]
							if (src == hbuf || hbufBase(src) == hbufBase(hbuf)) && domInstr(x, decode) && domInstr(hdrRead, x) {
								if n, ok := sliceConstLen(src); ok && n == maxHdr {
									copies++
									continue
								}
							}
							others++
						} else if x != decode {
							others++
						}
					case *ssa.Slice:
						if x != bbuf {
							others++
						}
					case *ssa.DebugRef:
					default:
						others++
					}
				}
				good = copies == 1 && others == 0
			}
			r.cond(good, "R-FRAMING", key+":decode-input", p.Pos(decode.Pos()),
				"the packet is decoded from exactly append(headerBytes, bodyBytes...)",
				"the packet is not decoded from exactly the header bytes followed by the body bytes just read")
			// success return yields the decoded packet, guarded by every check
			for _, b := range R.Blocks {
				ret, ok := b.Instrs[len(b.Instrs)-1].(*ssa.Return)
				if !ok || len(ret.Results) != 2 || isNilConst(ret.Results[0]) {
					continue
				}
				rk := key + ":success-return"
				isDecoded := false
				for _, a := range decode.Common().Args {
					if stripConv(a) == ret.Results[0] {
						isDecoded = true
					}
				}
				var why []string
				for _, c := range []*ssa.Call{hdrRead, bodyRead, decode} {
					if g, w := guardedBySuccess(c, ret, nil); !g {
						why = append(why, w)
					}
				}
				if isDecoded && len(why) == 0 {
					r.ok("R-FRAMING", rk, p.Pos(ret.Pos()), true, "the packet returned is the one decoded from these bytes, on the success edges of both reads and of the decode")
				} else {
					r.bad("R-FRAMING", rk, p.Pos(ret.Pos()), "a packet is returned that is not the decoded one (%v) or is not guarded by the success of both reads and the decode: %s", isDecoded, strings.Join(why, "; "))
				}
			}
		}
		// --- the buffered reader is created once, in the constructor, around the connection
		if readerField != nil {
			ruleReaderFieldOnce(p, r, readerField, ro)
		}
	}
	r.floor("R-FRAMING", 9)
}

func hbufBase(v ssa.Value) ssa.Value {
	if s, ok := v.(*ssa.Slice); ok {
		return s.X
	}
	return v
}

// sliceConstLen: v is a []byte of constant length: make([]byte, K) or new [K]byte sliced fully.
func sliceConstLen(v ssa.Value) (int64, bool) {
	switch x := v.(type) {
	case *ssa.MakeSlice:
		return constInt(x.Len)
	case *ssa.Slice:
		if a, ok := x.X.(*ssa.Alloc); ok {
			if pt, ok := a.Type().(*types.Pointer); ok {
				if arr, ok := pt.Elem().Underlying().(*types.Array); ok {
					if x.Low == nil || isZero(x.Low) {
						if x.High == nil {
							return arr.Len(), true
						}
						if h, ok := constInt(x.High); ok {
							return h, true
						}
					}
				}
			}
		}
	}
	return 0, false
}

func isZero(v ssa.Value) bool {
	c, ok := constInt(v)
	return ok && c == 0
}

// convValuePreserving: every conversion between base and x keeps all values of base's type.
func convValuePreserving(x, base ssa.Value, sizes types.Sizes) bool {
	for x != base {
		var inner ssa.Value
		switch c := x.(type) {
		case *ssa.Convert:
			inner = c.X
		case *ssa.ChangeType:
			inner = c.X
		default:
			return false
		}
		if !intTypeContains(x.Type(), inner.Type(), sizes) {
			return false
		}
		x = inner
	}
	return true
}

// intTypeContains: every value of integer type src is representable in dst.
func intTypeContains(dst, src types.Type, sizes types.Sizes) bool {
	db, ok1 := dst.Underlying().(*types.Basic)
	sb, ok2 := src.Underlying().(*types.Basic)
	if !ok1 || !ok2 || db.Info()&types.IsInteger == 0 || sb.Info()&types.IsInteger == 0 {
		return false
	}
	dw, sw := sizes.Sizeof(dst)*8, sizes.Sizeof(src)*8
	dU, sU := db.Info()&types.IsUnsigned != 0, sb.Info()&types.IsUnsigned != 0
	switch {
	case dU == sU:
		return dw >= sw
	case sU && !dU:
		return dw > sw
	default: // signed -> unsigned loses negatives
		return false
	}
}

// ruleReaderFieldOnce: the *bufio.Reader field is only ever set in constructors (functions
// that return the wrapper), to bufio.NewReader*(conn) of the same connection stored in the wrapper.
func ruleReaderFieldOnce(p *Program, r *Result, field *types.Var, ro *Roles) {
	n := 0
	for _, fn := range p.UFuncs() {
		for _, b := range fn.Blocks {
			for _, in := range b.Instrs {
				st, ok := in.(*ssa.Store)
				if !ok {
					continue
				}
				f, base, ok := fieldAddrOf(st.Addr)
				if !ok || f != field {
					continue
				}
				n++
				key := fnKey(fn) + ":reader-created-once"
				_, isFresh := base.(*ssa.Alloc)
				perRead := containsFn(ro.Readers, fn) || containsFn(ro.Loops, fn) || containsFn(ro.Writers, fn)
				call, _ := st.Val.(*ssa.Call)
				wraps := false
				if call != nil {
					if cf := call.Common().StaticCallee(); cf != nil && cf.Pkg != nil && cf.Pkg.Pkg.Path() == "bufio" && strings.HasPrefix(cf.Name(), "NewReader") {
						arg := stripConv(call.Common().Args[0])
						if inner := faithfulReaderOver(p, arg); inner != nil {
							arg = inner
						}
						// the same connection value is stored into the wrapper's net.Conn field
						for _, rf := range refsOf(base) {
							if fa, ok := rf.(*ssa.FieldAddr); ok {
								if f2, _, _ := fieldAddrOf(fa); f2 != nil && isNetConn(f2.Type()) {
									for _, s2 := range refsOf(fa) {
										if st2, ok := s2.(*ssa.Store); ok && stripConv(st2.Val) == arg {
											wraps = true
										}
									}
								}
							}
						}
						// buffer size, when given, must be positive
						if len(call.Common().Args) == 2 {
							if sz, ok := constInt(call.Common().Args[1]); ok && sz <= 0 {
								wraps = false
							}
						}
					}
				}
				if isFresh && !perRead && wraps {
					r.ok("R-FRAMING", key, p.Pos(in.Pos()), true, "the buffered reader is created once per connection wrapper, in its constructor, around the wrapper's own connection")
				} else {
					r.bad("R-FRAMING", key, p.Pos(in.Pos()), "the buffered reader field is assigned outside a constructor (per read: %v, fresh wrapper: %v) or does not wrap the wrapper's own connection (%v): bytes of the next packet buffered during one read would be lost", perRead, isFresh, wraps)
				}
			}
		}
	}
	if n == 0 {
		r.bad("R-FRAMING", "reader-created-once", "-", "no assignment of the buffered reader field found")
	}
}

// ruleFramingWriter: one Write per call, of Packet.MarshalBinary's bytes, after the length store and the pad;
// the only exits without a write are the nil guards and the error edges of pad and marshal.
func ruleFramingWriter(p *Program, r *Result) {
	ro := rolesOK(p, r)
	for _, W := range ro.Writers {
		key := fnKey(W)
		pos := p.Pos(W.Pos())
		var writes []ssa.CallInstruction
		for _, c := range invokesNamed(W, "Write") {
			if isNetConn(c.Common().Value.Type()) {
				writes = append(writes, c)
			}
		}
		if len(writes) != 1 {
			r.bad("R-FRAMING", key+":one-write", pos, "the stream writer must contain exactly one Conn.Write, found %d", len(writes))
			continue
		}
		wr := writes[0]
		// argument: bytes of Packet.MarshalBinary of the packet parameter
		var marshal *ssa.Call
		if call, idx, ok := extractOf(wr.Common().Args[0]); ok && idx == 0 {
			if f := call.Common().StaticCallee(); f != nil && f.Name() == "MarshalBinary" && typeIsRecv(f, modPath, "Packet") {
				marshal = call
			}
		}
		if marshal == nil {
			r.bad("R-FRAMING", key+":write-arg", p.Pos(wr.Pos()), "the bytes written are not the result of Packet.MarshalBinary (header followed by body)")
			continue
		}
		pkt := marshal.Common().Args[0]
		_, isParam := pkt.(*ssa.Parameter)
		r.cond(isParam, "R-FRAMING", key+":write-arg", p.Pos(wr.Pos()),
			"the single Conn.Write sends Packet.MarshalBinary() of the packet given to the writer: header followed by body in one call",
			"the packet marshalled is not the one given to the writer")
		// pad call
		var pad *ssa.Call
		for _, c := range allCalls(W) {
			if call, ok := c.(*ssa.Call); ok && containsFn(ro.PadFns, call.Common().StaticCallee()) {
				pad = call
			}
		}
		if pad == nil {
			r.bad("R-FRAMING", key+":pad-before-marshal", pos, "the writer does not call the pad function")
			continue
		}
		g1, w1 := guardedBySuccess(marshal, wr, nil)
		g2, w2 := guardedBySuccess(pad, wr, nil)
		r.cond(g1 && g2 && domInstr(pad, marshal), "R-FRAMING", key+":pad-before-marshal", p.Pos(pad.Pos()),
			"Conn.Write is dominated by the success edges of the pad function and of MarshalBinary (in that order): nothing is written for a packet that does not marshal (e.g. sequence number 256)",
			"Conn.Write is not guarded by the success of pad and marshal: "+w1+" "+w2)
		// length store
		var lenStore *ssa.Store
		for _, b := range W.Blocks {
			for _, in := range b.Instrs {
				st, ok := in.(*ssa.Store)
				if !ok {
					continue
				}
				f, hb, ok := fieldAddrOf(st.Addr)
				if !ok || f.Name() != "Length" || !typeIs(hb.Type(), modPath, "Header") {
					continue
				}
				// value: uint32(len(p.Body))
				if cv, ok := st.Val.(*ssa.Convert); ok {
					if call, ok := cv.X.(*ssa.Call); ok {
						if bi, ok := call.Common().Value.(*ssa.Builtin); ok && bi.Name() == "len" {
							if fb, base, ok := loadedField(call.Common().Args[0]); ok && fb.Name() == "Body" && base == pkt {
								lenStore = st
							}
						}
					}
				}
			}
		}
		if lenStore == nil {
			r.bad("R-FRAMING", key+":length-store", pos, "the writer does not set Header.Length = uint32(len(Body)) of the packet it sends")
		} else {
			r.cond(domInstr(lenStore, pad) && domInstr(lenStore, marshal), "R-FRAMING", key+":length-store", p.Pos(lenStore.Pos()),
				"Header.Length is overwritten with len(Body) before the pad is computed and before the packet is marshalled",
				"the Header.Length store does not precede both the pad function and MarshalBinary")
		}
		// exits without write
		blocked := map[*ssa.BasicBlock]bool{wr.Block(): true}
		for _, c := range []*ssa.Call{pad, marshal} {
			eb, _ := errEdges(c)
			for _, b := range eb {
				blocked[b] = true
			}
		}
		nGuards := 0
		for _, b := range W.Blocks {
			iff, ok := b.Instrs[len(b.Instrs)-1].(*ssa.If)
			if !ok {
				continue
			}
			bo, ok := iff.Cond.(*ssa.BinOp)
			if !ok || bo.Op != token.EQL || !isNilConst(bo.Y) {
				continue
			}
			x := bo.X
			if x == pkt {
				blocked[b.Succs[0]] = true
				nGuards++
			} else if f, base, ok := loadedField(x); ok && base == pkt && (f.Name() == "Body" || f.Name() == "Header") {
				blocked[b.Succs[0]] = true
				nGuards++
			}
		}
		var leak *ssa.BasicBlock
		for b := range blockReach(W.Blocks[0], blocked) {
			if _, ok := b.Instrs[len(b.Instrs)-1].(*ssa.Return); ok {
				leak = b
			}
		}
		if leak == nil {
			r.ok("R-FRAMING", key+":no-silent-drop", pos, true, "every return that does not pass Conn.Write lies behind a nil guard of the packet (%d) or on the error edge of the pad function or of MarshalBinary: the writer never drops a marshalable packet", nGuards)
		} else {
			r.bad("R-FRAMING", key+":no-silent-drop", p.Pos(leak.Instrs[len(leak.Instrs)-1].Pos()), "the writer can return at %s without writing although the packet is non-nil and pad and marshal did not fail: an accepted request would get no reply", blockLabel(p, leak))
		}
	}
}

// ruleConnWhoMayCall: only the stream reader reads and only the stream writer writes the served connection.
func ruleConnWhoMayCall(p *Program, r *Result) {
	ro := rolesOK(p, r)
	wrapper := wrapperType(p, ro)
	n := 0
	for _, fn := range p.UnitsIn(func(path string) bool { return path == modPath }) {
		for _, c := range allCalls(fn) {
			cc := c.Common()
			var on ssa.Value
			var m string
			if cc.IsInvoke() {
				on, m = cc.Value, cc.Method.Name()
			} else if f := cc.StaticCallee(); f != nil && f.Signature.Recv() != nil && len(cc.Args) > 0 {
				on, m = cc.Args[0], f.Name()
			} else {
				continue
			}
			isConnOfWrapper := false
			if isNetConn(on.Type()) || isBufioReader(on.Type()) {
				if f, base, ok := loadedField(on); ok && wrapper != nil && namedOf(base.Type()) == wrapper {
					_ = f
					isConnOfWrapper = true
				}
			}
			if !isConnOfWrapper {
				continue
			}
			switch {
			case m == "Write" && isNetConn(on.Type()):
				n++
				r.cond(containsFn(ro.Writers, fn) && len(ro.Writers) == 1, "R-FRAMING", "who-writes:"+fnKey(fn), p.Pos(c.Pos()),
					"Conn.Write on a served connection occurs only in the stream writer",
					"a function other than the single stream writer writes to the served connection (bypasses length, obfuscation and one-write-per-packet)")
			case strings.HasPrefix(m, "Read") || m == "Peek" || m == "Discard" || m == "WriteTo":
				n++
				r.cond(containsFn(ro.Readers, fn), "R-FRAMING", "who-reads:"+fnKey(fn)+":"+m, p.Pos(c.Pos()),
					"the connection's reader is consumed only inside the stream reader",
					"a function other than the stream reader consumes bytes of the served connection")
			}
		}
	}
	_ = n
}

// wrapperType: the named struct type embedding net.Conn that the reader is a method of.
func wrapperType(p *Program, ro *Roles) *types.Named {
	for _, R := range ro.Readers {
		if R.Signature.Recv() != nil {
			return namedOf(R.Signature.Recv().Type())
		}
	}
	return nil
}

// faithfulReaderOver: arg is a freshly built struct whose Read method forwards to the Read of one of its
// fields with the same buffer and returns that call's results unchanged (a deadline or metrics wrapper);
// the value stored into that field is returned, else nil.
func faithfulReaderOver(p *Program, arg ssa.Value) ssa.Value {
	var A *ssa.Alloc
	switch x := arg.(type) {
	case *ssa.Alloc:
		A = x
	case *ssa.UnOp:
		if x.Op == token.MUL {
			A, _ = x.X.(*ssa.Alloc)
		}
	}
	if A == nil {
		return nil
	}
	T := A.Type().(*types.Pointer).Elem()
	named, ok := T.(*types.Named)
	if !ok {
		return nil
	}
	var rd *ssa.Function
	for _, t := range []types.Type{named, types.NewPointer(named)} {
		if sel := p.SSA.MethodSets.MethodSet(t).Lookup(named.Obj().Pkg(), "Read"); sel != nil {
			rd = p.SSA.MethodValue(sel)
			break
		}
	}
	if rd == nil || len(rd.Blocks) == 0 || len(rd.Params) != 2 {
		return nil
	}
	var fwd *ssa.Call
	for _, c := range invokesNamed(rd, "Read") {
		call, ok := c.(*ssa.Call)
		if !ok || fwd != nil {
			return nil
		}
		fwd = call
	}
	if fwd == nil || len(fwd.Common().Args) != 1 || fwd.Common().Args[0] != ssa.Value(rd.Params[1]) {
		return nil
	}
	fld, base, ok := loadedField(fwd.Common().Value)
	if !ok {
		return nil
	}
	if base != ssa.Value(rd.Params[0]) {
		if al, ok := base.(*ssa.Alloc); !ok || !isParamSpill(al) {
			return nil
		}
	}
	for _, b := range rd.Blocks {
		ret, ok := b.Instrs[len(b.Instrs)-1].(*ssa.Return)
		if !ok || b == rd.Recover {
			continue
		}
		if len(ret.Results) != 2 {
			return nil
		}
		for i, res := range ret.Results {
			ex, ok := res.(*ssa.Extract)
			if !ok || ex.Tuple != ssa.Value(fwd) || ex.Index != i {
				return nil
			}
		}
	}
	// what the constructor put into that field
	var inner ssa.Value
	for _, rf := range refsOf(A) {
		fa, ok := rf.(*ssa.FieldAddr)
		if !ok {
			continue
		}
		f2, _, _ := fieldAddrOf(fa)
		if f2 != fld {
			continue
		}
		for _, s2 := range refsOf(fa) {
			if st, ok := s2.(*ssa.Store); ok && st.Addr == ssa.Value(fa) {
				if inner != nil {
					return nil
				}
				inner = stripConv(st.Val)
			}
		}
	}
	return inner
}

// be32OfOctets: v is the big-endian combination of four consecutive octets of one array/slice,
// uint32(b[k])<<24 | uint32(b[k+1])<<16 | uint32(b[k+2])<<8 | uint32(b[k+3]); returns b and k.
func be32OfOctets(v ssa.Value) (ssa.Value, int64, bool) {
	terms := map[int64]int64{} // shift -> index
	var base ssa.Value
	ok := true
	var walk func(x ssa.Value)
	walk = func(x ssa.Value) {
		if bo, isB := x.(*ssa.BinOp); isB && (bo.Op == token.OR || bo.Op == token.ADD) {
			walk(bo.X)
			walk(bo.Y)
			return
		}
		shift := int64(0)
		if bo, isB := x.(*ssa.BinOp); isB && bo.Op == token.SHL {
			c, okc := constInt(bo.Y)
			if !okc {
				ok = false
				return
			}
			shift, x = c, bo.X
		}
		cv, isCv := x.(*ssa.Convert)
		if !isCv {
			ok = false
			return
		}
		u, isU := cv.X.(*ssa.UnOp)
		if !isU || u.Op != token.MUL {
			ok = false
			return
		}
		ia, isIA := u.X.(*ssa.IndexAddr)
		if !isIA {
			ok = false
			return
		}
		k, okk := constInt(ia.Index)
		if !okk {
			ok = false
			return
		}
		b := ia.X
		if base != nil && base != b {
			ok = false
			return
		}
		base = b
		if _, dup := terms[shift]; dup {
			ok = false
		}
		terms[shift] = k
	}
	walk(v)
	if !ok || len(terms) != 4 || base == nil {
		return nil, 0, false
	}
	k0, has := terms[24]
	if !has || terms[16] != k0+1 || terms[8] != k0+2 || terms[0] != k0+3 {
		return nil, 0, false
	}
	return base, k0, true
}

func isConstVal(v ssa.Value, want int64) bool {
	c, ok := constInt(v)
	return ok && c == want
}

// copiedAfter: dst is a local array whose only store is a copy of the whole array src, loaded after instruction
// `after` (a header array handed by value to a helper that was folded in).
func copiedAfter(dst, src ssa.Value, after ssa.Instruction) bool {
	a, ok := dst.(*ssa.Alloc)
	if !ok {
		return false
	}
	sts := allocStores(a)
	if len(sts) != 1 {
		return false
	}
	u, ok := sts[0].Val.(*ssa.UnOp)
	if !ok || u.Op != token.MUL || u.X != src {
		return false
	}
	// nothing else writes into the copy
	for _, rf := range refsOf(a) {
		switch x := rf.(type) {
		case *ssa.Store, *ssa.Slice, *ssa.DebugRef:
		case *ssa.IndexAddr:
			for _, r2 := range refsOf(x) {
				if st, ok := r2.(*ssa.Store); ok && st.Addr == ssa.Value(x) {
					return false
				}
			}
		case *ssa.UnOp:
		default:
			return false
		}
	}
	return domInstr(after, u)
}
