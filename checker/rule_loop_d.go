package main

import (
	"fmt"
	"go/token"
	"go/types"

	"golang.org/x/tools/go/ssa"
)

// containsBuiltin reports whether fn calls the named builtin.
// containsBuiltin: every path through fn executes the builtin, directly or in a statically called helper
// (three levels deep).
func containsBuiltin(fn *ssa.Function, name string) bool {
	return mustRunBuiltin(fn, name, 3)
}

func mayRunBuiltin(fn *ssa.Function, name string, depth int) bool {
	if fn == nil || depth == 0 {
		return false
	}
	for _, c := range allCalls(fn) {
		if b, ok := c.Common().Value.(*ssa.Builtin); ok && b.Name() == name {
			return true
		}
		if g := c.Common().StaticCallee(); g != nil && g != fn && mayRunBuiltin(g, name, depth-1) {
			return true
		}
	}
	return false
}

func mustRunBuiltin(fn *ssa.Function, name string, depth int) bool {
	if fn == nil || len(fn.Blocks) == 0 || depth == 0 {
		return false
	}
	does := func(b *ssa.BasicBlock) bool {
		for _, in := range b.Instrs {
			c, ok := in.(*ssa.Call)
			if !ok {
				continue
			}
			if bi, ok := c.Common().Value.(*ssa.Builtin); ok && bi.Name() == name {
				return true
			}
			if g := c.Common().StaticCallee(); g != nil && g != fn && mustRunBuiltin(g, name, depth-1) {
				return true
			}
		}
		return false
	}
	seen := map[*ssa.BasicBlock]bool{}
	var walk func(b *ssa.BasicBlock) bool
	walk = func(b *ssa.BasicBlock) bool {
		if seen[b] {
			return true
		}
		seen[b] = true
		if does(b) {
			return true
		}
		if len(b.Succs) == 0 {
			if _, isRet := b.Instrs[len(b.Instrs)-1].(*ssa.Return); isRet {
				// leaving without the delete is fine where a lookup has just said the key is absent
				if name == "delete" && behindMissOfParamKey(fn, b) {
					return true
				}
				return false
			}
			return true // panic exit
		}
		for _, s := range b.Succs {
			if !walk(s) {
				return false
			}
		}
		return true
	}
	return walk(fn.Blocks[0])
}

// mustCallBefore: every path from block start to any block in stop passes a call satisfying pred.
func mustCallBefore(start *ssa.BasicBlock, stop map[*ssa.BasicBlock]bool, pred func(ssa.CallInstruction) bool) bool {
	seen := map[*ssa.BasicBlock]bool{}
	okAll := true
	var walk func(b *ssa.BasicBlock)
	walk = func(b *ssa.BasicBlock) {
		if seen[b] || !okAll {
			return
		}
		seen[b] = true
		for _, in := range b.Instrs {
			if c, ok := in.(ssa.CallInstruction); ok && pred(c) {
				return // satisfied on this path
			}
		}
		if stop[b] {
			okAll = false
			return
		}
		if len(b.Succs) == 0 {
			// return: the table dies with the connection; nothing is retained
			return
		}
		for _, s := range b.Succs {
			walk(s)
		}
	}
	walk(start)
	return okAll
}

// R-LOOP (d): after the handler, the session is deleted when no continuation was registered
// and updated with (reply header, continuation) otherwise.
func ruleLoopSessionUpdate(p *Program, r *Result, L *ssa.Function, handles []ssa.CallInstruction, lookups []*ssa.Call) {
	key := fnKey(L)
	if len(lookups) == 0 {
		r.undecided("R-LOOP", key+":d:lookup", p.Pos(L.Pos()), "no session lookup found")
		return
	}
	var table ssa.Value
	if args := lookups[0].Common().Args; len(args) > 0 {
		table = args[0]
	}
	stop := map[*ssa.BasicBlock]bool{}
	for _, c := range allCalls(L) {
		if call, ok := c.(*ssa.Call); ok && containsFn(p.Roles().Readers, call.Common().StaticCallee()) {
			stop[call.Block()] = true
		}
	}
	for i, h := range handles {
		dk := fmt.Sprintf("%s:d#%d", key, i+1)
		respAlloc, _ := canonObject(stripConv(h.Common().Args[0])).(*ssa.Alloc)
		if respAlloc == nil {
			r.undecided("R-LOOP", dk, p.Pos(h.Pos()), "response is not a local allocation")
			continue
		}
		// the test on the continuation field after the handler
		var test *ssa.If
		var nilSucc, nonNilSucc *ssa.BasicBlock
		for _, b := range L.Blocks {
			iff, ok := b.Instrs[len(b.Instrs)-1].(*ssa.If)
			if !ok {
				continue
			}
			bo, ok := iff.Cond.(*ssa.BinOp)
			if !ok || (bo.Op != token.EQL && bo.Op != token.NEQ) {
				continue
			}
			var x ssa.Value
			if isNilConst(bo.Y) {
				x = bo.X
			} else if isNilConst(bo.X) {
				x = bo.Y
			} else {
				continue
			}
			f, base, ok := loadedField(x)
			if !ok || canonObject(base) != ssa.Value(respAlloc) || !typeIs(f.Type(), modPath, "Handler") {
				continue
			}
			if !domInstr(h, iff) {
				continue
			}
			test = iff
			if bo.Op == token.EQL {
				nilSucc, nonNilSucc = b.Succs[0], b.Succs[1]
			} else {
				nilSucc, nonNilSucc = b.Succs[1], b.Succs[0]
			}
		}
		if test == nil {
			r.bad("R-LOOP", dk+":test", p.Pos(h.Pos()), "after the handler the loop does not test whether a continuation was registered on this response")
			continue
		}
		// the test must be on every path from the handler to the next read
		onAll := mustCallBefore(h.Block(), stop, func(c ssa.CallInstruction) bool { return false }) // placeholder false: handled below
		_ = onAll
		isRemover := func(c ssa.CallInstruction) bool {
			f := c.Common().StaticCallee()
			if f == nil || f.Blocks == nil || len(c.Common().Args) < 2 || !sameObjectValue(c.Common().Args[0], table) {
				return false
			}
			return containsBuiltin(f, "delete")
		}
		var updArgs []ssa.Value
		var updFn *ssa.Function
		isUpdater := func(c ssa.CallInstruction) bool {
			f := c.Common().StaticCallee()
			if f == nil || f.Blocks == nil || len(c.Common().Args) != 3 || !sameObjectValue(c.Common().Args[0], table) {
				return false
			}
			a := c.Common().Args
			if !typeIs(a[1].Type(), modPath, "Header") || !typeIs(a[2].Type(), modPath, "Handler") {
				return false
			}
			if mayRunBuiltin(f, "delete", 3) {
				return false
			}
			updArgs = a
			updFn = f
			return true
		}
		del := mustCallBefore(nilSucc, stop, isRemover)
		r.cond(del, "R-LOOP", dk+":delete-when-no-continuation", p.Pos(h.Pos()),
			"on the 'no continuation' edge every path to the next read removes the session from the table (nothing of a finished session is retained)",
			"on the 'no continuation' edge a path reaches the next read without deleting the session: a finished session keeps its entry and its last sequence number")
		upd := mustCallBefore(nonNilSucc, stop, isUpdater)
		if !upd {
			r.bad("R-LOOP", dk+":update-when-continuation", p.Pos(h.Pos()), "on the 'continuation registered' edge a path reaches the next read without updating the session entry")
			continue
		}
		r.ok("R-LOOP", dk+":update-when-continuation", p.Pos(h.Pos()), true, "on the 'continuation registered' edge every path to the next read updates the session entry")
		// arguments: header = the response's stored header (advanced by Reply), next = the response's continuation
		fh, bh, okh := loadedField(updArgs[1])
		fn, bn, okn := loadedField(updArgs[2])
		argsOK := okh && okn && canonObject(bh) == ssa.Value(respAlloc) && canonObject(bn) == ssa.Value(respAlloc) && typeIs(fh.Type(), modPath, "Header") && typeIs(fn.Type(), modPath, "Handler")
		r.cond(argsOK, "R-LOOP", dk+":update-args", p.Pos(h.Pos()),
			"the entry is updated with the response's own header (the reply header after Reply) and the response's own continuation",
			"the session entry is not updated with (response header, response continuation): the stored sequence number or continuation would be another one's")
		// updater body
		if updFn != nil {
			ruleSessionUpdater(p, r, p.view(updFn))
		}
	}
}

// ruleSessionUpdater: update(h, n) stores h and n into the entry found under h.SessionID.
func ruleSessionUpdater(p *Program, r *Result, f *ssa.Function) {
	key := fnKey(f) + ":updater-body"
	if len(f.Params) != 3 {
		r.undecided("R-LOOP", key, p.Pos(f.Pos()), "unexpected arity")
		return
	}
	hParam, nParam := f.Params[1], f.Params[2]
	var elem ssa.Value
	keyOK := false
	for _, b := range f.Blocks {
		for _, in := range b.Instrs {
			if lk, ok := in.(*ssa.Lookup); ok {
				if _, isMap := lk.X.Type().Underlying().(*types.Map); isMap {
					if isFieldOfParam(lk.Index, hParam, "SessionID") {
						keyOK = true
						for _, rf := range refsOf(lk) {
							if e, ok := rf.(*ssa.Extract); ok && e.Index == 0 {
								elem = e
							}
						}
						if !lk.CommaOk {
							elem = lk
						}
					}
				}
			}
		}
	}
	if !keyOK || elem == nil {
		r.bad("R-LOOP", key, p.Pos(f.Pos()), "the updater does not look the entry up under the session id of the header it is given")
		return
	}
	hdrStored, nextStored := false, false
	for _, b := range f.Blocks {
		for _, in := range b.Instrs {
			st, ok := in.(*ssa.Store)
			if !ok {
				continue
			}
			fld, base, ok := fieldAddrOf(st.Addr)
			if !ok || base != elem {
				continue
			}
			if typeIs(fld.Type(), modPath, "Header") && copyOfParam(st.Val, hParam) {
				hdrStored = true
			}
			if typeIs(fld.Type(), modPath, "Handler") && st.Val == ssa.Value(nParam) {
				nextStored = true
			}
		}
	}
	r.cond(hdrStored && nextStored, "R-LOOP", key, p.Pos(f.Pos()),
		"the updater stores the given header and continuation into the entry found under that header's session id",
		fmt.Sprintf("the updater does not store the given header (%v) and continuation (%v) into the entry of that session", hdrStored, nextStored))
}

// isFieldOfParam: v is a load of param.<name> (param possibly spilled to a local).
func isFieldOfParam(v ssa.Value, param *ssa.Parameter, name string) bool {
	f, base, ok := loadedField(v)
	if !ok || f.Name() != name {
		return false
	}
	return isParamOrSpill(base, param)
}

func isParamOrSpill(v ssa.Value, param *ssa.Parameter) bool {
	if v == ssa.Value(param) {
		return true
	}
	if a, ok := v.(*ssa.Alloc); ok {
		st := allocStores(a)
		if len(st) != 1 || !spillUnmodified(a) {
			return false
		}
		if st[0].Val == ssa.Value(param) {
			return true
		}
		// a copy of a copy: the by-value parameter of a folded helper, initialised from the caller's own copy
		if u, ok := st[0].Val.(*ssa.UnOp); ok && u.Op == token.MUL {
			if a2, ok := u.X.(*ssa.Alloc); ok && a2 != a {
				return isParamOrSpill(a2, param)
			}
		}
	}
	return false
}

// spillUnmodified: the local copy of a parameter is only read: no field of it is stored to and its address
// is not handed out.
func spillUnmodified(a *ssa.Alloc) bool {
	for _, rf := range refsOf(a) {
		switch x := rf.(type) {
		case *ssa.Store:
			if x.Addr != ssa.Value(a) {
				return false
			}
		case *ssa.UnOp, *ssa.DebugRef:
		case *ssa.FieldAddr:
			for _, rr := range refsOf(x) {
				switch y := rr.(type) {
				case *ssa.UnOp, *ssa.DebugRef:
				case *ssa.FieldAddr:
					for _, r3 := range refsOf(y) {
						if _, ok := r3.(*ssa.UnOp); !ok {
							if _, ok := r3.(*ssa.DebugRef); !ok {
								return false
							}
						}
					}
				default:
					return false
				}
			}
		default:
			return false
		}
	}
	return true
}

// copyOfParam: v is the parameter or a load of its spill.
func copyOfParam(v ssa.Value, param *ssa.Parameter) bool {
	if v == ssa.Value(param) {
		return true
	}
	if u, ok := v.(*ssa.UnOp); ok && u.Op == token.MUL {
		return isParamOrSpill(u.X, param)
	}
	return false
}

// behindMissOfParamKey: block b is reached only through the 'absent' edge of a comma-ok lookup, in a map,
// under a key that is a parameter of fn (or a field of one).
func behindMissOfParamKey(fn *ssa.Function, b *ssa.BasicBlock) bool {
	for _, blk := range fn.Blocks {
		for _, in := range blk.Instrs {
			lk, ok := in.(*ssa.Lookup)
			if !ok || !lk.CommaOk {
				continue
			}
			if _, isMap := lk.X.Type().Underlying().(*types.Map); !isMap {
				continue
			}
			isParamKey := false
			for _, pr := range fn.Params {
				if lk.Index == ssa.Value(pr) {
					isParamKey = true
				}
				if f, base, ok := loadedField(lk.Index); ok && f != nil && isParamOrSpill(base, pr) {
					isParamKey = true
				}
			}
			if !isParamKey {
				continue
			}
			for _, rf := range refsOf(lk) {
				if e, ok := rf.(*ssa.Extract); ok && e.Index == 1 && behindFalseEdge(e, b) {
					return true
				}
			}
		}
	}
	return false
}
