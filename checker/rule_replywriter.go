package main

import (
	"go/types"

	"golang.org/x/tools/go/ssa"
)

// R-REPLYWRITER (C18): the packet writers handed to Response.Reply (the interface whose Write(ctx, []byte) the reply
// path calls for every writer registered, e.g. the handlers' packet logger) decode what they are given and record every
// field as it is: they were written for replies, which carry no password. They are therefore fed by the reply path
// only: no code outside the library's own reply loop calls Write of a value of that interface type, or of a module type
// that implements it. A request handed to one of them (to "keep the exchange complete in the packet log") puts the
// PAP data field or the ASCII user-msg into the log in clear.
func ruleReplyWriter(p *Program, r *Result) {
	// the interface: the element type of the slice parameter of the variadic reply method / the writers field
	var iface *types.Named
	if n := p.lookupType("", "Writer"); n != nil {
		if _, ok := n.Underlying().(*types.Interface); ok {
			iface = n
		}
	}
	if iface == nil {
		r.undecided("R-REPLYWRITER", "interface", "-", "UNRESOLVED: the reply writer interface of the root package")
		return
	}
	it := iface.Underlying().(*types.Interface)
	nImpl, nCalls := 0, 0
	// a recording writer hands what it decoded to the logger's Record (a writer that forwards the bytes to a connection,
	// such as the span mirror, does not, and may be handed requests)
	var records func(f *ssa.Function, d int, seen map[*ssa.Function]bool) bool
	records = func(f *ssa.Function, d int, seen map[*ssa.Function]bool) bool {
		if f == nil || f.Blocks == nil || d == 0 || seen[f] {
			return false
		}
		seen[f] = true
		for _, c := range allCalls(f) {
			cc := c.Common()
			name := ""
			if cc.IsInvoke() {
				name = cc.Method.Name()
			} else if g := cc.StaticCallee(); g != nil {
				name = g.Name()
				if g.Pkg != nil && isModulePath(g.Pkg.Pkg.Path()) && records(g, d-1, seen) {
					return true
				}
			}
			if name == "Record" || name == "RecordCtx" {
				return true
			}
		}
		return false
	}
	isImpl := func(fn *ssa.Function) bool {
		return fn.Name() == "Write" && fn.Signature.Recv() != nil && fn.Pkg != nil && isModulePath(fn.Pkg.Pkg.Path()) && !p.isTestFile(fn.Pos()) &&
			isByteWriterSig(fn.Signature) && types.Implements(fn.Signature.Recv().Type(), it)
	}
	recording := map[*ssa.Function]bool{}
	anyRecording := false
	for _, fn := range p.UFuncs() {
		if isImpl(fn) && records(fn, 4, map[*ssa.Function]bool{}) {
			recording[fn] = true
			anyRecording = true
		}
	}
	// promoted through an embedded interface value: the wrapper forwards to whatever implementation is embedded
	forwards := func(g *ssa.Function) bool {
		if g == nil || g.Blocks == nil {
			return false
		}
		for _, c := range allCalls(g) {
			if cc := c.Common(); cc.IsInvoke() && cc.Method.Name() == "Write" && types.Identical(cc.Value.Type(), iface) {
				return true
			}
		}
		return false
	}
	for _, fn := range p.UFuncs() {
		if p.isTestFile(fn.Pos()) {
			continue
		}
		if fn.Name() == "Write" && fn.Signature.Recv() != nil && fn.Pkg != nil && isModulePath(fn.Pkg.Pkg.Path()) && types.Implements(fn.Signature.Recv().Type(), it) {
			nImpl++
		}
		inRoot := fn.Pkg != nil && fn.Pkg.Pkg.Path() == modPath
		for _, c := range allCalls(fn) {
			cc := c.Common()
			hit := false
			if cc.IsInvoke() {
				hit = cc.Method.Name() == "Write" && types.Identical(cc.Value.Type(), iface) && anyRecording
			} else if g := cc.StaticCallee(); g != nil && g.Name() == "Write" && g.Signature.Recv() != nil && g.Pkg != nil && isModulePath(g.Pkg.Pkg.Path()) {
				hit = types.Implements(g.Signature.Recv().Type(), it) && isByteWriterSig(g.Signature) && (recording[g] || (anyRecording && forwards(g)))
			}
			if !hit {
				continue
			}
			nCalls++
			if inRoot && cc.IsInvoke() {
				r.ok("R-REPLYWRITER", fnKey(fn)+":reply-loop", p.Pos(c.Pos()), false, "the library's reply path calls Write of every registered writer with the bytes of the reply")
				continue
			}
			r.bad("R-REPLYWRITER", fnKey(fn)+":fed-outside-the-reply-path", p.Pos(c.Pos()),
				"a reply writer (%s) is called directly from %s: these writers decode what they are given and record every field unobscured - they are fed by Response.Reply with replies only; a request handed to one puts the PAP data / ASCII user-msg into the log in clear", typeName(iface), fnKey(fn))
		}
	}
	if nImpl == 0 || nCalls == 0 || !anyRecording {
		r.undecided("R-REPLYWRITER", "sites", "-", "expected module implementations of the reply writer interface and the reply loop that calls them; found %d implementations, %d calls", nImpl, nCalls)
	}
}

func isByteWriterSig(sig *types.Signature) bool {
	if sig.Params().Len() != 2 {
		return false
	}
	return isByteSlice(sig.Params().At(1).Type())
}

var _ = ssa.Value(nil)
