package main

import (
	"go/types"

	"golang.org/x/tools/go/ssa"
)

// R-SCOPEWINS: in the session authorizer the connection's scope, injected as an argument,
// takes precedence over anything the client sent under the same attribute name.
// Structure: (1) the scope argument is appended at the END of the request's arguments;
// (2) the matcher's attribute->value map is filled in argument order by an UNCONDITIONAL
// map update (last occurrence wins). A "first wins" fill lets a client-supplied scope shadow the real one.
func ruleScopeWins(p *Program, r *Result) {
	nInject, nFill := 0, 0
	for _, fn := range authorizerFuncs(p) {
		for _, b := range fn.Blocks {
			for _, in := range b.Instrs {
				// (1) append(args, Arg(GetLocalizedScope()))
				if call, ok := in.(*ssa.Call); ok {
					if bi, ok := call.Common().Value.(*ssa.Builtin); ok && bi.Name() == "append" && len(call.Common().Args) == 2 {
						if elems, ok := varargElems(call.Common().Args[1]); ok && len(elems) == 1 {
							if sc, ok := stripAllConv(elems[0]).(*ssa.Call); ok {
								if f := sc.Common().StaticCallee(); f != nil && f.Name() == "GetLocalizedScope" {
									nInject++
									f0, _, ok0 := loadedField(call.Common().Args[0])
									r.cond(ok0 && f0.Name() == "Args", "R-SCOPEWINS", fnKey(fn)+":scope-appended-last", p.Pos(call.Pos()),
										"the connection's scope is appended after the client's arguments",
										"the connection's scope is not appended to the end of the client's arguments")
								}
							}
						}
					}
				}
				// (2) kvs[a] = v inside a range over the arguments
				mu, ok := in.(*ssa.MapUpdate)
				if !ok {
					continue
				}
				a, ok := mu.Map.(*ssa.MakeMap)
				if !ok {
					continue
				}
				mt, _ := a.Type().Underlying().(*types.Map)
				if mt == nil {
					continue
				}
				kb, ok1 := mt.Key().Underlying().(*types.Basic)
				vb, ok2 := mt.Elem().Underlying().(*types.Basic)
				if !ok1 || !ok2 || kb.Kind() != types.String || vb.Kind() != types.String {
					continue
				}
				// key and value come from Arg.ASV()
				ks, _, okk := extractOf(mu.Key)
				if !okk || ks.Common().StaticCallee() == nil || ks.Common().StaticCallee().Name() != "ASV" {
					continue
				}
				nFill++
				// unconditional within the loop body: the update's block is the loop body block entered from the loop head,
				// i.e. it is not control-dependent on a lookup of the same map
				dependsOnLookup := false
				for _, bb := range fn.Blocks {
					iff, ok := bb.Instrs[len(bb.Instrs)-1].(*ssa.If)
					if !ok {
						continue
					}
					// the branch lies between the ASV() call of this iteration and the update
					if !(ks.Block() == bb || ks.Block().Dominates(bb)) || !(bb == mu.Block() || bb.Dominates(mu.Block())) || bb == mu.Block() {
						continue
					}
					if condFromLookupOf(iff.Cond, a, 4) {
						dependsOnLookup = true
					}
				}
				r.cond(!dependsOnLookup, "R-SCOPEWINS", fnKey(fn)+":last-occurrence-wins", p.Pos(mu.Pos()),
					"the attribute map is filled by an unconditional assignment in argument order: the last occurrence (the injected connection scope) wins",
					"the attribute map keeps an earlier occurrence when the key is already present (first wins): a client-supplied scope attribute shadows the connection's scope and services of another scope are returned")
			}
		}
	}
	if nInject == 0 {
		r.bad("R-SCOPEWINS", "scope-injected", "-", "the session authorizer no longer injects the connection's scope into the arguments it evaluates")
	}
	if nFill == 0 {
		r.undecided("R-SCOPEWINS", "attribute-map", "-", "the matcher's attribute map fill (kvs[a] = v over Arg.ASV()) was not found: the precedence of the connection's scope is undecided")
	}
}

// condFromLookupOf: the condition is computed from a lookup in map m.
func condFromLookupOf(v ssa.Value, m ssa.Value, depth int) bool {
	if depth == 0 {
		return false
	}
	switch x := v.(type) {
	case *ssa.Lookup:
		return x.X == m
	case *ssa.Extract:
		return condFromLookupOf(x.Tuple, m, depth-1)
	case *ssa.BinOp:
		return condFromLookupOf(x.X, m, depth-1) || condFromLookupOf(x.Y, m, depth-1)
	case *ssa.UnOp:
		return condFromLookupOf(x.X, m, depth-1)
	case *ssa.Call:
		for _, a := range x.Common().Args {
			if condFromLookupOf(a, m, depth-1) {
				return true
			}
		}
	}
	return false
}
