package main

import (
	"fmt"
	"go/token"
	"go/types"
	"os"
	"sort"
	"strings"

	"golang.org/x/tools/go/ssa"
)

// R-BOUNDS: every index and slice expression in the analysed set is proven in range by a
// difference-constraint prover (ABCD style) over SSA. Terms are integer SSA values, len(x) of slice
// or string values (value-numbered structurally because go/ssa does not CSE), and the constant 0.
// Facts come from dominating branch edges, from definitions (x+c, value-preserving conversions,
// known lengths of fresh buffers, range-loop indices, zero-extension), from library contracts and
// from return-interval summaries of module functions. Phi nodes are proven per incoming edge.
// Obligations on parameters become preconditions that are proven at every call site (depth <= 2).

type lin struct {
	term string // "" = constant only
	off  int64
}

type bfact struct {
	a, b string
	c    int64
} // a - b <= c   ("" denotes the constant zero)

type boundsProver struct {
	assume   map[*ssa.Function][]bfact // relational preconditions, checked separately at the call sites
	p        *Program
	fn       *ssa.Function
	retIv    map[*ssa.Function][2]int64
	retKnown map[*ssa.Function]bool
	elemIv   map[ssa.Value][2]int64
	depth    int
	lifted   int
	inConv   bool
	subs     map[*ssa.Function][]*ssa.BinOp
}

func newBoundsProver(p *Program) *boundsProver {
	return &boundsProver{p: p, retIv: map[*ssa.Function][2]int64{}, retKnown: map[*ssa.Function]bool{}}
}

// ---- canonical terms ---------------------------------------------------------------------------

// memName canonicalises an address/value expression so that two loads of the same field of the same
// base get the same name.
func memName(v ssa.Value) string {
	switch x := v.(type) {
	case *ssa.FieldAddr:
		return memName(x.X) + "." + fieldName(x)
	case *ssa.Field:
		st, _ := x.X.Type().Underlying().(*types.Struct)
		if st != nil {
			return memName(x.X) + "." + st.Field(x.Field).Name()
		}
	case *ssa.UnOp:
		if x.Op == token.MUL {
			return "*(" + memName(x.X) + ")"
		}
	case *ssa.ChangeType:
		return memName(x.X)
	case *ssa.Parameter:
		return "param:" + x.Name()
	case *ssa.Alloc:
		return "alloc:" + x.Name()
	case *ssa.Global:
		return "global:" + x.Name()
	}
	if v == nil {
		return "nil"
	}
	return "v:" + v.Name()
}

// linear renders an integer expression as term+offset.
func (bp *boundsProver) linear(v ssa.Value, depth int) lin {
	if depth == 0 {
		return lin{"v:" + v.Name(), 0}
	}
	switch x := v.(type) {
	case *ssa.Const:
		if c, ok := constInt(x); ok {
			return lin{"", c}
		}
	case *ssa.BinOp:
		if x.Op == token.ADD {
			a, b := bp.linear(x.X, depth-1), bp.linear(x.Y, depth-1)
			if b.term == "" {
				return lin{a.term, a.off + b.off}
			}
			if a.term == "" {
				return lin{b.term, a.off + b.off}
			}
		}
		if x.Op == token.SUB {
			a, b := bp.linear(x.X, depth-1), bp.linear(x.Y, depth-1)
			if b.term == "" {
				return lin{a.term, a.off - b.off}
			}
		}
	case *ssa.Convert:
		if bp.convPreserves(x) {
			return bp.linear(x.X, depth-1)
		}
	case *ssa.ChangeType:
		return bp.linear(x.X, depth-1)
	case *ssa.Call:
		if bi, ok := x.Common().Value.(*ssa.Builtin); ok && (bi.Name() == "len") && len(x.Common().Args) == 1 {
			return lin{"len(" + memName(x.Common().Args[0]) + ")", 0}
		}
	case *ssa.UnOp:
		if x.Op == token.MUL {
			return lin{memName(x), 0}
		}
	case *ssa.Parameter:
		return lin{"param:" + x.Name(), 0}
	}
	return lin{"v:" + v.Name(), 0}
}

// convPreserves: an integer conversion that keeps the value (given the configuration's sizes, and the
// operand's proven range where that matters).
func (bp *boundsProver) convPreserves(c *ssa.Convert) bool {
	if intTypeContains(c.Type(), c.X.Type(), bp.p.Sizes) {
		return true
	}
	// not preserving by type alone (e.g. uint32 -> int where int has 32 bits): preserved if the facts in
	// scope at the conversion bound the operand within the destination's range
	if !bp.inConv {
		bp.inConv = true
		defer func() { bp.inConv = false }()
		if dst, okd := c.Type().Underlying().(*types.Basic); okd && dst.Info()&types.IsInteger != 0 && dst.Info()&types.IsUnsigned == 0 {
			w := uint(bp.p.Sizes.Sizeof(c.Type()) * 8)
			if w < 64 {
				maxv := int64(1)<<(w-1) - 1
				op := bp.linear(c.X, 6)
				fs := bp.factsAt(c, nil)
				fs = append(fs, bp.axiomsFor([]ssa.Value{c.X})...)
				fs = append(fs, bp.assume[c.Parent()]...)
				srcUnsigned := false
				if sb, oks := c.X.Type().Underlying().(*types.Basic); oks && sb.Info()&types.IsUnsigned != 0 {
					srcUnsigned = true
				}
				if srcUnsigned && proveLE(fs, op.term, "", maxv-op.off) {
					return true
				}
			}
		}
	}
	lo, hi, ok := bp.interval(c.X, 3)
	if ok {
		dst, _ := c.Type().Underlying().(*types.Basic)
		if dst != nil && dst.Info()&types.IsInteger != 0 {
			w := uint(bp.p.Sizes.Sizeof(c.Type()) * 8)
			var maxv, minv int64
			if dst.Info()&types.IsUnsigned != 0 {
				if w >= 63 {
					maxv = 1<<62 - 1 + 1<<62
				} else {
					maxv = 1<<w - 1
				}
				minv = 0
			} else {
				if w >= 64 {
					maxv = 1<<62 - 1 + 1<<62
				} else {
					maxv = 1<<(w-1) - 1
				}
				minv = -maxv - 1
			}
			return lo >= minv && hi <= maxv
		}
	}
	return false
}

// interval: constant bounds of an integer value, from its definition only.
func (bp *boundsProver) interval(v ssa.Value, depth int) (int64, int64, bool) {
	const big = int64(1) << 62
	if depth == 0 {
		return 0, 0, false
	}
	if c, ok := constInt(v); ok {
		return c, c, true
	}
	switch x := v.(type) {
	case *ssa.Convert:
		lo, hi, ok := bp.interval(x.X, depth-1)
		if ok && intTypeContains(x.Type(), x.X.Type(), bp.p.Sizes) {
			return lo, hi, true
		}
		// kept by the facts in scope at the conversion (a guard bounds the operand within the destination)
		if bp.convPreserves(x) {
			if !ok {
				lo, hi, ok = typeRange(x.X.Type(), bp.p.Sizes)
			}
			if ok {
				return lo, hi, true
			}
		}
		return typeRange(x.Type(), bp.p.Sizes)
	case *ssa.ChangeType:
		return bp.interval(x.X, depth-1)
	case *ssa.BinOp:
		a0, a1, oka := bp.interval(x.X, depth-1)
		b0, b1, okb := bp.interval(x.Y, depth-1)
		switch x.Op {
		case token.ADD:
			if oka && okb && a1 < big && b1 < big {
				return a0 + b0, a1 + b1, true
			}
		case token.SHL:
			if oka && okb && b0 == b1 && b0 < 32 && a0 >= 0 && a1 < 1<<30 {
				return a0 << uint(b0), a1 << uint(b0), true
			}
		case token.OR:
			if oka && okb && a0 >= 0 && b0 >= 0 {
				m := a1
				if b1 > m {
					m = b1
				}
				// next power of two minus one
				w := int64(1)
				for w <= m {
					w <<= 1
				}
				return 0, w - 1, true
			}
		case token.AND:
			if okb && b0 >= 0 {
				return 0, b1, true
			}
			if oka && a0 >= 0 {
				return 0, a1, true
			}
		case token.SHR:
			if oka && a0 >= 0 {
				return 0, a1, true
			}
		case token.REM:
			if okb && b0 > 0 && oka && a0 >= 0 {
				return 0, b1 - 1, true
			}
		}
	case *ssa.Call:
		if bi, ok := x.Common().Value.(*ssa.Builtin); ok && (bi.Name() == "len" || bi.Name() == "cap") {
			return 0, big, true
		}
		if f := x.Common().StaticCallee(); f != nil {
			if iv, ok := bp.returnInterval(f); ok {
				return iv[0], iv[1], true
			}
			if lo, hi, ok := libContractInterval(f); ok {
				return lo, hi, true
			}
		}
	case *ssa.Phi:
		if isRangeIndexPhi(x) {
			lo := big
			for _, e := range x.Edges {
				if c, ok := constInt(e); ok && c < lo {
					lo = c
				}
			}
			if lo == big {
				lo = -1
			}
			return lo, big, true
		}
		lo, hi := big, -big
		for _, e := range x.Edges {
			if e == ssa.Value(x) {
				continue
			}
			a, b, ok := bp.interval(e, depth-1)
			if !ok {
				return 0, 0, false
			}
			if a < lo {
				lo = a
			}
			if b > hi {
				hi = b
			}
		}
		if lo <= hi {
			return lo, hi, true
		}
	case *ssa.UnOp:
		if x.Op == token.MUL {
			// element of a slice of ints built only by appending values of a known interval
			if ia, ok := x.X.(*ssa.IndexAddr); ok {
				if iv, ok := bp.sliceElemInterval(ia.X, depth-1); ok {
					return iv[0], iv[1], true
				}
			}
			return typeRange(x.Type(), bp.p.Sizes)
		}
	case *ssa.Extract:
		if nx, ok := x.Tuple.(*ssa.Next); ok && x.Index == 2 {
			if rg, ok := nx.Iter.(*ssa.Range); ok {
				if iv, ok := bp.sliceElemInterval(rg.X, depth-1); ok {
					return iv[0], iv[1], true
				}
			}
		}
	}
	return typeRange(v.Type(), bp.p.Sizes)
}

func typeRange(t types.Type, sizes types.Sizes) (int64, int64, bool) {
	b, ok := t.Underlying().(*types.Basic)
	if !ok || b.Info()&types.IsInteger == 0 {
		return 0, 0, false
	}
	w := uint(sizes.Sizeof(t) * 8)
	if b.Info()&types.IsUnsigned != 0 {
		if w >= 63 {
			return 0, 1 << 62, true
		}
		return 0, 1<<w - 1, true
	}
	if w >= 63 {
		return -(1 << 62), 1 << 62, true
	}
	return -(1 << (w - 1)), 1<<(w-1) - 1, true
}

// libContractInterval: documented result ranges of library functions used for indexing.
func libContractInterval(f *ssa.Function) (int64, int64, bool) {
	if f.Pkg == nil {
		return 0, 0, false
	}
	pk := f.Pkg.Pkg.Path()
	if (pk == "strings" || pk == "bytes") && strings.HasPrefix(f.Name(), "Index") || (pk == "strings" || pk == "bytes") && strings.HasPrefix(f.Name(), "LastIndex") {
		return -1, 1 << 62, true
	}
	return 0, 0, false
}

// returnInterval: interval of the single integer result of a module function, from its returns.
func (bp *boundsProver) returnInterval(f *ssa.Function) ([2]int64, bool) {
	if f.Blocks == nil || f.Pkg == nil || !isModulePath(f.Pkg.Pkg.Path()) || f.Signature.Results().Len() != 1 {
		return [2]int64{}, false
	}
	if iv, ok := bp.retIv[f]; ok {
		return iv, bp.retKnown[f]
	}
	bp.retIv[f] = [2]int64{0, 0}
	bp.retKnown[f] = false
	lo, hi := int64(1)<<62, -(int64(1) << 62)
	for _, b := range f.Blocks {
		ret, ok := b.Instrs[len(b.Instrs)-1].(*ssa.Return)
		if !ok || b == f.Recover {
			continue
		}
		for _, rv := range returnedValues(f, ret, 0) {
			a, c, ok := bp.interval(rv, 5)
			if !ok {
				return [2]int64{}, false
			}
			if a < lo {
				lo = a
			}
			if c > hi {
				hi = c
			}
		}
	}
	if lo > hi {
		return [2]int64{}, false
	}
	bp.retIv[f] = [2]int64{lo, hi}
	bp.retKnown[f] = true
	return bp.retIv[f], true
}

// sliceElemInterval: v is a slice of ints whose elements all come from append(v, x) with x in a known interval.
func (bp *boundsProver) sliceElemInterval(v ssa.Value, depth int) ([2]int64, bool) {
	if depth <= 0 {
		return [2]int64{}, false
	}
	seen := map[ssa.Value]bool{}
	lo, hi := int64(1)<<62, -(int64(1) << 62)
	var walk func(x ssa.Value) bool
	walk = func(x ssa.Value) bool {
		if seen[x] {
			return true
		}
		seen[x] = true
		switch y := x.(type) {
		case *ssa.MakeSlice:
			if z, ok := constInt(y.Len); ok && z == 0 {
				return true
			}
			// made at its final length and filled by index: the elements are zero or what is stored at
			// list[i]; the list is used for nothing else than indexing, len and ranging
			if 0 < lo {
				lo = 0
			}
			if 0 > hi {
				hi = 0
			}
			for _, rf := range refsOf(y) {
				switch u := rf.(type) {
				case *ssa.IndexAddr:
					for _, r2 := range refsOf(u) {
						switch w := r2.(type) {
						case *ssa.Store:
							if w.Addr != ssa.Value(u) {
								return false
							}
							a, b, ok := bp.interval(w.Val, depth)
							if !ok {
								return false
							}
							if a < lo {
								lo = a
							}
							if b > hi {
								hi = b
							}
						case *ssa.UnOp, *ssa.DebugRef:
						default:
							return false
						}
					}
				case *ssa.Call:
					if bi, ok := u.Common().Value.(*ssa.Builtin); !ok || (bi.Name() != "len" && bi.Name() != "cap") {
						return false
					}
				case *ssa.DebugRef, *ssa.Range, *ssa.Return:
				default:
					return false // also a phi: stores through the merged value would not be seen here
				}
			}
			return true
		case *ssa.Phi:
			for _, e := range y.Edges {
				if !walk(e) {
					return false
				}
			}
			return true
		case *ssa.Call:
			bi, ok := y.Common().Value.(*ssa.Builtin)
			if !ok || bi.Name() != "append" || len(y.Common().Args) != 2 {
				return false
			}
			if !walk(y.Common().Args[0]) {
				return false
			}
			elems, ok := varargElems(y.Common().Args[1])
			if !ok {
				return false
			}
			for _, e := range elems {
				a, b, ok := bp.interval(e, depth)
				if !ok {
					return false
				}
				if a < lo {
					lo = a
				}
				if b > hi {
					hi = b
				}
			}
			return true
		case *ssa.Const:
			return y.IsNil()
		}
		return false
	}
	if !walk(v) || lo > hi {
		return [2]int64{}, false
	}
	return [2]int64{lo, hi}, true
}

// ---- facts -------------------------------------------------------------------------------------

// factsAt collects the difference constraints that hold whenever control is at `at`.
// subsOf: the integer subtractions of two non-constant operands computed in fn.
func (bp *boundsProver) subsOf(fn *ssa.Function) []*ssa.BinOp {
	if bp.subs == nil {
		bp.subs = map[*ssa.Function][]*ssa.BinOp{}
	}
	if l, ok := bp.subs[fn]; ok {
		return l
	}
	var out []*ssa.BinOp
	for _, b := range fn.Blocks {
		for _, in := range b.Instrs {
			if bo, ok := in.(*ssa.BinOp); ok && bo.Op == token.SUB && isIntLike(bo.Type()) {
				if _, isC := constInt(bo.Y); !isC {
					out = append(out, bo)
				}
			}
		}
	}
	bp.subs[fn] = out
	return out
}

func (bp *boundsProver) factsAt(at ssa.Instruction, viaPred *ssa.BasicBlock) []bfact {
	var fs []bfact
	neq := map[string][]int64{}
	addCmp := func(op token.Token, X, Y ssa.Value, taken bool) {
		if !isIntLike(X.Type()) {
			return
		}
		a, b := bp.linear(X, 6), bp.linear(Y, 6)
		if !taken {
			switch op {
			case token.LSS:
				op = token.GEQ
			case token.LEQ:
				op = token.GTR
			case token.GTR:
				op = token.LEQ
			case token.GEQ:
				op = token.LSS
			case token.EQL:
				op = token.NEQ
			case token.NEQ:
				op = token.EQL
			}
		}
		// a.term+a.off  op  b.term+b.off
		le := func(x, y lin, strict int64) { // x <= y - strict  =>  x.term - y.term <= y.off - x.off - strict
			fs = append(fs, bfact{x.term, y.term, y.off - x.off - strict})
		}
		// an ordering between two non-constant terms also bounds their difference where the function computes
		// it: lo < hi gives 1 <= hi - lo
		diffFact := func(lo, hi lin, strict int64) {
			if lo.term == "" || hi.term == "" {
				return
			}
			for _, sub := range bp.subsOf(at.Parent()) {
				m, s2 := bp.linear(sub.X, 6), bp.linear(sub.Y, 6)
				if m == hi && s2 == lo {
					fs = append(fs, bfact{"", "v:" + sub.Name(), -strict})
				}
			}
		}
		switch op {
		case token.LSS:
			le(a, b, 1)
			diffFact(a, b, 1)
		case token.LEQ:
			le(a, b, 0)
			diffFact(a, b, 0)
		case token.GTR:
			le(b, a, 1)
			diffFact(b, a, 1)
		case token.GEQ:
			le(b, a, 0)
			diffFact(b, a, 0)
		case token.EQL:
			le(a, b, 0)
			le(b, a, 0)
		case token.NEQ:
			// len(x) != c: remembered; with len(x) >= 0 a run 0,1,..,k of excluded values gives len(x) >= k+1
			if b.term == "" && strings.HasPrefix(a.term, "len(") && a.off == 0 {
				neq[a.term] = append(neq[a.term], b.off)
			} else if a.term == "" && strings.HasPrefix(b.term, "len(") && b.off == 0 {
				neq[b.term] = append(neq[b.term], a.off)
			}
		}
	}
	useBlockEdge := func(d *ssa.BasicBlock, succ *ssa.BasicBlock) {
		iff, ok := d.Instrs[len(d.Instrs)-1].(*ssa.If)
		if !ok || d.Succs[0] == d.Succs[1] {
			return
		}
		bo, ok := iff.Cond.(*ssa.BinOp)
		if !ok {
			return
		}
		addCmp(bo.Op, bo.X, bo.Y, succ == d.Succs[0])
	}
	blk := at.Block()
	if viaPred != nil {
		// facts valid at the end of the predecessor, plus the edge pred -> blk
		useBlockEdge(viaPred, blk)
		blk = viaPred
	}
	for d := blk; d != nil; d = d.Idom() {
		id := d.Idom()
		if id == nil {
			break
		}
		// which successor of id leads (dominates) d?
		for _, s := range id.Succs {
			if (s == d || s.Dominates(d)) && len(s.Preds) == 1 {
				useBlockEdge(id, s)
			}
		}
	}
	for term, cs := range neq {
		sort.Slice(cs, func(i, j int) bool { return cs[i] < cs[j] })
		var lb int64
		for _, c := range cs {
			if c == lb {
				lb++
			}
		}
		if lb > 0 {
			fs = append(fs, bfact{"", term, -lb}) // lb <= len(x)
		}
	}
	return fs
}

func isIntLike(t types.Type) bool {
	b, ok := t.Underlying().(*types.Basic)
	return ok && b.Info()&types.IsInteger != 0
}

// axioms about the terms mentioned: len >= 0, definitional intervals, known buffer lengths.
func (bp *boundsProver) axiomsFor(vals []ssa.Value) []bfact {
	var fs []bfact
	seen := map[ssa.Value]bool{}
	var add func(v ssa.Value, depth int)
	add = func(v ssa.Value, depth int) {
		if v == nil || seen[v] || depth == 0 {
			return
		}
		seen[v] = true
		if isIntLike(v.Type()) {
			l := bp.linear(v, 6)
			if l.term != "" {
				if lo, hi, ok := bp.interval(v, 5); ok {
					if lo > -(1 << 61) {
						fs = append(fs, bfact{"", l.term, l.off - lo}) // lo <= term+off
					}
					if hi < 1<<61 {
						fs = append(fs, bfact{l.term, "", hi - l.off})
					}
				}
			}
		}
		switch x := v.(type) {
		case *ssa.BinOp:
			add(x.X, depth-1)
			add(x.Y, depth-1)
		case *ssa.Convert:
			add(x.X, depth-1)
		case *ssa.Call:
			// copy(dst, src) returns min(len(dst), len(src)): between 0 and either length
			if bi, ok := x.Common().Value.(*ssa.Builtin); ok && bi.Name() == "copy" && len(x.Common().Args) == 2 {
				l := bp.linear(v, 6)
				fs = append(fs, bfact{"", l.term, l.off}) // 0 <= copy()
				for _, a := range x.Common().Args {
					fs = append(fs, bfact{l.term, "len(" + memName(a) + ")", -l.off})
					fs = append(fs, bp.lenFacts(a, 3)...)
				}
			}
			// relational library contract: strings/bytes Index*(s, ...) < len(s)
			if f := x.Common().StaticCallee(); f != nil && f.Pkg != nil && (f.Pkg.Pkg.Path() == "strings" || f.Pkg.Pkg.Path() == "bytes") &&
				(strings.HasPrefix(f.Name(), "Index") || strings.HasPrefix(f.Name(), "LastIndex")) && len(x.Common().Args) >= 1 {
				l := bp.linear(v, 6)
				fs = append(fs, bfact{l.term, "len(" + memName(x.Common().Args[0]) + ")", -1 - l.off})
			}
			for _, a := range x.Common().Args {
				add(a, depth-1)
			}
		case *ssa.Phi:
			// do not expand
		}
	}
	for _, v := range vals {
		add(v, 5)
	}
	return fs
}

// knownLen: facts about len(x) from how x was made.
func (bp *boundsProver) lenFacts(x ssa.Value, depth int) []bfact {
	var fs []bfact
	if depth == 0 {
		return fs
	}
	name := "len(" + memName(x) + ")"
	fs = append(fs, bfact{"", name, 0}) // 0 <= len
	switch y := x.(type) {
	case *ssa.MakeSlice:
		l := bp.linear(y.Len, 6)
		fs = append(fs, bfact{name, l.term, l.off}, bfact{l.term, name, -l.off})
		// make([]T, len(a)+len(b)): each summand is a lower bound of the length (the other is >= 0)
		if sum, ok := y.Len.(*ssa.BinOp); ok && sum.Op == token.ADD {
			for _, part := range []ssa.Value{sum.X, sum.Y} {
				other := sum.Y
				if part == sum.Y {
					other = sum.X
				}
				if c, ok := other.(*ssa.Call); ok {
					if bi, ok := c.Common().Value.(*ssa.Builtin); ok && bi.Name() == "len" {
						pl := bp.linear(part, 6)
						fs = append(fs, bfact{pl.term, name, -pl.off}) // part <= len(x)
					}
				}
				// the other summand is known not to be negative (a constant, or a value whose interval is known)
				if lo, _, ok := bp.interval(other, 4); ok && lo >= 0 {
					pl := bp.linear(part, 6)
					fs = append(fs, bfact{pl.term, name, -pl.off})
				}
			}
		}
	case *ssa.Slice:
		// x = base[lo:hi]: len = hi - lo
		var baseLen lin
		if a, ok := y.X.(*ssa.Alloc); ok {
			if pt, ok := a.Type().(*types.Pointer); ok {
				if arr, ok := pt.Elem().Underlying().(*types.Array); ok {
					baseLen = lin{"", arr.Len()}
				}
			}
		} else {
			baseLen = lin{"len(" + memName(y.X) + ")", 0}
			fs = append(fs, bp.lenFacts(y.X, depth-1)...)
		}
		hi := baseLen
		if y.High != nil {
			hi = bp.linear(y.High, 6)
		}
		lo := lin{"", 0}
		if y.Low != nil {
			lo = bp.linear(y.Low, 6)
		}
		if lo.term == "" {
			// len = hi - lo.off
			fs = append(fs, bfact{name, hi.term, hi.off - lo.off}, bfact{hi.term, name, lo.off - hi.off})
		}
	case *ssa.Call:
		if f := y.Common().StaticCallee(); f != nil && f.Name() == "Sum" && f.Pkg != nil && strings.HasPrefix(f.Pkg.Pkg.Path(), "crypto/") {
			fs = append(fs, bfact{"", name, -1})
		}
		if bi, ok := y.Common().Value.(*ssa.Builtin); ok && bi.Name() == "append" {
			// len(append(a, ...)) >= len(a)
			a := "len(" + memName(y.Common().Args[0]) + ")"
			fs = append(fs, bfact{a, name, 0})
		}
	case *ssa.Convert:
		// string <-> []byte conversions keep the length
		inner := "len(" + memName(y.X) + ")"
		fs = append(fs, bfact{name, inner, 0}, bfact{inner, name, 0})
		fs = append(fs, bp.lenFacts(y.X, depth-1)...)
	case *ssa.ChangeType:
		fs = append(fs, bp.lenFacts(y.X, depth-1)...)
	}
	return fs
}

// prove: a - b <= c follows from the facts (shortest path, Bellman-Ford).
func proveLE(fs []bfact, a, b string, c int64) bool {
	if a == b {
		return 0 <= c
	}
	// edge b -> a with weight w means a <= b + w. shortest path from b to a.
	dist := map[string]int64{b: 0}
	nodes := map[string]bool{a: true, b: true}
	for _, f := range fs {
		nodes[f.a], nodes[f.b] = true, true
	}
	for i := 0; i < len(nodes)+1; i++ {
		changed := false
		for _, f := range fs {
			if d, ok := dist[f.b]; ok {
				if old, ok2 := dist[f.a]; !ok2 || d+f.c < old {
					dist[f.a] = d + f.c
					changed = true
				}
			}
		}
		if !changed {
			break
		}
	}
	d, ok := dist[a]
	return ok && d <= c
}

// ---- obligations -------------------------------------------------------------------------------

type boundsGoal struct {
	what string
	a, b lin // prove a <= b
	vals []ssa.Value
	xs   []ssa.Value // sliceable operands whose len facts are relevant
}

// proveGoalAt proves a <= b at instruction `at`; phis among the operands are split per edge.
func (bp *boundsProver) proveGoalAt(at ssa.Instruction, g boundsGoal, av, bv ssa.Value, depth int) (bool, string) {
	fs := bp.factsAt(at, nil)
	fs = append(fs, bp.axiomsFor(g.vals)...)
	for _, x := range g.xs {
		fs = append(fs, bp.lenFacts(x, 3)...)
	}
	fs = append(fs, bp.storeFacts(at)...)
	fs = append(fs, bp.assume[at.Parent()]...)
	for _, x := range g.xs {
		fs = append(fs, bp.successLenFacts(at, x)...)
	}
	// how the slices whose lengths the facts mention were made
	fs = append(fs, bp.lenFactsOfMentioned(at.Parent(), fs)...)
	if proveLE(fs, g.a.term, g.b.term, g.b.off-g.a.off) {
		return true, ""
	}
	// per-edge proof for a phi operand defined at the head of at's dominating blocks
	if depth > 0 {
		for _, cand := range []struct {
			v    ssa.Value
			left bool
		}{{av, true}, {bv, false}} {
			ph, ok := stripIntConv(cand.v).(*ssa.Phi)
			if !ok || isRangeIndexPhi(ph) {
				continue
			}
			all := true
			for i, e := range ph.Edges {
				pred := ph.Block().Preds[i]
				ng := g
				el := bp.linear(e, 6)
				orig := bp.linear(cand.v, 6)
				if cand.left {
					ng.a = lin{el.term, el.off + (g.a.off - orig.off)}
				} else {
					ng.b = lin{el.term, el.off + (g.b.off - orig.off)}
				}
				ng.vals = append(append([]ssa.Value{}, g.vals...), e)
				f2 := bp.factsAt(ph, pred)
				f2 = append(f2, bp.axiomsFor(ng.vals)...)
				for _, x := range g.xs {
					f2 = append(f2, bp.lenFacts(x, 3)...)
				}
				f2 = append(f2, bp.assume[at.Parent()]...)
				if !proveLE(f2, ng.a.term, ng.b.term, ng.b.off-ng.a.off) {
					dbg("phi edge %d of %s in %s: cannot prove %s <= %s locally", i, ph.Name(), fnKey(at.Parent()), linString(ng.a), linString(ng.b))
					// the edge's value may be a parameter: the sub-goal becomes a precondition
					if len(goalParams(at.Parent(), ng)) > 0 && bp.depth < 2 {
						bp.depth++
						okc, _, _ := bp.proveAtCallers(at.Parent(), ng, 2)
						bp.depth--
						if okc {
							bp.lifted++
							continue
						}
					}
					all = false
					break
				}
			}
			if all && len(ph.Edges) > 0 {
				return true, ""
			}
		}
	}
	if os.Getenv("VERIF_FACTS") != "" {
		for _, f := range fs {
			fmt.Fprintf(os.Stderr, "FACT %q - %q <= %d\n", f.a, f.b, f.c)
		}
		fmt.Fprintf(os.Stderr, "GOAL %s <= %s\n", linString(g.a), linString(g.b))
	}
	return false, fmt.Sprintf("cannot derive %s <= %s from the %d facts in scope", linString(g.a), linString(g.b), len(fs))
}

func stripIntConv(v ssa.Value) ssa.Value {
	for {
		switch x := v.(type) {
		case *ssa.Convert:
			v = x.X
		case *ssa.ChangeType:
			v = x.X
		default:
			return v
		}
	}
}

func linString(l lin) string {
	if l.term == "" {
		return fmt.Sprint(l.off)
	}
	if l.off == 0 {
		return l.term
	}
	return fmt.Sprintf("%s%+d", l.term, l.off)
}

// storeFacts: a dominating store *A = V (with no later store to A and no call in between that could
// write it) gives load(A) == V.
func (bp *boundsProver) storeFacts(at ssa.Instruction) []bfact {
	var fs []bfact
	fn := at.Parent()
	for _, b := range fn.Blocks {
		for _, in := range b.Instrs {
			st, ok := in.(*ssa.Store)
			if !ok || !domInstr(st, at) {
				continue
			}
			if _, isSlice := st.Val.Type().Underlying().(*types.Slice); isSlice {
				// a slice stored into a field: the field's length is the stored slice's length for as long as
				// nothing else is stored there
				if _, isField := st.Addr.(*ssa.FieldAddr); isField && bp.onlyStoreTo(fn, st) {
					ln := "len(*(" + memName(st.Addr) + "))"
					lv := "len(" + memName(st.Val) + ")"
					fs = append(fs, bfact{ln, lv, 0}, bfact{lv, ln, 0})
					fs = append(fs, bp.lenFacts(st.Val, 3)...)
				}
				continue
			}
			if !isIntLike(st.Val.Type()) {
				continue
			}
			name := "*(" + memName(st.Addr) + ")"
			v := bp.linear(st.Val, 6)
			// any other store to the same name between?
			clean := true
			for _, b2 := range fn.Blocks {
				for _, in2 := range b2.Instrs {
					if s2, ok := in2.(*ssa.Store); ok && s2 != st && memName(s2.Addr) == memName(st.Addr) && !domInstr(s2, st) {
						clean = false
					}
				}
			}
			if !clean {
				continue
			}
			// conversions on the stored value: uint32(len(x)) keeps the value when len <= MaxUint32: accept for lengths
			fs = append(fs, bfact{name, v.term, v.off}, bfact{v.term, name, -v.off})
			if cv, ok := st.Val.(*ssa.Convert); ok {
				inner := bp.linear(cv.X, 6)
				if _, isLen := stripIntConv(cv.X).(*ssa.Call); isLen {
					fs = append(fs, bfact{name, inner.term, inner.off}, bfact{inner.term, name, -inner.off})
				}
			}
		}
	}
	return fs
}

// lenFactsOfMentioned: for every term len(v:tN) occurring in the facts, the length facts of the value tN of fn.
func (bp *boundsProver) lenFactsOfMentioned(fn *ssa.Function, fs []bfact) []bfact {
	want := map[string]bool{}
	for _, f := range fs {
		for _, t := range []string{f.a, f.b} {
			if strings.HasPrefix(t, "len(v:") && strings.HasSuffix(t, ")") {
				want[t[len("len(v:"):len(t)-1]] = true
			}
		}
	}
	if len(want) == 0 {
		return nil
	}
	var out []bfact
	for _, b := range fn.Blocks {
		for _, in := range b.Instrs {
			v, ok := in.(ssa.Value)
			if !ok || !want[v.Name()] {
				continue
			}
			switch v.(type) {
			case *ssa.MakeSlice, *ssa.Slice:
				out = append(out, bp.lenFacts(v, 3)...)
			}
		}
	}
	return out
}

// onlyStoreTo: st is the only store of the function to its address expression, and no call between could reach
// it other than the cursor's own methods (which take the cursor, not the object).
func (bp *boundsProver) onlyStoreTo(fn *ssa.Function, st *ssa.Store) bool {
	for _, b := range fn.Blocks {
		for _, in := range b.Instrs {
			if s2, ok := in.(*ssa.Store); ok && s2 != st && memName(s2.Addr) == memName(st.Addr) {
				return false
			}
			// the object the field belongs to is handed to a call after the store: the callee may reassign it
			if c, ok := in.(ssa.CallInstruction); ok {
				fa := st.Addr.(*ssa.FieldAddr)
				for _, a := range c.Common().Args {
					if a == fa.X && !domInstr(in, st) {
						if f := c.Common().StaticCallee(); f != nil && writesField(f, fa) {
							return false
						} else if f == nil {
							return false
						}
					}
				}
			}
		}
	}
	return true
}

// writesField: f (or what it statically calls, two levels) stores to the field addressed by fa of some object.
func writesField(f *ssa.Function, fa *ssa.FieldAddr) bool {
	seen := map[*ssa.Function]bool{}
	var walk func(g *ssa.Function, d int) bool
	walk = func(g *ssa.Function, d int) bool {
		if g == nil || seen[g] || d == 0 {
			return g != nil && d == 0 && len(g.Blocks) > 0
		}
		seen[g] = true
		for _, b := range g.Blocks {
			for _, in := range b.Instrs {
				if s, ok := in.(*ssa.Store); ok {
					if f2, ok := s.Addr.(*ssa.FieldAddr); ok && f2.Field == fa.Field && types.Identical(derefT(f2.X.Type()), derefT(fa.X.Type())) {
						return true
					}
				}
				if c, ok := in.(ssa.CallInstruction); ok {
					if cf := c.Common().StaticCallee(); cf != nil && cf.Pkg == g.Pkg {
						if walk(cf, d-1) {
							return true
						}
					}
				}
			}
		}
		return false
	}
	return walk(f, 3)
}

// obligationsOf lists the index/slice obligations of a function.
type boundsObl struct {
	in    ssa.Instruction
	descr string
	goals []struct {
		g      boundsGoal
		av, bv ssa.Value
	}
}

func (bp *boundsProver) obligationsOf(fn *ssa.Function) []boundsObl {
	var out []boundsObl
	mk := func(what string, a, b lin, av, bv ssa.Value, xs ...ssa.Value) struct {
		g      boundsGoal
		av, bv ssa.Value
	} {
		var vals []ssa.Value
		if av != nil {
			vals = append(vals, av)
		}
		if bv != nil {
			vals = append(vals, bv)
		}
		return struct {
			g      boundsGoal
			av, bv ssa.Value
		}{boundsGoal{what, a, b, vals, xs}, av, bv}
	}
	for _, b := range fn.Blocks {
		for _, in := range b.Instrs {
			switch x := in.(type) {
			case *ssa.IndexAddr, *ssa.Index:
				var X, I ssa.Value
				if ia, ok := x.(*ssa.IndexAddr); ok {
					X, I = ia.X, ia.Index
				} else {
					ix := x.(*ssa.Index)
					X, I = ix.X, ix.Index
				}
				// arrays with constant index are checked by the compiler
				var arrLen int64 = -1
				t := X.Type()
				if pt, ok := t.Underlying().(*types.Pointer); ok {
					t = pt.Elem()
				}
				if arr, ok := t.Underlying().(*types.Array); ok {
					arrLen = arr.Len()
					if _, isC := constInt(I); isC {
						continue
					}
				}
				ob := boundsObl{in: in, descr: fmt.Sprintf("index %s[%s]", shortVal(X), shortVal(I))}
				li := bp.linear(I, 6)
				ob.goals = append(ob.goals, mk("index >= 0", lin{"", 0}, li, nil, I))
				if arrLen >= 0 {
					ob.goals = append(ob.goals, mk("index < len", li, lin{"", arrLen - 1}, I, nil))
				} else {
					ob.goals = append(ob.goals, mk("index < len", li, lin{"len(" + memName(X) + ")", -1}, I, nil, X))
				}
				out = append(out, ob)
			case *ssa.Lookup:
				if _, isMap := x.X.Type().Underlying().(*types.Map); isMap {
					continue
				}
				ob := boundsObl{in: in, descr: fmt.Sprintf("string index %s[%s]", shortVal(x.X), shortVal(x.Index))}
				li := bp.linear(x.Index, 6)
				ob.goals = append(ob.goals, mk("index >= 0", lin{"", 0}, li, nil, x.Index))
				ob.goals = append(ob.goals, mk("index < len", li, lin{"len(" + memName(x.X) + ")", -1}, x.Index, nil, x.X))
				out = append(out, ob)
			case *ssa.Call:
				// library contract: encoding/binary ByteOrder methods require len(b) >= width
				f := x.Common().StaticCallee()
				if f == nil || f.Pkg == nil || f.Pkg.Pkg.Path() != "encoding/binary" || f.Signature.Recv() == nil {
					continue
				}
				w := int64(0)
				switch {
				case strings.HasSuffix(f.Name(), "Uint16"):
					w = 2
				case strings.HasSuffix(f.Name(), "Uint32"):
					w = 4
				case strings.HasSuffix(f.Name(), "Uint64"):
					w = 8
				}
				args := x.Common().Args
				if w == 0 || len(args) < 2 {
					continue
				}
				buf := args[1]
				ob := boundsObl{in: in, descr: fmt.Sprintf("%s on %s (needs %d bytes)", f.Name(), shortVal(buf), w)}
				ob.goals = append(ob.goals, mk("buffer has the bytes the library call reads or writes", lin{"", w}, lin{"len(" + memName(buf) + ")", 0}, nil, nil, buf))
				out = append(out, ob)
			case *ssa.Slice:
				var limit lin
				t := x.X.Type()
				if pt, ok := t.Underlying().(*types.Pointer); ok {
					if arr, ok := pt.Elem().Underlying().(*types.Array); ok {
						limit = lin{"", arr.Len()}
					}
				}
				if limit.term == "" && limit.off == 0 {
					if _, isArrPtr := t.Underlying().(*types.Pointer); !isArrPtr {
						limit = lin{"len(" + memName(x.X) + ")", 0}
					}
				}
				lo := lin{"", 0}
				if x.Low != nil {
					lo = bp.linear(x.Low, 6)
				}
				hi := limit
				if x.High != nil {
					hi = bp.linear(x.High, 6)
				}
				if x.Low == nil && x.High == nil {
					continue // x[:] is always in range
				}
				ob := boundsObl{in: in, descr: fmt.Sprintf("slice %s[%s:%s]", shortVal(x.X), shortVal(x.Low), shortVal(x.High))}
				if x.Low != nil {
					ob.goals = append(ob.goals, mk("low >= 0", lin{"", 0}, lo, nil, x.Low, x.X))
				}
				ob.goals = append(ob.goals, mk("low <= high", lo, hi, x.Low, x.High, x.X))
				if x.High != nil {
					ob.goals = append(ob.goals, mk("high <= len (not merely cap)", hi, limit, x.High, nil, x.X))
				}
				out = append(out, ob)
			}
		}
	}
	return out
}

func shortVal(v ssa.Value) string {
	if v == nil {
		return ""
	}
	if c, ok := v.(*ssa.Const); ok && c.Value != nil {
		return c.Value.ExactString()
	}
	s := memName(v)
	if len(s) > 40 {
		s = s[:40]
	}
	return s
}

// mentionsParam: the unprovable goal talks about a parameter: candidate precondition.
func goalParams(fn *ssa.Function, g boundsGoal) []int {
	var out []int
	for i, pr := range fn.Params {
		n := "param:" + pr.Name()
		if strings.Contains(g.a.term, n) || strings.Contains(g.b.term, n) {
			out = append(out, i)
		}
	}
	return out
}

// ruleBounds proves every obligation of the given functions.
func ruleBounds(p *Program, r *Result, fns []*ssa.Function, ruleName string) {
	bp := newBoundsProver(p)
	bp.assume = padAssumptions(p)
	sort.Slice(fns, func(i, j int) bool { return fns[i].String() < fns[j].String() })
	nObl := 0
	inSet := map[*ssa.Function]bool{}
	for _, f := range fns {
		inSet[f] = true
	}
	for _, fn := range fns {
		ord := 0
		for _, ob := range bp.obligationsOf(fn) {
			ord++
			nObl++
			key := fmt.Sprintf("%s:#%d", fnKey(fn), ord)
			good := true
			var whys []string
			var lifted []string
			for _, gg := range ob.goals {
				ok, why := bp.proveGoalAt(ob.in, gg.g, gg.av, gg.bv, 2)
				if ok {
					continue
				}
				// precondition on parameters: prove at every call site
				if ps := goalParams(fn, gg.g); len(ps) > 0 {
					if okc, sites, whyc := bp.proveAtCallers(fn, gg.g, 2); okc {
						lifted = append(lifted, fmt.Sprintf("%s as a precondition proven at %d call sites", gg.g.what, sites))
						continue
					} else if whyc != "" {
						why = why + "; as a precondition it fails at " + whyc
					}
				}
				good = false
				whys = append(whys, gg.g.what+": "+why)
			}
			if good {
				msg := fmt.Sprintf("%s proven in range", ob.descr)
				if len(lifted) > 0 {
					msg += " (" + strings.Join(lifted, "; ") + ")"
				}
				r.ok(ruleName, key, p.Pos(ob.in.Pos()), true, "%s", msg)
			} else {
				r.bad(ruleName, key, p.Pos(ob.in.Pos()), "%s is not proven in range: %s. On some input this panics the connection goroutine (there is no recover: the whole server dies) or reads beyond the end of the input", ob.descr, strings.Join(whys, " | "))
			}
		}
	}
	r.Analysed[ruleName+"_functions"] = len(fns)
	r.Analysed[ruleName+"_obligations"] = nObl
}

// proveAtCallers substitutes actual arguments for parameters in the goal and proves it at each static call site.
func (bp *boundsProver) proveAtCallers(fn *ssa.Function, g boundsGoal, depth int) (bool, int, string) {
	if depth == 0 {
		return false, 0, "lifting bound reached"
	}
	node := bp.p.cgNode(fn)
	if node == nil {
		return false, 0, ""
	}
	type inEdge struct {
		Site   ssa.CallInstruction
		Caller *ssa.Function
	}
	var edges []inEdge
	if bp.p.useViews {
		// in the view program the static call sites are those of the units; interface dispatch keeps the
		// call graph's edges
		for _, u := range bp.p.UUnits() {
			for _, c := range allCalls(u) {
				if sameFn(c.Common().StaticCallee(), fn) {
					edges = append(edges, inEdge{c, u})
				}
			}
		}
		for _, e := range node.In {
			if e.Site != nil && e.Site.Common().IsInvoke() {
				edges = append(edges, inEdge{e.Site, e.Caller.Func})
			}
		}
	} else {
		for _, e := range node.In {
			edges = append(edges, inEdge{e.Site, e.Caller.Func})
		}
	}
	n := 0
	for _, e := range edges {
		caller := e.Caller
		if e.Site == nil || caller == nil || caller.Blocks == nil {
			continue
		}
		pk := outermost(caller).Pkg
		if pk == nil || !isModulePath(pk.Pkg.Path()) || bp.p.isTestFile(caller.Pos()) {
			continue
		}
		if !inUniverse(pk.Pkg.Path()) && pk.Pkg.Path() != modPath {
			continue
		}
		cc := e.Site.Common()
		if cc.IsInvoke() {
			// dispatched through an interface: the receiver and arguments are whatever the caller passes
			args := cc.Args
			ng, vals, xs, ok := substGoal(bp, fn, g, append([]ssa.Value{cc.Value}, args...))
			if !ok {
				return false, n, fmt.Sprintf("%s (%s): argument not expressible", fnKey(caller), bp.p.Pos(e.Site.Pos()))
			}
			ng.vals, ng.xs = vals, xs
			if okp, _ := bp.proveGoalAt(e.Site, ng, nil, nil, 1); !okp {
				if ok2, _, _ := bp.liftAgain(caller, ng, depth-1); !ok2 {
					return false, n, fmt.Sprintf("%s (%s)", fnKey(caller), bp.p.Pos(e.Site.Pos()))
				}
			}
			n++
			continue
		}
		ng, vals, xs, ok := substGoal(bp, fn, g, cc.Args)
		if !ok {
			return false, n, fmt.Sprintf("%s (%s): argument not expressible", fnKey(caller), bp.p.Pos(e.Site.Pos()))
		}
		ng.vals, ng.xs = vals, xs
		if okp, why := bp.proveGoalAt(e.Site, ng, nil, nil, 1); !okp {
			dbg("precondition of %s fails at %s: %s", fnKey(fn), bp.p.Pos(e.Site.Pos()), why)
			if ok2, _, _ := bp.liftAgain(caller, ng, depth-1); !ok2 {
				return false, n, fmt.Sprintf("%s (%s)", fnKey(caller), bp.p.Pos(e.Site.Pos()))
			}
		}
		n++
	}
	return n > 0, n, ""
}

func (bp *boundsProver) liftAgain(fn *ssa.Function, g boundsGoal, depth int) (bool, int, string) {
	if len(goalParams(fn, g)) == 0 {
		return false, 0, ""
	}
	return bp.proveAtCallers(fn, g, depth)
}

// substGoal rewrites param:<name> terms by the canonical names of the actual arguments.
func substGoal(bp *boundsProver, fn *ssa.Function, g boundsGoal, args []ssa.Value) (boundsGoal, []ssa.Value, []ssa.Value, bool) {
	ng := g
	var vals, xs []ssa.Value
	for i, pr := range fn.Params {
		if i >= len(args) {
			break
		}
		pn := "param:" + pr.Name()
		if !strings.Contains(g.a.term, pn) && !strings.Contains(g.b.term, pn) {
			continue
		}
		arg := args[i]
		var repl string
		if isIntLike(arg.Type()) {
			l := bp.linear(arg, 6)
			if l.term == "" {
				// constant argument
				if g.a.term == pn {
					ng.a = lin{"", g.a.off + l.off}
				}
				if g.b.term == pn {
					ng.b = lin{"", g.b.off + l.off}
				}
				vals = append(vals, arg)
				continue
			}
			repl = l.term
			if g.a.term == pn {
				ng.a.off += l.off
			}
			if g.b.term == pn {
				ng.b.off += l.off
			}
			vals = append(vals, arg)
		} else {
			repl = memName(arg)
			xs = append(xs, arg)
		}
		ng.a.term = strings.ReplaceAll(ng.a.term, pn, repl)
		ng.b.term = strings.ReplaceAll(ng.b.term, pn, repl)
	}
	return ng, vals, xs, true
}

// padAssumptions: inside the pad function len(p.Body) <= p.Header.Length is assumed; rulePadPrecondition
// proves it at every call site.
func padAssumptions(p *Program) map[*ssa.Function][]bfact {
	out := map[*ssa.Function][]bfact{}
	for _, f := range p.Roles().PadFns {
		for _, pr := range f.Params {
			if pt, ok := pr.Type().(*types.Pointer); ok && typeIs(pt.Elem(), modPath, "Packet") {
				body := "len(*(param:" + pr.Name() + ".Body))"
				length := "*(*(param:" + pr.Name() + ".Header).Length)"
				out[f] = append(out[f], bfact{body, length, 0})
				out[p.orig(f)] = append(out[p.orig(f)], bfact{body, length, 0})
				out[p.orig(f)] = append(out[p.orig(f)], bfact{length, "", 1<<31 - 1})
				// and the length fits a non-negative int32: it is either a validated header length (<= 65536)
				// or uint32(len(x)) of an existing object (both shapes are what rulePadPrecondition accepts)
				out[f] = append(out[f], bfact{length, "", 1<<31 - 1})
			}
		}
	}
	return out
}

// rulePadPrecondition: every call of the pad function passes a packet whose body is no longer than its
// header's length field.
func rulePadPrecondition(p *Program, r *Result) {
	ro := p.Roles()
	n := 0
	for _, pad := range ro.PadFns {
		pi := -1
		for i, pr := range pad.Params {
			if pt, ok := pr.Type().(*types.Pointer); ok && typeIs(pt.Elem(), modPath, "Packet") {
				pi = i
			}
		}
		if pi < 0 {
			r.undecided("R-BOUNDS", fnKey(pad)+":precondition", p.Pos(pad.Pos()), "the pad function has no *Packet parameter")
			continue
		}
		for _, fn := range p.UnitsIn(func(path string) bool { return path == modPath }) {
			for _, c := range allCalls(fn) {
				if !sameFn(c.Common().StaticCallee(), pad) {
					continue
				}
				n++
				key := fmt.Sprintf("%s:pad-precondition", fnKey(fn))
				pkt := c.Common().Args[pi]
				how := ""
				// (w) Header.Length = uint32(len(Body)) stored before the call
				for _, b := range fn.Blocks {
					for _, in := range b.Instrs {
						st, ok := in.(*ssa.Store)
						if !ok || !domInstr(st, c) {
							continue
						}
						f, hb, ok := fieldAddrOf(st.Addr)
						if !ok || f.Name() != "Length" || !typeIs(hb.Type(), modPath, "Header") {
							continue
						}
						if hf, base, ok := loadedField(hb); !ok || hf.Name() != "Header" || base != pkt {
							continue
						}
						if cv, ok := st.Val.(*ssa.Convert); ok {
							if call, ok := cv.X.(*ssa.Call); ok {
								if bi, ok := call.Common().Value.(*ssa.Builtin); ok && bi.Name() == "len" {
									if bf, bb, ok := loadedField(call.Common().Args[0]); ok && bf.Name() == "Body" && bb == pkt {
										how = "Header.Length = uint32(len(Body)) is stored just before the call"
									}
								}
							}
						}
					}
				}
				// (r) the packet was decoded by Packet.UnmarshalBinary in this function
				if a, ok := pkt.(*ssa.Alloc); ok && how == "" {
					for dc, da := range decodeCalls(fn, "Packet") {
						if da == a {
							if g, _ := guardedBySuccess(dc, c, nil); g {
								enc, errs := extractDecoder(p, "Packet")
								if len(errs) == 0 && len(enc) == 2 && enc[1] == "bytes:Body" {
									how = "the packet is the output of a successful Packet.UnmarshalBinary, which sets Body = v[12:12+Header.Length] (len(Body) == Header.Length)"
								}
							}
						}
					}
				}
				if how != "" {
					r.ok("R-BOUNDS", key, p.Pos(c.Pos()), true, "len(Body) <= Header.Length holds at this call of the pad function: %s", how)
				} else {
					r.bad("R-BOUNDS", key, p.Pos(c.Pos()), "the pad function is called on a packet for which len(Body) <= Header.Length is not established: pad[i] can be indexed beyond the pad")
				}
			}
		}
	}
	if n == 0 {
		r.undecided("R-BOUNDS", "pad-precondition", "-", "no call of the pad function found")
	}
}

// successLenFacts: x is result #0 of a module call whose error result was tested and `at` lies on the
// success edge: len(x) >= the minimum length of what the callee returns together with a nil error.
func (bp *boundsProver) successLenFacts(at ssa.Instruction, x ssa.Value) []bfact {
	call, idx, ok := extractOf(x)
	if !ok || idx != 0 {
		return nil
	}
	f := call.Common().StaticCallee()
	if f == nil || f.Blocks == nil || f.Pkg == nil || !isModulePath(f.Pkg.Pkg.Path()) {
		return nil
	}
	if g, _ := guardedBySuccess(call, at, nil); !g {
		return nil
	}
	minLen := int64(-1)
	for _, b := range f.Blocks {
		ret, ok := b.Instrs[len(b.Instrs)-1].(*ssa.Return)
		if !ok || b == f.Recover || len(ret.Results) < 2 {
			continue
		}
		nilErr := false
		for _, ev := range returnedValues(f, ret, len(ret.Results)-1) {
			if isNilConst(ev) {
				nilErr = true
			}
		}
		if !nilErr {
			continue
		}
		for _, rv := range returnedValues(f, ret, 0) {
			l := int64(0)
			switch y := rv.(type) {
			case *ssa.Slice:
				if n, ok := sliceConstLen(y); ok {
					l = n
				}
			case *ssa.MakeSlice:
				if n, ok := constInt(y.Len); ok {
					l = n
				}
			}
			if minLen < 0 || l < minLen {
				minLen = l
			}
		}
	}
	if minLen <= 0 {
		return nil
	}
	return []bfact{{"", "len(" + memName(x) + ")", -minLen}}
}

// isLenSum: v is a sum of len() calls and non-negative constants (bounded by the sizes of existing objects).
func isLenSum(v ssa.Value) bool {
	switch x := v.(type) {
	case *ssa.Const:
		c, ok := constInt(x)
		return ok && c >= 0
	case *ssa.BinOp:
		return x.Op == token.ADD && isLenSum(x.X) && isLenSum(x.Y)
	case *ssa.Call:
		bi, ok := x.Common().Value.(*ssa.Builtin)
		return ok && bi.Name() == "len"
	case *ssa.Convert:
		return isLenSum(x.X)
	}
	return false
}
