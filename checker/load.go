package main

import (
	"crypto/sha256"
	"encoding/hex"
	"fmt"
	"go/ast"
	"go/token"
	"go/types"
	"io"
	"os"
	"path/filepath"
	"sort"
	"strings"
	"time"

	"golang.org/x/tools/go/callgraph"
	"golang.org/x/tools/go/callgraph/cha"
	"golang.org/x/tools/go/packages"
	"golang.org/x/tools/go/ssa"
	"golang.org/x/tools/go/ssa/ssautil"
)

const modPath = "github.com/facebookincubator/tacquito"

// Program is the resolved program every rule works on.
type Program struct {
	RepoDir string
	Config  BuildConfig
	Fset    *token.FileSet
	Pkgs    []*packages.Package          // module packages, sorted by path
	ByPath  map[string]*packages.Package // module packages by import path
	SSA     *ssa.Program
	SSAPkg  map[string]*ssa.Package
	Sizes   types.Sizes

	// all source functions (incl. anonymous) of module packages in U
	Funcs        []*ssa.Function
	cg           *callgraph.Graph
	roles        *Roles
	prot         map[*ssa.Function]bool
	views        map[*ssa.Function]*viewInfo
	viewOf       map[*ssa.Function]*viewInfo
	viewFailures []string
	tailOnlyMemo map[*ssa.Function]bool
	useViews     bool
	rp           map[*ssa.Function]bool
	bp           map[*ssa.Function]bool

	LoadSeconds float64
	NumFiles    int
	TreeHash    string
}

// BuildConfig names one (GOOS, GOARCH, tests) configuration.
type BuildConfig struct {
	GOOS, GOARCH string
	Tests        bool
}

func (b BuildConfig) String() string {
	s := b.GOOS + "/" + b.GOARCH
	if b.Tests {
		s += "+tests"
	}
	return s
}

// server universe U (DESIGN §2.3): root, proxy, cmds/server/** minus .../test
func inUniverse(path string) bool {
	if path == modPath || path == modPath+"/proxy" {
		return true
	}
	if strings.HasPrefix(path, modPath+"/cmds/server") {
		if strings.HasSuffix(path, "/test") {
			return false
		}
		return true
	}
	return false
}

func isModulePath(path string) bool {
	return path == modPath || strings.HasPrefix(path, modPath+"/")
}

// Load type-checks the working tree of repoDir. overlay may replace files
// in memory (self-test mutants).
func Load(repoDir string, bc BuildConfig, overlay map[string][]byte) (*Program, error) {
	t0 := time.Now()
	env := []string{}
	for _, e := range os.Environ() {
		if strings.HasPrefix(e, "GOFLAGS=") || strings.HasPrefix(e, "GOWORK=") ||
			strings.HasPrefix(e, "GOOS=") || strings.HasPrefix(e, "GOARCH=") ||
			strings.HasPrefix(e, "GOPROXY=") || strings.HasPrefix(e, "GOSUMDB=") ||
			strings.HasPrefix(e, "GOTOOLCHAIN=") || strings.HasPrefix(e, "CGO_ENABLED=") {
			continue
		}
		env = append(env, e)
	}
	env = append(env, "GOFLAGS=-mod=readonly", "GOWORK=off", "GOPROXY=off", "GOSUMDB=off",
		"GOTOOLCHAIN=local", "GOOS="+bc.GOOS, "GOARCH="+bc.GOARCH, "CGO_ENABLED=0")
	fset := token.NewFileSet()
	cfg := &packages.Config{
		Mode: packages.NeedName | packages.NeedFiles | packages.NeedCompiledGoFiles |
			packages.NeedImports | packages.NeedDeps | packages.NeedTypes |
			packages.NeedSyntax | packages.NeedTypesInfo | packages.NeedTypesSizes | packages.NeedModule,
		Dir:     repoDir,
		Env:     env,
		Fset:    fset,
		Tests:   bc.Tests,
		Overlay: overlay,
	}
	initial, err := packages.Load(cfg, "./...")
	dbg("packages.Load %.2fs", time.Since(t0).Seconds())
	if err != nil {
		return nil, fmt.Errorf("packages.Load: %w", err)
	}
	if len(initial) == 0 {
		return nil, fmt.Errorf("no packages loaded from %s", repoDir)
	}
	var errs []string
	packages.Visit(initial, nil, func(p *packages.Package) {
		for _, e := range p.Errors {
			errs = append(errs, p.PkgPath+": "+e.Error())
		}
	})
	if len(errs) > 0 {
		sort.Strings(errs)
		if len(errs) > 10 {
			errs = errs[:10]
		}
		return nil, fmt.Errorf("load/type errors (the tree must compile):\n  %s", strings.Join(errs, "\n  "))
	}
	p := &Program{RepoDir: repoDir, Config: bc, Fset: fset, ByPath: map[string]*packages.Package{}, SSAPkg: map[string]*ssa.Package{}}
	for _, pkg := range initial {
		if !isModulePath(pkg.PkgPath) {
			continue
		}
		if bc.Tests && (strings.HasSuffix(pkg.ID, ".test") || strings.Contains(pkg.ID, " [")) {
			// test variants are loaded only in the Tests configuration; keep
			// the variant with test files, skip synthesized test mains
			if strings.HasSuffix(pkg.ID, ".test") {
				continue
			}
		}
		if old, ok := p.ByPath[pkg.PkgPath]; ok {
			// prefer the variant with more files (in-package tests)
			if len(old.Syntax) >= len(pkg.Syntax) {
				continue
			}
			for i, q := range p.Pkgs {
				if q == old {
					p.Pkgs[i] = pkg
				}
			}
			p.ByPath[pkg.PkgPath] = pkg
			continue
		}
		p.ByPath[pkg.PkgPath] = pkg
		p.Pkgs = append(p.Pkgs, pkg)
	}
	sort.Slice(p.Pkgs, func(i, j int) bool { return p.Pkgs[i].PkgPath < p.Pkgs[j].PkgPath })
	if len(p.Pkgs) < 20 {
		return nil, fmt.Errorf("only %d module packages loaded (expected >= 20): wrong directory or build configuration", len(p.Pkgs))
	}
	if root := p.ByPath[modPath]; root != nil {
		p.Sizes = root.TypesSizes
	} else {
		return nil, fmt.Errorf("root package %s not loaded", modPath)
	}
	for _, pkg := range p.Pkgs {
		p.NumFiles += len(pkg.Syntax)
	}

	prog, _ := ssautil.Packages(initial, ssa.InstantiateGenerics)
	dbg("ssautil.Packages %.2fs", time.Since(t0).Seconds())
	p.SSA = prog
	// build bodies only for module packages
	for _, pkg := range p.Pkgs {
		sp := prog.Package(pkg.Types)
		if sp == nil {
			return nil, fmt.Errorf("no SSA package for %s", pkg.PkgPath)
		}
		sp.Build()
		p.SSAPkg[pkg.PkgPath] = sp
	}
	// collect source functions
	seen := map[*ssa.Function]bool{}
	var add func(f *ssa.Function)
	add = func(f *ssa.Function) {
		if f == nil || seen[f] || f.Blocks == nil {
			return
		}
		seen[f] = true
		p.Funcs = append(p.Funcs, f)
		for _, a := range f.AnonFuncs {
			add(a)
		}
	}
	for _, pkg := range p.Pkgs {
		sp := p.SSAPkg[pkg.PkgPath]
		for _, m := range sp.Members {
			switch m := m.(type) {
			case *ssa.Function:
				add(m)
			case *ssa.Type:
				for _, t := range []types.Type{m.Type(), types.NewPointer(m.Type())} {
					ms := prog.MethodSets.MethodSet(t)
					for i := 0; i < ms.Len(); i++ {
						fn := prog.MethodValue(ms.At(i))
						if fn != nil && fn.Pkg == sp && fn.Synthetic == "" {
							add(fn)
						}
					}
				}
			}
		}
	}
	sort.Slice(p.Funcs, func(i, j int) bool { return p.Funcs[i].String() < p.Funcs[j].String() })
	dbg("ssa build %.2fs", time.Since(t0).Seconds())
	p.LoadSeconds = time.Since(t0).Seconds()
	gProg = p
	p.viewOf = map[*ssa.Function]*viewInfo{}
	p.views = map[*ssa.Function]*viewInfo{}
	return p, nil
}

// CallGraph returns the CHA call graph (lazily built).
func (p *Program) CallGraph() *callgraph.Graph {
	if p.cg == nil {
		p.cg = cha.CallGraph(p.SSA)
	}
	return p.cg
}

// Pos renders a position relative to the repo.
func (p *Program) Pos(pos token.Pos) string {
	if !pos.IsValid() {
		return "-"
	}
	ps := p.Fset.Position(pos)
	rel, err := filepath.Rel(p.RepoDir, ps.Filename)
	if err != nil {
		rel = ps.Filename
	}
	return fmt.Sprintf("%s:%d", rel, ps.Line)
}

// Root returns the root package.
func (p *Program) Root() *packages.Package { return p.ByPath[modPath] }

// Pkg returns a module package by path relative to the module root ("" = root).
func (p *Program) Pkg(rel string) *packages.Package {
	if rel == "" {
		return p.ByPath[modPath]
	}
	return p.ByPath[modPath+"/"+rel]
}

// FuncsIn lists source functions whose package satisfies pred.
func (p *Program) FuncsIn(pred func(path string) bool) []*ssa.Function {
	var out []*ssa.Function
	for _, f := range p.Funcs {
		if f.Pkg != nil && pred(f.Pkg.Pkg.Path()) && !p.isTestFile(f.Pos()) {
			out = append(out, f)
		}
	}
	return out
}

func (p *Program) isTestFile(pos token.Pos) bool {
	if !pos.IsValid() {
		return false
	}
	return strings.HasSuffix(p.Fset.Position(pos).Filename, "_test.go")
}

// UFuncs are the non-test source functions of the server universe.
func (p *Program) UFuncs() []*ssa.Function { return p.FuncsIn(inUniverse) }

// LookupFunc finds a package-level function or method: "pkgrel", "Name" or "T.Name" / "*T.Name".
func (p *Program) LookupFunc(rel, name string) *ssa.Function {
	pkg := p.Pkg(rel)
	if pkg == nil {
		return nil
	}
	sp := p.SSAPkg[pkg.PkgPath]
	if i := strings.Index(name, "."); i >= 0 {
		tn, mn := strings.TrimPrefix(name[:i], "*"), name[i+1:]
		obj := pkg.Types.Scope().Lookup(tn)
		if obj == nil {
			return nil
		}
		for _, t := range []types.Type{obj.Type(), types.NewPointer(obj.Type())} {
			ms := p.SSA.MethodSets.MethodSet(t)
			for i := 0; i < ms.Len(); i++ {
				if ms.At(i).Obj().Name() == mn {
					fn := p.SSA.MethodValue(ms.At(i))
					if fn != nil && fn.Synthetic == "" {
						return fn
					}
					// wrapper: find the declared method
					if f, ok := ms.At(i).Obj().(*types.Func); ok {
						return p.SSA.FuncValue(f)
					}
				}
			}
		}
		return nil
	}
	return sp.Func(name)
}

// FileOf returns the syntax file containing pos.
func (p *Program) FileOf(pos token.Pos) (*packages.Package, *ast.File) {
	for _, pkg := range p.Pkgs {
		for _, f := range pkg.Syntax {
			if f.Pos() <= pos && pos <= f.End() {
				return pkg, f
			}
		}
	}
	return nil, nil
}

// hashTree hashes every regular file under dir except .git (content + relative name).
func hashTree(dir string) (string, int, error) {
	h := sha256.New()
	var files []string
	err := filepath.Walk(dir, func(path string, info os.FileInfo, err error) error {
		if err != nil {
			return err
		}
		if info.IsDir() {
			if info.Name() == ".git" {
				return filepath.SkipDir
			}
			return nil
		}
		if info.Mode().IsRegular() {
			files = append(files, path)
		}
		return nil
	})
	if err != nil {
		return "", 0, err
	}
	sort.Strings(files)
	for _, f := range files {
		rel, _ := filepath.Rel(dir, f)
		io.WriteString(h, rel+"\x00")
		fh, err := os.Open(f)
		if err != nil {
			return "", 0, err
		}
		io.Copy(h, fh)
		fh.Close()
		io.WriteString(h, "\x00")
	}
	return hex.EncodeToString(h.Sum(nil)), len(files), nil
}

func dbg(format string, args ...interface{}) {
	if os.Getenv("VERIF_DEBUG") != "" {
		fmt.Fprintf(os.Stderr, "DEBUG "+format+"\n", args...)
	}
}
