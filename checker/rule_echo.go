package main

import (
	"fmt"
	"go/constant"
	"go/token"
	"go/types"
	"strings"

	"golang.org/x/tools/go/ssa"
)

// R-ECHO: every text a reference handler puts into a reply's text field marshals.
//
// The reply encoders refuse text that fails the field type's Validate (US-ASCII). A reply that does not
// marshal is not written, so an accepted request would get no reply (C07). The rule classifies every
// argument of a reply text setter: constants must be ASCII; formatted strings need an ASCII constant
// format and arguments that are numbers, ASCII constants, error values all of whose producers are ASCII
// constants, or text fields of a body decoded from the request whose type's Validate accepts ASCII only
// (so the decode that succeeded has already refused anything else); handler fields are followed to their
// stores. Anything else is undecided.

type echoCtx struct {
	p       *Program
	class   map[*types.Named]int // 1 ascii-only, 2 not
	errSafe map[*ssa.Function]int
	fldSafe map[*types.Var]int
}

func isASCIIString(s string) bool {
	for i := 0; i < len(s); i++ {
		if s[i] > 127 {
			return false
		}
	}
	return true
}

// asciiOnlyType: T (named, underlying string) has a Validate method whose every nil return lies behind the
// true edge of isAllASCII(string(t)).
func (e *echoCtx) asciiOnlyType(T types.Type) bool {
	n, ok := T.(*types.Named)
	if !ok {
		return false
	}
	if b, ok := n.Underlying().(*types.Basic); !ok || b.Info()&types.IsString == 0 {
		return false
	}
	if c := e.class[n]; c != 0 {
		return c == 1
	}
	e.class[n] = 2
	sel := e.p.SSA.MethodSets.MethodSet(n).Lookup(n.Obj().Pkg(), "Validate")
	if sel == nil {
		return false
	}
	V := e.p.SSA.MethodValue(sel)
	if V == nil || len(V.Blocks) == 0 {
		return false
	}
	// the ASCII test on the receiver
	var test *ssa.Call
	for _, c := range allCalls(V) {
		call, ok := c.(*ssa.Call)
		if !ok {
			continue
		}
		f := call.Common().StaticCallee()
		if f == nil || !isASCIIPredicate(f) || len(call.Common().Args) != 1 {
			continue
		}
		if stripAllConv(call.Common().Args[0]) == ssa.Value(V.Params[0]) {
			test = call
		}
	}
	if test == nil {
		return false
	}
	// every nil return is dominated by the true edge of the test
	for _, b := range V.Blocks {
		ret, ok := b.Instrs[len(b.Instrs)-1].(*ssa.Return)
		if !ok || b == V.Recover || len(ret.Results) != 1 || !isNilConst(ret.Results[0]) {
			continue
		}
		if !behindTrueEdge(test, b) {
			return false
		}
	}
	e.class[n] = 1
	return true
}

// isASCIIPredicate: func(string) bool that returns false on the edge taken when a byte exceeds 127 and
// true only after the loop (the shape of isAllASCII); recognised structurally.
func isASCIIPredicate(f *ssa.Function) bool {
	if f.Signature.Params().Len() != 1 || f.Signature.Results().Len() != 1 || len(f.Blocks) == 0 {
		return false
	}
	if b, ok := f.Signature.Results().At(0).Type().Underlying().(*types.Basic); !ok || b.Kind() != types.Bool {
		return false
	}
	sawCmp := false
	for _, b := range f.Blocks {
		for _, in := range b.Instrs {
			bo, ok := in.(*ssa.BinOp)
			if !ok || bo.Op != token.GTR {
				continue
			}
			if c, ok := constInt(bo.Y); ok && c == 127 {
				// taken edge returns false
				if iff, ok := b.Instrs[len(b.Instrs)-1].(*ssa.If); ok && iff.Cond == ssa.Value(bo) {
					tb := b.Succs[0]
					if ret, ok := tb.Instrs[len(tb.Instrs)-1].(*ssa.Return); ok {
						if cv, ok := ret.Results[0].(*ssa.Const); ok && cv.Value != nil && !constant.BoolVal(cv.Value) {
							sawCmp = true
						}
					}
				}
			}
		}
	}
	if !sawCmp || !(visitsEveryOctetOnce(f) || rangesOverEveryRune(f)) {
		return false
	}
	// every 'return true' is outside the loop body's taken edge: accept when exactly one return true exists
	nTrue := 0
	for _, b := range f.Blocks {
		if ret, ok := b.Instrs[len(b.Instrs)-1].(*ssa.Return); ok {
			if cv, ok := ret.Results[0].(*ssa.Const); ok && cv.Value != nil && constant.BoolVal(cv.Value) {
				nTrue++
			}
		}
	}
	return nTrue == 1
}

// behindTrueEdge: block b is only reachable through the true edge of an If on the call's result (or the
// false edge of its negation).
func behindTrueEdge(test *ssa.Call, b *ssa.BasicBlock) bool {
	for d := b; d != nil; d = d.Idom() {
		id := d.Idom()
		if id == nil {
			return false
		}
		iff, ok := id.Instrs[len(id.Instrs)-1].(*ssa.If)
		if !ok {
			continue
		}
		cond := iff.Cond
		neg := false
		if u, ok := cond.(*ssa.UnOp); ok && u.Op == token.NOT {
			cond, neg = u.X, true
		}
		if cond != ssa.Value(test) {
			continue
		}
		want := id.Succs[0]
		if neg {
			want = id.Succs[1]
		}
		if len(want.Preds) == 1 && (want == d || want.Dominates(d)) {
			return true
		}
		return false
	}
	return false
}

func isNumeric(t types.Type) bool {
	b, ok := t.Underlying().(*types.Basic)
	return ok && b.Info()&(types.IsInteger|types.IsFloat|types.IsBoolean) != 0
}

// safe: the text v denotes is US-ASCII on every execution.
func (e *echoCtx) safe(fn *ssa.Function, v ssa.Value, depth int) (bool, string) {
	if depth == 0 {
		return false, "too deep"
	}
	switch x := v.(type) {
	case *ssa.Const:
		if x.Value == nil {
			return true, "nil/zero"
		}
		if x.Value.Kind() == constant.String {
			if isASCIIString(constant.StringVal(x.Value)) {
				return true, "ASCII constant"
			}
			return false, "non-ASCII constant"
		}
		return true, "constant"
	case *ssa.MakeInterface:
		return e.safe(fn, x.X, depth-1)
	case *ssa.ChangeType:
		return e.safe(fn, x.X, depth-1)
	case *ssa.Convert:
		if isNumeric(x.X.Type()) {
			if b, ok := x.Type().Underlying().(*types.Basic); ok && b.Info()&types.IsString != 0 {
				return false, "integer converted to a string (rune)"
			}
		}
		return e.safe(fn, x.X, depth-1)
	case *ssa.BinOp:
		if x.Op == token.ADD {
			a, wa := e.safe(fn, x.X, depth-1)
			b, wb := e.safe(fn, x.Y, depth-1)
			return a && b, wa + " + " + wb
		}
	case *ssa.Phi:
		for _, ed := range x.Edges {
			if ed == ssa.Value(x) {
				continue
			}
			if ok, why := e.safe(fn, ed, depth-1); !ok {
				return false, why
			}
		}
		return true, "all alternatives"
	case *ssa.Extract:
		if call, ok := x.Tuple.(*ssa.Call); ok {
			return e.safeCallResult(fn, call, x.Index, depth-1)
		}
		if lk, ok := x.Tuple.(*ssa.Lookup); ok && lk.CommaOk && x.Index == 0 {
			return e.tableValuesSafe(lk, depth-1)
		}
	case *ssa.Lookup:
		if !x.CommaOk {
			return e.tableValuesSafe(x, depth-1)
		}
	case *ssa.Call:
		return e.safeCallResult(fn, x, 0, depth-1)
	case *ssa.UnOp:
		if x.Op == token.MUL {
			if f, base, ok := fieldAddrOf(x.X); ok {
				// field of a decoded request body
				if e.asciiOnlyType(f.Type()) && e.decodedHere(fn, base) {
					return true, "field " + f.Name() + " of the decoded request (its Validate accepts ASCII only)"
				}
				if isNumeric(f.Type()) {
					return true, "numeric field"
				}
				// field of the handler object: follow the stores
				if ok, why := e.fieldSafe(f, depth-1); ok {
					return true, why
				} else {
					return false, "field " + f.Name() + ": " + why
				}
			}
			if a, ok := x.X.(*ssa.Alloc); ok {
				// local variable: every store
				sts := allocStores(a)
				if len(sts) == 0 {
					return false, "local without stores"
				}
				for _, st := range sts {
					if ok, why := e.safe(fn, st.Val, depth-1); !ok {
						return false, why
					}
				}
				return true, "local"
			}
		}
	case *ssa.Parameter:
		// follow to the call sites
		return e.paramSafe(fn, x, depth-1)
	}
	if isNumeric(v.Type()) {
		return true, "number"
	}
	return false, fmt.Sprintf("unrecognised text source %T", v)
}

func (e *echoCtx) decodedHere(fn *ssa.Function, base ssa.Value) bool {
	if a, ok := base.(*ssa.Alloc); ok {
		for dc, da := range decodeCalls(fn, "") {
			if da == a && isRequestBody(dc.Common().Args[0]) {
				return true
			}
		}
		return false
	}
	return decodedByHelper(fn, base)
}

func (e *echoCtx) fieldSafe(f *types.Var, depth int) (bool, string) {
	if c := e.fldSafe[f]; c != 0 {
		return c == 1, "handler field (memo)"
	}
	e.fldSafe[f] = 1 // optimistic for recursion
	n := 0
	for _, g := range e.p.UFuncs() {
		for _, b := range g.Blocks {
			for _, in := range b.Instrs {
				st, ok := in.(*ssa.Store)
				if !ok {
					continue
				}
				ff, _, ok := fieldAddrOf(st.Addr)
				if !ok || ff != f {
					continue
				}
				n++
				if ok, why := e.safe(g, st.Val, depth); !ok {
					e.fldSafe[f] = 2
					return false, "stored in " + fnKey(g) + " from " + why
				}
			}
		}
	}
	if n == 0 {
		e.fldSafe[f] = 2
		return false, "no stores found"
	}
	return true, fmt.Sprintf("handler field %s whose %d stores are all ASCII-only", f.Name(), n)
}

func (e *echoCtx) paramSafe(fn *ssa.Function, pr *ssa.Parameter, depth int) (bool, string) {
	if depth == 0 {
		return false, "too deep"
	}
	idx := paramIndex(fn, pr)
	node := e.p.cgNode(fn)
	if node == nil || idx < 0 {
		return false, "parameter without known callers"
	}
	n := 0
	for _, ed := range node.In {
		c := ed.Caller.Func
		if ed.Site == nil || c == nil || e.p.isTestFile(c.Pos()) {
			continue
		}
		if pk := outermost(c).Pkg; pk == nil || !inUniverse(pk.Pkg.Path()) {
			continue
		}
		if sc := ed.Site.Common().StaticCallee(); sc != fn && sc != e.p.orig(fn) {
			if closureOnlyCalledDirectly(e.p.orig(fn)) {
				continue // a function literal that is only ever called by name: the class-hierarchy edge is spurious
			}
			return false, "parameter of a dynamically called function"
		}
		n++
		if ok, why := e.safe(c, ed.Site.Common().Args[idx], depth); !ok {
			return false, "argument in " + fnKey(c) + ": " + why
		}
	}
	if n == 0 {
		return false, "parameter without callers in the universe"
	}
	return true, "parameter (every caller passes ASCII-only text)"
}

func (e *echoCtx) safeCallResult(fn *ssa.Function, call *ssa.Call, idx int, depth int) (bool, string) {
	f := call.Common().StaticCallee()
	if f == nil {
		// interface method Error() on an error value
		if call.Common().IsInvoke() && call.Common().Method.Name() == "Error" {
			return e.safe(fn, call.Common().Value, depth)
		}
		return false, "dynamic call"
	}
	full := f.String()
	switch full {
	case "fmt.Sprintf", "fmt.Errorf":
		args := call.Common().Args
		ok, why := e.safe(fn, args[0], depth)
		if !ok {
			return false, "format: " + why
		}
		elems, okv := varargElems(args[1])
		if !okv {
			return false, "format arguments not inline"
		}
		for _, el := range elems {
			if ok, why := e.safe(fn, el, depth); !ok {
				return false, why
			}
		}
		return true, "formatted ASCII"
	case "errors.New":
		return e.safe(fn, call.Common().Args[0], depth)
	case "strings.TrimSpace", "strings.ToLower", "strings.ToUpper":
		return e.safe(fn, call.Common().Args[0], depth)
	}
	if len(f.Blocks) == 0 {
		return false, "result of " + full
	}
	// a function of the module: every returned value at idx must be safe in its own body
	if c := e.errSafe[f]; c != 0 {
		return c == 1, "result of " + fnKey(f)
	}
	e.errSafe[f] = 1
	for _, b := range f.Blocks {
		ret, ok := b.Instrs[len(b.Instrs)-1].(*ssa.Return)
		if !ok || b == f.Recover || idx >= len(ret.Results) {
			continue
		}
		res := ret.Results[idx]
		if isNilConst(res) {
			continue
		}
		// String()-like methods: conversion of the receiver
		if len(f.Params) > 0 && stripAllConv(res) == ssa.Value(f.Params[0]) {
			delete(e.errSafe, f)
			return e.safe(fn, call.Common().Args[0], depth)
		}
		if ok, why := e.safe(f, res, depth); !ok {
			e.errSafe[f] = 2
			return false, "result of " + fnKey(f) + ": " + why
		}
	}
	return true, "every result of " + fnKey(f) + " is ASCII-only"
}

func ruleEcho(p *Program, r *Result) {
	e := &echoCtx{p: p, class: map[*types.Named]int{}, errSafe: map[*ssa.Function]int{}, fldSafe: map[*types.Var]int{}}
	n := 0
	for _, fn := range p.UUnits() {
		if fn.Pkg != nil && fn.Pkg.Pkg.Path() == modPath {
			continue // the library's own error replies are constants checked below through the same scan
		}
		ord := 0
		for _, c := range allCalls(fn) {
			call, ok := c.(*ssa.Call)
			if !ok {
				continue
			}
			f := call.Common().StaticCallee()
			if f == nil || f.Pkg == nil || f.Pkg.Pkg.Path() != modPath || len(call.Common().Args) != 1 {
				continue
			}
			// an option constructor of a reply type taking a text type whose Validate demands ASCII
			if f.Signature.Results().Len() != 1 || !strings.HasSuffix(typeName(f.Signature.Results().At(0).Type()), "ReplyOption") {
				continue
			}
			// the reply field the option stores its argument into, and that field's type
			fname, okf := optionSetsField(f)
			if !okf {
				continue
			}
			var T types.Type
			if osig, ok := f.Signature.Results().At(0).Type().Underlying().(*types.Signature); ok && osig.Params().Len() == 1 {
				if st, ok := derefT(osig.Params().At(0).Type()).Underlying().(*types.Struct); ok {
					for i := 0; i < st.NumFields(); i++ {
						if st.Field(i).Name() == fname {
							T = st.Field(i).Type()
						}
					}
				}
			}
			if T == nil || !e.asciiOnlyType(T) {
				continue
			}
			n++
			ord++
			key := fmt.Sprintf("%s:reply-text#%d", fnKey(fn), ord)
			ok2, why := e.safe(fn, call.Common().Args[0], 12)
			if ok2 {
				_, isConst := stripAllConv(call.Common().Args[0]).(*ssa.Const)
				r.ok("R-ECHO", key, p.Pos(call.Pos()), !isConst, "the %s of this reply is ASCII on every execution (%s): the reply marshals", typeName(T), why)
			} else {
				r.bad("R-ECHO", key, p.Pos(call.Pos()), "the %s of this reply is not shown to be ASCII (%s): the encoder would refuse the reply and the request would get none", typeName(T), why)
			}
		}
	}
	if n == 0 {
		r.undecided("R-ECHO", "reply-text", "-", "no reply text setter call found")
	}
}

// visitsEveryOctetOnce: f(s string) has exactly one loop; its index starts at 0, goes up by one, and the loop is
// left either by the index reaching len(s) or by a return from the body; every indexing of s in the function
// is s[index] inside that loop. (A word-at-a-time or strided scan is not this shape and is not taken for an
// exact 'all octets are ASCII' test.)
func visitsEveryOctetOnce(f *ssa.Function) bool {
	if len(f.Params) != 1 {
		return false
	}
	s := f.Params[0]
	var head *ssa.BasicBlock
	var idx *ssa.Phi
	for _, b := range f.Blocks {
		iff, ok := b.Instrs[len(b.Instrs)-1].(*ssa.If)
		if !ok || !blockReachFromSelf(b) {
			continue
		}
		bo, ok := iff.Cond.(*ssa.BinOp)
		if !ok || bo.Op != token.LSS {
			continue
		}
		lc, ok := bo.Y.(*ssa.Call)
		if !ok {
			continue
		}
		if bi, ok := lc.Common().Value.(*ssa.Builtin); !ok || bi.Name() != "len" || lc.Common().Args[0] != ssa.Value(s) {
			continue
		}
		var ph *ssa.Phi
		switch x := bo.X.(type) {
		case *ssa.Phi:
			ph = x
		case *ssa.BinOp: // range form: index+1 < len
			if p2, ok := x.X.(*ssa.Phi); ok && x.Op == token.ADD {
				if c, okc := constInt(x.Y); okc && c == 1 {
					ph = p2
				}
			}
		}
		if ph == nil || !isRangeIndexPhi(ph) {
			continue
		}
		if head != nil {
			return false // two loops over s
		}
		head, idx = b, ph
	}
	if head == nil {
		return false
	}
	// start value 0 (or -1 for the range form)
	for _, e := range idx.Edges {
		if c, ok := constInt(e); ok && c != 0 && c != -1 {
			return false
		}
	}
	// no other loop
	for _, b := range f.Blocks {
		if blockReachFromSelf(b) && !(b == head || blockReach(head, nil)[b] && blockReach(b, nil)[head]) {
			return false
		}
	}
	// every indexing of s uses the loop index (or index+1 in the range form)
	n := 0
	for _, b := range f.Blocks {
		for _, in := range b.Instrs {
			var base, ix ssa.Value
			switch x := in.(type) {
			case *ssa.Lookup:
				base, ix = x.X, x.Index
			case *ssa.IndexAddr:
				base, ix = x.X, x.Index
			case *ssa.Index:
				base, ix = x.X, x.Index
			case *ssa.Slice:
				if x.X == ssa.Value(s) {
					return false
				}
				continue
			default:
				continue
			}
			if base != ssa.Value(s) {
				continue
			}
			n++
			if ix != ssa.Value(idx) {
				if bo, ok := ix.(*ssa.BinOp); !ok || bo.Op != token.ADD || bo.X != ssa.Value(idx) {
					return false
				} else if c, okc := constInt(bo.Y); !okc || c != 1 {
					return false
				}
			}
		}
	}
	return n == 1
}

// ruleASCIIPredicates (C02): the predicates the text validators use for 'all octets are ASCII' are exact: every
// function of the root package of type func(string) bool that compares octets with 127 has the one-loop shape.
func ruleASCIIPredicates(p *Program, r *Result) {
	n := 0
	for _, fn := range p.FuncsIn(func(path string) bool { return path == modPath }) {
		if p.isTestFile(fn.Pos()) || fn.Signature.Recv() != nil || fn.Signature.Params().Len() != 1 || fn.Signature.Results().Len() != 1 {
			continue
		}
		if b, ok := fn.Signature.Params().At(0).Type().Underlying().(*types.Basic); !ok || b.Kind() != types.String {
			continue
		}
		if b, ok := fn.Signature.Results().At(0).Type().Underlying().(*types.Basic); !ok || b.Kind() != types.Bool {
			continue
		}
		// is it used by a Validate method?
		used := false
		if node := p.cgNode(fn); node != nil {
			for _, e := range node.In {
				if e.Caller.Func != nil && e.Caller.Func.Name() == "Validate" {
					used = true
				}
			}
		}
		if !used {
			continue
		}
		n++
		r.cond(isASCIIPredicate(fn), "R-ASCII", fnKey(fn)+":exact", p.Pos(fn.Pos()),
			fnKey(fn)+" is true exactly when every octet of its argument is at most 127: one loop over every index, false on the first larger octet, true after the loop",
			fnKey(fn)+" is used by field validators as the 'all octets are ASCII' test but is not the plain loop over every octet (s[i] > 127 -> false): octets it does not look at pass validation, so an unrepresentable value is encoded instead of refused")
	}
	if n == 0 {
		r.undecided("R-ASCII", "predicates", "-", "no func(string) bool used by a Validate method was found")
	}
}

// rangesOverEveryRune: the predicate is 'for _, r := range s { if r > 127 ... }': the one loop of the function is a
// range over its string argument, the argument is used for nothing else, and what is compared with 127 is the rune
// of the iteration. Every octet above 127 is part of a rune above 127 (or of an invalid sequence, which yields
// U+FFFD), and every octet up to 127 is a rune of its own, so the test is the same as the octet-wise one.
func rangesOverEveryRune(f *ssa.Function) bool {
	if len(f.Params) != 1 {
		return false
	}
	s := f.Params[0]
	var rg *ssa.Range
	for _, rf := range refsOf(s) {
		switch x := rf.(type) {
		case *ssa.Range:
			if rg != nil {
				return false
			}
			rg = x
		case *ssa.DebugRef:
		default:
			return false
		}
	}
	if rg == nil {
		return false
	}
	var next *ssa.Next
	for _, rf := range refsOf(rg) {
		if n, ok := rf.(*ssa.Next); ok && n.IsString && next == nil {
			next = n
		} else if _, dbg := rf.(*ssa.DebugRef); !dbg {
			return false
		}
	}
	if next == nil {
		return false
	}
	// no loop other than the one through the Next
	for _, b := range f.Blocks {
		if blockReachFromSelf(b) && !(b == next.Block() || blockReach(next.Block(), nil)[b] && blockReach(b, nil)[next.Block()]) {
			return false
		}
	}
	// every comparison with 127 is of the iteration's rune
	n := 0
	for _, b := range f.Blocks {
		for _, in := range b.Instrs {
			bo, ok := in.(*ssa.BinOp)
			if !ok {
				continue
			}
			if c, okc := constInt(bo.Y); !okc || c != 127 {
				continue
			}
			ex, ok := stripAllConv(bo.X).(*ssa.Extract)
			if !ok || ex.Tuple != ssa.Value(next) || ex.Index != 2 || bo.Op != token.GTR {
				return false
			}
			n++
		}
	}
	return n == 1
}

// tableValuesSafe: the text looked up comes from a package-level map that is filled once, in the package
// initialiser, with ASCII-only values, and that nothing else writes.
func (e *echoCtx) tableValuesSafe(lk *ssa.Lookup, depth int) (bool, string) {
	if _, isMap := lk.X.Type().Underlying().(*types.Map); !isMap {
		return false, "indexing of a string"
	}
	u, ok := lk.X.(*ssa.UnOp)
	if !ok || u.Op != token.MUL {
		return false, "lookup in a map that is not a package-level table"
	}
	g, ok := u.X.(*ssa.Global)
	if !ok || g.Pkg == nil {
		return false, "lookup in a map that is not a package-level table"
	}
	init := g.Pkg.Func("init")
	if init == nil {
		return false, "table without initialiser"
	}
	// the global is stored once, in init, and its other uses are loads
	var made ssa.Value
	for i, f := range append([]*ssa.Function{init}, e.p.Funcs...) {
		if f.Pkg != g.Pkg || (i > 0 && f == init) {
			continue
		}
		for _, b := range f.Blocks {
			for _, in := range b.Instrs {
				st, ok := in.(*ssa.Store)
				if !ok || st.Addr != ssa.Value(g) {
					continue
				}
				if f != init || made != nil {
					return false, "table " + g.Name() + " is assigned more than once"
				}
				made = st.Val
			}
		}
	}
	if made == nil {
		return false, "table " + g.Name() + " is never initialised"
	}
	n := 0
	for _, rf := range refsOf(made) {
		switch x := rf.(type) {
		case *ssa.MapUpdate:
			if x.Map != made {
				return false, "table used as a key or value"
			}
			n++
			if ok, why := e.safe(init, x.Value, depth); !ok {
				return false, "value of table " + g.Name() + ": " + why
			}
		case *ssa.Store, *ssa.DebugRef:
		default:
			return false, "table " + g.Name() + " escapes its initialiser"
		}
	}
	// nobody else updates it: every load of the global is used for lookups, len or range only
	for _, f := range e.p.Funcs {
		if f.Pkg != g.Pkg {
			continue
		}
		for _, b := range f.Blocks {
			for _, in := range b.Instrs {
				ld, ok := in.(*ssa.UnOp)
				if !ok || ld.Op != token.MUL || ld.X != ssa.Value(g) {
					continue
				}
				for _, rf := range refsOf(ld) {
					switch y := rf.(type) {
					case *ssa.Lookup, *ssa.Range, *ssa.DebugRef:
					case *ssa.Call:
						if bi, ok := y.Common().Value.(*ssa.Builtin); !ok || bi.Name() != "len" {
							return false, "table " + g.Name() + " is handed to a function"
						}
					default:
						return false, "table " + g.Name() + " is written or handed on after its initialisation"
					}
				}
			}
		}
	}
	return true, fmt.Sprintf("value of the package-level table %s (%d ASCII-only entries, written only by the initialiser)", g.Name(), n)
}
