package main

import (
	"fmt"
	"go/token"
	"go/types"
	"sort"
	"strings"

	"golang.org/x/tools/go/ssa"
)

// R-MIRROR: reply header fields are copies of the request's.

// optionSetsField: fn is `func SetX(v T) Option { return func(h *H) { h.F = conv(v) } }`; returns F
// when the closure's only effect is that single unconditional store.
func optionSetsField(fn *ssa.Function) (string, bool) {
	if fn == nil || fn.Blocks == nil || len(fn.AnonFuncs) != 1 || len(fn.Params) != 1 {
		return "", false
	}
	cl := fn.AnonFuncs[0]
	if len(cl.Blocks) != 1 || len(cl.Params) != 1 || len(cl.FreeVars) != 1 {
		return "", false
	}
	field := ""
	n := 0
	for _, in := range cl.Blocks[0].Instrs {
		switch x := in.(type) {
		case *ssa.Store:
			n++
			f, base, ok := fieldAddrOf(x.Addr)
			if !ok || base != ssa.Value(cl.Params[0]) {
				return "", false
			}
			v := stripAllConv(x.Val)
			u, ok := v.(*ssa.UnOp)
			if !ok || u.Op != token.MUL || u.X != ssa.Value(cl.FreeVars[0]) {
				return "", false
			}
			if narrowsOnTheWay(x.Val, f.Type()) {
				// SequenceNumber(uint8(v)): the argument is cut below the width of the field before it is stored
				return "", false
			}
			field = f.Name()
		case *ssa.Call, *ssa.If, *ssa.MapUpdate:
			return "", false
		}
	}
	// the free variable is the constructor's parameter (captured cell holding it)
	return field, n == 1
}

// optionsOfCtor lists (setter function, argument) of a NewX(opts...) call with inline options.
func optionsOfCtor(call *ssa.Call) ([][2]ssa.Value, bool) {
	args := call.Common().Args
	if len(args) != 1 {
		return nil, false
	}
	elems, ok := varargElems(args[0])
	if !ok {
		return nil, false
	}
	var out [][2]ssa.Value
	for _, e := range elems {
		oc, ok := stripConv(e).(*ssa.Call)
		if !ok || oc.Common().StaticCallee() == nil || len(oc.Common().Args) != 1 {
			return nil, false
		}
		out = append(out, [2]ssa.Value{oc.Common().Value, oc.Common().Args[0]})
	}
	return out, true
}

func ruleMirror(p *Program, r *Result) {
	respI := p.lookupIface("", "Response")
	if respI == nil {
		r.undecided("R-MIRROR", "anchor:Response", "-", "UNRESOLVED tacquito.Response")
		return
	}
	restart, _ := p.rootConst("AuthenStatusRestart")
	found := false
	for _, fn := range p.UnitsIn(func(path string) bool { return path == modPath }) {
		if fn.Name() != "Reply" || fn.Signature.Recv() == nil || !implementsIface(derefT(fn.Signature.Recv().Type()), respI) {
			continue
		}
		found = true
		key := fnKey(fn)
		pos := p.Pos(fn.Pos())
		recv := fn.Params[0]
		body := fn.Params[1]
		// the stored request header: a Header-typed field of the receiver
		isStored := func(v ssa.Value, name string) bool {
			f, hb, ok := loadedField(v)
			if !ok || f.Name() != name {
				return false
			}
			// a local copy of the stored header (prev := r.header) stands for it
			if a, isAlloc := hb.(*ssa.Alloc); isAlloc {
				st := allocStores(a)
				if len(st) == 1 && spillUnmodified(a) {
					if u, isLoad := st[0].Val.(*ssa.UnOp); isLoad && u.Op == token.MUL {
						hb = u.X
					}
				}
			}
			hf, base, ok := fieldAddrOf(hb)
			return ok && typeIs(hf.Type(), modPath, "Header") && base == ssa.Value(recv)
		}
		// M1: header construction
		var ctor *ssa.Call
		for _, c := range allCalls(fn) {
			if call, ok := c.(*ssa.Call); ok && isStaticCall(call, modPath+".NewHeader") {
				ctor = call
			}
		}
		got := map[string]ssa.Value{}
		mirrored := map[string]bool{} // fields taken over by copying the stored header as a whole
		badOpt := ""
		var opts [][2]ssa.Value
		var hdrVal ssa.Value
		if ctor == nil {
			// the header written as a literal: &Header{Version: ..., Type: ..., ...}, each field stored once
			lit := headerLiteralIn(fn)
			if lit == nil {
				r.bad("R-MIRROR", key+":header-built", pos, "the reply header is not built by NewHeader(options...) or a Header literal in Reply")
				continue
			}
			okLit := true
			// the literal may start as a copy of the stored request header (header := r.header) with some fields
			// stored afterwards: every field not stored explicitly is then the stored header's
			var wholeCopy *ssa.Store
			for _, st := range allocStores(lit) {
				u, isLoad := st.Val.(*ssa.UnOp)
				if !isLoad || u.Op != token.MUL || wholeCopy != nil {
					okLit = false
					continue
				}
				hf, base, okf := fieldAddrOf(u.X)
				if !okf || !typeIs(hf.Type(), modPath, "Header") || base != ssa.Value(recv) {
					okLit = false
					continue
				}
				wholeCopy = st
			}
			for _, rf := range refsOf(lit) {
				fa, isFA := rf.(*ssa.FieldAddr)
				if !isFA {
					continue
				}
				for _, r2 := range refsOf(fa) {
					if st, isSt := r2.(*ssa.Store); isSt && st.Addr == ssa.Value(fa) {
						if _, dup := got[fieldName(fa)]; dup {
							okLit = false
						}
						if wholeCopy != nil && !domInstr(wholeCopy, st) {
							okLit = false // a field stored before the copy is overwritten by it
						}
						got[fieldName(fa)] = st.Val
					}
				}
			}
			if !okLit {
				r.bad("R-MIRROR", key+":header-built", p.Pos(lit.Pos()), "a field of the reply header literal is stored more than once, or the literal is assigned as a whole from something other than the stored request header")
				continue
			}
			if wholeCopy != nil {
				for _, f := range []string{"Version", "Type", "Flags", "SessionID"} {
					if _, explicit := got[f]; !explicit {
						got[f] = nil
						mirrored[f] = true
					}
				}
				// the length is the writer's to set; a copy may reset it
				if lv, has := got["Length"]; has {
					if c, isC := constInt(lv); isC && c == 0 {
						delete(got, "Length")
					}
				}
			}
			hdrVal = lit
			pos = p.Pos(lit.Pos())
		} else {
			var ok bool
			opts, ok = optionsOfCtor(ctor)
			if !ok {
				r.undecided("R-MIRROR", key+":header-built", p.Pos(ctor.Pos()), "the reply header's option list is not an inline list of SetHeaderX(...) calls")
				continue
			}
			for _, o := range opts {
				setter, _ := o[0].(*ssa.Function)
				f, ok := optionSetsField(setter)
				if !ok {
					badOpt = fmt.Sprintf("%s is not a plain 'store the argument into one header field' option (it ignores, clamps or conditions its argument)", fnKey(setter))
					continue
				}
				got[f] = o[1]
			}
			pos = p.Pos(ctor.Pos())
			hdrVal = ctor
		}
		if badOpt != "" {
			r.bad("R-MIRROR", key+":options-are-plain-setters", pos, "%s: the reply header can differ from what Reply computed (e.g. a sequence number of 256 silently becoming the default 1)", badOpt)
		} else {
			r.ok("R-MIRROR", key+":options-are-plain-setters", pos, true, "each of the %d header options used by Reply stores its argument, unconditionally, into the header field of the same name", len(opts))
		}
		for _, f := range []string{"Version", "Type", "Flags", "SessionID"} {
			v, ok := got[f]
			r.cond(ok && (mirrored[f] || isStored(v, f)), "R-MIRROR", key+":mirror:"+f, pos,
				"the reply's "+f+" is a copy of the stored request header's "+f,
				"the reply's "+f+" is not copied from the stored request header")
		}
		var names []string
		for k := range got {
			names = append(names, k)
		}
		sort.Strings(names)
		r.cond(strings.Join(names, ",") == "Flags,SeqNo,SessionID,Type,Version", "R-MIRROR", key+":mirror:field-set", pos,
			"Reply sets exactly Version, Type, SeqNo, Flags and SessionID (Length is set by the writer)",
			"Reply sets the header fields ["+strings.Join(names, ",")+"], expected exactly Version, Type, SeqNo, Flags, SessionID")
		// M2: sequence number
		seqOK := false
		why := "SetHeaderSeqNo is not given 'stored sequence + 1, or 1 for an authentication RESTART'"
		if sv, ok := got["SeqNo"]; ok {
			// a conversion to the field's own type (what the setter does too) is not a narrowing below the field
			for {
				cv, isCv := sv.(*ssa.Convert)
				if !isCv {
					if ct, isCt := sv.(*ssa.ChangeType); isCt {
						sv = ct.X
						continue
					}
					break
				}
				if p.Sizes.Sizeof(cv.Type()) < 2 {
					break
				}
				sv = cv.X
			}
			okAll := true
			nPlus, nOne := 0, 0
			var srcs []ssa.Value
			if ph, ok := sv.(*ssa.Phi); ok {
				for i, e := range ph.Edges {
					_ = i
					srcs = append(srcs, e)
				}
				for i, e := range ph.Edges {
					pred := ph.Block().Preds[i]
					if c, ok := constInt(e); ok && c == 1 {
						nOne++
						// the predecessor lies under 'body.(*AuthenReply).Status == RESTART'
						if !underRestartTest(pred, body, restart) {
							okAll = false
							why = "the constant sequence number 1 is not confined to replies whose status is AuthenStatusRestart"
						}
						continue
					}
					if bo, ok := e.(*ssa.BinOp); ok && bo.Op == token.ADD {
						if c, ok := constInt(bo.Y); ok && c == 1 && isStored(stripAllConv(bo.X), "SeqNo") && convWideEnough(bo.X, p.Sizes) {
							nPlus++
							continue
						}
					}
					okAll = false
				}
			} else if bo, ok := sv.(*ssa.BinOp); ok && bo.Op == token.ADD {
				if c, ok := constInt(bo.Y); ok && c == 1 && isStored(stripAllConv(bo.X), "SeqNo") {
					nPlus++
				} else {
					okAll = false
				}
			} else {
				okAll = false
			}
			seqOK = okAll && nPlus >= 1 && nOne <= 1
		}
		r.cond(seqOK, "R-MIRROR", key+":sequence", pos,
			"the reply's sequence number is the stored one + 1 (computed at int width, so 255+1 = 256 does not wrap), or the constant 1 exactly under Status == AuthenStatusRestart",
			why)
		// SetHeaderSeqNo stores at a width that keeps 256
		if seqT := p.lookupType("", "SequenceNumber"); seqT != nil {
			r.cond(p.Sizes.Sizeof(seqT) >= 2, "R-NARROW", "SequenceNumber:width", p.Pos(seqT.Obj().Pos()),
				"SequenceNumber is wider than 8 bits in memory: 256 fails Header.Validate instead of wrapping to 0",
				"SequenceNumber is 8 bits wide: 255+1 wraps to 0 before validation can reject it")
		}
		// M3: the stored header advances to the reply header
		var hdrStore *ssa.Store
		for _, b := range fn.Blocks {
			for _, in := range b.Instrs {
				st, ok := in.(*ssa.Store)
				if !ok {
					continue
				}
				f, base, ok := fieldAddrOf(st.Addr)
				if ok && base == ssa.Value(recv) && typeIs(f.Type(), modPath, "Header") {
					if u, ok := st.Val.(*ssa.UnOp); ok && u.Op == token.MUL && u.X == hdrVal {
						hdrStore = st
					}
				}
			}
		}
		// M4: the packet written
		var write ssa.CallInstruction
		nWrites := 0
		for _, c := range allCalls(fn) {
			f := c.Common().StaticCallee()
			if f == nil || f.Signature.Recv() == nil || len(c.Common().Args) != 2 {
				continue
			}
			// the response's own Write, or the stream writer called directly
			if (f.Name() == "Write" && c.Common().Args[0] == ssa.Value(recv)) || containsFn(p.Roles().Writers, f) {
				write = c
				nWrites++
			}
		}
		if write == nil || nWrites != 1 {
			r.bad("R-MIRROR", key+":one-write", pos, "Reply must hand exactly one packet to the writer; found %d write calls", nWrites)
			continue
		}
		pktCall, _ := write.Common().Args[1].(*ssa.Call)
		pktOK := false
		if pktCall != nil && isStaticCall(pktCall, modPath+".NewPacket") {
			if po, ok := optionsOfCtor(pktCall); ok {
				hOK, bOK := false, false
				for _, o := range po {
					s, _ := o[0].(*ssa.Function)
					if s == nil {
						continue
					}
					switch s.Name() {
					case "SetPacketHeader":
						hOK = o[1] == hdrVal
					case "SetPacketBody":
						if mc, idx, ok := extractOf(o[1]); ok && idx == 0 && mc.Common().IsInvoke() && mc.Common().Value == ssa.Value(body) && mc.Common().Method.Name() == "MarshalBinary" {
							bOK = true
						}
					}
				}
				pktOK = hOK && bOK && len(po) == 2
			}
		}
		r.cond(pktOK && !blockReachFromSelf(write.Block()), "R-MIRROR", key+":packet", p.Pos(write.Pos()),
			"the one packet handed to the writer carries the mirrored header and body.MarshalBinary() of the reply given to Reply",
			"the packet written is not NewPacket(SetPacketHeader(mirrored header), SetPacketBody(body.MarshalBinary()))")
		r.cond(hdrStore != nil && domInstr(hdrStore, write), "R-MIRROR", key+":stored-header-advances", pos,
			"before writing, the response's stored header is replaced by the reply header (the next reply in this exchange, and the session's last sequence number, start from it)",
			"the response's stored header is not advanced to the reply header before the write")
	}
	if !found {
		r.undecided("R-MIRROR", "anchor:Reply", "-", "UNRESOLVED: no Reply method of a Response implementation in the library")
	}
	// NewHeader applies the caller's options after its defaults
	if nh := p.LookupFunc("", "NewHeader"); nh != nil {
		good := false
		for _, c := range allCalls(nh) {
			if bi, ok := c.Common().Value.(*ssa.Builtin); ok && bi.Name() == "append" {
				a := c.Common().Args
				if len(a) == 2 && a[1] == ssa.Value(nh.Params[0]) {
					good = true
				}
			}
		}
		r.cond(good, "R-MIRROR", "NewHeader:options-after-defaults", p.Pos(nh.Pos()), "NewHeader applies append(defaults, options...): the caller's options override the defaults", "NewHeader does not apply the caller's options after its defaults")
	}
	// M5/M6: Response.Write goes straight to the stream writer; no reference handler bypasses Reply through Write
	n := 0
	for _, fn := range p.UFuncs() {
		if fn.Pkg != nil && fn.Pkg.Pkg.Path() == modPath {
			continue
		}
		for _, c := range allCalls(fn) {
			cc := c.Common()
			if cc.IsInvoke() && cc.Method.Name() == "Write" && typeIs(cc.Value.Type(), modPath, "Response") {
				n++
				r.bad("R-MIRROR", "bypass:"+fnKey(fn), p.Pos(c.Pos()), "a reference handler sends a hand-made packet through Response.Write: header mirroring, sequence numbering and the stored header are bypassed")
			}
		}
	}
	if n == 0 {
		r.ok("R-MIRROR", "no-handler-bypasses-reply", "-", true, "no handler of the reference server calls Response.Write: every reply goes through Reply/ReplyWithContext")
	}
	r.floor("R-MIRROR", 11)
}

// underRestartTest: block b is reached only through the true edge of `body.(*AuthenReply).Status == RESTART`.
func underRestartTest(b *ssa.BasicBlock, body ssa.Value, restart int64) bool {
	for d := b; d != nil; d = d.Idom() {
		id := d.Idom()
		if id == nil {
			return false
		}
		iff, ok := id.Instrs[len(id.Instrs)-1].(*ssa.If)
		if !ok {
			continue
		}
		bo, ok := iff.Cond.(*ssa.BinOp)
		if !ok || bo.Op != token.EQL {
			continue
		}
		c, okc := constInt(bo.Y)
		if !okc || c != restart {
			continue
		}
		f, base, ok := loadedField(bo.X)
		if !ok || f.Name() != "Status" {
			continue
		}
		// base is the asserted *AuthenReply of body
		if ex, ok := base.(*ssa.Extract); ok {
			if ta, ok := ex.Tuple.(*ssa.TypeAssert); ok && ta.X == body {
				if s := id.Succs[0]; (s == d || s.Dominates(d)) && len(s.Preds) == 1 {
					return true
				}
			}
		}
		if ta, ok := base.(*ssa.TypeAssert); ok && ta.X == body {
			if s := id.Succs[0]; (s == d || s.Dominates(d)) && len(s.Preds) == 1 {
				return true
			}
		}
	}
	return false
}

// convWideEnough: the stored 16-bit sequence number is widened (not narrowed) before +1.
func convWideEnough(v ssa.Value, sizes types.Sizes) bool {
	for {
		switch x := v.(type) {
		case *ssa.Convert:
			if sizes.Sizeof(x.Type()) < sizes.Sizeof(x.X.Type()) {
				return false
			}
			v = x.X
		case *ssa.ChangeType:
			v = x.X
		default:
			return true
		}
	}
}

// ruleRequestHeaderUntouched: between the read and the construction of request and response, the loop
// does not modify the header of the packet it read.
func ruleRequestHeaderUntouched(p *Program, r *Result) {
	ro := rolesOK(p, r)
	for _, L := range ro.Loops {
		var reads []*ssa.Call
		for _, c := range allCalls(L) {
			if call, ok := c.(*ssa.Call); ok && containsFn(ro.Readers, call.Common().StaticCallee()) {
				reads = append(reads, call)
			}
		}
		bad := ""
		rootedInPacket := func(addr ssa.Value) bool {
			for i := 0; i < 8; i++ {
				switch x := addr.(type) {
				case *ssa.FieldAddr:
					addr = x.X
				case *ssa.UnOp:
					if x.Op != token.MUL {
						return false
					}
					addr = x.X
				case *ssa.Extract:
					for _, rd := range reads {
						if x.Tuple == ssa.Value(rd) && x.Index == 0 {
							return true
						}
					}
					return false
				default:
					return false
				}
			}
			return false
		}
		for _, b := range L.Blocks {
			for _, in := range b.Instrs {
				switch x := in.(type) {
				case *ssa.Store:
					if _, isFA := x.Addr.(*ssa.FieldAddr); isFA && rootedInPacket(x.Addr) {
						bad = fmt.Sprintf("store at %s", p.Pos(x.Pos()))
					}
				case ssa.CallInstruction:
					for _, a := range x.Common().Args {
						if fa, ok := a.(*ssa.FieldAddr); ok && rootedInPacket(fa) {
							if f := x.Common().StaticCallee(); f != nil && f.Signature.Recv() != nil {
								if _, isPtr := f.Signature.Recv().Type().(*types.Pointer); isPtr && mutatesReceiver(f) {
									bad = fmt.Sprintf("%s at %s", shortCall(x), p.Pos(x.Pos()))
								}
							}
						}
					}
				}
			}
		}
		r.cond(bad == "", "R-LOOP", fnKey(L)+":e:request-header-untouched", p.Pos(L.Pos()),
			"the connection loop does not modify the header of the packet it read before handing it to the handler and mirroring it",
			"the connection loop rewrites the request header before it is mirrored ("+bad+"): the reply no longer carries the flag octet, version or type the client sent")
	}
}

// mutatesReceiver: a pointer-receiver method that stores through its receiver.
func mutatesReceiver(f *ssa.Function) bool {
	if f.Blocks == nil || len(f.Params) == 0 {
		return true
	}
	for _, b := range f.Blocks {
		for _, in := range b.Instrs {
			if st, ok := in.(*ssa.Store); ok {
				k, root, _ := addrRoot(st.Addr, 6)
				if k == rootForeign && root == ssa.Value(f.Params[0]) {
					return true
				}
			}
		}
	}
	return false
}

// narrowsOnTheWay: some conversion between the loaded argument and the stored value has an integer type
// narrower than the destination field, so values the field could hold are wrapped before they reach it.
func narrowsOnTheWay(v ssa.Value, dst types.Type) bool {
	sz := types.SizesFor("gc", "amd64")
	db, ok := dst.Underlying().(*types.Basic)
	if !ok || db.Info()&types.IsInteger == 0 {
		return false
	}
	for {
		switch x := v.(type) {
		case *ssa.Convert:
			if b, ok := x.Type().Underlying().(*types.Basic); ok && b.Info()&types.IsInteger != 0 {
				if sz.Sizeof(x.Type()) < sz.Sizeof(dst) {
					return true
				}
			}
			v = x.X
		case *ssa.ChangeType:
			v = x.X
		default:
			return false
		}
	}
}

// headerLiteralIn: the one heap-allocated Header literal of fn (the reply header written as &Header{...}).
func headerLiteralIn(fn *ssa.Function) *ssa.Alloc {
	var lit *ssa.Alloc
	for _, b := range fn.Blocks {
		for _, in := range b.Instrs {
			if a, ok := in.(*ssa.Alloc); ok && a.Heap && typeIs(a.Type().(*types.Pointer).Elem(), modPath, "Header") {
				if _, named := a.Type().(*types.Pointer).Elem().(*types.Named); !named {
					continue
				}
				if lit != nil {
					return nil
				}
				lit = a
			}
		}
	}
	return lit
}
