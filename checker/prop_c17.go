package main

import (
	"go/types"
	"strings"

	"golang.org/x/tools/go/ssa"
)

func init() {
	register("C17", checkC17)
	register("C20", checkC20)
}

func checkC17(p *Program, tier string) *Result {
	r := newResult("C17")
	r.Explanation = "R-PAIR(a): in the accept loop WaitGroup.Add(1) is executed by the accepting goroutine after a successful Accept and before the go statement; the spawned function's first instruction defers Done on the same wait group; Serve defers listener.Close() and Wait() unconditionally before the loop; a finite accept deadline and a context poll lie between two Accepts. R-LOOP(a,f): the connection is closed on every exit of the connection loop, a finite positive read deadline is armed and the context polled on every path between two reads, read errors return. Who-may-call: no other module function re-arms a deadline on the served connection."
	rulePairWaitGroup(p, r)
	ruleLoop(p, r, "acf")
	r.floor("R-LOOP", 5)
	ruleDeadlineWhoMayCall(p, r)
	ruleNoBlock(p, r)
	r.floor("R-NOBLOCK", 2)
	r.Assumptions = append(r.Assumptions, "that Serve does return needs the armed deadlines to fire (runtime/OS timers) and handlers to terminate: liveness is not decided")
	r.Trusted = append(r.Trusted, "sync.WaitGroup, net.Conn deadlines, context cancellation")
	return r
}

// ruleDeadlineWhoMayCall: SetReadDeadline/SetDeadline on a served connection only in the connection loop;
// otherwise the per-packet deadline silently becomes something else (e.g. a per-byte idle timeout).
func ruleDeadlineWhoMayCall(p *Program, r *Result) {
	ro := rolesOK(p, r)
	n := 0
	for _, fn := range p.UnitsIn(func(path string) bool { return path == modPath || strings.HasPrefix(path, modPath+"/proxy") }) {
		for _, c := range allCalls(fn) {
			cc := c.Common()
			m := ""
			var on ssa.Value
			if cc.IsInvoke() {
				m, on = cc.Method.Name(), cc.Value
			} else if f := cc.StaticCallee(); f != nil && f.Signature.Recv() != nil && len(cc.Args) > 0 {
				m, on = f.Name(), cc.Args[0]
			}
			if m != "SetReadDeadline" && m != "SetDeadline" {
				continue
			}
			if !(isNetConn(on.Type()) || embedsNetConn(on.Type())) {
				continue // the listener's accept deadline is handled by R-PAIR(a)
			}
			n++
			r.cond(containsFn(ro.Loops, fn), "R-LOOP", "who-arms-read-deadline:"+fnKey(fn), p.Pos(c.Pos()),
				"the read deadline of a served connection is armed only in the connection loop, once per packet",
				"a read deadline is (re-)armed outside the connection loop: the per-packet deadline no longer bounds how long a connection may idle (e.g. re-arming after every byte never reaps a slow client)")
		}
	}
}

func embedsNetConn(t types.Type) bool {
	st := derefStruct(t)
	if st == nil {
		return false
	}
	for i := 0; i < st.NumFields(); i++ {
		if st.Field(i).Embedded() && isNetConn(st.Field(i).Type()) {
			return true
		}
	}
	return false
}

func checkC20(p *Program, tier string) *Result {
	r := newResult("C20")
	r.Explanation = "R-PAIR(b): every prometheus.Gauge of the library is enumerated with all its modification sites in the module. Only Inc/Dec are allowed. Bracket gauges: Inc and Dec in one function with Dec on every path from Inc to return and never without it, or one unconditional Inc/Dec in the WaitGroup Add/Done wrappers (paired per goroutine by R-PAIR a). Population gauge (active sessions): every insertion into the session table has exactly one unconditional Inc in the inserting function and is called only on a lookup miss; every deletion decrements exactly once iff the key was present (presence test on the same key); the drain loop at connection close decrements once per remaining entry; no other site touches the gauge. The wrappers run one Add(1) and one deferred Done per connection goroutine (wherever the Add sits; its position matters to C17 only) and the table close is deferred per connection (R-LOOP a)."
	rulePairGauges(p, r)
	ruleGoroutineGaugePaired(p, r)
	// the insertion (and its Inc) happens only when the table reported a miss for that session id
	sub := newResult("C08")
	ruleSeq(p, sub)
	if r.takeFrom(sub, "R-SEQ", "new-flow-only-on-miss") == 0 {
		r.undecided("R-SEQ", "new-flow-only-on-miss", "-", "the lookup's miss clause was not produced")
	}
	ruleLoop(p, r, "a")
	r.floor("R-LOOP", 1)
	r.Trusted = append(r.Trusted, "prometheus Gauge.Inc/Dec are atomic and exact")
	r.Assumptions = append(r.Assumptions, "process abort is out of scope", "admission refusal returns before the first Inc of the connection gauge (checked as part of the bracket rule: Inc and Dec are in the same function after the refusal return)")
	return r
}
