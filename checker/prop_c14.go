package main

import (
	"sort"

	"golang.org/x/tools/go/ssa"
)

func init() { register("C14", checkC14, cfgLinux386) }

func requestPathList(p *Program) []*ssa.Function {
	rp := p.requestPath()
	var fns []*ssa.Function
	for f := range rp {
		if !closureCanExist(p, f) {
			continue
		}
		fns = append(fns, f)
	}
	sort.Slice(fns, func(i, j int) bool { return fns[i].String() < fns[j].String() })
	return p.asUnits(fns)
}

func checkC14(p *Program, tier string) *Result {
	r := newResult("C14")
	r.Explanation = "R-RECURSION: no static call cycle among the module functions on the request path (a stack overflow is fatal for the whole server). R-SLOT: a slot taken from a channel field on the accept path (a connection limit) is given back on every exit of the connection goroutine - a leaked slot per refused client ends in every client being refused. The panic sources this code base has, over everything reachable (CHA) from a connection goroutine — decoders, handlers, authenticator, authorizers, accounters, secret providers, loggers: R-BOUNDS/R-ALLOC (every index, slice and library buffer contract proven in range, as for C04, on the larger set); R-PANIC (no explicit panic/exit/fatal, no unchecked type assertion unless every value stored into the asserted field has the asserted type, no non-constant integer division); R-NILCHECK (every use of a value that may be nil — results of module functions that can return a nil constant or a map lookup, non-comma-ok map lookups of pointer/interface type — is dominated by the non-nil edge of a nil test); R-NILIFACE (every struct literal published under an interface sets, to a non-nil value, each interface-typed field that the interface's methods invoke). R-SHAREDWRITE (shared with C15): no unsynchronised write to long-lived state on the request path — a concurrent map write is a fatal runtime error that no recover can catch."
	fns := requestPathList(p)
	dec := decodeSet(p)
	seen := map[*ssa.Function]bool{}
	var all []*ssa.Function
	for _, f := range append(append([]*ssa.Function{}, fns...), dec...) {
		if !seen[f] {
			seen[f] = true
			all = append(all, f)
		}
	}
	ruleBounds(p, r, all, "R-BOUNDS")
	r.floor("R-BOUNDS", 80)
	ruleAlloc(p, r, all)
	rulePanicSources(p, r, all, "R-PANIC")
	ruleSlot(p, r)
	ruleRecursion(p, r, all)
	rulePadPrecondition(p, r)
	ruleNilCheck(p, r, all)
	ruleNilIface(p, r)
	// an unsynchronised concurrent map write is a fatal runtime error, not merely a race
	ruleSharedWrite(p, r)
	r.Trusted = append(r.Trusted, "third-party libraries (yaml, prometheus, bcrypt, regexp) do not panic on the inputs they are given")
	r.Assumptions = append(r.Assumptions, "general nil-pointer freedom, resource exhaustion and 'other clients keep being served' as a liveness statement are not decided; this is the weakest claim of the list")
	return r
}
