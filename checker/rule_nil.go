package main

import (
	"fmt"
	"go/token"
	"go/types"
	"sort"
	"strings"

	"golang.org/x/tools/go/ssa"
)

// mayReturnNil: result #idx of module function f can be the nil constant or a plain map lookup.
func mayReturnNil(f *ssa.Function, idx int, depth int) bool {
	if f == nil || f.Blocks == nil || depth == 0 {
		return false
	}
	for _, b := range f.Blocks {
		ret, ok := b.Instrs[len(b.Instrs)-1].(*ssa.Return)
		if !ok || b == f.Recover || idx >= len(ret.Results) {
			continue
		}
		for _, rv := range returnedValues(f, ret, idx) {
			if isNilConst(rv) {
				return true
			}
			if lk, ok := rv.(*ssa.Lookup); ok && !lk.CommaOk {
				if _, isMap := lk.X.Type().Underlying().(*types.Map); isMap {
					return true
				}
			}
			if call, i2, ok := extractOf(rv); ok {
				if mayReturnNil(call.Common().StaticCallee(), i2, depth-1) {
					return true
				}
			}
			if call, ok := rv.(*ssa.Call); ok {
				if mayReturnNil(call.Common().StaticCallee(), 0, depth-1) {
					return true
				}
			}
		}
	}
	return false
}

func nilable(t types.Type) bool {
	switch t.Underlying().(type) {
	case *types.Pointer, *types.Interface:
		return true
	}
	return false
}

// nonNilGuarded: instruction `use` is dominated by the non-nil edge of a test v ==/!= nil.
func nonNilGuarded(v ssa.Value, use ssa.Instruction) bool {
	for _, rf := range refsOf(v) {
		bo, ok := rf.(*ssa.BinOp)
		if !ok || (bo.Op != token.EQL && bo.Op != token.NEQ) {
			continue
		}
		if !(isNilConst(bo.X) || isNilConst(bo.Y)) {
			continue
		}
		for _, r2 := range refsOf(bo) {
			iff, ok := r2.(*ssa.If)
			if !ok {
				continue
			}
			nn := iff.Block().Succs[1]
			if bo.Op == token.NEQ {
				nn = iff.Block().Succs[0]
			}
			other := iff.Block().Succs[0]
			if other == nn {
				other = iff.Block().Succs[1]
			}
			if (nn == use.Block() || nn.Dominates(use.Block())) && len(nn.Preds) == 1 {
				return true
			}
			// "if v == nil { ...return }" : the nil branch never reaches the use
			if !blockReach(other, nil)[use.Block()] && iff.Block().Dominates(use.Block()) {
				return true
			}
		}
		// combined conditions (err != nil || x == nil) appear as chains of Ifs over the same BinOp: handled above per If
	}
	return false
}

// ruleNilCheck: may-be-nil values are tested before they are used.
func ruleNilCheck(p *Program, r *Result, fns []*ssa.Function) {
	n := 0
	for _, fn := range fns {
		ord := 0
		for _, b := range fn.Blocks {
			for _, in := range b.Instrs {
				var src ssa.Value
				why := ""
				switch x := in.(type) {
				case *ssa.Call:
					if !nilable(x.Type()) {
						continue
					}
					cc := x.Common()
					if cc.IsInvoke() {
						// a module interface method some implementation of which may return nil
						for _, f := range p.UFuncs() {
							if f.Name() == cc.Method.Name() && f.Signature.Recv() != nil && types.Identical(f.Signature.Results(), cc.Signature().Results()) && types.Identical(f.Signature.Params(), cc.Signature().Params()) {
								if mayReturnNil(f, 0, 3) {
									src, why = x, "result of "+shortCall(x)+", which "+fnKey(f)+" can return as nil"
								}
							}
						}
					} else if f := cc.StaticCallee(); f != nil && f.Pkg != nil && isModulePath(f.Pkg.Pkg.Path()) && mayReturnNil(f, 0, 3) {
						src, why = x, "result of "+fnKey(f)+", which can be nil"
					}
				case *ssa.Extract:
					call, ok := x.Tuple.(*ssa.Call)
					if !ok || !nilable(x.Type()) || isErrorType(x.Type()) {
						continue
					}
					if f := call.Common().StaticCallee(); f != nil && f.Pkg != nil && isModulePath(f.Pkg.Pkg.Path()) && mayReturnNil(f, x.Index, 3) {
						// results that come with an error are covered when the error is tested: require an explicit nil test only
						// if the function can return (nil, nil)
						if returnsNilWithNilError(f, x.Index) {
							src, why = x, fmt.Sprintf("result #%d of %s, which can be nil together with a nil error", x.Index, fnKey(f))
						}
					}
				case *ssa.Phi:
					// a pointer that is the nil constant on one of the paths joining here (in an inlined view:
					// the folded helper's `return nil, nil`)
					if _, isPtr := x.Type().Underlying().(*types.Pointer); !isPtr {
						continue
					}
					for _, s := range phiSources(x) {
						if isNilConst(s) {
							src, why = x, "a pointer that is nil on one of the paths joining here"
						}
					}
				case *ssa.Lookup:
					mt, isMap := x.X.Type().Underlying().(*types.Map)
					if !isMap || !nilable(mt.Elem()) {
						continue
					}
					if !x.CommaOk {
						src, why = x, "map lookup without comma-ok"
					} else if mapMayHoldNil(p, x.X) {
						// the ok flag says the key is present, not that the stored value is non-nil
						for _, rf := range refsOf(x) {
							if e, ok := rf.(*ssa.Extract); ok && e.Index == 0 {
								src, why = e, "value of a comma-ok lookup in a map that holds explicit nil entries"
							}
						}
					}
				}
				if src == nil {
					continue
				}
				// uses that dereference
				for _, rf := range refsOf(src) {
					deref := false
					switch u := rf.(type) {
					case *ssa.FieldAddr:
						deref = u.X == src
					case *ssa.UnOp:
						deref = u.Op == token.MUL && u.X == src
					case ssa.CallInstruction:
						cc := u.Common()
						if cc.IsInvoke() && cc.Value == src {
							deref = true
						}
						if f := cc.StaticCallee(); f != nil && f.Signature.Recv() != nil && len(cc.Args) > 0 && cc.Args[0] == src {
							if _, isPtr := f.Signature.Recv().Type().(*types.Pointer); isPtr {
								deref = false // pointer-receiver method may handle nil itself; its own derefs are checked there
							}
						}
					}
					if !deref {
						continue
					}
					ord++
					n++
					key := fmt.Sprintf("%s:use#%d", fnKey(fn), ord)
					if nonNilGuarded(src, rf) {
						r.ok("R-NILCHECK", key, p.Pos(rf.Pos()), true, "%s is used only behind a nil test", why)
					} else {
						r.bad("R-NILCHECK", key, p.Pos(rf.Pos()), "%s is dereferenced without a nil test: a nil pointer dereference in a connection goroutine terminates the server", why)
					}
				}
			}
		}
	}
	r.floor("R-NILCHECK", 5)
}

func returnsNilWithNilError(f *ssa.Function, idx int) bool {
	for _, b := range f.Blocks {
		ret, ok := b.Instrs[len(b.Instrs)-1].(*ssa.Return)
		if !ok || b == f.Recover || idx >= len(ret.Results) {
			continue
		}
		last := len(ret.Results) - 1
		if !isErrorType(f.Signature.Results().At(last).Type()) {
			for _, rv := range returnedValues(f, ret, idx) {
				if isNilConst(rv) {
					return true
				}
			}
			continue
		}
		nilErr := false
		for _, ev := range returnedValues(f, ret, last) {
			if isNilConst(ev) {
				nilErr = true
			}
		}
		if !nilErr {
			continue
		}
		for _, rv := range returnedValues(f, ret, idx) {
			if isNilConst(rv) {
				return true
			}
		}
	}
	return false
}

// ---------------------------------------------------------------------------
// R-NILIFACE

// ifaceFieldsUsed: interface-typed fields of T on which method m (and same-receiver methods it calls) invokes methods.
func ifaceFieldsUsed(p *Program, m *ssa.Function, depth int, seen map[*ssa.Function]bool) map[string]bool {
	out := map[string]bool{}
	if m == nil || m.Blocks == nil || depth == 0 || seen[m] || len(m.Params) == 0 {
		return out
	}
	seen[m] = true
	recv := m.Params[0]
	isRecvField := func(v ssa.Value) (string, bool) {
		f, base, ok := loadedField(v)
		if !ok {
			return "", false
		}
		if sameObject(base, recv) {
			return f.Name(), true
		}
		// value receiver: t = *recvcopy; Field(t, i)
		if fx, ok := v.(*ssa.Field); ok {
			if u, ok := fx.X.(*ssa.UnOp); ok && u.Op == token.MUL && sameObject(u.X, recv) {
				return f.Name(), true
			}
		}
		return "", false
	}
	for _, c := range allCalls(m) {
		cc := c.Common()
		if cc.IsInvoke() {
			if name, ok := isRecvField(cc.Value); ok {
				out[name] = true
			}
			continue
		}
		f := cc.StaticCallee()
		if f != nil && f.Signature.Recv() != nil && len(cc.Args) > 0 && (cc.Args[0] == ssa.Value(recv) || sameObject(stripLoad(cc.Args[0]), recv)) {
			for k := range ifaceFieldsUsed(p, f, depth-1, seen) {
				out[k] = true
			}
		}
	}
	return out
}

func stripLoad(v ssa.Value) ssa.Value {
	if u, ok := v.(*ssa.UnOp); ok && u.Op == token.MUL {
		return u.X
	}
	return v
}

// literalFields: fields a composite literal (alloc + field stores) sets to a non-nil value.
func literalFields(a *ssa.Alloc) (set map[string]ssa.Value) {
	set = map[string]ssa.Value{}
	for _, rf := range refsOf(a) {
		fa, ok := rf.(*ssa.FieldAddr)
		if !ok {
			continue
		}
		for _, r2 := range refsOf(fa) {
			if st, ok := r2.(*ssa.Store); ok && st.Addr == fa && !isNilConst(st.Val) {
				set[fieldName(fa)] = st.Val
			}
		}
	}
	return
}

// publishedAs: interface types under which the literal's object is published (directly, or through
// being returned by its constructor, one level).
func publishedAs(p *Program, a *ssa.Alloc, depth int) []types.Type {
	var out []types.Type
	var follow func(v ssa.Value, d int)
	follow = func(v ssa.Value, d int) {
		if d == 0 {
			return
		}
		for _, rf := range refsOf(v) {
			switch u := rf.(type) {
			case *ssa.MakeInterface:
				out = append(out, u.Type())
			case *ssa.UnOp:
				if u.Op == token.MUL {
					follow(u, d) // value copy of the struct
				}
			case *ssa.Return:
				fn := u.Parent()
				if node := p.cgNode(fn); node != nil {
					for _, e := range node.In {
						c := e.Caller.Func
						if e.Site == nil || c == nil || c.Blocks == nil || p.isTestFile(c.Pos()) {
							continue
						}
						if pk := outermost(c).Pkg; pk == nil || !inUniverse(pk.Pkg.Path()) {
							continue
						}
						if val := e.Site.Value(); val != nil {
							if _, isTuple := val.Type().(*types.Tuple); isTuple {
								for _, r3 := range refsOf(val) {
									if ex, ok := r3.(*ssa.Extract); ok && ex.Index == 0 {
										follow(ex, d-1)
									}
								}
							} else {
								follow(val, d-1)
							}
						}
					}
				}
			}
		}
	}
	follow(a, depth)
	return out
}

func ruleNilIface(p *Program, r *Result) {
	n := 0
	for _, fn := range p.UFuncs() {
		ord := 0
		for _, b := range fn.Blocks {
			for _, in := range b.Instrs {
				a, ok := in.(*ssa.Alloc)
				if !ok || a.Comment != "complit" {
					continue
				}
				pt, _ := a.Type().(*types.Pointer)
				nt := namedOf(pt.Elem())
				if nt == nil || nt.Obj().Pkg() == nil || !isModulePath(nt.Obj().Pkg().Path()) {
					continue
				}
				st, ok := nt.Underlying().(*types.Struct)
				if !ok {
					continue
				}
				hasIface := false
				for i := 0; i < st.NumFields(); i++ {
					if _, ok := st.Field(i).Type().Underlying().(*types.Interface); ok {
						hasIface = true
					}
				}
				if !hasIface {
					continue
				}
				ifaces := publishedAs(p, a, 2)
				if len(ifaces) == 0 {
					continue
				}
				used := map[string]bool{}
				var under []string
				seenI := map[string]bool{}
				for _, it := range ifaces {
					iface, ok := it.Underlying().(*types.Interface)
					if !ok || seenI[it.String()] {
						continue
					}
					seenI[it.String()] = true
					under = append(under, typeName(it))
					for i := 0; i < iface.NumMethods(); i++ {
						mname := iface.Method(i).Name()
						for _, T := range []types.Type{nt, types.NewPointer(nt)} {
							ms := p.SSA.MethodSets.MethodSet(T)
							for j := 0; j < ms.Len(); j++ {
								if ms.At(j).Obj().Name() != mname {
									continue
								}
								var mf *ssa.Function
								if obj, ok := ms.At(j).Obj().(*types.Func); ok {
									mf = p.SSA.FuncValue(obj)
								}
								if mf == nil || mf.Blocks == nil || len(mf.Params) == 0 || namedOf(mf.Params[0].Type()) != nt {
									// promoted through an embedded field: the embedded field itself is used
									if sel := ms.At(j); len(sel.Index()) > 1 {
										used[st.Field(sel.Index()[0]).Name()] = true
									}
									continue
								}
								for k := range ifaceFieldsUsed(p, mf, 3, map[*ssa.Function]bool{}) {
									used[k] = true
								}
							}
						}
					}
				}
				if len(used) == 0 {
					continue
				}
				ord++
				n++
				set := literalFields(a)
				var missing []string
				for f := range used {
					// only interface-typed fields
					isIf := false
					for i := 0; i < st.NumFields(); i++ {
						if st.Field(i).Name() == f {
							_, isIf = st.Field(i).Type().Underlying().(*types.Interface)
						}
					}
					if !isIf {
						continue
					}
					if v, ok := set[f]; !ok {
						missing = append(missing, f)
					} else if callResultMayBeNilIface(v, 3) {
						missing = append(missing, f+" (set from a call that can hand back a nil interface)")
					}
				}
				sort.Strings(missing)
				sort.Strings(under)
				key := fmt.Sprintf("%s:%s#%d", fnKey(fn), nt.Obj().Name(), ord)
				if len(missing) == 0 {
					r.ok("R-NILIFACE", key, p.Pos(a.Pos()), true, "literal of %s published as %s sets every interface field its methods invoke", typeName(nt), strings.Join(under, ", "))
				} else {
					r.bad("R-NILIFACE", key, p.Pos(a.Pos()), "literal of %s is published as %s but leaves interface field(s) %v nil, which the methods of that interface invoke: the first such call dereferences a nil interface and kills the server", typeName(nt), strings.Join(under, ", "), missing)
				}
			}
		}
	}
	r.floor("R-NILIFACE", 12)
}

// mapMayHoldNil: some update of this map (local, or the same struct field anywhere in the universe) stores a nil constant.
func mapMayHoldNil(p *Program, m ssa.Value) bool {
	check := func(mu *ssa.MapUpdate) bool { return isNilConst(mu.Value) }
	if mk, ok := m.(*ssa.MakeMap); ok {
		for _, rf := range refsOf(mk) {
			if mu, ok := rf.(*ssa.MapUpdate); ok && mu.Map == ssa.Value(mk) && check(mu) {
				return true
			}
		}
		return false
	}
	f := mapFieldOf(m)
	if f == nil {
		return false
	}
	for _, fn := range p.UFuncs() {
		for _, b := range fn.Blocks {
			for _, in := range b.Instrs {
				if mu, ok := in.(*ssa.MapUpdate); ok && mapFieldOf(mu.Map) == f && check(mu) {
					return true
				}
			}
		}
	}
	return false
}

// callResultMayBeNilIface: v is the result of a module function that can return, at that position, an interface
// value the code does not show to be non-nil: the nil constant, or a field of an object other than its own
// receiver that the function itself created without setting that field. (Parameters and fields of the receiver are
// the caller's / the published object's responsibility and are checked where those are built.)
func callResultMayBeNilIface(v ssa.Value, depth int) bool {
	if depth == 0 {
		return false
	}
	idx := 0
	var call *ssa.Call
	switch x := v.(type) {
	case *ssa.Call:
		call = x
	case *ssa.Extract:
		call, _ = x.Tuple.(*ssa.Call)
		idx = x.Index
	}
	if call == nil {
		return false
	}
	f := call.Common().StaticCallee()
	if f == nil || f.Pkg == nil || !isModulePath(f.Pkg.Pkg.Path()) || len(f.Blocks) == 0 {
		return false
	}
	for _, b := range f.Blocks {
		ret, ok := b.Instrs[len(b.Instrs)-1].(*ssa.Return)
		if !ok || b == f.Recover || idx >= len(ret.Results) {
			continue
		}
		for _, rv := range returnedValues(f, ret, idx) {
			if isNilConst(rv) {
				return true
			}
			if callResultMayBeNilIface(rv, depth-1) {
				return true
			}
			if fld, base, ok := loadedField(rv); ok {
				// a field of an object this function made itself: is the field set in the literal?
				for i := 0; i < 3; i++ {
					if u, ok := base.(*ssa.UnOp); ok && u.Op == token.MUL {
						base = u.X
					}
				}
				if al, ok := base.(*ssa.Alloc); ok && al.Parent() == f {
					if _, set := literalFields(al)[fld.Name()]; !set {
						isSpill := false
						for _, st := range allocStores(al) {
							if _, isParam := st.Val.(*ssa.Parameter); isParam {
								isSpill = true
							}
						}
						if !isSpill {
							return true
						}
					}
				}
			}
		}
	}
	return false
}
