package main

func init() { register("C01", checkC01, cfgLinux386) }

func checkC01(p *Program, tier string) *Result {
	r := newResult("C01")
	r.Explanation = "R-LAYOUT: the wire layout of the header, the packet and the seven AAA bodies is extracted symbolically from each MarshalBinary (statement order of the typed AST: appends, 16-bit helper, per-argument loops, positional stores and big-endian puts) and each UnmarshalBinary (fixed offsets, cursor reads in order, every length variable bound to the field whose bytes it measures), and both must equal a layout table written independently from RFC 8907 §4.1, §5.1–5.3, §6.1–6.2, §7.1–7.2; the cursor helpers and the 16-bit append helper are summarised from their own bodies. R-ENUM: the numeric values of the protocol constants equal an independent RFC table, and each enum type's Validate accepts exactly its declared constants."
	ruleLayout(p, r, "ed", true)
	ruleEnum(p, r)
	r.Trusted = append(r.Trusted, "append, copy, encoding/binary.BigEndian do what their documentation says", "the hand-written RFC 8907 tables in rule_layout.go and rule_enum.go")
	r.Assumptions = append(r.Assumptions, "truncation of over-long fields is C02's subject", "the layouts do not depend on field values; lengths only scale bytes() items")
	return r
}
