package main

func init() { register("C11", checkC11) }

func checkC11(p *Program, tier string) *Result {
	r := newResult("C11")
	r.Explanation = "R-ANCHOR: every pattern handed to regexp in the authorizers is, unconditionally, \"^(?:\"+expr+\")$\". R-FIRSTMATCH: in the command evaluator nothing but range indices and the per-iteration rule copy is carried across rules; every return is the constant false or (current rule's Action == PERMIT) under 'Name is the wildcard' or 'Name equals the requested command and (no patterns or pattern matched)'; exhaustion and pattern errors return false; the subject is Args.CommandArgsNoLE(); the rule list is the ordered slice append(user.Commands, group.Commands...). R-PROVENANCE: every authorization reply site in the universe is enumerated with its status constants; PASS_ADD/PASS_REPL only behind the true edge of the command evaluator, or behind len(values)>0 of the session evaluator with status and values from that same evaluation. R-SCOPEWINS: the session matcher's attribute map is filled by unconditional assignment in argument order and the connection's scope is appended last, so the connection's scope overrides a client-supplied scope attribute."
	sites := ruleAnchor(p, r)
	evals := ruleFirstMatch(p, r, sites)
	ruleAuthorProvenance(p, r, evals)
	ruleScopeWins(p, r)
	ruleBuildKeepsConfig(p, r)
	ruleRuleList(p, r)
	r.Trusted = append(r.Trusted, "regexp implements RE2 semantics of ^(?:...)$ (whole-string match without (?m))", "strings.Join/TrimSpace")
	r.Assumptions = append(r.Assumptions, "the exact argument list returned by a session authorization (value semantics of the service matcher over all configurations) is not decided")
	return r
}
