// tqverify: repository-specific static analysis for facebookincubator/tacquito.
// Decides the properties C01..C20 of /verif/properties.jsonl from the source of
// the working tree, without running it. See /verif/DESIGN.md.
package main

import (
	"encoding/json"
	"flag"
	"fmt"
	"os"
	"path/filepath"
	"sort"
	"strconv"
	"strings"
	"time"
)

// PropCheck computes the obligations of one property on one loaded program.
type PropCheck func(p *Program, tier string) *Result

var registry = map[string]PropCheck{}

// which extra build configurations a property's thorough tier analyses
var thoroughConfigs = map[string][]BuildConfig{}

func register(id string, f PropCheck, extra ...BuildConfig) {
	registry[id] = f
	thoroughConfigs[id] = extra
}

var (
	cfgLinux386   = BuildConfig{GOOS: "linux", GOARCH: "386"}
	cfgDarwin     = BuildConfig{GOOS: "darwin", GOARCH: "amd64"}
	cfgWindows    = BuildConfig{GOOS: "windows", GOARCH: "amd64"}
	cfgLinuxAMD64 = BuildConfig{GOOS: "linux", GOARCH: "amd64"}
)

func main() {
	repo := flag.String("repo", "/repo", "repository working tree")
	verif := flag.String("verif", "/verif", "verification directory (evidence, known findings)")
	prop := flag.String("property", "", "property id, or 'all'")
	tier := flag.String("tier", "quick", "quick|thorough")
	explain := flag.String("explain", "", "replay file: re-derive the named obligation")
	selftest := flag.Bool("selftest", false, "run the mutant self-test for the property (or all)")
	list := flag.Bool("list", false, "list registered properties")
	dump := flag.Bool("dump", false, "print every obligation")
	viewOf := flag.String("view", "", "debug: print the inlined view of the functions whose name ends with this")
	viewAll := flag.Bool("viewcheck", false, "debug: build the inlined view of every universe function and run the SSA sanity check on it")
	flag.Parse()

	if *list {
		ids := ids()
		fmt.Println(strings.Join(ids, " "))
		return
	}
	seed := 0
	if s := os.Getenv("VERIF_SEED"); s != "" {
		seed, _ = strconv.Atoi(s)
	}
	if t := os.Getenv("VERIF_TIER"); t != "" && *tier == "" {
		*tier = t
	}
	if *tier != "quick" && *tier != "thorough" {
		fmt.Fprintf(os.Stderr, "bad tier %q\n", *tier)
		os.Exit(2)
	}
	fs, err := loadFindings(filepath.Join(*verif, "known_findings.json"))
	if err != nil {
		fmt.Fprintf(os.Stderr, "known findings: %v\n", err)
		os.Exit(2)
	}
	if *selftest {
		os.Exit(runSelfTest(*repo, *prop, *verif))
	}
	var props []string
	if *prop == "all" {
		props = ids()
	} else if _, ok := registry[*prop]; ok {
		props = []string{*prop}
	} else {
		fmt.Fprintf(os.Stderr, "unknown property %q (registered: %s)\n", *prop, strings.Join(ids(), " "))
		os.Exit(2)
	}

	var explainKey string
	if *explain != "" {
		b, err := os.ReadFile(*explain)
		if err != nil {
			fmt.Fprintf(os.Stderr, "%v\n", err)
			os.Exit(2)
		}
		var m map[string]interface{}
		json.Unmarshal(b, &m)
		explainKey, _ = m["key"].(string)
	}

	goModBefore := fileHash(filepath.Join(*repo, "go.mod")) + fileHash(filepath.Join(*repo, "go.sum"))
	exit := 0
	t0 := time.Now()
	prog, err := Load(*repo, cfgLinuxAMD64, nil)
	if err == nil && *viewOf != "" {
		prog.setViews(true)
		dumpView(prog, *viewOf)
		os.Exit(0)
	}
	if err == nil && *viewAll {
		prog.setViews(true)
		n := 0
		for _, f := range prog.UFuncs() {
			if v := prog.view(f); v != f {
				n++
			}
		}
		fmt.Printf("views built for %d of %d functions; %d failed the sanity check\n", n, len(prog.UFuncs()), len(prog.viewFailures))
		for _, l := range prog.viewFailures {
			fmt.Println("  " + l)
		}
		os.Exit(0)
	}
	if err != nil {
		// a tree that does not load decides nothing: every requested property fails
		for _, id := range props {
			r := newResult(id)
			r.Explanation = "the working tree could not be loaded and type-checked; nothing was decided"
			r.undecided("LOAD", "load", "-", "%v", err)
			if report(r, *tier, seed, time.Since(t0).Seconds(), *verif, fs, nil) != 0 {
				exit = 1
			}
		}
		os.Exit(exit)
	}
	treeHash, nfiles, _ := hashTree(*repo)
	for _, id := range props {
		t1 := time.Now()
		r := runProp(prog, id, *tier)
		extra := map[string]interface{}{}
		cfgs := []string{cfgLinuxAMD64.String()}
		if *tier == "thorough" {
			for _, bc := range thoroughConfigs[id] {
				p2, err := Load(*repo, bc, nil)
				if err != nil {
					r.undecided("LOAD", "load@"+bc.String(), "-", "%v", err)
					continue
				}
				r2 := runProp(p2, id, *tier)
				r.merge(r2, bc.String())
				cfgs = append(cfgs, bc.String())
			}
			st := selfTestFor(*repo, id)
			extra["selftest"] = st
			for _, l := range st.Lines {
				fmt.Println("SELFTEST " + l)
			}
		}
		r.Analysed["build_configs"] = cfgs
		r.Analysed["module_packages"] = len(prog.Pkgs)
		r.Analysed["source_files"] = prog.NumFiles
		r.Analysed["ssa_source_functions"] = len(prog.Funcs)
		r.Analysed["universe_functions"] = len(prog.UFuncs())
		r.Analysed["repo_tree_sha256"] = treeHash
		r.Analysed["repo_files_hashed"] = nfiles
		r.Analysed["load_seconds"] = prog.LoadSeconds
		if explainKey != "" {
			found := false
			for _, ob := range r.Obls {
				if ob.Key == explainKey {
					found = true
					fmt.Printf("%s\n  rule:   %s\n  at:     %s\n  status: %s\n  detail: %s\n", ob.Key, ob.Rule, ob.Pos, ob.Status, ob.Detail)
				}
			}
			if !found {
				fmt.Printf("obligation %s no longer exists on the current tree (construct removed or renamed)\n", explainKey)
			}
		}
		if *dump {
			for _, ob := range r.Obls {
				fmt.Printf("  [%s] %s @%s: %s\n", ob.Status, ob.Key, ob.Pos, ob.Detail)
			}
		}
		wall := time.Since(t1).Seconds() + prog.LoadSeconds
		if report(r, *tier, seed, wall, *verif, fs, extra) != 0 {
			exit = 1
		}
	}
	if after := fileHash(filepath.Join(*repo, "go.mod")) + fileHash(filepath.Join(*repo, "go.sum")); after != goModBefore {
		fmt.Fprintf(os.Stderr, "FATAL: the check modified %s/go.mod or go.sum\n", *repo)
		os.Exit(2)
	}
	os.Exit(exit)
}

// runProp decides a property on the code as written; if some obligation is not discharged there, it decides it
// again on the inlined views (views.go) - an equivalent program in which small unexported helpers are folded
// into their callers - and reports that result when every obligation is discharged on it. A verdict reached
// on either representation is a verdict about the same behaviour; the second one only removes the dependence
// of the path rules on how functions happen to be split up.
func runProp(p *Program, id, tier string) (r *Result) {
	if os.Getenv("VERIF_FORCEVIEWS") != "" {
		p.setViews(true)
		rb := runPropOnce(p, id, tier)
		p.setViews(false)
		return rb
	}
	p.setViews(false)
	ra := runPropOnce(p, id, tier)
	if os.Getenv("VERIF_NOVIEWS") != "" || noViewProps[id] {
		return ra
	}
	if len(violKeys(ra)) == 0 {
		// clean as written. A rule that looks into one function only would not see a violation that sits in a small
		// helper of that function; the views have the helpers folded in, so they are consulted as well, and a
		// *violation* there (not a construct the rule cannot read there) is reported
		p.setViews(true)
		rb := runPropOnce(p, id, tier)
		p.setViews(false)
		var found []Obligation
		for _, ob := range violKeys(rb) {
			if ob.Status == Violated {
				found = append(found, ob)
			}
		}
		if len(found) == 0 {
			return ra
		}
		rb.Notes = append(rb.Notes, fmt.Sprintf("the code as written discharges every obligation, but with helpers folded into their callers %d violation(s) appear: reported from the inlined views", len(found)))
		rb.Analysed["representation"] = "inlined views (helpers folded into callers)"
		// keep only the violations: what the rules could not read on the views is not a finding when the code as
		// written is fully decided
		var kept []Obligation
		for _, ob := range rb.Obls {
			if ob.Status == Discharged || ob.Status == Violated {
				kept = append(kept, ob)
			}
		}
		rb.Obls = kept
		return rb
	}
	// rules whose subject is a call boundary (what a callee can hand back) lose their subjects when the callee is
	// folded in: their findings on the code as written stand
	for _, ob := range violKeys(ra) {
		if finalRules[ob.Rule] && ob.Status == Violated {
			return ra
		}
	}
	p.setViews(true)
	rb := runPropOnce(p, id, tier)
	var foldedKeys []string
	for _, f := range p.UFuncs() {
		if p.folded(f) {
			foldedKeys = append(foldedKeys, fnKey(f)+":")
		}
	}
	p.setViews(false)
	// a rule that reported something on the code as written must still have at least as many subjects on the
	// views: a view in which the rule finds nothing to look at has not decided anything
	if len(violKeys(rb)) == 0 {
		// (obligations attached to a helper that the views fold into its callers move there with it)
		inFolded := func(key string) bool {
			for _, fk := range foldedKeys {
				if strings.Contains(key, fk) || strings.HasSuffix(key, strings.TrimSuffix(fk, ":")) {
					return true
				}
			}
			return false
		}
		cnt := func(r *Result) map[string]int {
			m := map[string]int{}
			for _, ob := range r.Obls {
				if inFolded(ob.Key) {
					continue
				}
				m[ob.Rule]++
			}
			return m
		}
		ca, cb := cnt(ra), cnt(rb)
		for _, ob := range violKeys(ra) {
			// (only for findings proper: an undecided obligation says the rule could not read the code as written,
			// which is what the views are for)
			// R-NILCHECK's call-boundary subjects (what a helper can hand back) legitimately disappear when the
			// helper is folded in; what replaces them on the view is the pointer phi with a nil alternative, which
			// only exists where the nil can actually arrive
			if ob.Status == Violated && ob.Rule != "FLOOR" && ob.Rule != "ROLES" && ob.Rule != "R-NILCHECK" && cb[ob.Rule] < ca[ob.Rule] {
				ra.Notes = append(ra.Notes, fmt.Sprintf("the inlined views discharge every obligation, but rule %s has fewer subjects there (%d) than on the code as written (%d): the finding on the code as written stands", ob.Rule, cb[ob.Rule], ca[ob.Rule]))
				return ra
			}
		}
	}
	if len(violKeys(rb)) == 0 {
		rb.Notes = append(rb.Notes, fmt.Sprintf("decided on inlined views: on the functions as written %d obligation(s) were not discharged because a rule's subject is spread over helper functions; with those helpers folded into their callers every obligation is discharged", len(violKeys(ra))))
		rb.Analysed["representation"] = "inlined views (helpers folded into callers)"
		return rb
	}
	if os.Getenv("VERIF_SHOWVIEWS") != "" {
		return rb
	}
	ra.Notes = append(ra.Notes, fmt.Sprintf("also evaluated on inlined views: %d obligation(s) not discharged there", len(violKeys(rb))))
	return ra
}

// noViewProps: properties that are not re-evaluated on views (none now: the taint analysis of C18 runs on the
// views too, which gives it one calling context per caller for the helpers folded in).
var noViewProps = map[string]bool{}

// finalRules: a violation of these rules on the code as written is not re-examined on views.
// (R-NILCHECK is not among them: on views a folded `return nil` shows up as a pointer phi with a nil alternative,
// which the rule takes as a subject, and the subject-conservation guard below covers the rest)
var finalRules = map[string]bool{"R-NILIFACE": true, "R-PANIC": true}

func runPropOnce(p *Program, id, tier string) (r *Result) {
	defer func() {
		if e := recover(); e != nil {
			// a panic in a rule is a failed check, not a pass
			r = newResult(id)
			r.undecided("PANIC", "checker-panic", "-", "checker panicked: %v", e)
			r.Explanation = "checker panic"
		}
	}()
	r = registry[id](p, tier)
	r.finish()
	return r
}

func ids() []string {
	var out []string
	for k := range registry {
		out = append(out, k)
	}
	sort.Strings(out)
	return out
}

func fileHash(path string) string {
	b, err := os.ReadFile(path)
	if err != nil {
		return "missing"
	}
	return fmt.Sprintf("%x", len(b)) + ":" + string(b)
}
