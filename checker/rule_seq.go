package main

import (
	"fmt"
	"go/constant"
	"go/token"
	"go/types"
	"strings"

	"golang.org/x/tools/go/ssa"
)

// ---------------------------------------------------------------------------
// Path-condition summaries of small loop-free predicate functions (validators).

// Atom is a normalised comparison: L op R with op in {"<","<=","==","!="}.
type Atom struct {
	Op   string
	L, R string // rendered terms
}

func (a Atom) String() string { return a.L + " " + a.Op + " " + a.R }

type vPath struct {
	atoms  []Atom
	raw    []string // non-comparison conditions (type assertion ok etc.)
	accept bool     // returns a nil error
}

// termString renders an integer-valued SSA expression over parameters.
// widths collects the bit widths of every integer conversion applied on the way.
func termString(v ssa.Value, sizes types.Sizes, minWidth *int64) string {
	note := func(t types.Type) {
		if b, ok := t.Underlying().(*types.Basic); ok && b.Info()&types.IsInteger != 0 {
			w := sizes.Sizeof(t) * 8
			if *minWidth == 0 || w < *minWidth {
				*minWidth = w
			}
		}
	}
	switch x := v.(type) {
	case *ssa.Parameter:
		note(x.Type())
		return "param:" + x.Name()
	case *ssa.Const:
		if x.Value != nil {
			return "const:" + x.Value.ExactString()
		}
		return "const:nil"
	case *ssa.ChangeType:
		note(x.Type())
		return termString(x.X, sizes, minWidth)
	case *ssa.Convert:
		note(x.Type())
		return termString(x.X, sizes, minWidth)
	case *ssa.Extract:
		if ta, ok := x.Tuple.(*ssa.TypeAssert); ok && x.Index == 0 {
			note(ta.AssertedType)
			return "assert(" + termString(ta.X, sizes, minWidth) + ")"
		}
	case *ssa.TypeAssert:
		note(x.AssertedType)
		return "assert(" + termString(x.X, sizes, minWidth) + ")"
	case *ssa.Call:
		if bi, ok := x.Common().Value.(*ssa.Builtin); ok && bi.Name() == "len" && len(x.Common().Args) == 1 {
			var w int64
			return "len(" + termString(x.Common().Args[0], sizes, &w) + ")"
		}
	case *ssa.BinOp:
		return "(" + termString(x.X, sizes, minWidth) + " " + x.Op.String() + " " + termString(x.Y, sizes, minWidth) + ")"
	case *ssa.UnOp:
		// an entry of a package-level table: tbl:<pkg>.<name>[index]
		if ia, ok := x.X.(*ssa.IndexAddr); ok && x.Op == token.MUL {
			if g, ok := ia.X.(*ssa.Global); ok && g.Pkg != nil {
				var w int64
				return "tbl:" + g.Pkg.Pkg.Path() + "." + g.Name() + "[" + termString(ia.Index, sizes, &w) + "]"
			}
		}
		return x.Op.String() + termString(x.X, sizes, minWidth)
	}
	return "?" + v.Name()
}

func normAtom(op token.Token, l, r string, taken bool) (Atom, bool) {
	// express the condition that holds on this edge
	if !taken {
		switch op {
		case token.LSS:
			op = token.GEQ
		case token.LEQ:
			op = token.GTR
		case token.GTR:
			op = token.LEQ
		case token.GEQ:
			op = token.LSS
		case token.EQL:
			op = token.NEQ
		case token.NEQ:
			op = token.EQL
		default:
			return Atom{}, false
		}
	}
	switch op {
	case token.LSS:
		return Atom{"<", l, r}, true
	case token.LEQ:
		return Atom{"<=", l, r}, true
	case token.GTR:
		return Atom{"<", r, l}, true
	case token.GEQ:
		return Atom{"<=", r, l}, true
	case token.EQL:
		return Atom{"==", l, r}, true
	case token.NEQ:
		return Atom{"!=", l, r}, true
	}
	return Atom{}, false
}

// validatorPaths enumerates the paths of a loop-free function returning error.
func validatorPaths(fn *ssa.Function, sizes types.Sizes) (paths []vPath, minWidth int64, err error) {
	if fn == nil || fn.Blocks == nil {
		return nil, 0, fmt.Errorf("no body")
	}
	var walk func(from, b *ssa.BasicBlock, atoms []Atom, raw []string, depth int) error
	walk = func(from, b *ssa.BasicBlock, atoms []Atom, raw []string, depth int) error {
		if depth > 64 {
			return fmt.Errorf("path too long or loop in %s", fn)
		}
		last := b.Instrs[len(b.Instrs)-1]
		switch t := last.(type) {
		case *ssa.Return:
			if len(t.Results) == 0 {
				return fmt.Errorf("validator returns nothing")
			}
			res := t.Results[len(t.Results)-1]
			paths = append(paths, vPath{atoms: append([]Atom{}, atoms...), raw: append([]string{}, raw...), accept: isNilConst(res)})
			return nil
		case *ssa.If:
			cond := t.Cond
			neg := false
			for {
				u, ok := cond.(*ssa.UnOp)
				if !ok || u.Op != token.NOT {
					break
				}
				cond, neg = u.X, !neg
			}
			// a short-circuit condition (a && b, a || b): the merged value is, on this path, the operand of the
			// edge we arrived on
			only := -1
			if ph, ok := cond.(*ssa.Phi); ok && ph.Block() == b && from != nil {
				for i, pr := range b.Preds {
					if pr != from {
						continue
					}
					e := ph.Edges[i]
					for {
						u, ok := e.(*ssa.UnOp)
						if !ok || u.Op != token.NOT {
							break
						}
						e, neg = u.X, !neg
					}
					if c, ok := e.(*ssa.Const); ok && c.Value != nil && c.Value.Kind() == constant.Bool {
						if constant.BoolVal(c.Value) != neg {
							only = 0
						} else {
							only = 1
						}
					} else {
						cond = e
					}
					break
				}
			}
			for i, s := range b.Succs {
				if only >= 0 && i != only {
					continue
				}
				if only >= 0 {
					if err := walk(b, s, atoms, raw, depth+1); err != nil {
						return err
					}
					continue
				}
				taken := (i == 0) != neg
				na, nr := atoms, raw
				if bo, ok := cond.(*ssa.BinOp); ok {
					l := termString(bo.X, sizes, &minWidth)
					r := termString(bo.Y, sizes, &minWidth)
					if a, ok := normAtom(bo.Op, l, r, taken); ok {
						na = append(append([]Atom{}, atoms...), a)
					} else {
						nr = append(append([]string{}, raw...), fmt.Sprintf("%v:%s", taken, t.Cond.String()))
					}
				} else if ts := termString(cond, sizes, &minWidth); strings.HasPrefix(ts, "tbl:") {
					// an entry of a table of booleans used as the condition
					na = append(append([]Atom{}, atoms...), Atom{"==", ts, fmt.Sprintf("const:%v", taken)})
				} else {
					nr = append(append([]string{}, raw...), fmt.Sprintf("%v:%s", taken, t.Cond.String()))
				}
				if err := walk(b, s, na, nr, depth+1); err != nil {
					return err
				}
			}
			return nil
		case *ssa.Jump:
			return walk(b, b.Succs[0], atoms, raw, depth+1)
		case *ssa.Panic:
			return nil
		}
		return fmt.Errorf("unexpected terminator %T", last)
	}
	if err := walk(nil, fn.Blocks[0], nil, nil, 0); err != nil {
		return nil, 0, err
	}
	return paths, minWidth, nil
}

// R-SEQ: sequence validators are applied, to the right values, at the right width.
func ruleSeq(p *Program, r *Result) {
	ro := rolesOK(p, r)
	for _, L := range ro.Loops {
		for _, c := range allCalls(L) {
			call, ok := c.(*ssa.Call)
			if !ok {
				continue
			}
			f := call.Common().StaticCallee()
			if f == nil || f.Blocks == nil {
				continue
			}
			res := f.Signature.Results()
			if res.Len() == 2 && typeIs(res.At(0).Type(), modPath, "Handler") && isErrorType(res.At(1).Type()) {
				ruleSeqLookup(p, r, p.view(seqLookupBehind(p, f, 3)))
			}
		}
	}
	r.floor("R-SEQ", 5)
}

// seqLookupBehind: f is what the connection loop calls to find the handler of a packet. When f does not consult
// the table itself but hands its header on to one function of the same result shape (a wrapper that also
// registers new flows, say), that function is the lookup.
func seqLookupBehind(p *Program, f *ssa.Function, depth int) *ssa.Function {
	if depth == 0 {
		return f
	}
	v := p.view(f)
	var hdr *ssa.Parameter
	for _, pr := range v.Params {
		if typeIs(pr.Type(), modPath, "Header") {
			hdr = pr
		}
	}
	if hdr == nil {
		return f
	}
	for _, b := range v.Blocks {
		for _, in := range b.Instrs {
			if lk, ok := in.(*ssa.Lookup); ok {
				if _, isMap := lk.X.Type().Underlying().(*types.Map); isMap && isFieldOfParam(lk.Index, hdr, "SessionID") {
					return f
				}
			}
		}
	}
	var inner []*ssa.Function
	for _, c := range allCalls(v) {
		g := c.Common().StaticCallee()
		if g == nil || g.Blocks == nil {
			continue
		}
		res := g.Signature.Results()
		if res.Len() != 2 || !typeIs(res.At(0).Type(), modPath, "Handler") || !isErrorType(res.At(1).Type()) {
			continue
		}
		passes := false
		for _, a := range c.Common().Args {
			if a == ssa.Value(hdr) {
				passes = true
			}
		}
		if passes {
			inner = append(inner, g)
		}
	}
	if len(inner) != 1 {
		return f
	}
	return seqLookupBehind(p, p.orig(inner[0]), depth-1)
}

func ruleSeqLookup(p *Program, r *Result, f *ssa.Function) {
	key := fnKey(f)
	// the header parameter
	var hdr *ssa.Parameter
	for _, pr := range f.Params {
		if typeIs(pr.Type(), modPath, "Header") {
			hdr = pr
		}
	}
	if hdr == nil {
		r.undecided("R-SEQ", key+":shape", p.Pos(f.Pos()), "session lookup has no Header parameter")
		return
	}
	isReqSeq := func(v ssa.Value) bool { return isFieldOfParam(stripAllConv(v), hdr, "SeqNo") }

	// the map lookup under the request's session id
	var mapLookup *ssa.Lookup
	for _, b := range f.Blocks {
		for _, in := range b.Instrs {
			if lk, ok := in.(*ssa.Lookup); ok {
				if _, isMap := lk.X.Type().Underlying().(*types.Map); isMap && isFieldOfParam(lk.Index, hdr, "SessionID") {
					mapLookup = lk
				}
			}
		}
	}
	if mapLookup == nil {
		r.bad("R-SEQ", key+":table-key", p.Pos(f.Pos()), "the session lookup does not consult a table keyed by the request's session id")
		return
	}
	r.ok("R-SEQ", key+":table-key", p.Pos(mapLookup.Pos()), true, "the table is consulted under the session id of the request header")
	var elem ssa.Value = mapLookup
	for _, rf := range refsOf(mapLookup) {
		if e, ok := rf.(*ssa.Extract); ok && e.Index == 0 {
			elem = e
		}
	}

	// "new flow" (nil handler, nil error) is answered only on the miss edge of that lookup: a packet of a
	// session that has an entry can never be treated as the start of a new one
	{
		var okV ssa.Value
		for _, rf := range refsOf(mapLookup) {
			if e, ok := rf.(*ssa.Extract); ok && e.Index == 1 {
				okV = e
			}
		}
		nNew, good := 0, true
		where := ""
		for _, b := range f.Blocks {
			ret, isRet := b.Instrs[len(b.Instrs)-1].(*ssa.Return)
			if !isRet || len(ret.Results) != 2 || b == f.Recover {
				continue
			}
			errNil := true
			for _, ev := range returnedValues(f, ret, 1) {
				if !isNilConst(ev) {
					errNil = false
				}
			}
			if !errNil {
				continue
			}
			allNil := true
			for _, hv := range returnedValues(f, ret, 0) {
				if !isNilConst(hv) {
					allNil = false
				}
			}
			if !allNil {
				continue
			}
			nNew++
			if okV == nil || !behindFalseEdge(okV, b) {
				good = false
				where = p.Pos(ret.Pos())
			}
		}
		if nNew == 0 {
			r.undecided("R-SEQ", key+":new-flow-only-on-miss", p.Pos(f.Pos()), "the lookup never reports a new flow")
		} else {
			r.cond(good, "R-SEQ", key+":new-flow-only-on-miss", p.Pos(mapLookup.Pos()),
				fmt.Sprintf("'no entry: new flow' (nil handler, nil error) is returned only on the miss edge of the table lookup under the request's session id (%d return)", nNew),
				"'new flow' (nil handler, nil error) is returned at "+where+" without the table having reported a miss for this session id: a packet of a session that has an entry would be dispatched to the initial handler and registered a second time")
		}
	}

	// validator calls: static calls to methods named Validate returning error
	type vcall struct {
		call  *ssa.Call
		paths []vPath
		minW  int64
	}
	var parity, progress []vcall
	for _, c := range allCalls(f) {
		call, ok := c.(*ssa.Call)
		if !ok {
			continue
		}
		vf := call.Common().StaticCallee()
		if vf == nil || vf.Blocks == nil || vf.Signature.Recv() == nil || !isErrorType(call.Type()) {
			continue
		}
		args := call.Common().Args
		if len(args) == 0 {
			continue
		}
		paths, minW, err := validatorPaths(p.predicateView(vf), p.Sizes)
		if err != nil {
			continue
		}
		recv := args[0]
		if isReqSeq(recv) {
			parity = append(parity, vcall{call, paths, minW})
		} else if fld, base, ok := loadedField(stripAllConv(recv)); ok && fld.Name() == "SeqNo" {
			// stored.header.SeqNo where stored is the table element
			if _, b2, ok2 := fieldAddrOf(base); ok2 && b2 == elem {
				progress = append(progress, vcall{call, paths, minW})
			}
		}
	}

	// parity
	if len(parity) == 0 {
		r.bad("R-SEQ", key+":parity", p.Pos(f.Pos()), "no validator is applied to the request's own sequence number: even numbers would be accepted")
	}
	for _, v := range parity {
		vf := v.call.Common().StaticCallee()
		// accept paths must require recv % 2 != 0
		good := len(v.paths) > 0
		nacc := 0
		for _, pa := range v.paths {
			if !pa.accept {
				continue
			}
			nacc++
			found := false
			for _, a := range pa.atoms {
				if a.Op == "!=" && strings.Contains(a.L, "param:") && strings.HasSuffix(a.L, " % const:2)") && a.R == "const:0" {
					found = true
				}
				if a.Op == "==" && strings.HasSuffix(a.L, " % const:2)") && a.R == "const:1" {
					found = true
				}
				// the same test written with a mask
				if strings.Contains(a.L, "param:") && strings.HasSuffix(a.L, " & const:1)") && ((a.Op == "==" && a.R == "const:1") || (a.Op == "!=" && a.R == "const:0")) {
					found = true
				}
			}
			if !found {
				good = false
			}
		}
		if nacc == 0 {
			good = false
		}
		r.cond(good, "R-SEQ", key+":parity-predicate", p.Pos(vf.Pos()),
			fmt.Sprintf("%s returns nil only on paths where receiver %% 2 != 0 (%d paths)", fnKey(vf), len(v.paths)),
			fmt.Sprintf("%s can return nil for an even sequence number", fnKey(vf)))
		// applied before the table is consulted, error edge returns an error
		g, why := guardedBySuccess(v.call, mapLookup, nil)
		r.cond(g, "R-SEQ", key+":parity-applied", p.Pos(v.call.Pos()),
			"the parity validator is applied to the request's sequence number and its error edge returns before the table is consulted",
			"parity validation does not guard the table lookup: "+why)
		ruleSeqErrReturns(p, r, f, v.call, key+":parity-error-returns")
	}

	// progression
	if len(progress) == 0 {
		r.bad("R-SEQ", key+":progression", p.Pos(f.Pos()), "no validator compares the sequence number stored for this session with the request's: replayed or decreasing numbers would be accepted")
	}
	for _, v := range progress {
		vf := v.call.Common().StaticCallee()
		args := v.call.Common().Args
		argOK := len(args) == 2 && isReqSeq(args[1])
		r.cond(argOK, "R-SEQ", key+":progression-args", p.Pos(v.call.Pos()),
			"the progression validator receives (sequence stored for this session id, sequence of the request)",
			"the progression validator is not applied to (stored sequence, request sequence)")
		good := true
		nacc := 0
		for _, pa := range v.paths {
			if !pa.accept {
				continue
			}
			nacc++
			found := false
			for _, a := range pa.atoms {
				if a.Op == "<" && strings.HasPrefix(a.L, "param:") && strings.HasPrefix(a.R, "assert(param:") {
					found = true
				}
			}
			if !found {
				good = false
			}
		}
		if nacc == 0 {
			good = false
		}
		r.cond(good, "R-SEQ", key+":progression-predicate", p.Pos(vf.Pos()),
			fmt.Sprintf("%s returns nil only on paths where last < current strictly (%d paths)", fnKey(vf), len(v.paths)),
			fmt.Sprintf("%s can return nil when last >= current (equal or smaller numbers accepted)", fnKey(vf)))
		// width: no conversion narrower than the stored SequenceNumber between the stored value and the comparison
		seqT := p.lookupType("", "SequenceNumber")
		var seqW int64 = 16
		if seqT != nil {
			seqW = p.Sizes.Sizeof(seqT) * 8
		}
		callW := convMinWidth(args[0], p.Sizes)
		if len(args) > 1 {
			if w := convMinWidth(args[1], p.Sizes); w != 0 && (callW == 0 || w < callW) {
				callW = w
			}
		}
		w := v.minW
		if callW != 0 && (w == 0 || callW < w) {
			w = callW
		}
		r.cond(w == 0 || w >= seqW, "R-NARROW", key+":progression-width", p.Pos(v.call.Pos()),
			fmt.Sprintf("the comparison is performed at %d bits, the width of the stored sequence number (%d bits): 256 stored after request 255 compares greater than every valid number", w, seqW),
			fmt.Sprintf("the stored %d-bit sequence number is narrowed to %d bits before the comparison: 256 (stored after request 255) compares as 0 and number 1 is accepted again", seqW, w))
		// the handler is returned only on the success edge
		for _, b := range f.Blocks {
			ret, ok := b.Instrs[len(b.Instrs)-1].(*ssa.Return)
			if !ok || len(ret.Results) != 2 || b == f.Recover {
				continue
			}
			for _, hv := range returnedValues(f, ret, 0) {
				if isNilConst(hv) {
					continue
				}
				// a non-nil handler is returned: must be the element's Handler field and guarded
				fld, base, ok := loadedField(hv)
				isElem := ok && base == elem && typeIs(fld.Type(), modPath, "Handler")
				g, why := guardedBySuccess(v.call, ret, nil)
				g2 := true
				for _, pv := range parity {
					if ok2, _ := guardedBySuccess(pv.call, ret, nil); !ok2 {
						g2 = false
					}
				}
				if isElem && g && g2 {
					r.ok("R-SEQ", key+":handler-returned", p.Pos(ret.Pos()), true, "the continuation returned is the one stored for this session id, and only on the success edges of both validators")
				} else {
					r.bad("R-SEQ", key+":handler-returned", p.Pos(ret.Pos()), "a handler is returned that is not the stored continuation of this session (%v) or not guarded by both validators (%s)", isElem, why)
				}
			}
		}
		ruleSeqErrReturns(p, r, f, v.call, key+":progression-error-returns")
	}
}

// convMinWidth: narrowest integer type v passes through conversions.
func convMinWidth(v ssa.Value, sizes types.Sizes) int64 {
	var w int64
	for {
		var t types.Type
		switch x := v.(type) {
		case *ssa.Convert:
			t = x.Type()
			v = x.X
		case *ssa.ChangeType:
			t = x.Type()
			v = x.X
		case *ssa.MakeInterface:
			v = x.X
			continue
		default:
			if b, ok := v.Type().Underlying().(*types.Basic); ok && b.Info()&types.IsInteger != 0 {
				ww := sizes.Sizeof(v.Type()) * 8
				if w == 0 || ww < w {
					w = ww
				}
			}
			return w
		}
		if b, ok := t.Underlying().(*types.Basic); ok && b.Info()&types.IsInteger != 0 {
			ww := sizes.Sizeof(t) * 8
			if w == 0 || ww < w {
				w = ww
			}
		}
	}
}

// returnedValues resolves result #idx of a Return through the named-result spill (defer makes results locals).
func returnedValues(f *ssa.Function, ret *ssa.Return, idx int) []ssa.Value {
	v := ret.Results[idx]
	if u, ok := v.(*ssa.UnOp); ok && u.Op == token.MUL {
		if a, ok := u.X.(*ssa.Alloc); ok {
			// stores to the result cell in this block before the load
			var out []ssa.Value
			for _, in := range ret.Block().Instrs {
				if s, ok := in.(*ssa.Store); ok && s.Addr == a {
					out = []ssa.Value{s.Val}
				}
			}
			if len(out) > 0 {
				return out
			}
			for _, s := range allocStores(a) {
				out = append(out, s.Val)
			}
			return out
		}
	}
	return phiSources(v)
}

// ruleSeqErrReturns: on the error edge of validator call c, every return carries a non-nil error and a nil handler.
func ruleSeqErrReturns(p *Program, r *Result, f *ssa.Function, c *ssa.Call, key string) {
	errB, _ := errEdges(c)
	if len(errB) == 0 {
		r.bad("R-SEQ", key, p.Pos(c.Pos()), "the result of the validator is not tested")
		return
	}
	good := true
	n := 0
	for _, e := range errB {
		for b := range blockReach(e, nil) {
			ret, ok := b.Instrs[len(b.Instrs)-1].(*ssa.Return)
			if !ok || len(ret.Results) != 2 {
				continue
			}
			n++
			for _, ev := range returnedValues(f, ret, 1) {
				if isNilConst(ev) {
					good = false
				}
			}
			for _, hv := range returnedValues(f, ret, 0) {
				if !isNilConst(hv) {
					good = false
				}
			}
		}
	}
	r.cond(good && n > 0, "R-SEQ", key, p.Pos(c.Pos()),
		fmt.Sprintf("every return reachable from the validator's error edge yields (nil handler, non-nil error) (%d returns)", n),
		"a path from the validator's error edge returns a handler or a nil error: the packet would be dispatched")
}

// behindFalseEdge: block b is only reachable through the false edge of an If on v (or the true edge of !v).
func behindFalseEdge(v ssa.Value, b *ssa.BasicBlock) bool {
	for d := b; d != nil; d = d.Idom() {
		id := d.Idom()
		if id == nil {
			return false
		}
		iff, ok := id.Instrs[len(id.Instrs)-1].(*ssa.If)
		if !ok {
			continue
		}
		cond := iff.Cond
		neg := false
		if u, ok := cond.(*ssa.UnOp); ok && u.Op == token.NOT {
			cond, neg = u.X, true
		}
		if cond != v {
			continue
		}
		want := id.Succs[1]
		if neg {
			want = id.Succs[0]
		}
		return len(want.Preds) == 1 && (want == d || want.Dominates(d))
	}
	return false
}
