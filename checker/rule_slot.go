package main

import (
	"go/token"
	"go/types"

	"golang.org/x/tools/go/ssa"
)

// R-SLOT: a counting resource taken for an accepted connection is given back on every exit of the connection
// goroutine.
//
// A "slot" is a channel kept in a field of a long-lived object that the accepting goroutine sends into (directly,
// in a select with default, or through a helper) between Accept and the go statement: a connection limit. A counter
// field raised with sync/atomic.Add(+c) on the accept path and lowered with Add(-c) is the same thing (the clean tree
// has one: the wait group's count of active connections). If any
// path of the connection goroutine returns without receiving from that channel (directly, through a deferred
// helper, or inside a callee that always does), slots leak: after capacity-many connections that took that path -
// clients from addresses no scope admits, say - the server refuses every client until it is restarted. One client
// then disturbs all others, whatever it sends.
//
// The clean tree has no such channel; the self-test
// keeps a mutant (a connection cap released only by the connection loop) so that the rule is known to see one.
func ruleSlot(p *Program, r *Result) {
	ro := rolesOK(p, r)
	chanField := func(v ssa.Value) *types.Var {
		ld, ok := v.(*ssa.UnOp)
		if !ok || ld.Op != token.MUL {
			return nil
		}
		f, _, ok := fieldAddrOf(ld.X)
		if !ok {
			return nil
		}
		if _, isChan := f.Type().Underlying().(*types.Chan); !isChan {
			return nil
		}
		return f
	}
	// atomicDelta: in is sync/atomic.Add*(&x.field, c) with a constant c: the field and the sign of c
	atomicDelta := func(in ssa.Instruction) (*types.Var, int) {
		var cc *ssa.CallCommon
		switch x := in.(type) {
		case *ssa.Call:
			cc = &x.Call
		case *ssa.Defer:
			cc = &x.Call
		default:
			return nil, 0
		}
		c := struct{ Call *ssa.CallCommon }{cc}
		g := c.Call.StaticCallee()
		if g == nil || g.Pkg == nil || g.Pkg.Pkg.Path() != "sync/atomic" || g.Signature.Recv() != nil || len(g.Name()) < 3 || g.Name()[:3] != "Add" || len(c.Call.Args) != 2 {
			return nil, 0
		}
		fv, _, ok := fieldAddrOf(c.Call.Args[0])
		if !ok {
			return nil, 0
		}
		d, isConst := constInt(c.Call.Args[1])
		if !isConst || d == 0 {
			return nil, 0
		}
		if d > 0 {
			return fv, 1
		}
		return fv, -1
	}
	// sends / receives on channel fields (and atomic +c / -c on counter fields), per function
	ops := func(f *ssa.Function, send bool) map[*types.Var][]ssa.Instruction {
		out := map[*types.Var][]ssa.Instruction{}
		for _, b := range f.Blocks {
			for _, in := range b.Instrs {
				if fv, sign := atomicDelta(in); fv != nil && (sign > 0) == send {
					out[fv] = append(out[fv], in)
					continue
				}
				switch x := in.(type) {
				case *ssa.Send:
					if send {
						if fv := chanField(x.Chan); fv != nil {
							out[fv] = append(out[fv], in)
						}
					}
				case *ssa.UnOp:
					if !send && x.Op == token.ARROW {
						if fv := chanField(x.X); fv != nil {
							out[fv] = append(out[fv], in)
						}
					}
				case *ssa.Select:
					for _, st := range x.States {
						if (st.Dir == types.SendOnly) == send {
							if fv := chanField(st.Chan); fv != nil {
								out[fv] = append(out[fv], in)
							}
						}
					}
				}
			}
		}
		return out
	}
	samePkgCallees := func(f *ssa.Function, visit func(g *ssa.Function)) {
		seen := map[*ssa.Function]bool{f: true}
		var walk func(h *ssa.Function, d int)
		walk = func(h *ssa.Function, d int) {
			if d == 0 {
				return
			}
			for _, c := range allCalls(h) {
				if _, isGo := c.(*ssa.Go); isGo {
					continue
				}
				g := c.Common().StaticCallee()
				if g == nil || g.Pkg != f.Pkg || seen[g] || g.Blocks == nil {
					continue
				}
				seen[g] = true
				visit(g)
				walk(g, d-1)
			}
		}
		walk(f, 4)
	}
	nSlots := 0
	for _, S := range ro.Serves {
		slots := map[*types.Var]ssa.Instruction{}
		for fv, ins := range ops(S, true) {
			slots[fv] = ins[0]
		}
		samePkgCallees(p.orig(S), func(g *ssa.Function) {
			for fv, ins := range ops(g, true) {
				if _, ok := slots[fv]; !ok {
					slots[fv] = ins[0]
				}
			}
		})
		for fv, at := range slots {
			// only channels something receives from: a channel never received from in the module is a notification
			// to an outside reader, not a slot
			var releasers []*ssa.Function
			for _, g := range p.UFuncs() {
				if len(ops(g, false)[fv]) > 0 {
					releasers = append(releasers, g)
				}
			}
			if len(releasers) == 0 {
				continue
			}
			nSlots++
			isRel := map[*ssa.Function]bool{}
			for _, g := range releasers {
				isRel[g] = true
			}
			memo := map[*ssa.Function]int{}
			var must func(f *ssa.Function, d int) (bool, *ssa.BasicBlock)
			must = func(f *ssa.Function, d int) (bool, *ssa.BasicBlock) {
				if f == nil || f.Blocks == nil || d == 0 {
					return false, nil
				}
				if v, ok := memo[f]; ok {
					return v == 1, nil
				}
				memo[f] = 0
				releasing := map[*ssa.BasicBlock]bool{}
				for _, b := range f.Blocks {
					for _, in := range b.Instrs {
						if afv, sign := atomicDelta(in); afv == fv && sign < 0 {
							releasing[b] = true
							continue
						}
						switch x := in.(type) {
						case *ssa.UnOp:
							if x.Op == token.ARROW && chanField(x.X) == fv {
								releasing[b] = true
							}
						case *ssa.Defer:
							g := x.Call.StaticCallee()
							if g != nil && (isRel[p.orig(g)] || func() bool { ok, _ := must(g, d-1); return ok }()) {
								releasing[b] = true
							}
						case *ssa.Call:
							g := x.Call.StaticCallee()
							if g != nil && (isRel[p.orig(g)] || func() bool { ok, _ := must(g, d-1); return ok }()) {
								releasing[b] = true
							}
						}
					}
				}
				var leak *ssa.BasicBlock
				seen := map[*ssa.BasicBlock]bool{}
				var walk func(b *ssa.BasicBlock)
				walk = func(b *ssa.BasicBlock) {
					if seen[b] || releasing[b] || leak != nil {
						return
					}
					seen[b] = true
					if _, isRet := b.Instrs[len(b.Instrs)-1].(*ssa.Return); isRet {
						leak = b
						return
					}
					for _, s := range b.Succs {
						walk(s)
					}
				}
				walk(f.Blocks[0])
				if leak == nil {
					memo[f] = 1
				}
				return leak == nil, leak
			}
			for _, G := range ro.ConnFns {
				key := fnKey(S) + ":slot-returned:" + fv.Name() + ":" + fnKey(G)
				ok, leak := must(G, 4)
				if ok {
					r.ok("R-SLOT", key, p.Pos(at.Pos()), true, "every path of the connection goroutine %s gives back the slot taken from %s before the go statement", fnKey(G), fv.Name())
					continue
				}
				pos := p.Pos(G.Pos())
				if leak != nil {
					pos = p.Pos(leak.Instrs[len(leak.Instrs)-1].Pos())
				}
				r.bad("R-SLOT", key, pos, "the accept path takes a slot from the channel %s (at %s) for every accepted connection, but the connection goroutine %s can return without giving it back (the return at %s is reached without a receive from that channel, a deferred release, or a callee that always releases): every connection that takes this path - a client from an address no scope admits, for one - leaks a slot, and after capacity-many of them every client is refused until restart", fv.Name(), p.Pos(at.Pos()), fnKey(G), pos)
			}
		}
	}
	if nSlots == 0 {
		r.ok("R-SLOT", "accept-path-takes-no-slot", "-", false, "the accepting goroutine sends into no channel field that the module also receives from: no connection slots that could leak (%d accept loops examined)", len(ro.Serves))
	}
}
