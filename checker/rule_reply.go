package main

import (
	"fmt"
	"go/token"
	"go/types"
	"sort"
	"strings"

	"golang.org/x/tools/go/ssa"
)

// R-REPLYCOUNT: exactly one reply invocation on every path of every handler.
//
// Abstract state: set of possible reply counts so far, as a bitmask over {0,1,2+}.

type cntSet uint8

const (
	c0 cntSet = 1 << iota
	c1
	c2
)

func (s cntSet) String() string {
	var p []string
	if s&c0 != 0 {
		p = append(p, "0")
	}
	if s&c1 != 0 {
		p = append(p, "1")
	}
	if s&c2 != 0 {
		p = append(p, "2+")
	}
	return "{" + strings.Join(p, ",") + "}"
}

// plus adds two count sets (saturating).
func (s cntSet) plus(t cntSet) cntSet {
	var out cntSet
	for i := 0; i < 3; i++ {
		if s&(1<<i) == 0 {
			continue
		}
		for j := 0; j < 3; j++ {
			if t&(1<<j) == 0 {
				continue
			}
			k := i + j
			if k > 2 {
				k = 2
			}
			out |= 1 << k
		}
	}
	return out
}

type replyAnalysis struct {
	p        *Program
	respT    types.Type       // tacquito.Response (named interface)
	handlerI *types.Interface // tacquito.Handler
	hfuncT   *types.Named     // tacquito.HandlerFunc
	summary  map[*ssa.Function]cntSet
	inProg   map[*ssa.Function]bool
	escapes  map[*ssa.Function][]string // reasons the response escapes (undecided)
	entries  map[*ssa.Function]string   // handler entry points -> why
	impls    []*ssa.Function            // Handle methods of all Handler implementations in U
	hfuncs   []*ssa.Function            // functions converted to HandlerFunc in U
	reported map[*ssa.Function]bool     // entry points found bad (treated as {1} at callers)
	pruned   map[*ssa.BasicBlock]int    // If-block -> successor index that is infeasible
}

func newReplyAnalysis(p *Program) (*replyAnalysis, error) {
	ra := &replyAnalysis{p: p, summary: map[*ssa.Function]cntSet{}, inProg: map[*ssa.Function]bool{}, escapes: map[*ssa.Function][]string{},
		entries: map[*ssa.Function]string{}, reported: map[*ssa.Function]bool{}, pruned: map[*ssa.BasicBlock]int{}}
	rn := p.lookupType("", "Response")
	hn := p.lookupType("", "Handler")
	ra.hfuncT = p.lookupType("", "HandlerFunc")
	if rn == nil || hn == nil || ra.hfuncT == nil {
		return nil, fmt.Errorf("UNRESOLVED tacquito.Response/Handler/HandlerFunc")
	}
	ra.respT = rn
	ra.handlerI, _ = hn.Underlying().(*types.Interface)
	if ra.handlerI == nil {
		return nil, fmt.Errorf("UNRESOLVED tacquito.Handler is not an interface")
	}
	// implementations of Handler in U
	for _, pkg := range p.Pkgs {
		if !inUniverse(pkg.PkgPath) {
			continue
		}
		sc := pkg.Types.Scope()
		for _, name := range sc.Names() {
			tn, ok := sc.Lookup(name).(*types.TypeName)
			if !ok || tn.IsAlias() {
				continue
			}
			t := tn.Type()
			if _, isIface := t.Underlying().(*types.Interface); isIface {
				continue
			}
			if !implementsIface(t, ra.handlerI) {
				continue
			}
			if p.isTestFile(tn.Pos()) {
				continue
			}
			ms := p.SSA.MethodSets.MethodSet(types.NewPointer(t))
			sel := ms.Lookup(tn.Pkg(), "Handle")
			if sel == nil {
				sel = ms.Lookup(nil, "Handle")
			}
			if sel == nil {
				continue
			}
			f, _ := sel.Obj().(*types.Func)
			fn := p.SSA.FuncValue(f)
			if fn == nil || fn.Blocks == nil {
				continue // promoted from an embedded interface: dispatches dynamically, covered by the join
			}
			if f.Pkg() != tn.Pkg() || !inUniverse(f.Pkg().Path()) {
				continue
			}
			if t == ra.hfuncT {
				continue // HandlerFunc.Handle is the dynamic-dispatch adapter, modelled separately
			}
			dup := false
			for _, x := range ra.impls {
				if x == fn {
					dup = true
				}
			}
			if !dup {
				ra.impls = append(ra.impls, fn)
				ra.entries[fn] = "method Handle of " + typeName(t) + " (implements tacquito.Handler)"
			}
		}
	}
	// functions converted to HandlerFunc, or passed to Response.Next
	for _, fn := range p.UFuncs() {
		for _, b := range fn.Blocks {
			for _, in := range b.Instrs {
				var src ssa.Value
				switch x := in.(type) {
				case *ssa.ChangeType:
					if types.Identical(x.Type(), ra.hfuncT) {
						src = x.X
					}
				case *ssa.Convert:
					if types.Identical(x.Type(), ra.hfuncT) {
						src = x.X
					}
				}
				if src == nil {
					continue
				}
				if tgt := ra.funcOfValue(src); tgt != nil {
					if _, ok := ra.entries[tgt]; !ok {
						ra.entries[tgt] = "converted to tacquito.HandlerFunc in " + fnKey(fn)
					}
					ra.hfuncs = append(ra.hfuncs, tgt)
				} else {
					ra.escapes[fn] = append(ra.escapes[fn], fmt.Sprintf("a non-constant function value is converted to HandlerFunc at %s", p.Pos(in.Pos())))
				}
			}
		}
	}
	sort.Slice(ra.impls, func(i, j int) bool { return ra.impls[i].String() < ra.impls[j].String() })
	return ra, nil
}

// funcOfValue resolves a function-typed value to the source function it denotes.
func (ra *replyAnalysis) funcOfValue(v ssa.Value) *ssa.Function {
	switch x := v.(type) {
	case *ssa.Function:
		return ra.unbound(x)
	case *ssa.MakeClosure:
		if f, ok := x.Fn.(*ssa.Function); ok {
			return ra.unbound(f)
		}
	case *ssa.ChangeType:
		return ra.funcOfValue(x.X)
	}
	return nil
}

// unbound maps a bound-method wrapper to the declared method.
func (ra *replyAnalysis) unbound(f *ssa.Function) *ssa.Function {
	if f.Synthetic != "" && strings.HasPrefix(f.Synthetic, "bound method wrapper") {
		if obj, ok := f.Object().(*types.Func); ok {
			if t := ra.p.SSA.FuncValue(obj); t != nil {
				return t
			}
		}
	}
	return f
}

// respValues: SSA values in fn that denote "the" response (param or free var of type Response).
func (ra *replyAnalysis) respValues(fn *ssa.Function) map[ssa.Value]bool {
	m := map[ssa.Value]bool{}
	for _, pr := range fn.Params {
		if types.Identical(pr.Type(), ra.respT) {
			m[pr] = true
		}
	}
	for _, fv := range fn.FreeVars {
		// captured by reference: *Response
		if pt, ok := fv.Type().(*types.Pointer); ok && types.Identical(pt.Elem(), ra.respT) {
			m[fv] = true
		}
		if types.Identical(fv.Type(), ra.respT) {
			m[fv] = true
		}
	}
	if len(m) == 0 {
		return m
	}
	// close under loads from the captured cell / local spill
	changed := true
	for changed {
		changed = false
		for _, b := range fn.Blocks {
			for _, in := range b.Instrs {
				v, ok := in.(ssa.Value)
				if !ok || m[v] {
					continue
				}
				switch x := in.(type) {
				case *ssa.UnOp:
					if x.Op == token.MUL && m[x.X] {
						m[v] = true
						changed = true
					}
				case *ssa.Alloc:
					// a local cell holding the response (captured by a closure): every store must store a response value
					if pt, ok := x.Type().(*types.Pointer); ok && types.Identical(pt.Elem(), ra.respT) {
						all := true
						n := 0
						for _, r := range refsOf(x) {
							if s, ok := r.(*ssa.Store); ok && s.Addr == x {
								n++
								if !m[s.Val] {
									all = false
								}
							}
						}
						if all && n > 0 {
							m[v] = true
							changed = true
						}
					}
				case *ssa.Phi:
					all := true
					for _, e := range x.Edges {
						if !m[e] {
							all = false
						}
					}
					if all && types.Identical(x.Type(), ra.respT) {
						m[v] = true
						changed = true
					}
				}
			}
		}
	}
	return m
}

var replyMethods = map[string]bool{"Reply": true, "ReplyWithContext": true, "Write": true}
var neutralMethods = map[string]bool{"Next": true, "RegisterWriter": true, "Context": true}

// effect of one instruction on the count; ok=false means the response escapes.
func (ra *replyAnalysis) effect(fn *ssa.Function, in ssa.Instruction, rv map[ssa.Value]bool) (cntSet, string) {
	switch x := in.(type) {
	case ssa.CallInstruction:
		cc := x.Common()
		if cc.IsInvoke() {
			if rv[cc.Value] {
				if replyMethods[cc.Method.Name()] {
					return c1, ""
				}
				if neutralMethods[cc.Method.Name()] {
					return c0, ""
				}
				return c0, fmt.Sprintf("unknown method %s invoked on the response", cc.Method.Name())
			}
			// does it pass the response on?
			passes := false
			for _, a := range cc.Args {
				if rv[a] {
					passes = true
				}
			}
			if !passes {
				return c0, ""
			}
			if cc.Method.Name() == "Handle" && types.Identical(cc.Value.Type().Underlying(), ra.handlerI) || cc.Method.Name() == "Handle" {
				return ra.dispatchSummary(), ""
			}
			return c0, fmt.Sprintf("response passed to interface method %s whose implementations are not enumerated", cc.Method.Name())
		}
		// static or closure call
		passes := false
		for _, a := range cc.Args {
			if rv[a] {
				passes = true
			}
		}
		callee := cc.StaticCallee()
		if mc, ok := cc.Value.(*ssa.MakeClosure); ok {
			for _, b := range mc.Bindings {
				if rv[b] {
					passes = true
				}
			}
		}
		if !passes {
			return c0, ""
		}
		if callee == nil {
			if _, isB := cc.Value.(*ssa.Builtin); isB {
				return c0, ""
			}
			return c0, "response passed to a dynamic function value"
		}
		callee = ra.unbound(callee)
		if callee.Blocks == nil {
			return c0, "response passed to " + callee.String() + " which has no body in the analysed program"
		}
		if callee.Signature.Recv() != nil && callee.Name() == "Handle" && types.Identical(callee.Signature.Recv().Type(), ra.hfuncT) {
			return ra.dispatchSummary(), ""
		}
		return ra.summarize(callee), ""
	case *ssa.MakeClosure:
		// binding the response into a closure is fine if every use of the closure is a direct call in this function
		bound := false
		for _, b := range x.Bindings {
			if rv[b] {
				bound = true
			}
		}
		if !bound {
			return c0, ""
		}
		for _, r := range refsOf(x) {
			switch u := r.(type) {
			case ssa.CallInstruction:
				if u.Common().Value != x {
					return c0, "closure capturing the response is passed as an argument"
				}
			case *ssa.DebugRef:
			default:
				return c0, fmt.Sprintf("closure capturing the response escapes through %T", r)
			}
		}
		return c0, ""
	case *ssa.Store:
		if rv[x.Val] && !rv[x.Addr] {
			return c0, "response stored to memory"
		}
	case *ssa.Send:
		if rv[x.X] {
			return c0, "response sent on a channel"
		}
	case *ssa.MakeInterface, *ssa.ChangeInterface:
		if v, ok := in.(ssa.Value); ok {
			var src ssa.Value
			if mi, ok := in.(*ssa.MakeInterface); ok {
				src = mi.X
			} else {
				src = in.(*ssa.ChangeInterface).X
			}
			if rv[src] {
				_ = v
				return c0, "response converted to another interface"
			}
		}
	case *ssa.Return:
		for _, r := range x.Results {
			if rv[r] {
				return c0, "response returned"
			}
		}
	}
	return c0, ""
}

// dispatchSummary: join over every Handler implementation and HandlerFunc target.
func (ra *replyAnalysis) dispatchSummary() cntSet {
	var s cntSet
	for _, f := range ra.impls {
		s |= ra.calleeView(f)
	}
	for _, f := range ra.hfuncs {
		s |= ra.calleeView(f)
	}
	if s == 0 {
		s = c1
	}
	return s
}

// calleeView: summary of an entry point as seen by callers: a reported one counts as {1}.
func (ra *replyAnalysis) calleeView(f *ssa.Function) cntSet {
	s := ra.summarize(f)
	if _, isEntry := ra.entries[f]; isEntry && s != c1 {
		return c1
	}
	return s
}

func (ra *replyAnalysis) summarize(fn *ssa.Function) cntSet {
	if s, ok := ra.summary[fn]; ok {
		return s
	}
	if ra.inProg[fn] {
		return c1 // recursion through handlers: assume the inductive hypothesis for entry points
	}
	ra.inProg[fn] = true
	defer delete(ra.inProg, fn)
	s, _ := ra.flow(fn)
	ra.summary[fn] = s
	return s
}

// pruneEdges marks infeasible fall-through edges of exhaustive enum switches on the
// request header type (validated on read: Header.Validate accepts exactly the declared constants).
func (ra *replyAnalysis) pruneEdges(fn *ssa.Function) {
	for _, b := range fn.Blocks {
		if _, done := ra.pruned[b]; done {
			continue
		}
		iff, ok := b.Instrs[len(b.Instrs)-1].(*ssa.If)
		if !ok {
			continue
		}
		v, _, ok := eqConst(iff.Cond)
		if !ok || !ra.isRequestHeaderType(v) {
			continue
		}
		nt := namedOf(v.Type())
		if nt == nil {
			continue
		}
		declared := declaredConsts(nt)
		if len(declared) == 0 {
			continue
		}
		// walk the chain of false successors
		seen := map[int64]bool{}
		cur := b
		var last *ssa.BasicBlock
		for {
			ci, ok := cur.Instrs[len(cur.Instrs)-1].(*ssa.If)
			if !ok {
				break
			}
			v2, c, ok := eqConst(ci.Cond)
			if !ok || !sameLoad(v2, v) {
				break
			}
			seen[c] = true
			last = cur
			nxt := cur.Succs[1]
			// the next block must contain only the reload/comparison
			cur = nxt
			if !onlyCompareBlock(cur) {
				break
			}
		}
		if last == nil {
			continue
		}
		all := true
		for _, d := range declared {
			if !seen[d] {
				all = false
			}
		}
		if all {
			ra.pruned[last] = 1
		}
	}
}

func onlyCompareBlock(b *ssa.BasicBlock) bool {
	if len(b.Instrs) == 0 {
		return false
	}
	if _, ok := b.Instrs[len(b.Instrs)-1].(*ssa.If); !ok {
		return false
	}
	for _, in := range b.Instrs[:len(b.Instrs)-1] {
		switch in.(type) {
		case *ssa.BinOp, *ssa.UnOp, *ssa.FieldAddr, *ssa.Field, *ssa.DebugRef:
		default:
			return false
		}
	}
	return true
}

func eqConst(cond ssa.Value) (ssa.Value, int64, bool) {
	b, ok := cond.(*ssa.BinOp)
	if !ok || b.Op != token.EQL {
		return nil, 0, false
	}
	if c, ok := constInt(b.Y); ok {
		return b.X, c, true
	}
	if c, ok := constInt(b.X); ok {
		return b.Y, c, true
	}
	return nil, 0, false
}

// sameLoad: two values that are the same SSA value or loads of the same field chain of the same base.
func sameLoad(a, b ssa.Value) bool {
	if a == b {
		return true
	}
	fa, ba, oka := loadedField(a)
	fb, bb, okb := loadedField(b)
	if oka && okb && fa == fb {
		return sameAddrBase(ba, bb)
	}
	return false
}

func sameAddrBase(a, b ssa.Value) bool {
	if a == b {
		return true
	}
	fa, ba, oka := fieldAddrOf(a)
	fb, bb, okb := fieldAddrOf(b)
	if oka && okb && fa == fb {
		return sameAddrBase(ba, bb)
	}
	return false
}

// isRequestHeaderType: v is request.Header.Type where request is a parameter (or its spill) of type tacquito.Request.
func (ra *replyAnalysis) isRequestHeaderType(v ssa.Value) bool {
	f, base, ok := loadedField(v)
	if !ok || f.Name() != "Type" || !typeIs(f.Type(), modPath, "HeaderType") {
		return false
	}
	f2, base2, ok := fieldAddrOf(base)
	if !ok || f2.Name() != "Header" {
		return false
	}
	return typeIs(base2.Type(), modPath, "Request") && typeIs(f2.Type(), modPath, "Header")
}

// declaredConsts lists the values of the package-level constants of named type nt.
func declaredConsts(nt *types.Named) []int64 {
	var out []int64
	if nt.Obj().Pkg() == nil {
		return nil
	}
	sc := nt.Obj().Pkg().Scope()
	seen := map[int64]bool{}
	for _, n := range sc.Names() {
		if c, ok := sc.Lookup(n).(*types.Const); ok && types.Identical(c.Type(), nt) {
			if v, ok := constantInt64(c); ok && !seen[v] {
				seen[v] = true
				out = append(out, v)
			}
		}
	}
	sort.Slice(out, func(i, j int) bool { return out[i] < out[j] })
	return out
}

// flow runs the forward dataflow; returns the join at returns and per-block in-states.
func (ra *replyAnalysis) flow(fn *ssa.Function) (cntSet, map[*ssa.BasicBlock]cntSet) {
	// on inlined views the function is analysed with its helpers folded in: 'the helper answered and said so' is
	// then a branch of this function, not a summary that has lost the connection between the two
	fn = ra.p.view(fn)
	rv := ra.respValues(fn)
	ra.pruneEdges(fn)
	in := map[*ssa.BasicBlock]cntSet{}
	if len(fn.Blocks) == 0 {
		return c0, in
	}
	in[fn.Blocks[0]] = c0
	work := []*ssa.BasicBlock{fn.Blocks[0]}
	var atReturn cntSet
	outOf := func(b *ssa.BasicBlock) cntSet {
		s := in[b]
		for _, instr := range b.Instrs {
			e, why := ra.effect(fn, instr, rv)
			if why != "" {
				ra.escapes[fn] = appendUnique(ra.escapes[fn], why+" at "+ra.p.Pos(instr.Pos()))
			}
			s = s.plus(e)
		}
		return s
	}
	for len(work) > 0 {
		b := work[len(work)-1]
		work = work[:len(work)-1]
		out := outOf(b)
		for i, s := range b.Succs {
			if pi, ok := ra.pruned[b]; ok && pi == i {
				continue
			}
			if in[s]|out != in[s] {
				in[s] |= out
				work = append(work, s)
			}
		}
	}
	for _, b := range fn.Blocks {
		if _, reach := in[b]; !reach {
			continue
		}
		if len(b.Instrs) > 0 {
			if _, ok := b.Instrs[len(b.Instrs)-1].(*ssa.Return); ok {
				atReturn |= outOf(b)
			}
		}
	}
	return atReturn, in
}

func appendUnique(xs []string, s string) []string {
	for _, x := range xs {
		if x == s {
			return xs
		}
	}
	return append(xs, s)
}

// witness finds a path (block list) from entry to a return with the wrong count.
func (ra *replyAnalysis) witness(fn *ssa.Function, want cntSet) string {
	type st struct {
		b *ssa.BasicBlock
		n int
	}
	rv := ra.respValues(fn)
	start := st{fn.Blocks[0], 0}
	prev := map[st]st{}
	seen := map[st]bool{start: true}
	queue := []st{start}
	var replies = map[st][]string{}
	for len(queue) > 0 {
		cur := queue[0]
		queue = queue[1:]
		// possible outcomes through this block: effects that are sets fork
		outs := []int{cur.n}
		var sites []string
		for _, instr := range cur.b.Instrs {
			e, _ := ra.effect(fn, instr, rv)
			if e == c0 {
				continue
			}
			if instr.Pos().IsValid() {
				sites = append(sites, fmt.Sprintf("%s@%s", shortCall(instr), ra.p.Pos(instr.Pos())))
			}
			var nout []int
			for _, o := range outs {
				for k := 0; k < 3; k++ {
					if e&(1<<k) != 0 {
						v := o + k
						if v > 2 {
							v = 2
						}
						nout = append(nout, v)
					}
				}
			}
			outs = dedupInts(nout)
		}
		replies[cur] = sites
		if _, ok := cur.b.Instrs[len(cur.b.Instrs)-1].(*ssa.Return); ok {
			for _, o := range outs {
				if want&(1<<o) != 0 {
					// reconstruct
					var path []string
					var rs []string
					x := cur
					for {
						path = append([]string{blockLabel(ra.p, x.b)}, path...)
						rs = append(append([]string{}, replies[x]...), rs...)
						if x == start {
							break
						}
						x = prev[x]
					}
					return fmt.Sprintf("path %s; reply sites on it: %v; replies at return: %s", strings.Join(path, " -> "), rs, cntSet(1<<o))
				}
			}
		}
		for i, s := range cur.b.Succs {
			if pi, ok := ra.pruned[cur.b]; ok && pi == i {
				continue
			}
			for _, o := range outs {
				n := st{s, o}
				if !seen[n] {
					seen[n] = true
					prev[n] = cur
					queue = append(queue, n)
				}
			}
		}
	}
	return "no witness path reconstructed"
}

func dedupInts(xs []int) []int {
	m := map[int]bool{}
	var out []int
	for _, x := range xs {
		if !m[x] {
			m[x] = true
			out = append(out, x)
		}
	}
	return out
}

func shortCall(in ssa.Instruction) string {
	if c, ok := in.(ssa.CallInstruction); ok {
		s := calleeString(c)
		s = strings.ReplaceAll(s, modPath+"/", "")
		s = strings.ReplaceAll(s, modPath, "tacquito")
		return s
	}
	return fmt.Sprintf("%T", in)
}

// ruleReplyCount adds one obligation per handler entry point.
func ruleReplyCount(p *Program, r *Result) *replyAnalysis {
	ra, err := newReplyAnalysis(p)
	if err != nil {
		r.undecided("R-REPLYCOUNT", "anchors", "-", "%v", err)
		return nil
	}
	// entry points also include functions passed to Response.Next that are plain handlers (already covered by impls/hfuncs)
	var fns []*ssa.Function
	for f := range ra.entries {
		fns = append(fns, f)
	}
	sort.Slice(fns, func(i, j int) bool { return fns[i].String() < fns[j].String() })
	// first pass: find bad entry points so callers see them as {1}
	for _, f := range fns {
		ra.summarize(f)
	}
	for _, f := range fns {
		s := ra.summary[f]
		key := fnKey(f)
		pos := p.Pos(f.Pos())
		if esc := ra.escapes[f]; len(esc) > 0 {
			r.undecided("R-REPLYCOUNT", key, pos, "%s: the response value leaves the enumerated idioms: %s", ra.entries[f], strings.Join(esc, "; "))
			continue
		}
		if s == c1 {
			r.ok("R-REPLYCOUNT", key, pos, true, "%s: every path from entry to return issues exactly one Reply/ReplyWithContext/Write on the response (%d blocks; delegations resolved through %d Handler implementations and %d HandlerFunc targets)", ra.entries[f], len(f.Blocks), len(ra.impls), len(ra.hfuncs))
			continue
		}
		var w []string
		if s&c0 != 0 {
			w = append(w, "NO reply: "+ra.witness(f, c0))
		}
		if s&c2 != 0 {
			w = append(w, "MORE THAN ONE reply: "+ra.witness(f, c2))
		}
		r.bad("R-REPLYCOUNT", key, pos, "%s: reply count at return is %s, must be {1}. %s", ra.entries[f], s, strings.Join(w, " | "))
	}
	// helper functions that take a response but are not entry points: record their summaries, flag escapes
	for _, f := range p.UFuncs() {
		if _, isEntry := ra.entries[f]; isEntry {
			continue
		}
		if len(ra.respValues(f)) == 0 {
			continue
		}
		if typeIsRecv(f, modPath, "HandlerFunc") {
			continue
		}
		s := ra.summarize(f)
		if esc := ra.escapes[f]; len(esc) > 0 {
			r.undecided("R-REPLYCOUNT", "helper:"+fnKey(f), p.Pos(f.Pos()), "helper receives the response and lets it escape: %s", strings.Join(esc, "; "))
			continue
		}
		r.ok("R-REPLYCOUNT", "helper:"+fnKey(f), p.Pos(f.Pos()), true, "helper with the response in scope contributes %s replies; accounted for at its call sites", s)
	}
	return ra
}

func typeIsRecv(f *ssa.Function, pkg, name string) bool {
	if f.Signature.Recv() == nil {
		return false
	}
	return typeIs(f.Signature.Recv().Type(), pkg, name)
}
