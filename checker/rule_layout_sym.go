package main

import (
	"fmt"
	"go/token"
	"go/types"
	"strings"

	"golang.org/x/tools/go/ssa"
)

// Symbolic evaluation of the header encoder (third reader of Header.MarshalBinary, after the statement-level one and
// the single-buffer SSA one): the 12 octets returned are computed as symbols by following how the returned slice
// is put together - arrays and make([]byte, n) buffers written at constant offsets (single octets, big-endian
// puts, copy), pieces staged in small local arrays, and append chains of such pieces. Helpers are folded in
// (p.localInlined), so what a helper such as uint32Bytes(v) returns is one of those shapes.
//
// An octet is one of: the version sub-encoder's item, "u8:F" (the receiver's field F converted to one octet),
// "octet:F:k" (octet k of field F, k = 0 least significant), "zero", or unknown (evaluation fails).

type hdrEval struct {
	fn   *ssa.Function
	recv ssa.Value
	lc   *layoutCtx
	errs []string
	busy map[ssa.Value]bool
}

func (ev *hdrEval) fail(format string, args ...interface{}) {
	ev.errs = append(ev.errs, fmt.Sprintf(format, args...))
}

// arrayLen: v is (a pointer to) a byte array or a make([]byte, n[, c]) with constant n; returns n.
func arrayLen(v ssa.Value) (int64, bool) {
	switch x := v.(type) {
	case *ssa.Alloc:
		if at, ok := x.Type().(*types.Pointer).Elem().Underlying().(*types.Array); ok && isByteElem(at.Elem()) {
			return at.Len(), true
		}
	case *ssa.MakeSlice:
		if isByteSlice(x.Type()) {
			return constInt(x.Len)
		}
	}
	return 0, false
}

type symWrite struct {
	at   ssa.Instruction
	off  int64
	vals []string
}

// contents: the octets of buffer base (length n) after every write into it: stores at constant offsets, big-endian
// puts and copies into constant sub-slices. An offset may be written twice only when the first write is a constant
// zero (a literal's filler) that the second write comes after.
func (ev *hdrEval) contents(base ssa.Value, n int64) ([]string, bool) {
	if ev.busy[base] {
		return nil, false
	}
	ev.busy[base] = true
	defer delete(ev.busy, base)
	var writes []symWrite
	ok := true
	for _, blk := range ev.fn.Blocks {
		for _, in := range blk.Instrs {
			switch x := in.(type) {
			case *ssa.IndexAddr:
				cs, okc := constSliceOf(x.X)
				if !okc || cs.base != base {
					continue
				}
				for _, r2 := range refsOf(x) {
					st, isSt := r2.(*ssa.Store)
					if !isSt || st.Addr != ssa.Value(x) {
						continue
					}
					k, okk := constInt(x.Index)
					if !okk {
						ev.fail("a buffer of the header encoder is written at a non-constant offset")
						ok = false
						continue
					}
					o, oko := ev.octet(st.Val)
					if !oko {
						ev.fail("unrecognised value stored at offset %d", k+cs.lo)
						ok = false
						continue
					}
					writes = append(writes, symWrite{st, k + cs.lo, []string{o}})
				}
			case ssa.CallInstruction:
				cc := x.Common()
				if f := cc.StaticCallee(); f != nil && (isBE(f, "PutUint32") || isBE(f, "PutUint16")) {
					args := cc.Args
					cs, okc := constSliceOf(args[len(args)-2])
					if !okc || cs.base != base {
						continue
					}
					w := int64(4)
					if isBE(f, "PutUint16") {
						w = 2
					}
					if cs.hi >= 0 && cs.hi-cs.lo < w {
						ev.fail("a big-endian put targets a slice shorter than the value")
						ok = false
						continue
					}
					fld, okf := headerFieldValue(args[len(args)-1], ev.recv)
					if !okf {
						ev.fail("a big-endian put at offset %d does not write a field of the receiver", cs.lo)
						ok = false
						continue
					}
					var vals []string
					for k := w - 1; k >= 0; k-- {
						vals = append(vals, fmt.Sprintf("octet:%s:%d", fld, k))
					}
					writes = append(writes, symWrite{x, cs.lo, vals})
				}
				if bi, isB := cc.Value.(*ssa.Builtin); isB && bi.Name() == "copy" && len(cc.Args) == 2 {
					cs, okc := constSliceOf(cc.Args[0])
					if !okc || cs.base != base {
						continue
					}
					src, oks := ev.slice(cc.Args[1])
					if !oks {
						ev.fail("copy into the buffer from something that is not a known piece")
						ok = false
						continue
					}
					room := n - cs.lo
					if cs.hi >= 0 {
						room = cs.hi - cs.lo
					}
					if int64(len(src)) > room {
						src = src[:room]
					}
					writes = append(writes, symWrite{x, cs.lo, src})
				}
			}
		}
	}
	if !ok {
		return nil, false
	}
	out := make([]string, n)
	by := make([]ssa.Instruction, n)
	for i := range out {
		out[i] = "zero"
	}
	// zero fillers first, then the rest
	for pass := 0; pass < 2; pass++ {
		for _, w := range writes {
			for i, v := range w.vals {
				k := w.off + int64(i)
				if k < 0 || k >= n {
					ev.fail("write at offset %d outside a buffer of %d octets", k, n)
					return nil, false
				}
				if (v == "zero") != (pass == 0) {
					continue
				}
				if by[k] != nil {
					if pass == 1 && out[k] == "zero" && domInstr(by[k], w.at) {
						// overwrites the literal's filler
					} else {
						ev.fail("offset %d is written twice", k)
						return nil, false
					}
				}
				out[k], by[k] = v, w.at
			}
		}
	}
	return out, true
}

// octet: the symbol of a single octet value.
func (ev *hdrEval) octet(v ssa.Value) (string, bool) {
	if c, ok := constInt(v); ok {
		if c == 0 {
			return "zero", true
		}
		return "", false
	}
	if f, sh, ok := headerFieldOctet(v, ev.recv); ok && sh > 0 {
		return fmt.Sprintf("octet:%s:%d", f, sh), true
	}
	if f, ok := headerFieldValue(v, ev.recv); ok {
		return "u8:" + f, true
	}
	if isVersionOctet(v, ev.recv) {
		return ev.lc.versionItem(), true
	}
	// an element of a staged local array: *(&arr[i])
	if u, ok := v.(*ssa.UnOp); ok && u.Op == token.MUL {
		if ia, ok := u.X.(*ssa.IndexAddr); ok {
			if k, okk := constInt(ia.Index); okk {
				if cs, okc := constSliceOf(ia.X); okc {
					if n, okn := arrayLen(cs.base); okn {
						if cont, okc := ev.contents(cs.base, n); okc && k+cs.lo >= 0 && k+cs.lo < n {
							return cont[k+cs.lo], true
						}
					}
				}
			}
		}
	}
	return "", false
}

// slice: the octets of a []byte value.
func (ev *hdrEval) slice(v ssa.Value) ([]string, bool) {
	if isNilConst(v) {
		return nil, true
	}
	// the version sub-encoder's result
	if call, idx, ok := extractOf(v); ok && idx == 0 {
		if f := call.Common().StaticCallee(); f != nil && f.Name() == "MarshalBinary" && len(call.Common().Args) == 1 {
			if fld, base, okf := fieldAddrOf(call.Common().Args[0]); okf && fld.Name() == "Version" && base == ev.recv {
				return []string{ev.lc.versionItem()}, true
			}
		}
		return nil, false
	}
	if call, ok := v.(*ssa.Call); ok {
		if bi, isB := call.Common().Value.(*ssa.Builtin); isB && bi.Name() == "append" && len(call.Common().Args) == 2 {
			head, ok1 := ev.slice(call.Common().Args[0])
			tail, ok2 := ev.slice(call.Common().Args[1])
			if !ok1 || !ok2 {
				return nil, false
			}
			return append(append([]string{}, head...), tail...), true
		}
		return nil, false
	}
	cs, ok := constSliceOf(v)
	if !ok {
		return nil, false
	}
	n, okn := arrayLen(cs.base)
	if !okn {
		return nil, false
	}
	cont, okc := ev.contents(cs.base, n)
	if !okc {
		return nil, false
	}
	hi := cs.hi
	if hi < 0 {
		hi = n
	}
	if cs.lo < 0 || hi > n || cs.lo > hi {
		// reslicing a make([]byte, 0, c) beyond its length exposes zeroes; not an idiom of the header encoder
		return nil, false
	}
	return cont[cs.lo:hi], true
}

// extractHeaderEncoderSym evaluates what Header.MarshalBinary returns on its success paths.
func extractHeaderEncoderSym(p *Program, fn *ssa.Function, lc *layoutCtx) ([]string, []string) {
	if fn == nil || len(fn.Blocks) == 0 || len(fn.Params) == 0 {
		return nil, []string{"no body"}
	}
	ev := &hdrEval{fn: fn, recv: fn.Params[0], lc: lc, busy: map[ssa.Value]bool{}}
	var result []string
	n := 0
	for _, b := range fn.Blocks {
		ret, ok := b.Instrs[len(b.Instrs)-1].(*ssa.Return)
		if !ok || b == fn.Recover || len(ret.Results) != 2 {
			continue
		}
		for _, rv := range returnedValues(fn, ret, 0) {
			if isNilConst(rv) {
				continue
			}
			octs, ok := ev.slice(rv)
			if !ok {
				ev.fail("the value returned is not put together from buffers written at constant offsets and appended pieces")
				continue
			}
			n++
			if len(octs) != 12 {
				ev.fail("the value returned has %d octets, the header has 12", len(octs))
				continue
			}
			items, ok := groupOctets(octs)
			if !ok {
				ev.fail("an octet of the header is one octet of a field that is not written out whole, most significant octet first, or is left zero (%v)", octs)
				continue
			}
			if result != nil && strings.Join(result, " ") != strings.Join(items, " ") {
				ev.fail("two success returns lay the header out differently")
			}
			result = items
		}
	}
	if n == 0 {
		ev.fail("no success return found")
	}
	return result, ev.errs
}

// groupOctets turns 12 octet symbols into layout items: four consecutive octets 3,2,1,0 of one field are be32:F.
func groupOctets(octs []string) ([]string, bool) {
	var out []string
	for k := 0; k < len(octs); k++ {
		o := octs[k]
		if strings.HasPrefix(o, "octet:") {
			var f string
			var sh int
			if n, _ := fmt.Sscanf(strings.ReplaceAll(o, ":", " "), "octet %s %d", &f, &sh); n != 2 || sh != 3 || k+3 >= len(octs) {
				return nil, false
			}
			last := octs[k+3]
			if octs[k+1] != fmt.Sprintf("octet:%s:2", f) || octs[k+2] != fmt.Sprintf("octet:%s:1", f) || (last != fmt.Sprintf("octet:%s:0", f) && last != "u8:"+f) {
				return nil, false
			}
			out = append(out, "be32:"+f)
			k += 3
			continue
		}
		if o == "zero" || o == "" {
			return nil, false
		}
		out = append(out, o)
	}
	return out, true
}
