package main

import (
	"fmt"
	"go/token"
	"go/types"
	"reflect"
	"strings"

	"golang.org/x/tools/go/ssa"
)

// decodeCalls: calls tacquito.Unmarshal(request.Body, &local) in fn; returns call -> local alloc.
func decodeCalls(fn *ssa.Function, typeName string) map[*ssa.Call]*ssa.Alloc {
	out := map[*ssa.Call]*ssa.Alloc{}
	for _, c := range allCalls(fn) {
		call, ok := c.(*ssa.Call)
		if !ok {
			continue
		}
		f := call.Common().StaticCallee()
		if f == nil || f.Pkg == nil || f.Pkg.Pkg.Path() != modPath {
			continue
		}
		args := call.Common().Args
		var dst ssa.Value
		switch {
		case f.Name() == "Unmarshal" && f.Signature.Recv() == nil && len(args) == 2:
			dst = stripConv(args[1])
		case f.Name() == "UnmarshalBinary" && len(args) == 2:
			dst = args[0]
		default:
			continue
		}
		a, ok := dst.(*ssa.Alloc)
		if !ok {
			continue
		}
		if typeName == "" || typeIs(a.Type(), modPath, typeName) {
			out[call] = a
		}
	}
	return out
}

// isRequestBody: v is request.Body of a tacquito.Request parameter (or its spill).
func isRequestBody(v ssa.Value) bool {
	f, base, ok := loadedField(v)
	if !ok || f.Name() != "Body" {
		return false
	}
	return typeIs(base.Type(), modPath, "Request")
}

// valueMentions: v is derived from src by conversions, interface boxing, or being an element of a varargs slice.
func derivedFromValue(v, src ssa.Value, depth int) bool {
	if depth == 0 {
		return false
	}
	if v == src {
		return true
	}
	switch x := v.(type) {
	case *ssa.Convert:
		return derivedFromValue(x.X, src, depth-1)
	case *ssa.ChangeType:
		return derivedFromValue(x.X, src, depth-1)
	case *ssa.MakeInterface:
		return derivedFromValue(x.X, src, depth-1)
	case *ssa.Slice:
		if elems, ok := varargElems(x); ok {
			for _, e := range elems {
				if derivedFromValue(e, src, depth-1) {
					return true
				}
			}
		}
		return derivedFromValue(x.X, src, depth-1)
	case *ssa.Phi:
		for _, e := range x.Edges {
			if derivedFromValue(e, src, depth-1) {
				return true
			}
		}
	}
	return false
}

// printfLike: the callee takes (..., format string, args ...interface{}); returns the index of the format argument.
func printfLike(c ssa.CallInstruction) (int, bool) {
	sig := c.Common().Signature()
	if sig == nil || !sig.Variadic() || sig.Params().Len() < 2 {
		return 0, false
	}
	n := sig.Params().Len()
	last := sig.Params().At(n - 1).Type()
	sl, ok := last.(*types.Slice)
	if !ok {
		return 0, false
	}
	if it, ok := sl.Elem().Underlying().(*types.Interface); !ok || it.NumMethods() != 0 {
		return 0, false
	}
	fm := sig.Params().At(n - 2)
	if b, ok := fm.Type().Underlying().(*types.Basic); !ok || b.Kind() != types.String {
		return 0, false
	}
	idx := n - 2
	if !c.Common().IsInvoke() && sig.Recv() != nil {
		idx++ // receiver is Args[0] for static method calls
	}
	return idx, true
}

// ruleAccounting: C12 — SUCCESS only behind exactly one faithful sink write.
func ruleAccounting(p *Program, r *Result) {
	success, ok1 := p.rootConst("AcctReplyStatusSuccess")
	if !ok1 {
		r.undecided("R-PROVENANCE", "anchor:AcctReplyStatusSuccess", "-", "UNRESOLVED constant")
		return
	}
	sites := allReplySites(p)
	ord := map[*ssa.Function]int{}
	nAcct := 0
	byFn := map[*ssa.Function][]ReplySite{}
	for _, rs := range sites {
		if rs.Kind == "Acct" || (rs.Kind == "" && len(decodeCalls(rs.Fn, "AcctRequest")) > 0) {
			byFn[rs.Fn] = append(byFn[rs.Fn], rs)
		}
	}
	for _, rs := range sites {
		if _, ok := byFn[rs.Fn]; !ok {
			continue
		}
		k := siteKey(rs, ord)
		nAcct++
		if !rs.Resolved {
			r.undecided("R-PROVENANCE", k, p.Pos(rs.Call.Pos()), "accounting reply whose status cannot be resolved to constants: %s", rs.Why)
			continue
		}
		if !hasStatus(rs, success) {
			r.ok("R-PROVENANCE", k, p.Pos(rs.Call.Pos()), false, "accounting reply with status %v (not SUCCESS)", rs.Status)
			continue
		}
		// SUCCESS: only for a flag octet that is, as a whole, one of the combinations the handler names (a bit test
		// lets contradictory combinations - start+stop, a stray bit - through)
		{
			// where SUCCESS comes from: the reply's own block, or - when the status is a merge of alternatives - the
			// predecessor blocks of the alternatives that may be SUCCESS
			origins := successOrigins(p, rs, success)
			exact := len(origins) > 0
			for _, o := range origins {
				if !underWholeFlagsEquality(o.blk, o.into, modPath) {
					exact = false
				}
			}
			r.cond(exact, "R-ORDER", k+":flags-compared-whole", p.Pos(rs.Call.Pos()),
				"the SUCCESS reply is under an equality test of the request's whole flag octet with a constant: contradictory or unknown combinations cannot reach it",
				"the SUCCESS reply is not under 'Flags == <constant>' for the decoded request's whole flag octet: a request carrying contradictory flags (start+stop, a legal flag plus a stray bit) can be acknowledged")
		}
		// SUCCESS: must be dominated by exactly one sink write of the JSON of the decoded request
		fn := rs.Fn
		decs := decodeCalls(fn, "AcctRequest")
		var marshal *ssa.Call
		var body *ssa.Alloc
		for _, c := range allCalls(fn) {
			call, ok := c.(*ssa.Call)
			if !ok || !isFuncNamed(call.Common().StaticCallee(), "encoding/json", "Marshal") {
				continue
			}
			arg := stripConv(call.Common().Args[0])
			if u, ok := arg.(*ssa.UnOp); ok && u.Op == token.MUL {
				arg = u.X
			}
			for dc, a := range decs {
				if arg == ssa.Value(a) && isRequestBody(dc.Common().Args[0]) {
					if g, _ := guardedBySuccess(dc, call, nil); g {
						marshal, body = call, a
					}
				}
			}
		}
		if marshal == nil {
			r.bad("R-ORDER", k+":record", p.Pos(rs.Call.Pos()), "SUCCESS is replied in a function that does not json.Marshal the AcctRequest decoded from this request's body (after a successful decode): the record cannot be shown to say what the client sent")
			continue
		}
		_ = body
		var jsonBytes ssa.Value
		for _, rf := range refsOf(marshal) {
			if e, ok := rf.(*ssa.Extract); ok && e.Index == 0 {
				jsonBytes = e
			}
		}
		var writes []ssa.CallInstruction
		for _, c := range allCalls(fn) {
			if c == ssa.CallInstruction(marshal) {
				continue
			}
			if isReplyCall(c) {
				continue
			}
			for _, a := range c.Common().Args {
				if jsonBytes != nil && derivedFromValue(a, jsonBytes, 6) {
					writes = append(writes, c)
					break
				}
			}
		}
		if len(writes) == 0 {
			r.bad("R-ORDER", k+":sink-before-success", p.Pos(rs.Call.Pos()), "SUCCESS is replied but the JSON record is never handed to a sink in this function")
			continue
		}
		dom := 0
		var w ssa.CallInstruction
		for _, x := range writes {
			if _, deferred := x.(*ssa.Defer); deferred {
				continue // runs when the function returns, after the reply
			}
			if _, spawned := x.(*ssa.Go); spawned {
				continue // runs whenever the scheduler gets to it
			}
			if domInstr(x, rs.Call) {
				dom++
				w = x
			}
		}
		once := dom == 1 && len(writes) == 1 && !blockReachFromSelf(w.Block())
		guarded := true
		why := ""
		if once {
			if g, wy := guardedBySuccess(marshal, w, nil); !g {
				guarded = false
				why = wy
			}
			// a sink that reports errors must have succeeded
			if call, ok := w.(*ssa.Call); ok && hasErrorResult(call) {
				if g, wy := guardedBySuccess(call, rs.At, nil); !g {
					guarded = false
					why = "the sink's error result does not guard the SUCCESS reply: " + wy
				}
			}
		}
		if once && guarded {
			r.ok("R-ORDER", k+":sink-before-success", p.Pos(rs.Call.Pos()), true, "the SUCCESS reply is dominated by exactly one sink write (%s at %s, not in a loop) of json.Marshal of the request decoded from this request's body, on the success edges of decode, marshal and sink", shortCall(w), p.Pos(w.Pos()))
		} else {
			r.bad("R-ORDER", k+":sink-before-success", p.Pos(rs.Call.Pos()), "the SUCCESS reply is not preceded on every path by exactly one sink write of the record (%d dominating writes of %d, %s)", dom, len(writes), why)
		}
	}
	// R-FMT on every sink write of a record
	seenFmt := map[ssa.CallInstruction]bool{}
	for fn := range byFn {
		for _, c := range allCalls(fn) {
			call, isCall := c.(*ssa.Call)
			if !isCall || !isFuncNamed(call.Common().StaticCallee(), "encoding/json", "Marshal") {
				continue
			}
			var jsonBytes ssa.Value
			for _, rf := range refsOf(call) {
				if e, ok := rf.(*ssa.Extract); ok && e.Index == 0 {
					jsonBytes = e
				}
			}
			for _, w := range allCalls(fn) {
				if seenFmt[w] || isReplyCall(w) {
					continue
				}
				idx, isPrintf := printfLike(w)
				uses := false
				for _, a := range w.Common().Args {
					if jsonBytes != nil && derivedFromValue(a, jsonBytes, 6) {
						uses = true
					}
				}
				if !uses || !isPrintf {
					continue
				}
				seenFmt[w] = true
				fa := w.Common().Args[idx]
				_, isConst := fa.(*ssa.Const)
				k := fmt.Sprintf("%s:%s", fnKey(fn), shortCall(w))
				if isConst {
					r.ok("R-FMT", k, p.Pos(w.Pos()), true, "the accounting record is an argument of the sink's printf-like method, the format is the constant %s", fa.(*ssa.Const).Value.ExactString())
				} else {
					r.bad("R-FMT", k, p.Pos(w.Pos()), "the accounting record is in the FORMAT position of %s: every '%%' in a command line is rewritten (e.g. '100%%d' becomes '100%%!d(MISSING)') and the audit trail no longer says what was typed", shortCall(w))
				}
			}
		}
	}
	// type-level: JSON carries exactly the decoded fields
	ruleJSONFaithful(p, r, "AcctRequest")
	if nAcct == 0 {
		r.undecided("R-PROVENANCE", "acct-replies", "-", "no accounting reply site found")
	}
}

func isReplyCall(c ssa.CallInstruction) bool {
	cc := c.Common()
	return cc.IsInvoke() && (cc.Method.Name() == "Reply" || cc.Method.Name() == "ReplyWithContext") && typeIs(cc.Value.Type(), modPath, "Response")
}

func hasErrorResult(c *ssa.Call) bool {
	if isErrorType(c.Type()) {
		return true
	}
	if t, ok := c.Type().(*types.Tuple); ok {
		for i := 0; i < t.Len(); i++ {
			if isErrorType(t.At(i).Type()) {
				return true
			}
		}
	}
	return false
}

func blockReachFromSelf(b *ssa.BasicBlock) bool {
	for _, s := range b.Succs {
		if blockReach(s, nil)[b] {
			return true
		}
	}
	return false
}

// ruleJSONFaithful: no field type of the struct customises its JSON/text encoding, and no field is renamed or omitted by tags.
func ruleJSONFaithful(p *Program, r *Result, structName string) {
	nt := p.lookupType("", structName)
	if nt == nil {
		r.undecided("R-JSON", "anchor:"+structName, "-", "UNRESOLVED type tacquito.%s", structName)
		return
	}
	st, ok := nt.Underlying().(*types.Struct)
	if !ok {
		r.undecided("R-JSON", "anchor:"+structName, "-", "tacquito.%s is not a struct", structName)
		return
	}
	custom := func(t types.Type) string {
		for _, tt := range []types.Type{t, types.NewPointer(t)} {
			ms := types.NewMethodSet(tt)
			for _, m := range []string{"MarshalJSON", "MarshalText"} {
				if ms.Lookup(nil, m) != nil {
					return m
				}
				for i := 0; i < ms.Len(); i++ {
					if ms.At(i).Obj().Name() == m {
						return m
					}
				}
			}
		}
		return ""
	}
	var check func(t types.Type, path string, depth int)
	check = func(t types.Type, path string, depth int) {
		if depth > 6 {
			return
		}
		if n, ok := t.(*types.Named); ok && n.Obj().Pkg() != nil {
			if m := custom(n); m != "" {
				r.bad("R-JSON", structName+"."+path, p.Pos(n.Obj().Pos()), "type %s of field %s defines %s: json.Marshal of the decoded request no longer yields the field's bytes (the record would not say what the client sent)", typeName(n), path, m)
			} else {
				r.ok("R-JSON", structName+"."+path, p.Pos(n.Obj().Pos()), true, "type %s of field %s has no MarshalJSON/MarshalText: encoding/json writes its underlying value verbatim", typeName(n), path)
			}
		}
		switch u := t.Underlying().(type) {
		case *types.Slice:
			check(u.Elem(), path+"[]", depth+1)
		case *types.Array:
			check(u.Elem(), path+"[]", depth+1)
		case *types.Pointer:
			check(u.Elem(), path, depth+1)
		case *types.Struct:
			for i := 0; i < u.NumFields(); i++ {
				check(u.Field(i).Type(), path+"."+u.Field(i).Name(), depth+1)
			}
		}
	}
	if m := custom(nt); m != "" {
		r.bad("R-JSON", structName, p.Pos(nt.Obj().Pos()), "%s defines %s", structName, m)
	}
	for i := 0; i < st.NumFields(); i++ {
		f := st.Field(i)
		tag := reflect.StructTag(st.Tag(i))
		if _, has := tag.Lookup("json"); has || !f.Exported() {
			r.bad("R-JSON", structName+"."+f.Name()+":tag", p.Pos(f.Pos()), "field %s carries a json tag or is unexported: the record may omit or rename it", f.Name())
		}
		check(f.Type(), f.Name(), 0)
	}
	r.floor("R-JSON", 9)
}

var _ = strings.Contains

// successOrigins: the places a reply's SUCCESS status comes from.
func successOrigins(p *Program, rs ReplySite, success int64) []originEdge {
	vals := rs.Options["SetAcctReplyStatus"]
	if len(vals) == 0 {
		return []originEdge{{blk: rs.At.Block()}}
	}
	var out []originEdge
	for _, v := range vals {
		out = append(out, constOrigins(p, v, map[int64]bool{success: true}, rs.At.Block())...)
	}
	return out
}

// underWholeFlagsEquality: is the block (or the edge blk->into) only reached when 'body.Flags == <const>' held for the
// decoded accounting request?
func underWholeFlagsEquality(blk, into *ssa.BasicBlock, modPath string) bool {
	// isTest: does the block end in a test of the whole flag octet, and which successor is taken when it matched?
	isFlags := func(v ssa.Value) bool {
		if f, base, ok := loadedField(v); ok && f.Name() == "Flags" {
			if a, ok := base.(*ssa.Alloc); ok && typeIs(a.Type(), modPath, "AcctRequest") {
				return true
			}
		}
		return false
	}
	isTest := func(id *ssa.BasicBlock) (int, bool) {
		iff, ok := id.Instrs[len(id.Instrs)-1].(*ssa.If)
		if !ok {
			return 0, false
		}
		cond, yes := iff.Cond, 0
		for {
			u, ok := cond.(*ssa.UnOp)
			if !ok || u.Op != token.NOT {
				break
			}
			cond, yes = u.X, 1-yes
		}
		switch x := cond.(type) {
		case *ssa.BinOp:
			if x.Op == token.NEQ {
				yes = 1 - yes
			} else if x.Op != token.EQL {
				return 0, false
			}
			if _, isC := constInt(x.Y); isC && isFlags(x.X) {
				return yes, true
			}
		case *ssa.Extract:
			// 'v, known := table[body.Flags]' over a package-level table: the whole octet is compared with the keys
			if lk, ok := x.Tuple.(*ssa.Lookup); ok && lk.CommaOk && x.Index == 1 && isFlags(lk.Index) {
				if _, isMap := lk.X.Type().Underlying().(*types.Map); isMap {
					return yes, true
				}
			}
		}
		return 0, false
	}
	if into != nil {
		if yes, ok := isTest(blk); ok && blk.Succs[yes] == into && blk.Succs[1-yes] != into {
			return true
		}
	}
	for d := blk; d != nil; d = d.Idom() {
		id := d.Idom()
		if id == nil {
			break
		}
		if yes, ok := isTest(id); ok {
			y, n := id.Succs[yes], id.Succs[1-yes]
			if (y == d || y.Dominates(d)) && n != d && !n.Dominates(d) {
				return true
			}
		}
	}
	return false
}
