package main

import (
	"encoding/json"
	"fmt"
	"os"
	"path/filepath"
	"sort"
	"strings"
)

// Status of one obligation.
type Status string

const (
	Discharged Status = "discharged"
	Violated   Status = "violated"
	Undecided  Status = "undecided" // fails the check like a violation, reported distinctly
)

// Obligation is one rule instance on one construct.
type Obligation struct {
	Rule       string `json:"rule"`
	Key        string `json:"key"` // stable: rule:func:descriptor, never a line number
	Pos        string `json:"pos"` // file:line for humans
	Status     Status `json:"status"`
	Detail     string `json:"detail"`
	NonTrivial bool   `json:"nontrivial"` // needed a path/flow/type argument rather than a constant lookup
}

// Result of checking one property on one build configuration.
type Result struct {
	Property    string
	Obls        []Obligation
	Instances   map[string]int // rule -> instances examined
	Floors      map[string]int // rule -> minimum instance count confirmed by reading
	Explanation string
	Assumptions []string
	Trusted     []string
	Analysed    map[string]interface{}
	Notes       []string
	keys        map[string]int
}

func newResult(id string) *Result {
	return &Result{Property: id, Instances: map[string]int{}, Floors: map[string]int{}, Analysed: map[string]interface{}{}, keys: map[string]int{}}
}

func (r *Result) add(rule, key, pos string, st Status, nontrivial bool, format string, args ...interface{}) {
	full := rule + ":" + key
	// keys must be unique; ordinal suffix for repeated constructs
	n := r.keys[full]
	r.keys[full] = n + 1
	if n > 0 {
		full = fmt.Sprintf("%s#%d", full, n+1)
	}
	r.Obls = append(r.Obls, Obligation{Rule: rule, Key: full, Pos: pos, Status: st, Detail: fmt.Sprintf(format, args...), NonTrivial: nontrivial})
	r.Instances[rule]++
}

func (r *Result) ok(rule, key, pos string, nontrivial bool, format string, args ...interface{}) {
	r.add(rule, key, pos, Discharged, nontrivial, format, args...)
}
func (r *Result) bad(rule, key, pos string, format string, args ...interface{}) {
	r.add(rule, key, pos, Violated, true, format, args...)
}
func (r *Result) undecided(rule, key, pos string, format string, args ...interface{}) {
	r.add(rule, key, pos, Undecided, true, format, args...)
}

// cond records ok or bad depending on c.
func (r *Result) cond(c bool, rule, key, pos string, okMsg, badMsg string) {
	if c {
		r.ok(rule, key, pos, true, "%s", okMsg)
	} else {
		r.bad(rule, key, pos, "%s", badMsg)
	}
}

func (r *Result) floor(rule string, n int) { r.Floors[rule] = n }

// finish applies the instance floors.
func (r *Result) finish() {
	rules := make([]string, 0, len(r.Floors))
	for k := range r.Floors {
		rules = append(rules, k)
	}
	sort.Strings(rules)
	for _, rule := range rules {
		// a margin of one half: refactors that merge duplicated sites lower the count legitimately; what the
		// floor guards against is a rule that lost (nearly) all its subjects and passes vacuously
		if r.Instances[rule] < (r.Floors[rule]+1)/2 {
			r.Obls = append(r.Obls, Obligation{Rule: rule, Key: "FLOOR:" + rule, Pos: "-", Status: Undecided, NonTrivial: true,
				Detail: fmt.Sprintf("rule %s matched %d instances, below the floor of %d confirmed by reading the tree: its subjects moved out of reach and the property is undecided", rule, r.Instances[rule], r.Floors[rule])})
		}
	}
}

// merge appends another result (other build configuration) with a prefix.
func (r *Result) merge(o *Result, cfg string) {
	for _, ob := range o.Obls {
		ob.Key = ob.Key + "@" + cfg
		ob.Detail = "[" + cfg + "] " + ob.Detail
		r.Obls = append(r.Obls, ob)
	}
	for k, v := range o.Instances {
		r.Instances[k+"@"+cfg] = v
	}
}

// ---------------------------------------------------------------------------
// known findings

type Finding struct {
	Property string `json:"property"`
	Key      string `json:"key"`
	Status   string `json:"status"` // "known" | "fixed"
	Commit   string `json:"commit,omitempty"`
	What     string `json:"what"`
}

type Findings struct {
	Findings []Finding `json:"findings"`
}

func loadFindings(path string) (*Findings, error) {
	f := &Findings{}
	b, err := os.ReadFile(path)
	if err != nil {
		if os.IsNotExist(err) {
			return f, nil
		}
		return nil, err
	}
	if err := json.Unmarshal(b, f); err != nil {
		return nil, fmt.Errorf("%s: %w", path, err)
	}
	return f, nil
}

func (f *Findings) known(prop, key string) *Finding {
	// strip build-config suffix for matching
	base := key
	if i := strings.LastIndex(base, "@"); i >= 0 {
		base = base[:i]
	}
	for i := range f.Findings {
		x := &f.Findings[i]
		if x.Property == prop && x.Status == "known" && (x.Key == key || x.Key == base) {
			return x
		}
	}
	return nil
}

// ---------------------------------------------------------------------------
// evidence

type Evidence struct {
	PropertyID  string                 `json:"property_id"`
	Tier        string                 `json:"tier"`
	Seed        int                    `json:"seed"`
	Level       string                 `json:"level"`
	Coverage    map[string]interface{} `json:"coverage"`
	Assumptions []string               `json:"assumptions"`
	WallS       float64                `json:"wall_s"`
	Violations  int                    `json:"violations"`
}

// report prints the verdict, writes evidence and replay files, returns the exit code.
func report(r *Result, tier string, seed int, wall float64, verifDir string, fs *Findings, extra map[string]interface{}) int {
	evDir := filepath.Join(verifDir, "evidence")
	os.MkdirAll(filepath.Join(evDir, "replay"), 0o755)
	// remove stale replay files of this property
	if old, _ := filepath.Glob(filepath.Join(evDir, "replay", r.Property+"-*.json")); old != nil {
		for _, o := range old {
			os.Remove(o)
		}
	}
	sort.SliceStable(r.Obls, func(i, j int) bool { return r.Obls[i].Key < r.Obls[j].Key })
	var discharged, nontrivial, violations int
	var knownMatched []string
	var samples []interface{}
	distinct := map[string]bool{}
	exit := 0
	nrep := 0
	for _, ob := range r.Obls {
		if ob.Status == Discharged {
			discharged++
			if ob.NonTrivial && !distinct[ob.Key] {
				distinct[ob.Key] = true
				nontrivial++
			}
			continue
		}
		if kf := fs.known(r.Property, ob.Key); kf != nil {
			fmt.Printf("KNOWN-FINDING: property=%s %s [%s at %s]\n", r.Property, kf.What, ob.Key, ob.Pos)
			knownMatched = append(knownMatched, ob.Key)
			continue
		}
		violations++
		nrep++
		rp := filepath.Join(evDir, "replay", fmt.Sprintf("%s-%d.json", r.Property, nrep))
		b, _ := json.MarshalIndent(map[string]interface{}{
			"property": r.Property, "rule": ob.Rule, "key": ob.Key, "pos": ob.Pos, "status": ob.Status, "detail": ob.Detail,
		}, "", " ")
		os.WriteFile(rp, append(b, '\n'), 0o644)
		kind := "violated"
		if ob.Status == Undecided {
			kind = "UNDECIDED (fails the check; the rule could not decide this construct)"
		}
		fmt.Printf("  %s %s at %s: %s\n    %s\n", kind, ob.Key, ob.Pos, ob.Rule, ob.Detail)
		fmt.Printf("VIOLATION property=%s replay=%s\n", r.Property, rp)
		exit = 1
	}
	// samples: a spread of obligations, violated first
	perRule := map[string]int{}
	for _, ob := range r.Obls {
		if ob.Status != Discharged {
			samples = append(samples, ob)
		}
	}
	for _, ob := range r.Obls {
		if ob.Status == Discharged && ob.NonTrivial && perRule[ob.Rule] < 3 && len(samples) < 24 {
			perRule[ob.Rule]++
			samples = append(samples, ob)
		}
	}
	if len(samples) == 0 && len(r.Obls) > 0 {
		samples = append(samples, r.Obls[0])
	}
	inst := map[string]interface{}{}
	for k, v := range r.Instances {
		e := map[string]int{"instances": v}
		if f, ok := r.Floors[k]; ok {
			e["floor"] = f
		}
		inst[k] = e
	}
	trusted := append([]string{"go/types, go/ssa (x/tools v0.29.0) construction of the resolved program", "Go language semantics of the constructs the rules read"}, r.Trusted...)
	notes := r.Notes
	if notes == nil {
		notes = []string{}
	}
	if knownMatched == nil {
		knownMatched = []string{}
	}
	cov := map[string]interface{}{
		"explanation":            r.Explanation,
		"obligations":            len(r.Obls),
		"discharged":             discharged,
		"evaluations":            len(r.Obls),
		"distinct_nontrivial":    nontrivial,
		"rule":                   "one obligation per rule instance (construct found by role through the type-checked program); non-trivial = discharged by a path, dataflow, dominance or type argument rather than by a constant lookup; distinct by obligation key",
		"samples":                samples,
		"rule_instances":         inst,
		"analysed":               r.Analysed,
		"trusted_base":           trusted,
		"known_findings_matched": knownMatched,
		"notes":                  notes,
		"checker_cmd":            fmt.Sprintf("./check %s %s", r.Property, tier),
	}
	for k, v := range extra {
		cov[k] = v
	}
	ev := Evidence{PropertyID: r.Property, Tier: tier, Seed: seed, Level: "other", Coverage: cov, Assumptions: r.Assumptions, WallS: wall, Violations: violations}
	if ev.Assumptions == nil {
		ev.Assumptions = []string{}
	}
	b, _ := json.MarshalIndent(ev, "", " ")
	if err := os.WriteFile(filepath.Join(evDir, r.Property+".json"), append(b, '\n'), 0o644); err != nil {
		fmt.Fprintf(os.Stderr, "cannot write evidence: %v\n", err)
		return 2
	}
	fmt.Printf("%s %s: %d obligations, %d discharged, %d known findings, %d violations (%.1fs)\n", r.Property, tier, len(r.Obls), discharged, len(knownMatched), violations, wall)
	return exit
}

// discard removes the obligations of a rule whose key contains sub: a property that shares a rule with
// others keeps only the clauses that are necessary conditions of its own statement.
func (r *Result) discard(rule, sub string) {
	var keep []Obligation
	for _, o := range r.Obls {
		if o.Rule == rule && strings.Contains(o.Key, sub) {
			r.Instances[rule]--
			continue
		}
		keep = append(keep, o)
	}
	r.Obls = keep
}

// takeFrom copies from sub the obligations of a rule whose key contains keySub.
func (r *Result) takeFrom(sub *Result, rule, keySub string) int {
	n := 0
	for _, o := range sub.Obls {
		if o.Rule == rule && strings.Contains(o.Key, keySub) {
			r.Obls = append(r.Obls, o)
			r.Instances[rule]++
			n++
		}
	}
	return n
}
