package main

// Round 6 (seeds C??j): mutants of the shapes that were missed on first contact, generated from the
// seeded patches by tools/diff2mut.py.

func init() {
	addMutant(Mutant{Name: "c10-authenticator-built-once-per-distinct-setting", Props: []string{"C10"}, Rule: "R-PROVENANCE", KeySub: "handler-container",
		Why: "the loader builds each distinct authenticator setting once per build and shares the handler: the factory bakes the first user's name in, so every other member of the group is checked against the first member's hash",
		Edits: []Edit{
			{File: "cmds/server/loader/loader.go", Old: `// without any config.  In that case, all client calls to the service will fail closed.
func (l Loader) build(c config.ServerConfig) []tq.SecretProvider {
	providers := make([]tq.SecretProvider, 0, len(c.Secrets))
	for _, provider := range c.Secrets {
		// TODO add stringer to provider.Type
		l.Infof(l.ctx, "processing secret config [%v:%v]", provider.Name, provider.Type)
`, New: `// without any config.  In that case, all client calls to the service will fail closed.
func (l Loader) build(c config.ServerConfig) []tq.SecretProvider {
	providers := make([]tq.SecretProvider, 0, len(c.Secrets))
	// members of a group carry the very same authenticator settings, in every scope they
	// belong to; each distinct setting is handed to its factory once per build
	built := make(map[string]tq.Handler)
	for _, provider := range c.Secrets {
		// TODO add stringer to provider.Type
		l.Infof(l.ctx, "processing secret config [%v:%v]", provider.Name, provider.Type)
`},
			{File: "cmds/server/loader/loader.go", Old: `				// this needs to be smarter for options retrieval
				af := l.authenticatorTypes[u.Authenticator.Type]
				if af != nil {
					a, err := af.New(u.Name, u.Authenticator.Options)
					if err != nil {
						userAuthenticatorBadConfigRef.Inc()
						l.Errorf(l.ctx, "authenticator factory error in scope [%v], user [%v] will not be added; %v", provider.Name, u.Name, err)
`, New: `				// this needs to be smarter for options retrieval
				af := l.authenticatorTypes[u.Authenticator.Type]
				if af != nil {
					a, err := l.authenticator(built, af, u)
					if err != nil {
						userAuthenticatorBadConfigRef.Inc()
						l.Errorf(l.ctx, "authenticator factory error in scope [%v], user [%v] will not be added; %v", provider.Name, u.Name, err)
`},
			{File: "cmds/server/loader/loader.go", Old: `	return providers
}

// reduceAuthenticatorAccounterFromGroups applies authenticators and accounters from groups down to the user level.
// the first occurence of either will be used exclusively over any others that subsequent groups may contain.
// When both an authenticator and accounter have been set on the user, this loop exits.
`, New: `	return providers
}

// authenticator returns the handler for the authenticator settings the user ended up with, building
// it with the factory when these settings are seen for the first time in this build.
func (l Loader) authenticator(built map[string]tq.Handler, af authenticatorFactory, u config.User) (tq.Handler, error) {
	settings := fmt.Sprintf("%d %v", u.Authenticator.Type, u.Authenticator.Options)
	if h, ok := built[settings]; ok {
		return h, nil
	}
	h, err := af.New(u.Name, u.Authenticator.Options)
	if err != nil {
		return nil, err
	}
	built[settings] = h
	return h, nil
}

// reduceAuthenticatorAccounterFromGroups applies authenticators and accounters from groups down to the user level.
// the first occurence of either will be used exclusively over any others that subsequent groups may contain.
// When both an authenticator and accounter have been set on the user, this loop exits.
`}}})

	addMutant(Mutant{Name: "c13-known-remotes-answered-before-the-filters", Props: []string{"C13"}, Rule: "R-ADMIT", KeySub: "answered-only-by-the-lookup",
		Why: "the update loop answers remotes it has seen before from a table, before the deny/allow filters; a lookup in flight across a reload refills the table with the old scope",
		Edits: []Edit{
			{File: "cmds/server/loader/loader.go", Old: `		accounterTypes:     make(map[config.AccounterType]accounterFactory),
		handlerTypes:       make(map[config.HandlerType]handlerFactory),
		query:              make(chan queryGet),
		warm:               make(chan struct{}),
	}
	for _, opt := range opts {
`, New: `		accounterTypes:     make(map[config.AccounterType]accounterFactory),
		handlerTypes:       make(map[config.HandlerType]handlerFactory),
		query:              make(chan queryGet),
		resolved:           make(chan resolvedGet),
		warm:               make(chan struct{}),
	}
	for _, opt := range opts {
`},
			{File: "cmds/server/loader/loader.go", Old: `	accounterTypes     map[config.AccounterType]accounterFactory
	handlerTypes       map[config.HandlerType]handlerFactory
	query              chan queryGet
	warm               chan struct{}
}

`, New: `	accounterTypes     map[config.AccounterType]accounterFactory
	handlerTypes       map[config.HandlerType]handlerFactory
	query              chan queryGet
	resolved           chan resolvedGet
	warm               chan struct{}
}

`},
			{File: "cmds/server/loader/loader.go", Old: `	providers := []tq.SecretProvider{}
	// prefix filters are here for the same reason, race condition protection
	prefixDeny, prefixAllow := newPrefixFilter(nil), newPrefixFilter(nil)
	for {
		select {
		case c := <-l.Config():
`, New: `	providers := []tq.SecretProvider{}
	// prefix filters are here for the same reason, race condition protection
	prefixDeny, prefixAllow := newPrefixFilter(nil), newPrefixFilter(nil)
	// known holds the outcome of earlier successful lookups per remote ip.  devices reconnect for
	// every session unless single-connect is negotiated, so most queries are for an address that
	// was already filtered and matched against the providers of the current config.
	known := make(map[string]secretProvider)
	for {
		select {
		case c := <-l.Config():
`},
			{File: "cmds/server/loader/loader.go", Old: `			l.Infof(l.ctx, "updated all providers from config source")
			prefixDeny, prefixAllow = l.createPrefixFilters(c)
			l.Infof(l.ctx, "updated all prefix filters, where available, from config source")
			buildUpdate.Inc()
			// notify that we are warmed, but one time only
			warm.Do(func() { close(l.warm) })
		case q := <-l.query:
			// the goroutine gets the values current at the time of the query; the variables
			// themselves are reassigned by the update case above
			go func(providers []tq.SecretProvider, prefixDeny, prefixAllow *prefixFilter) {
`, New: `			l.Infof(l.ctx, "updated all providers from config source")
			prefixDeny, prefixAllow = l.createPrefixFilters(c)
			l.Infof(l.ctx, "updated all prefix filters, where available, from config source")
			// nothing resolved against the previous config may be served again
			known = make(map[string]secretProvider)
			buildUpdate.Inc()
			// notify that we are warmed, but one time only
			warm.Do(func() { close(l.warm) })
		case r := <-l.resolved:
			if len(known) >= maxKnownRemotes {
				known = make(map[string]secretProvider)
			}
			known[r.key] = r.sp
		case q := <-l.query:
			key := remoteKey(q.remote)
			if sp, ok := known[key]; ok {
				q.cb <- sp
				close(q.cb)
				secretKnown.Inc()
				buildGet.Inc()
				continue
			}
			// the goroutine gets the values current at the time of the query; the variables
			// themselves are reassigned by the update case above
			go func(providers []tq.SecretProvider, prefixDeny, prefixAllow *prefixFilter) {
`},
			{File: "cmds/server/loader/loader.go", Old: `					return
				}
				secret, handler, err := l.get(q.ctx, providers, q.remote)
				q.cb <- secretProvider{secret: secret, handler: handler, err: err}
				close(q.cb)
				buildGet.Inc()
			}(providers, prefixDeny, prefixAllow)
		}
	}
`, New: `					return
				}
				secret, handler, err := l.get(q.ctx, providers, q.remote)
				sp := secretProvider{secret: secret, handler: handler, err: err}
				q.cb <- sp
				close(q.cb)
				buildGet.Inc()
				if err == nil && key != "" {
					l.resolved <- resolvedGet{key: key, sp: sp}
				}
			}(providers, prefixDeny, prefixAllow)
		}
	}
`},
			{File: "cmds/server/loader/loader.go", Old: `	cb     chan secretProvider
}

// build is admittedly complex.  This is a design tradeoff for allowing a lot of dependency injection options that
// also span an undefined number of config format representations.  Build glues all of these injected types together
// into an internal representation that the server can use.  Build is best effort under all circumstances.  Injected
`, New: `	cb     chan secretProvider
}

// maxKnownRemotes bounds the number of resolved lookups kept between config updates
const maxKnownRemotes = 65536

// resolvedGet reports a successful lookup back to the update/query loop
type resolvedGet struct {
	key string
	sp  secretProvider
}

// remoteKey is the identity of a remote for resolved lookups, the port is not part of it.
// Remotes that are not tcp have no key and are always looked up.
func remoteKey(remote net.Addr) string {
	if addr, ok := remote.(*net.TCPAddr); ok {
		return addr.IP.String()
	}
	return ""
}

// build is admittedly complex.  This is a design tradeoff for allowing a lot of dependency injection options that
// also span an undefined number of config format representations.  Build glues all of these injected types together
// into an internal representation that the server can use.  Build is best effort under all circumstances.  Injected
`}}})

	addMutant(Mutant{Name: "c14-connection-cap-released-only-by-the-connection-loop", Props: []string{"C14"}, Rule: "R-SLOT", KeySub: "slot-returned",
		Why: "a default-on connection cap whose slot is given back by a defer in the connection loop only: a connection refused by the secret provider never reaches the loop and leaks its slot",
		Edits: []Edit{
			{File: "cmds/server/main.go", Old: `	proxy             = flag.Bool("proxy", false, "proxy enables proxy header processing")
	configPath        = flag.String("config", "tacquito.yaml", "the string path representing the storage location of the server config")
	accountingLogPath = flag.String("acct-log-path", "/tmp/tacquito_accounting.log", "the string path representing the storage location of the server accounting logs")
	level             = flag.Int("level", 30, "log levels; 10 = error, 20 = info, 30 = debug")
)

`, New: `	proxy             = flag.Bool("proxy", false, "proxy enables proxy header processing")
	configPath        = flag.String("config", "tacquito.yaml", "the string path representing the storage location of the server config")
	accountingLogPath = flag.String("acct-log-path", "/tmp/tacquito_accounting.log", "the string path representing the storage location of the server accounting logs")
	maxConnections    = flag.Int("max-connections", tq.DefaultMaxConnections, "limit on concurrently served client connections; 0 = unlimited")
	level             = flag.Int("level", 30, "log levels; 10 = error, 20 = info, 30 = debug")
)

`},
			{File: "cmds/server/main.go", Old: `	}
	logger.Infof(ctx, "serve on %v", tcpListener.Addr().String())

	s := tq.NewServer(logger, sp, tq.SetUseProxy(*proxy))
	if err := s.Serve(ctx, tcpListener); err != nil {
		logger.Errorf(ctx, "error listening: %v", err)
		return
`, New: `	}
	logger.Infof(ctx, "serve on %v", tcpListener.Addr().String())

	s := tq.NewServer(logger, sp, tq.SetUseProxy(*proxy), tq.SetMaxConnections(*maxConnections))
	if err := s.Serve(ctx, tcpListener); err != nil {
		logger.Errorf(ctx, "error listening: %v", err)
		return
`},
			{File: "server.go", Old: `	}
}

// NewServer returns a new server.
// loggerProvider - the logging backend to use
// listener - net.Listener
// sp SecretProvider - enables server to translate net.conn.remaddr into associated config for that device
func NewServer(l loggerProvider, sp SecretProvider, opts ...Option) *Server {
	s := &Server{loggerProvider: l, SecretProvider: sp}
	for _, opt := range opts {
		opt(s)
	}
`, New: `	}
}

// DefaultMaxConnections is the number of client connections a server serves at the same time
// unless SetMaxConnections says otherwise
const DefaultMaxConnections = 1024

// SetMaxConnections bounds the number of client connections that are served at the same
// time.  A connection that is accepted while the server is at capacity is closed right away
// instead of being queued.  Zero or a negative value removes the limit.
func SetMaxConnections(n int) Option {
	return func(s *Server) {
		s.slots = nil
		if n > 0 {
			s.slots = make(chan struct{}, n)
		}
	}
}

// NewServer returns a new server.
// loggerProvider - the logging backend to use
// listener - net.Listener
// sp SecretProvider - enables server to translate net.conn.remaddr into associated config for that device
func NewServer(l loggerProvider, sp SecretProvider, opts ...Option) *Server {
	s := &Server{loggerProvider: l, SecretProvider: sp, slots: make(chan struct{}, DefaultMaxConnections)}
	for _, opt := range opts {
		opt(s)
	}
`},
			{File: "server.go", Old: `
	// enables ha-proxy ascii proxy header support
	proxy bool
}

// DeadlineListener is a net.Listener that supports Deadlines
`, New: `
	// enables ha-proxy ascii proxy header support
	proxy bool

	// slots holds one token per open client connection, it is nil when the number of
	// connections is not limited
	slots chan struct{}
}

// acquire reserves a connection slot.  It reports false when the server is at capacity.
func (s *Server) acquire() bool {
	if s.slots == nil {
		return true
	}
	select {
	case s.slots <- struct{}{}:
		return true
	default:
		return false
	}
}

// release gives a connection slot back
func (s *Server) release() {
	if s.slots == nil {
		return
	}
	select {
	case <-s.slots:
	default:
	}
}

// DeadlineListener is a net.Listener that supports Deadlines
`},
			{File: "server.go", Old: `				serveAcceptedError.Inc()
				continue
			}
			s.Add(1)
			go s.serve(ctx, conn)
		}
`, New: `				serveAcceptedError.Inc()
				continue
			}
			if !s.acquire() {
				// shed the connection, queueing it would only make the client time out later
				serveRejected.Inc()
				s.Errorf(ctx, "connection limit [%v] reached, rejecting %v", cap(s.slots), conn.RemoteAddr())
				conn.Close()
				continue
			}
			s.Add(1)
			go s.serve(ctx, conn)
		}
`},
			{File: "server.go", Old: `
// handle will process connections on a net.Conn. This is meant to be executed in a goroutine
func (s *Server) handle(ctx context.Context, c *crypter, h Handler) {
	// defer closing the connection on return.
	defer c.Close()
	// scoped to the entire undelrying net.Conn.  this is needed for single-connect
	sessionProvider := newSessionProvider()
`, New: `
// handle will process connections on a net.Conn. This is meant to be executed in a goroutine
func (s *Server) handle(ctx context.Context, c *crypter, h Handler) {
	// defer closing the connection on return, its slot is free again once it is closed.
	defer s.release()
	defer c.Close()
	// scoped to the entire undelrying net.Conn.  this is needed for single-connect
	sessionProvider := newSessionProvider()
`},
			{File: "stats.go", Old: `		Name:      "serve_accepted_error",
		Help:      "number of accepted connection errors within the server",
	})
	handlers = prometheus.NewGauge(prometheus.GaugeOpts{
		Namespace: "tacquito",
		Name:      "handle_handlers",
`, New: `		Name:      "serve_accepted_error",
		Help:      "number of accepted connection errors within the server",
	})
	serveRejected = prometheus.NewCounter(prometheus.CounterOpts{
		Namespace: "tacquito",
		Name:      "serve_rejected",
		Help:      "number of connections closed on accept because the connection limit was reached",
	})
	handlers = prometheus.NewGauge(prometheus.GaugeOpts{
		Namespace: "tacquito",
		Name:      "handle_handlers",
`},
			{File: "stats.go", Old: `	prometheus.MustRegister(serveReceived)
	prometheus.MustRegister(serveAccepted)
	prometheus.MustRegister(serveAcceptedError)
	prometheus.MustRegister(handlers)
	prometheus.MustRegister(crypterRead)
	prometheus.MustRegister(crypterReadError)
`, New: `	prometheus.MustRegister(serveReceived)
	prometheus.MustRegister(serveAccepted)
	prometheus.MustRegister(serveAcceptedError)
	prometheus.MustRegister(serveRejected)
	prometheus.MustRegister(handlers)
	prometheus.MustRegister(crypterRead)
	prometheus.MustRegister(crypterReadError)
`}}})

	addMutant(Mutant{Name: "benign-connection-cap-released-by-the-goroutine", Props: []string{"C07", "C09", "C14", "C15", "C17", "C20"}, Rule: "", KeySub: "", Benign: true,
		Why: "the same connection cap with the release deferred first thing in the connection goroutine: no slot can leak",
		Edits: []Edit{
			{File: "cmds/server/main.go", Old: `	proxy             = flag.Bool("proxy", false, "proxy enables proxy header processing")
	configPath        = flag.String("config", "tacquito.yaml", "the string path representing the storage location of the server config")
	accountingLogPath = flag.String("acct-log-path", "/tmp/tacquito_accounting.log", "the string path representing the storage location of the server accounting logs")
	level             = flag.Int("level", 30, "log levels; 10 = error, 20 = info, 30 = debug")
)

`, New: `	proxy             = flag.Bool("proxy", false, "proxy enables proxy header processing")
	configPath        = flag.String("config", "tacquito.yaml", "the string path representing the storage location of the server config")
	accountingLogPath = flag.String("acct-log-path", "/tmp/tacquito_accounting.log", "the string path representing the storage location of the server accounting logs")
	maxConnections    = flag.Int("max-connections", tq.DefaultMaxConnections, "limit on concurrently served client connections; 0 = unlimited")
	level             = flag.Int("level", 30, "log levels; 10 = error, 20 = info, 30 = debug")
)

`},
			{File: "cmds/server/main.go", Old: `	}
	logger.Infof(ctx, "serve on %v", tcpListener.Addr().String())

	s := tq.NewServer(logger, sp, tq.SetUseProxy(*proxy))
	if err := s.Serve(ctx, tcpListener); err != nil {
		logger.Errorf(ctx, "error listening: %v", err)
		return
`, New: `	}
	logger.Infof(ctx, "serve on %v", tcpListener.Addr().String())

	s := tq.NewServer(logger, sp, tq.SetUseProxy(*proxy), tq.SetMaxConnections(*maxConnections))
	if err := s.Serve(ctx, tcpListener); err != nil {
		logger.Errorf(ctx, "error listening: %v", err)
		return
`},
			{File: "server.go", Old: `	}
}

// NewServer returns a new server.
// loggerProvider - the logging backend to use
// listener - net.Listener
// sp SecretProvider - enables server to translate net.conn.remaddr into associated config for that device
func NewServer(l loggerProvider, sp SecretProvider, opts ...Option) *Server {
	s := &Server{loggerProvider: l, SecretProvider: sp}
	for _, opt := range opts {
		opt(s)
	}
`, New: `	}
}

// DefaultMaxConnections is the number of client connections a server serves at the same time
// unless SetMaxConnections says otherwise
const DefaultMaxConnections = 1024

// SetMaxConnections bounds the number of client connections that are served at the same
// time.  A connection that is accepted while the server is at capacity is closed right away
// instead of being queued.  Zero or a negative value removes the limit.
func SetMaxConnections(n int) Option {
	return func(s *Server) {
		s.slots = nil
		if n > 0 {
			s.slots = make(chan struct{}, n)
		}
	}
}

// NewServer returns a new server.
// loggerProvider - the logging backend to use
// listener - net.Listener
// sp SecretProvider - enables server to translate net.conn.remaddr into associated config for that device
func NewServer(l loggerProvider, sp SecretProvider, opts ...Option) *Server {
	s := &Server{loggerProvider: l, SecretProvider: sp, slots: make(chan struct{}, DefaultMaxConnections)}
	for _, opt := range opts {
		opt(s)
	}
`},
			{File: "server.go", Old: `
	// enables ha-proxy ascii proxy header support
	proxy bool
}

// DeadlineListener is a net.Listener that supports Deadlines
`, New: `
	// enables ha-proxy ascii proxy header support
	proxy bool

	// slots holds one token per open client connection, it is nil when the number of
	// connections is not limited
	slots chan struct{}
}

// acquire reserves a connection slot.  It reports false when the server is at capacity.
func (s *Server) acquire() bool {
	if s.slots == nil {
		return true
	}
	select {
	case s.slots <- struct{}{}:
		return true
	default:
		return false
	}
}

// release gives a connection slot back
func (s *Server) release() {
	if s.slots == nil {
		return
	}
	select {
	case <-s.slots:
	default:
	}
}

// DeadlineListener is a net.Listener that supports Deadlines
`},
			{File: "server.go", Old: `				serveAcceptedError.Inc()
				continue
			}
			s.Add(1)
			go s.serve(ctx, conn)
		}
`, New: `				serveAcceptedError.Inc()
				continue
			}
			if !s.acquire() {
				// shed the connection, queueing it would only make the client time out later
				serveRejected.Inc()
				s.Errorf(ctx, "connection limit [%v] reached, rejecting %v", cap(s.slots), conn.RemoteAddr())
				conn.Close()
				continue
			}
			s.Add(1)
			go s.serve(ctx, conn)
		}
`},
			{File: "server.go", Old: `
func (s *Server) serve(ctx context.Context, conn net.Conn) {
	defer s.Done()
	timer := prometheus.NewTimer(prometheus.ObserverFunc(func(v float64) {
		ms := v * 1000 // make milliseconds
		connectionDuration.Observe(ms)
`, New: `
func (s *Server) serve(ctx context.Context, conn net.Conn) {
	defer s.Done()
	defer s.release()
	timer := prometheus.NewTimer(prometheus.ObserverFunc(func(v float64) {
		ms := v * 1000 // make milliseconds
		connectionDuration.Observe(ms)
`},
			{File: "server.go", Old: `
// handle will process connections on a net.Conn. This is meant to be executed in a goroutine
func (s *Server) handle(ctx context.Context, c *crypter, h Handler) {
	// defer closing the connection on return.
	defer c.Close()
	// scoped to the entire undelrying net.Conn.  this is needed for single-connect
	sessionProvider := newSessionProvider()
`, New: `
// handle will process connections on a net.Conn. This is meant to be executed in a goroutine
func (s *Server) handle(ctx context.Context, c *crypter, h Handler) {
	// defer closing the connection on return, its slot is free again once it is closed.
	defer c.Close()
	// scoped to the entire undelrying net.Conn.  this is needed for single-connect
	sessionProvider := newSessionProvider()
`},
			{File: "stats.go", Old: `		Name:      "serve_accepted_error",
		Help:      "number of accepted connection errors within the server",
	})
	handlers = prometheus.NewGauge(prometheus.GaugeOpts{
		Namespace: "tacquito",
		Name:      "handle_handlers",
`, New: `		Name:      "serve_accepted_error",
		Help:      "number of accepted connection errors within the server",
	})
	serveRejected = prometheus.NewCounter(prometheus.CounterOpts{
		Namespace: "tacquito",
		Name:      "serve_rejected",
		Help:      "number of connections closed on accept because the connection limit was reached",
	})
	handlers = prometheus.NewGauge(prometheus.GaugeOpts{
		Namespace: "tacquito",
		Name:      "handle_handlers",
`},
			{File: "stats.go", Old: `	prometheus.MustRegister(serveReceived)
	prometheus.MustRegister(serveAccepted)
	prometheus.MustRegister(serveAcceptedError)
	prometheus.MustRegister(handlers)
	prometheus.MustRegister(crypterRead)
	prometheus.MustRegister(crypterReadError)
`, New: `	prometheus.MustRegister(serveReceived)
	prometheus.MustRegister(serveAccepted)
	prometheus.MustRegister(serveAcceptedError)
	prometheus.MustRegister(serveRejected)
	prometheus.MustRegister(handlers)
	prometheus.MustRegister(crypterRead)
	prometheus.MustRegister(crypterReadError)
`}}})

	addMutant(Mutant{Name: "c15-atomic-field-in-a-struct-copied-by-value-receivers", Props: []string{"C15"}, Rule: "R-GOFIELD", KeySub: "reloadedAt",
		Why: "the update loop stores a timestamp atomically into a Loader field; Get/get/build have value receivers, so every lookup copies the whole struct with plain loads",
		Edits: []Edit{
			{File: "cmds/server/loader/loader.go", Old: `	"context"
	"fmt"
	"net"
	"sync"

	tq "github.com/facebookincubator/tacquito"
	"github.com/facebookincubator/tacquito/cmds/server/config"
`, New: `	"context"
	"fmt"
	"net"
	"sync/atomic"
	"time"

	tq "github.com/facebookincubator/tacquito"
	"github.com/facebookincubator/tacquito/cmds/server/config"
`},
			{File: "cmds/server/loader/loader.go", Old: `	handlerTypes       map[config.HandlerType]handlerFactory
	query              chan queryGet
	warm               chan struct{}
}

// BlockUntilLoaded will block until we are warmed up with parsed config
`, New: `	handlerTypes       map[config.HandlerType]handlerFactory
	query              chan queryGet
	warm               chan struct{}
	// reloadedAt is when the running config last replaced an earlier one, in unix nanoseconds.
	// It is stored by the update loop and read by LastReload; access it with sync/atomic only
	reloadedAt int64
}

// LastReload reports when the running config replaced an earlier one.  The zero time is returned
// while the server is still on the config it started with.  Status pages and health checks can
// compare this against the modification time of the config source to detect a loader that has
// stopped following it.
func (l *Loader) LastReload() time.Time {
	ns := atomic.LoadInt64(&l.reloadedAt)
	if ns == 0 {
		return time.Time{}
	}
	return time.Unix(0, ns)
}

// BlockUntilLoaded will block until we are warmed up with parsed config
`},
			{File: "cmds/server/loader/loader.go", Old: `
// updates is the protected update/query loop for Loader
func (l *Loader) updates() {
	var warm sync.Once
	// providers lives here so as to remain protected from data race conditions on update/get
	providers := []tq.SecretProvider{}
	// prefix filters are here for the same reason, race condition protection
`, New: `
// updates is the protected update/query loop for Loader
func (l *Loader) updates() {
	// providers lives here so as to remain protected from data race conditions on update/get
	providers := []tq.SecretProvider{}
	// prefix filters are here for the same reason, race condition protection
`},
			{File: "cmds/server/loader/loader.go", Old: `			prefixDeny, prefixAllow = l.createPrefixFilters(c)
			l.Infof(l.ctx, "updated all prefix filters, where available, from config source")
			buildUpdate.Inc()
			// notify that we are warmed, but one time only
			warm.Do(func() { close(l.warm) })
		case q := <-l.query:
			// the goroutine gets the values current at the time of the query; the variables
			// themselves are reassigned by the update case above
`, New: `			prefixDeny, prefixAllow = l.createPrefixFilters(c)
			l.Infof(l.ctx, "updated all prefix filters, where available, from config source")
			buildUpdate.Inc()
			select {
			case <-l.warm:
				// already serving, so this config replaced a running one
				atomic.StoreInt64(&l.reloadedAt, time.Now().UnixNano())
			default:
				// notify that we are warmed, but one time only
				close(l.warm)
			}
		case q := <-l.query:
			// the goroutine gets the values current at the time of the query; the variables
			// themselves are reassigned by the update case above
`}}})

	addMutant(Mutant{Name: "c18-printable-preview-of-the-body-in-the-bad-secret-error", Props: []string{"C18"}, Rule: "R-TAINT", KeySub: "",
		Why: "the bad-secret error quotes a printable preview of the de-obfuscated body, copied octet by octet; the connection loop logs that error",
		Edits: []Edit{
			{File: "crypt.go", Old: `		if _, err := c.write(reply); err != nil {
			return nil, fmt.Errorf("bad secret, crypt write fail for ip [%s]: %v", c.RemoteAddr().String(), err)
		}
		return nil, fmt.Errorf("bad secret detected for ip [%s]", c.RemoteAddr().String())
	}

	crypterRead.Inc()
	return &p, nil
}

// write takes a packet, marshals and crypts it
func (c *crypter) write(p *Packet) (int, error) {
	if p == nil {
`, New: `		if _, err := c.write(reply); err != nil {
			return nil, fmt.Errorf("bad secret, crypt write fail for ip [%s]: %v", c.RemoteAddr().String(), err)
		}
		return nil, fmt.Errorf(
			"bad secret detected for ip [%s]; type [%v] session [%v] body of [%v] bytes [%s]",
			c.RemoteAddr().String(), p.Header.Type, p.Header.SessionID, len(p.Body), preview(p.Body),
		)
	}

	crypterRead.Inc()
	return &p, nil
}

// previewLen is how much of an undecodable body is quoted in the bad secret error
const previewLen = 48

// preview renders the leading bytes of an undecodable body the way the right hand
// column of hexdump -C does.  a wrong key yields noise, whereas something that is not
// tacacs at all (a port scanner, an http or ssh probe, a load balancer health check)
// stays readable, which lets operators tell the two apart from the log line alone
func preview(b []byte) string {
	if len(b) > previewLen {
		b = b[:previewLen]
	}
	out := make([]byte, len(b))
	for i, c := range b {
		if c < 0x20 || c > 0x7e {
			c = '.'
		}
		out[i] = c
	}
	return string(out)
}

// write takes a packet, marshals and crypts it
func (c *crypter) write(p *Packet) (int, error) {
	if p == nil {
`}}})

	addMutant(Mutant{Name: "c19-mismatch-reply-bodies-kept-in-a-sync-map", Props: []string{"C19"}, Rule: "R-FRESHBODY", KeySub: "body-private",
		Why: "the constant bad-secret reply body is marshalled once per packet type and kept in a sync.Map; the writer XORs the pad into it in place, so the second mismatch answer is obfuscated twice",
		Edits: []Edit{
			{File: "crypt.go", Old: `	"fmt"
	"io"
	"net"

	"github.com/facebookincubator/tacquito/proxy"
)
`, New: `	"fmt"
	"io"
	"net"
	"sync"

	"github.com/facebookincubator/tacquito/proxy"
)
`},
			{File: "crypt.go", Old: `	return nil, nil
}

func (c crypter) badSecretReply(h *Header) (*Packet, error) {
	var b []byte
	var err error
	switch h.Type {
`, New: `	return nil, nil
}

// badSecretBodies keeps the marshalled error reply of each packet type. the replies
// are constant, so they are built on first use instead of once per misconfigured
// client that keeps retrying
var badSecretBodies sync.Map

func (c crypter) badSecretReply(h *Header) (*Packet, error) {
	if b, ok := badSecretBodies.Load(h.Type); ok {
		return c.badSecretPacket(h, b.([]byte)), nil
	}
	var b []byte
	var err error
	switch h.Type {
`},
			{File: "crypt.go", Old: `	default:
		return nil, fmt.Errorf("unknown header type [%v]", h.Type)
	}
	// reset some flags and state for this error reply.
	// under error conditions it can be common in the rfc to reset the sequence to 1
	// if the error is particularly egregious.  a bad secret seems like it fits and
	// the rfc is unclear for this particular condition on what to do
	h.SeqNo = SequenceNumber(1)
	p := NewPacket(
		SetPacketHeader(h),
		SetPacketBody(b),
	)
	if err != nil {
		return nil, err
	}
	return p, nil
}

// BadSecretErr ...
`, New: `	default:
		return nil, fmt.Errorf("unknown header type [%v]", h.Type)
	}
	badSecretBodies.Store(h.Type, b)
	return c.badSecretPacket(h, b), nil
}

// badSecretPacket wraps an error reply body in a packet that answers h
func (c crypter) badSecretPacket(h *Header, b []byte) *Packet {
	// reset some flags and state for this error reply.
	// under error conditions it can be common in the rfc to reset the sequence to 1
	// if the error is particularly egregious.  a bad secret seems like it fits and
	// the rfc is unclear for this particular condition on what to do
	h.SeqNo = SequenceNumber(1)
	return NewPacket(
		SetPacketHeader(h),
		SetPacketBody(b),
	)
}

// BadSecretErr ...
`}}})

	addMutant(Mutant{Name: "c14-connection-counter-lowered-only-by-the-connection-loop", Props: []string{"C14"}, Rule: "R-SLOT", KeySub: "slot-returned:inflight",
		Why: "a connection limit kept as an atomic counter, raised in the accept loop and lowered by a defer in the connection loop only: a connection the secret provider refuses never lowers it",
		Edits: []Edit{
			{File: "server.go", Old: `
// Server  ...
type Server struct {
	loggerProvider
	waitGroup
	SecretProvider
`, New: `
// Server  ...
type Server struct {
	inflight int64
	loggerProvider
	waitGroup
	SecretProvider
`},
			{File: "server.go", Old: `				serveAcceptedError.Inc()
				continue
			}
			s.Add(1)
			go s.serve(ctx, conn)
		}
`, New: `				serveAcceptedError.Inc()
				continue
			}
			if atomic.AddInt64(&s.inflight, 1) > 1024 {
				atomic.AddInt64(&s.inflight, -1)
				conn.Close()
				continue
			}
			s.Add(1)
			go s.serve(ctx, conn)
		}
`},
			{File: "server.go", Old: `
// handle will process connections on a net.Conn. This is meant to be executed in a goroutine
func (s *Server) handle(ctx context.Context, c *crypter, h Handler) {
	// defer closing the connection on return.
	defer c.Close()
	// scoped to the entire undelrying net.Conn.  this is needed for single-connect
`, New: `
// handle will process connections on a net.Conn. This is meant to be executed in a goroutine
func (s *Server) handle(ctx context.Context, c *crypter, h Handler) {
	defer atomic.AddInt64(&s.inflight, -1)
	// defer closing the connection on return.
	defer c.Close()
	// scoped to the entire undelrying net.Conn.  this is needed for single-connect
`}}})

	addMutant(Mutant{Name: "benign-connection-counter-lowered-by-the-goroutine", Props: []string{"C07", "C09", "C14", "C15", "C17", "C20"}, Rule: "", KeySub: "", Benign: true,
		Why: "the same counter lowered by a defer first thing in the connection goroutine",
		Edits: []Edit{
			{File: "server.go", Old: `
// Server  ...
type Server struct {
	loggerProvider
	waitGroup
	SecretProvider
`, New: `
// Server  ...
type Server struct {
	inflight int64
	loggerProvider
	waitGroup
	SecretProvider
`},
			{File: "server.go", Old: `				serveAcceptedError.Inc()
				continue
			}
			s.Add(1)
			go s.serve(ctx, conn)
		}
`, New: `				serveAcceptedError.Inc()
				continue
			}
			if atomic.AddInt64(&s.inflight, 1) > 1024 {
				atomic.AddInt64(&s.inflight, -1)
				conn.Close()
				continue
			}
			s.Add(1)
			go s.serve(ctx, conn)
		}
`},
			{File: "server.go", Old: `
func (s *Server) serve(ctx context.Context, conn net.Conn) {
	defer s.Done()
	timer := prometheus.NewTimer(prometheus.ObserverFunc(func(v float64) {
		ms := v * 1000 // make milliseconds
		connectionDuration.Observe(ms)
`, New: `
func (s *Server) serve(ctx context.Context, conn net.Conn) {
	defer s.Done()
	defer atomic.AddInt64(&s.inflight, -1)
	timer := prometheus.NewTimer(prometheus.ObserverFunc(func(v float64) {
		ms := v * 1000 // make milliseconds
		connectionDuration.Observe(ms)
`}}})

	addMutant(Mutant{Name: "benign-evaluator-with-named-decision-function-and-match-helper", Props: []string{"C11"}, Rule: "", KeySub: "", Benign: true,
		Why: "the command evaluator calls a package function permits(action) and a matchCommandArgs helper returning (matched, ok)",
		Edits: []Edit{
			{File: "cmds/server/config/authorizers/stringy/command.go", Old: `
func (a CommandBasedAuthorizer) evaluate() bool {
	cmd := a.body.Args.Command()
	returnBool := func(c config.Action) bool {
		switch c {
		case config.PERMIT:
			return true
		default:
			return false
		}
	}
	for _, c := range a.user.Commands {
		// trim into locals only; the rules are shared by every request of this user
		c.Name = strings.TrimSpace(c.Name)
		if c.Name == "*" {
			// special condition of allow anything
			return returnBool(c.Action)
		}
		if c.Name != cmd {
			continue
		}
		if len(c.Match) == 0 {
			// cmd matches, but we have no conditions, so match it
			return returnBool(c.Action)
		}

		for _, regexish := range c.Match {
			regexish = strings.TrimSpace(regexish)
			if len(regexish) == 0 {
				continue
			}
			// anchor the whole expression to the start and end of the string; the group keeps
			// the anchors outside of any alternation the expression may contain
			regexish = regexStartStr + "(?:" + regexish + ")" + regexEndStr
			if matched, err := regexp.MatchString(regexish, a.body.Args.CommandArgsNoLE()); err != nil {
				a.Errorf(a.ctx, "bad regex detected; %v", err)
				return false
			} else if matched {
				return returnBool(c.Action)
			}
		}
	}
	return false
}
`, New: `
func (a CommandBasedAuthorizer) evaluate() bool {
	cmd := a.body.Args.Command()
	for _, rule := range a.user.Commands {
		// trim into locals only; the rules are shared by every request of this user
		name := strings.TrimSpace(rule.Name)
		if name == "*" {
			// special condition of allow anything
			return permits(rule.Action)
		}
		if name != cmd {
			continue
		}
		if len(rule.Match) == 0 {
			// cmd matches, but we have no conditions, so match it
			return permits(rule.Action)
		}
		matched, ok := a.matchCommandArgs(rule.Match)
		if !ok {
			return false
		}
		if matched {
			return permits(rule.Action)
		}
	}
	return false
}

// permits translates the action of the rule that decided the request into the verdict
func permits(action config.Action) bool {
	switch action {
	case config.PERMIT:
		return true
	default:
		return false
	}
}

// matchCommandArgs reports if any of the regex expressions of a rule matches the command args of
// the request.  ok is false if a bad expression was met, which ends the evaluation.
func (a CommandBasedAuthorizer) matchCommandArgs(expressions []string) (matched, ok bool) {
	for _, regexish := range expressions {
		regexish = strings.TrimSpace(regexish)
		if len(regexish) == 0 {
			continue
		}
		// anchor the whole expression to the start and end of the string; the group keeps
		// the anchors outside of any alternation the expression may contain
		regexish = regexStartStr + "(?:" + regexish + ")" + regexEndStr
		found, err := regexp.MatchString(regexish, a.body.Args.CommandArgsNoLE())
		if err != nil {
			a.Errorf(a.ctx, "bad regex detected; %v", err)
			return false, false
		}
		if found {
			return true, true
		}
	}
	return false, true
}
`},
			{File: "cmds/server/config/authorizers/stringy/session.go", Old: `// serviceMatcherModifier matches incoming attribute value pairs from the client against our config
func (sa SessionBasedAuthorizer) serviceMatcherModifier(args []string, c config.Service) ([]string, bool) {
	avps := make([]string, 0, len(c.SetValues))
	collateAVPs := func(s ...config.Service) ([]string, bool) {
		// optional here represents ` + "`" + `*` + "`" + ` per the rfc
		optional := false
		unfiltered := make([]string, 0, len(c.SetValues))
		for _, v := range c.SetValues {
			if v.Optional {
				// detected an optional
				optional = true
			}
			unfiltered = append(unfiltered, v.String())
		}
		return unfiltered, optional
	}

	// Optional arguments are ones that may be disregarded by either
	// client or server.  Mandatory arguments require that the receiving
`, New: `// serviceMatcherModifier matches incoming attribute value pairs from the client against our config
func (sa SessionBasedAuthorizer) serviceMatcherModifier(args []string, c config.Service) ([]string, bool) {
	avps := make([]string, 0, len(c.SetValues))

	// Optional arguments are ones that may be disregarded by either
	// client or server.  Mandatory arguments require that the receiving
`},
			{File: "cmds/server/config/authorizers/stringy/session.go", Old: `		// we dedupe in a higher call, but no additional changes are made.  A vast majority of config
		// can easily be built this way, but will often result in sending too many arguments back to
		// the client.  The use of the optional setting for values becomes very important in this circumstance
		if len(c.Match) == 0 {
			unfiltered, isOptional := collateAVPs(c)
			if isOptional {
				optional = true
			}
			avps = append(avps, unfiltered...)
			continue
		}
		// if serviceMatcher is used, then we have match conditions we must evaluate.  These conditions exist
		// within the args that the client sent to us or args that this handler may have injected.  We may send
		// back more args that what they asked, as in scenarios where cmd= or cmd* is requested.
		if sa.serviceMatcher(args, c.Match) {
			unfiltered, isOptional := collateAVPs(c)
			if isOptional {
				optional = true
			}
			avps = append(avps, unfiltered...)
		}
	}
	return avps, optional
}

// serviceMatcher will evaluate the args sent in a request to see if any matches exist with
// a Service type attached to the user.  This func simply identifies if we match on the conditions
// provided.
`, New: `		// we dedupe in a higher call, but no additional changes are made.  A vast majority of config
		// can easily be built this way, but will often result in sending too many arguments back to
		// the client.  The use of the optional setting for values becomes very important in this circumstance
		//
		// if serviceMatcher is used, then we have match conditions we must evaluate.  These conditions exist
		// within the args that the client sent to us or args that this handler may have injected.  We may send
		// back more args that what they asked, as in scenarios where cmd= or cmd* is requested.
		if len(c.Match) != 0 && !sa.serviceMatcher(args, c.Match) {
			continue
		}
		unfiltered, isOptional := collateAVPs(c.SetValues)
		if isOptional {
			optional = true
		}
		avps = append(avps, unfiltered...)
	}
	return avps, optional
}

// collateAVPs renders the values a service sets as avps and reports if any of them is optional
func collateAVPs(setValues []config.Value) ([]string, bool) {
	// optional here represents ` + "`" + `*` + "`" + ` per the rfc
	optional := false
	unfiltered := make([]string, 0, len(setValues))
	for _, v := range setValues {
		if v.Optional {
			// detected an optional
			optional = true
		}
		unfiltered = append(unfiltered, v.String())
	}
	return unfiltered, optional
}

// serviceMatcher will evaluate the args sent in a request to see if any matches exist with
// a Service type attached to the user.  This func simply identifies if we match on the conditions
// provided.
`},
			{File: "cmds/server/config/authorizers/stringy/stringy.go", Old: `	if a.user.Name != string(body.User) {
		// this shouldn't really ever happen since this is scoped to this user, but we check nevertheless
		a.Errorf(request.Context, "user in message body [%v] does not match scoped user: [%v]", body.User, a.user.Name)
		stringyHandleAuthorizeFail.Inc()
		response.Reply(
			tq.NewAuthorReply(
				tq.SetAuthorReplyStatus(tq.AuthorStatusFail),
				tq.SetAuthorReplyServerMsg("not authorized"),
			),
		)
		return
	}

`, New: `	if a.user.Name != string(body.User) {
		// this shouldn't really ever happen since this is scoped to this user, but we check nevertheless
		a.Errorf(request.Context, "user in message body [%v] does not match scoped user: [%v]", body.User, a.user.Name)
		replyNotAuthorized(response)
		return
	}

`},
			{File: "cmds/server/config/authorizers/stringy/stringy.go", Old: `	}

	a.Debugf(request.Context, "failed to authorize the user: [%v]", a.user.Name)
	stringyHandleAuthorizeFail.Inc()
	response.Reply(
		tq.NewAuthorReply(
`, New: `	}

	a.Debugf(request.Context, "failed to authorize the user: [%v]", a.user.Name)
	replyNotAuthorized(response)
}

// replyNotAuthorized counts the failure and sends the fail reply shared by the refusals of Handle
func replyNotAuthorized(response tq.Response) {
	stringyHandleAuthorizeFail.Inc()
	response.Reply(
		tq.NewAuthorReply(
`}}})

	addMutant(Mutant{Name: "benign-lookup-state-struct-with-admit-method", Props: []string{"C13", "C15", "C16"}, Rule: "", KeySub: "", Benign: true,
		Why: "providers and filters bundled in a lookupState value handed to a named lookup goroutine; the filters are consulted by a value-receiver method of the bundle",
		Edits: []Edit{
			{File: "cmds/server/loader/loader.go", Old: `// get is a protected method that searches for a matching provider.  we first check the
// remote connection should even be allowed.
func (l Loader) get(ctx context.Context, providers []tq.SecretProvider, remote net.Addr) ([]byte, tq.Handler, error) {
	for _, sp := range providers {
		secret, handler, err := sp.Get(ctx, remote)
		if err != nil || secret == nil || handler == nil {
			l.Debugf(ctx, "remote [%v], %v", remote, err)
			continue
		}
		secretKnown.Inc()
		return secret, handler, err
	}
	secretUnknown.Inc()
	return nil, nil, fmt.Errorf("remote [%v] has no secret providers", remote)
}

// updates is the protected update/query loop for Loader
func (l *Loader) updates() {
	var warm sync.Once
	// providers lives here so as to remain protected from data race conditions on update/get
	providers := []tq.SecretProvider{}
	// prefix filters are here for the same reason, race condition protection
	prefixDeny, prefixAllow := newPrefixFilter(nil), newPrefixFilter(nil)
	for {
		select {
		case c := <-l.Config():
			providers = l.build(c)
			l.Infof(l.ctx, "updated all providers from config source")
			prefixDeny, prefixAllow = l.createPrefixFilters(c)
			l.Infof(l.ctx, "updated all prefix filters, where available, from config source")
			buildUpdate.Inc()
			// notify that we are warmed, but one time only
			warm.Do(func() { close(l.warm) })
		case q := <-l.query:
			// the goroutine gets the values current at the time of the query; the variables
			// themselves are reassigned by the update case above
			go func(providers []tq.SecretProvider, prefixDeny, prefixAllow *prefixFilter) {
				// prefixFilter will log to prom counters and also act as a quick fail for prefixes that do not pass
				// muster.  this pevents unnecessary load on scanning SecretProviders
				if prefixDeny.deny(q.remote) {
					q.cb <- secretProvider{err: fmt.Errorf("remote address connection not allowed by prefixDeny filter [%v]", q.remote.String())}
					close(q.cb)
					return
				}
				if !prefixAllow.allow(q.remote) {
					q.cb <- secretProvider{err: fmt.Errorf("remote address connection not allowed by prefixAllow filter [%v]", q.remote.String())}
					close(q.cb)
					return
				}
				secret, handler, err := l.get(q.ctx, providers, q.remote)
				q.cb <- secretProvider{secret: secret, handler: handler, err: err}
				close(q.cb)
				buildGet.Inc()
			}(providers, prefixDeny, prefixAllow)
		}
	}
}

// createPrefixFilters inits new filters based on config
func (l *Loader) createPrefixFilters(c config.ServerConfig) (*prefixFilter, *prefixFilter) {
	prefixDeny := newPrefixFilter(strToIPNet(c.PrefixDeny))
`, New: `// get is a protected method that searches for a matching provider.  we first check the
// remote connection should even be allowed.
func (l Loader) get(ctx context.Context, providers []tq.SecretProvider, remote net.Addr) ([]byte, tq.Handler, error) {
	for _, candidate := range providers {
		secret, handler, err := candidate.Get(ctx, remote)
		if err == nil && secret != nil && handler != nil {
			secretKnown.Inc()
			return secret, handler, err
		}
		l.Debugf(ctx, "remote [%v], %v", remote, err)
	}
	secretUnknown.Inc()
	return nil, nil, fmt.Errorf("remote [%v] has no secret providers", remote)
}

// lookupState is what a query is answered from: the providers and the prefix filters built from
// the most recent config.  It lives in the updates loop and is handed to each query goroutine by value.
type lookupState struct {
	providers   []tq.SecretProvider
	prefixDeny  *prefixFilter
	prefixAllow *prefixFilter
}

// admit runs remote past the prefix filters.  prefixFilter will log to prom counters and also act as a
// quick fail for prefixes that do not pass muster.  this pevents unnecessary load on scanning SecretProviders
func (s lookupState) admit(remote net.Addr) error {
	switch {
	case s.prefixDeny.deny(remote):
		return fmt.Errorf("remote address connection not allowed by prefixDeny filter [%v]", remote.String())
	case !s.prefixAllow.allow(remote):
		return fmt.Errorf("remote address connection not allowed by prefixAllow filter [%v]", remote.String())
	}
	return nil
}

// updates is the protected update/query loop for Loader
func (l *Loader) updates() {
	var warm sync.Once
	// providers and prefix filters live here so as to remain protected from data race conditions on update/get
	current := lookupState{providers: []tq.SecretProvider{}, prefixDeny: newPrefixFilter(nil), prefixAllow: newPrefixFilter(nil)}
	for {
		select {
		case c := <-l.Config():
			current.providers = l.build(c)
			l.Infof(l.ctx, "updated all providers from config source")
			current.prefixDeny, current.prefixAllow = l.createPrefixFilters(c)
			l.Infof(l.ctx, "updated all prefix filters, where available, from config source")
			buildUpdate.Inc()
			// notify that we are warmed, but one time only
			warm.Do(func() { close(l.warm) })
		case q := <-l.query:
			// the goroutine gets the values current at the time of the query; the variable
			// itself is reassigned by the update case above
			go l.answer(q, current)
		}
	}
}

// answer runs one query against the state it was given and replies on the query's callback channel.
func (l *Loader) answer(q queryGet, state lookupState) {
	if err := state.admit(q.remote); err != nil {
		q.reply(secretProvider{err: err})
		return
	}
	secret, handler, err := l.get(q.ctx, state.providers, q.remote)
	q.reply(secretProvider{secret: secret, handler: handler, err: err})
	buildGet.Inc()
}

// createPrefixFilters inits new filters based on config
func (l *Loader) createPrefixFilters(c config.ServerConfig) (*prefixFilter, *prefixFilter) {
	prefixDeny := newPrefixFilter(strToIPNet(c.PrefixDeny))
`},
			{File: "cmds/server/loader/loader.go", Old: `	cb     chan secretProvider
}

// build is admittedly complex.  This is a design tradeoff for allowing a lot of dependency injection options that
// also span an undefined number of config format representations.  Build glues all of these injected types together
// into an internal representation that the server can use.  Build is best effort under all circumstances.  Injected
`, New: `	cb     chan secretProvider
}

// reply sends the one answer a query gets and closes its callback channel
func (q queryGet) reply(sp secretProvider) {
	q.cb <- sp
	close(q.cb)
}

// build is admittedly complex.  This is a design tradeoff for allowing a lot of dependency injection options that
// also span an undefined number of config format representations.  Build glues all of these injected types together
// into an internal representation that the server can use.  Build is best effort under all circumstances.  Injected
`}}})

	addMutant(Mutant{Name: "benign-mismatch-reply-body-from-a-helper", Props: []string{"C06", "C07", "C19"}, Rule: "", KeySub: "", Benign: true,
		Why: "the per-type bad-secret reply comes from badSecretBody(t) (reply, ok) with one shared marshal path; response.Reply split into replySeqNo and copyToWriters",
		Edits: []Edit{
			{File: "crypt.go", Old: `}

func (c crypter) badSecretReply(h *Header) (*Packet, error) {
	var b []byte
	var err error
	switch h.Type {
	case Authenticate:
		b, err = NewAuthenReply(
			SetAuthenReplyStatus(AuthenStatusError),
			SetAuthenReplyServerMsg("bad secret"),
		).MarshalBinary()
		if err != nil {
			crypterMarshalError.Inc()
			return nil, err
		}
	case Authorize:
		b, err = NewAuthorReply(
			SetAuthorReplyStatus(AuthorStatusError),
			SetAuthorReplyServerMsg("bad secret"),
		).MarshalBinary()
		if err != nil {
			crypterMarshalError.Inc()
			return nil, err
		}
	case Accounting:
		b, err = NewAcctReply(
			SetAcctReplyStatus(AcctReplyStatusError),
			SetAcctReplyServerMsg("bad secret"),
		).MarshalBinary()
		if err != nil {
			crypterMarshalError.Inc()
			return nil, err
		}
	default:
		return nil, fmt.Errorf("unknown header type [%v]", h.Type)
	}
	// reset some flags and state for this error reply.
	// under error conditions it can be common in the rfc to reset the sequence to 1
	// if the error is particularly egregious.  a bad secret seems like it fits and
	// the rfc is unclear for this particular condition on what to do
	h.SeqNo = SequenceNumber(1)
	p := NewPacket(
		SetPacketHeader(h),
		SetPacketBody(b),
	)
	if err != nil {
		return nil, err
	}
	return p, nil
}

// BadSecretErr ...
`, New: `}

func (c crypter) badSecretReply(h *Header) (*Packet, error) {
	reply, ok := badSecretBody(h.Type)
	if !ok {
		return nil, fmt.Errorf("unknown header type [%v]", h.Type)
	}
	b, err := reply.MarshalBinary()
	if err != nil {
		crypterMarshalError.Inc()
		return nil, err
	}
	// reset some flags and state for this error reply.
	// under error conditions it can be common in the rfc to reset the sequence to 1
	// if the error is particularly egregious.  a bad secret seems like it fits and
	// the rfc is unclear for this particular condition on what to do
	h.SeqNo = SequenceNumber(1)
	return NewPacket(
		SetPacketHeader(h),
		SetPacketBody(b),
	), nil
}

// badSecretBody gives the error reply that belongs to the header type t.  ok is false
// when no reply body exists for t
func badSecretBody(t HeaderType) (reply EncoderDecoder, ok bool) {
	switch t {
	case Authenticate:
		return NewAuthenReply(
			SetAuthenReplyStatus(AuthenStatusError),
			SetAuthenReplyServerMsg("bad secret"),
		), true
	case Authorize:
		return NewAuthorReply(
			SetAuthorReplyStatus(AuthorStatusError),
			SetAuthorReplyServerMsg("bad secret"),
		), true
	case Accounting:
		return NewAcctReply(
			SetAcctReplyStatus(AcctReplyStatusError),
			SetAcctReplyServerMsg("bad secret"),
		), true
	}
	return nil, false
}

// BadSecretErr ...
`},
			{File: "handlers.go", Old: `// all header values based on the underlying EncoderDecoder.  If you want total control on the
// packet that is written, use Send instead.
func (r *response) Reply(v EncoderDecoder) (int, error) {
	seqNo := int(r.header.SeqNo)
	// some special conditions for different body types
	switch t := v.(type) {
	case *AuthenReply:
		if t.Status == AuthenStatusRestart {
			seqNo = 1
		} else {
			seqNo++
		}
	default:
		seqNo++
	}
	header := NewHeader(
		SetHeaderVersion(r.header.Version),
		SetHeaderType(r.header.Type),
		SetHeaderSeqNo(seqNo),
		SetHeaderFlag(r.header.Flags),
		SetHeaderSessionID(r.header.SessionID),
	)
`, New: `// all header values based on the underlying EncoderDecoder.  If you want total control on the
// packet that is written, use Send instead.
func (r *response) Reply(v EncoderDecoder) (int, error) {
	header := NewHeader(
		SetHeaderVersion(r.header.Version),
		SetHeaderType(r.header.Type),
		SetHeaderSeqNo(replySeqNo(r.header.SeqNo, v)),
		SetHeaderFlag(r.header.Flags),
		SetHeaderSessionID(r.header.SessionID),
	)
`},
			{File: "handlers.go", Old: `		SetPacketHeader(header),
		SetPacketBody(b),
	)
	if pbytes, err := p.MarshalBinary(); err == nil {
		for _, mw := range r.writers {
			_, err := mw.Write(r.ctx, pbytes)
			if err != nil {
				r.Errorf(r.ctx, "unable to write to response writer; %v", err)
			}
		}
	}
	return r.Write(p)
}

// Write will write the packet to the underlying net.Conn.  If you are expecting another packet
`, New: `		SetPacketHeader(header),
		SetPacketBody(b),
	)
	r.copyToWriters(p)
	return r.Write(p)
}

// replySeqNo gives the sequence number of the reply v to a packet that carried the
// sequence number last.  some body types have special conditions
func replySeqNo(last SequenceNumber, v EncoderDecoder) int {
	if t, ok := v.(*AuthenReply); ok && t.Status == AuthenStatusRestart {
		return 1
	}
	return int(last) + 1
}

// copyToWriters hands the clear text bytes of p to every registered writer.  a packet that
// cannot be marshalled is skipped, and a failing writer does not stop the others
func (r *response) copyToWriters(p *Packet) {
	pbytes, err := p.MarshalBinary()
	if err != nil {
		return
	}
	for _, mw := range r.writers {
		if _, err := mw.Write(r.ctx, pbytes); err != nil {
			r.Errorf(r.ctx, "unable to write to response writer; %v", err)
		}
	}
}

// Write will write the packet to the underlying net.Conn.  If you are expecting another packet
`}}})

	addMutant(Mutant{Name: "benign-lookup-helper-returning-a-peer-struct-and-ok", Props: []string{"C13", "C14", "C17", "C20"}, Rule: "", KeySub: "", Benign: true,
		Why: "the secret provider lookup of the connection goroutine moved into Server.lookup returning peer{secret, handler} and ok; shutdown and accept-error handling moved into methods",
		Edits: []Edit{
			{File: "server.go", Old: `
// Serve is a blocking method that serves clients
func (s *Server) Serve(ctx context.Context, listener DeadlineListener) error {
	defer func() {
		s.Infof(ctx, "Stopping server listener for %v...", listener.Addr().String())
		err := listener.Close()
		if err != nil {
			s.Errorf(ctx, "%s", err)
		}
		s.Infof(ctx, "waiting for [%v] connections to close prior to shutdown", atomic.LoadInt64(&s.active))
		s.Wait()
	}()

	for {
		select {
`, New: `
// Serve is a blocking method that serves clients
func (s *Server) Serve(ctx context.Context, listener DeadlineListener) error {
	defer s.shutdown(ctx, listener)

	for {
		select {
`},
			{File: "server.go", Old: `			}
			conn, err := listener.Accept()
			if err != nil {
				var opE *net.OpError
				if errors.As(err, &opE) {
					if !opE.Temporary() {
						serveAcceptedError.Inc()
						return nil
					}
					if opE.Temporary() {
						// triggered by SetDeadline
						continue
					}
					// something else? fall through
				}
				s.Errorf(ctx, "server error in serving request: %s", err)
				serveAcceptedError.Inc()
				continue
			}
			s.Add(1)
`, New: `			}
			conn, err := listener.Accept()
			if err != nil {
				if s.acceptFailed(ctx, err) {
					return nil
				}
				continue
			}
			s.Add(1)
`},
			{File: "server.go", Old: `	}
}

func (s *Server) serve(ctx context.Context, conn net.Conn) {
	defer s.Done()
	timer := prometheus.NewTimer(prometheus.ObserverFunc(func(v float64) {
`, New: `	}
}

// shutdown closes the listener and waits for the connection goroutines started by Serve
func (s *Server) shutdown(ctx context.Context, listener DeadlineListener) {
	s.Infof(ctx, "Stopping server listener for %v...", listener.Addr().String())
	if err := listener.Close(); err != nil {
		s.Errorf(ctx, "%s", err)
	}
	s.Infof(ctx, "waiting for [%v] connections to close prior to shutdown", atomic.LoadInt64(&s.active))
	s.Wait()
}

// acceptFailed accounts for an error returned by Accept. It reports true when the
// listener is gone for good and Serve must stop, false when Serve should accept again.
func (s *Server) acceptFailed(ctx context.Context, acceptErr error) (stop bool) {
	var opE *net.OpError
	if errors.As(acceptErr, &opE) {
		switch {
		case !opE.Temporary():
			serveAcceptedError.Inc()
			return true
		case opE.Temporary():
			// triggered by SetDeadline
			return false
		}
		// something else? fall through
	}
	s.Errorf(ctx, "server error in serving request: %s", acceptErr)
	serveAcceptedError.Inc()
	return false
}

// peer is what the secret provider knows about the remote end of a connection
type peer struct {
	secret  []byte
	handler Handler
}

// lookup asks the secret provider about the remote end of conn. ok is false, and the
// refusal is logged, when the provider fails or does not know the remote.
func (s *Server) lookup(ctx context.Context, conn net.Conn) (p peer, ok bool) {
	secret, handler, err := s.Get(ctx, conn.RemoteAddr())
	if err != nil || secret == nil || handler == nil {
		s.Errorf(ctx, "ignoring request: %v", err)
		return peer{}, false
	}
	return peer{secret: secret, handler: handler}, true
}

func (s *Server) serve(ctx context.Context, conn net.Conn) {
	defer s.Done()
	timer := prometheus.NewTimer(prometheus.ObserverFunc(func(v float64) {
`},
			{File: "server.go", Old: `	defer timer.ObserveDuration()
	// start a timer to measure loader duration
	loaderStart := time.Now()
	secret, handler, err := s.Get(ctx, conn.RemoteAddr())
	if err != nil || secret == nil || handler == nil {
		s.Errorf(ctx, "ignoring request: %v", err)
		conn.Close()
		timer.ObserveDuration()
		return
	}
	ctx = context.WithValue(ctx, ContextLoaderDuration, time.Since(loaderStart).Milliseconds())
	serveAccepted.Inc()
	s.handle(ctx, newCrypter(secret, conn, s.proxy), handler)
	serveAccepted.Dec()
}

`, New: `	defer timer.ObserveDuration()
	// start a timer to measure loader duration
	loaderStart := time.Now()
	remote, ok := s.lookup(ctx, conn)
	if !ok {
		conn.Close()
		timer.ObserveDuration()
		return
	}
	ctx = context.WithValue(ctx, ContextLoaderDuration, time.Since(loaderStart).Milliseconds())
	serveAccepted.Inc()
	s.handle(ctx, newCrypter(remote.secret, conn, s.proxy), remote.handler)
	serveAccepted.Dec()
}

`}}})

	addMutant(Mutant{Name: "c13-lookup-helper-reports-ok-for-an-incomplete-lookup", Props: []string{"C13"}, Rule: "R-ADMIT", KeySub: "refusal",
		Why: "the same helper, but its failure return hands back ok = (err == nil): a lookup that returned no secret or no handler without an error is served",
		Edits: []Edit{
			{File: "server.go", Old: `
// Serve is a blocking method that serves clients
func (s *Server) Serve(ctx context.Context, listener DeadlineListener) error {
	defer func() {
		s.Infof(ctx, "Stopping server listener for %v...", listener.Addr().String())
		err := listener.Close()
		if err != nil {
			s.Errorf(ctx, "%s", err)
		}
		s.Infof(ctx, "waiting for [%v] connections to close prior to shutdown", atomic.LoadInt64(&s.active))
		s.Wait()
	}()

	for {
		select {
`, New: `
// Serve is a blocking method that serves clients
func (s *Server) Serve(ctx context.Context, listener DeadlineListener) error {
	defer s.shutdown(ctx, listener)

	for {
		select {
`},
			{File: "server.go", Old: `			}
			conn, err := listener.Accept()
			if err != nil {
				var opE *net.OpError
				if errors.As(err, &opE) {
					if !opE.Temporary() {
						serveAcceptedError.Inc()
						return nil
					}
					if opE.Temporary() {
						// triggered by SetDeadline
						continue
					}
					// something else? fall through
				}
				s.Errorf(ctx, "server error in serving request: %s", err)
				serveAcceptedError.Inc()
				continue
			}
			s.Add(1)
`, New: `			}
			conn, err := listener.Accept()
			if err != nil {
				if s.acceptFailed(ctx, err) {
					return nil
				}
				continue
			}
			s.Add(1)
`},
			{File: "server.go", Old: `	}
}

func (s *Server) serve(ctx context.Context, conn net.Conn) {
	defer s.Done()
	timer := prometheus.NewTimer(prometheus.ObserverFunc(func(v float64) {
`, New: `	}
}

// shutdown closes the listener and waits for the connection goroutines started by Serve
func (s *Server) shutdown(ctx context.Context, listener DeadlineListener) {
	s.Infof(ctx, "Stopping server listener for %v...", listener.Addr().String())
	if err := listener.Close(); err != nil {
		s.Errorf(ctx, "%s", err)
	}
	s.Infof(ctx, "waiting for [%v] connections to close prior to shutdown", atomic.LoadInt64(&s.active))
	s.Wait()
}

// acceptFailed accounts for an error returned by Accept. It reports true when the
// listener is gone for good and Serve must stop, false when Serve should accept again.
func (s *Server) acceptFailed(ctx context.Context, acceptErr error) (stop bool) {
	var opE *net.OpError
	if errors.As(acceptErr, &opE) {
		switch {
		case !opE.Temporary():
			serveAcceptedError.Inc()
			return true
		case opE.Temporary():
			// triggered by SetDeadline
			return false
		}
		// something else? fall through
	}
	s.Errorf(ctx, "server error in serving request: %s", acceptErr)
	serveAcceptedError.Inc()
	return false
}

// peer is what the secret provider knows about the remote end of a connection
type peer struct {
	secret  []byte
	handler Handler
}

// lookup asks the secret provider about the remote end of conn. ok is false, and the
// refusal is logged, when the provider fails or does not know the remote.
func (s *Server) lookup(ctx context.Context, conn net.Conn) (p peer, ok bool) {
	secret, handler, err := s.Get(ctx, conn.RemoteAddr())
	if err != nil || secret == nil || handler == nil {
		s.Errorf(ctx, "ignoring request: %v", err)
		return peer{secret: secret, handler: handler}, err == nil
	}
	return peer{secret: secret, handler: handler}, true
}

func (s *Server) serve(ctx context.Context, conn net.Conn) {
	defer s.Done()
	timer := prometheus.NewTimer(prometheus.ObserverFunc(func(v float64) {
`},
			{File: "server.go", Old: `	defer timer.ObserveDuration()
	// start a timer to measure loader duration
	loaderStart := time.Now()
	secret, handler, err := s.Get(ctx, conn.RemoteAddr())
	if err != nil || secret == nil || handler == nil {
		s.Errorf(ctx, "ignoring request: %v", err)
		conn.Close()
		timer.ObserveDuration()
		return
	}
	ctx = context.WithValue(ctx, ContextLoaderDuration, time.Since(loaderStart).Milliseconds())
	serveAccepted.Inc()
	s.handle(ctx, newCrypter(secret, conn, s.proxy), handler)
	serveAccepted.Dec()
}

`, New: `	defer timer.ObserveDuration()
	// start a timer to measure loader duration
	loaderStart := time.Now()
	remote, ok := s.lookup(ctx, conn)
	if !ok {
		conn.Close()
		timer.ObserveDuration()
		return
	}
	ctx = context.WithValue(ctx, ContextLoaderDuration, time.Since(loaderStart).Milliseconds())
	serveAccepted.Inc()
	s.handle(ctx, newCrypter(remote.secret, conn, s.proxy), remote.handler)
	serveAccepted.Dec()
}

`}}})

	addMutant(Mutant{Name: "c12-reserved-flag-bits-cleared-by-the-decoder", Props: []string{"C12", "C02"}, Rule: "R-DECODEDONCE", KeySub: "AcctRequest",
		Why: "the accounting request decoder clears the unassigned bits of the flags octet: 0x03, 0x12, 0x84 become valid records whose flags are not what the client sent",
		Edits: []Edit{
			{File: "accounting.go", Old: `// AcctRequestLen minumum length of this packet type
const AcctRequestLen = 0x9

// AcctRequestOption is used to inject options when creating new AcctRequest types
type AcctRequestOption func(*AcctRequest)

`, New: `// AcctRequestLen minumum length of this packet type
const AcctRequestLen = 0x9

// acctFlagReserved are the bits of the flags octet that rfc8907 leaves unassigned.
// 0x01 was TAC_PLUS_ACCT_FLAG_MORE in the draft protocol and is still set by some
// older network operating systems; the remaining bits have never carried a meaning.
const acctFlagReserved AcctRequestFlag = 0xF1

// AcctRequestOption is used to inject options when creating new AcctRequest types
type AcctRequestOption func(*AcctRequest)

`},
			{File: "accounting.go", Old: `		return fmt.Errorf("acctRequest size [%v] is too small for the minimum size [%v]", len(data), AcctRequestLen)
	}
	a.Flags = AcctRequestFlag(data[0])
	a.Method = AuthenMethod(data[1])
	a.PrivLvl = PrivLvl(data[2])
	a.Type = AuthenType(data[3])
`, New: `		return fmt.Errorf("acctRequest size [%v] is too small for the minimum size [%v]", len(data), AcctRequestLen)
	}
	a.Flags = AcctRequestFlag(data[0])
	// reserved bits are ignored on receipt so that the record kind is always one
	// of start, stop, watchdog or watchdog with update
	a.Flags.Clear(acctFlagReserved)
	a.Method = AuthenMethod(data[1])
	a.PrivLvl = PrivLvl(data[2])
	a.Type = AuthenType(data[3])
`}}})

	addMutant(Mutant{Name: "c14-reply-re-enters-reply-when-the-sequence-space-is-used-up", Props: []string{"C14"}, Rule: "R-RECURSION", KeySub: "cycle",
		Why: "response.Reply substitutes an error reply and calls itself when the reply would need a sequence number above 255; for authorization and accounting the substitute fails the same test: stack overflow, fatal for the whole server",
		Edits: []Edit{
			{File: "handlers.go", Old: `	default:
		seqNo++
	}
	header := NewHeader(
		SetHeaderVersion(r.header.Version),
		SetHeaderType(r.header.Type),
`, New: `	default:
		seqNo++
	}
	if seqNo > HeaderMaxSequence {
		// the sequence number must never wrap, see rfc8907 section 4.1. the session ends
		// here and the client is told to start over with a sequence number of 1
		r.next = nil
		return r.Reply(r.sequenceExhausted())
	}
	header := NewHeader(
		SetHeaderVersion(r.header.Version),
		SetHeaderType(r.header.Type),
`},
			{File: "handlers.go", Old: `	return r.Write(p)
}

// Write will write the packet to the underlying net.Conn.  If you are expecting another packet
// to return from the client after writing a response, call Next(handler) to provide a next Handler.
func (r *response) Write(p *Packet) (int, error) {
`, New: `	return r.Write(p)
}

// sequenceExhausted builds the terminal reply for a session that ran out of sequence numbers
func (r *response) sequenceExhausted() EncoderDecoder {
	const msg = "sequence number exhausted, restart the session"
	switch r.header.Type {
	case Authorize:
		return NewAuthorReply(
			SetAuthorReplyStatus(AuthorStatusError),
			SetAuthorReplyServerMsg(msg),
		)
	case Accounting:
		return NewAcctReply(
			SetAcctReplyStatus(AcctReplyStatusError),
			SetAcctReplyServerMsg(msg),
		)
	}
	return NewAuthenReply(
		SetAuthenReplyStatus(AuthenStatusRestart),
		SetAuthenReplyServerMsg(msg),
	)
}

// Write will write the packet to the underlying net.Conn.  If you are expecting another packet
// to return from the client after writing a response, call Next(handler) to provide a next Handler.
func (r *response) Write(p *Packet) (int, error) {
`}}})

	addMutant(Mutant{Name: "c18-request-handed-to-the-packet-logger-when-the-span-host-is-down", Props: []string{"C18"}, Rule: "R-REPLYWRITER", KeySub: "fed-outside-the-reply-path",
		Why: "the span handler writes the request to the packet logger when the span host cannot be dialled; that logger decodes and records every field unobscured",
		Edits: []Edit{
			{File: "cmds/server/handlers/span.go", Old: `		spanDurations.Observe(ms)
	}))
	start := time.Now()
	conn, err := s.dialHost()
	callNextHandler := func() {
		nextHandler := NewStart(s.loggerProvider).New(request.Context, s.configProvider.(config.Provider), nil)
		nextHandler.Handle(response, request)
	}
	if err != nil {
		spanHandleError.Inc()
		s.Errorf(request.Context, "Unable to span connection due to error %v", err)
		callNextHandler()
		return
	}
`, New: `		spanDurations.Observe(ms)
	}))
	start := time.Now()
	callNextHandler := func() {
		nextHandler := NewStart(s.loggerProvider).New(request.Context, s.configProvider.(config.Provider), nil)
		nextHandler.Handle(response, request)
	}
	// encode the request before dialling, a packet we cannot replicate should not cost a connection
	req := tq.Packet{
		Header: &request.Header,
		Body:   request.Body[:],
	}
	reqBytes, err := req.MarshalBinary()
	if err != nil {
		s.Infof(request.Context, "unable to write request to connection due to error %v. Skipping packet...", err)
		callNextHandler()
		return
	}
	conn, err := s.dialHost()
	if err != nil {
		spanHandleError.Inc()
		s.Errorf(request.Context, "Unable to span connection due to error %v", err)
		// the span host is away, keep the exchange under inspection complete in the packet log;
		// the replies are written there by the aaa handlers already
		if _, err := newPacketLogger(s.loggerProvider).Write(request.Context, reqBytes); err != nil {
			s.Errorf(request.Context, "unable to write request to the packet log due to error %v", err)
		}
		callNextHandler()
		return
	}
`},
			{File: "cmds/server/handlers/span.go", Old: `		packetType: s.packetType,
	}
	// Write the request to the connection
	req := tq.Packet{
		Header: &request.Header,
		Body:   request.Body[:],
	}
	reqBytes, err := req.MarshalBinary()
	if err != nil {
		s.Infof(request.Context, "unable to write request to connection due to error %v. Skipping packet...", err)
		callNextHandler()
		return
	}
	w.Write(request.Context, reqBytes)
	// Write responses
	go func() {
`, New: `		packetType: s.packetType,
	}
	// Write the request to the connection
	w.Write(request.Context, reqBytes)
	// Write responses
	go func() {
`}}})

	addMutant(Mutant{Name: "c13-scope-entries-matched-by-prefix", Props: []string{"C13"}, Rule: "R-ADMIT", KeySub: "HasScope",
		Why: "User.HasScope gains wildcard entries but prefix-matches every entry: a user of scope dc1 is admitted into scope dc10",
		Edits: []Edit{
			{File: "cmds/server/config/types.go", Old: `	Accounter     *Accounter     ` + "`" + `yaml:"accounter,omitempty" json:"accounter,omitempty"` + "`" + `
}

// HasScope returns bool if scope is found to be bound to this user
func (u User) HasScope(scope string) bool {
	for _, s := range u.Scopes {
		if scope == s {
			return true
		}
	}
	return false
}

// LocalizeToScope will set the Scopes field to the supplied scope name
// no validation is done and the string is accepted as is.
func (u *User) LocalizeToScope(scope string) {
`, New: `	Accounter     *Accounter     ` + "`" + `yaml:"accounter,omitempty" json:"accounter,omitempty"` + "`" + `
}

// HasScope returns bool if scope is found to be bound to this user.  An entry in Scopes
// may end in "*" to bind the user to every scope whose name starts with the text before
// it, e.g. "edge-*" binds edge-ams, edge-fra and so on without listing each of them.
func (u User) HasScope(scope string) bool {
	for _, s := range u.Scopes {
		if scopeMatch(strings.TrimSpace(s), scope) {
			return true
		}
	}
	return false
}

// scopeMatch reports whether the scope name is selected by a Scopes entry of a user
func scopeMatch(entry, scope string) bool {
	if entry == "" {
		return false
	}
	stem := strings.TrimSuffix(entry, "*")
	return strings.HasPrefix(scope, stem)
}

// LocalizeToScope will set the Scopes field to the supplied scope name
// no validation is done and the string is accepted as is.
func (u *User) LocalizeToScope(scope string) {
`}}})

	addMutant(Mutant{Name: "c15-snapshot-returns-the-live-map-from-under-the-lock", Props: []string{"C15"}, Rule: "R-LOCKLEAK", KeySub: "returns-the-protected-map",
		Why: "a table of open connections whose snapshot() locks and returns the map itself; shutdown ranges over it unlocked while connection goroutines delete from it",
		Edits: []Edit{
			{File: "server.go", Old: `	"errors"
	"io"
	"net"
	"sync/atomic"
	"time"

`, New: `	"errors"
	"io"
	"net"
	"sync"
	"sync/atomic"
	"time"

`},
			{File: "server.go", Old: `
	// enables ha-proxy ascii proxy header support
	proxy bool
}

// DeadlineListener is a net.Listener that supports Deadlines
`, New: `
	// enables ha-proxy ascii proxy header support
	proxy bool

	// open holds the accepted connections that are still being served, so that a
	// shutdown does not have to sit out the read deadline of every idle client
	open connTable
}

// connTable is the set of connections a server is currently serving
type connTable struct {
	sync.Mutex
	conns map[net.Conn]struct{}
}

// add registers an accepted connection
func (t *connTable) add(c net.Conn) {
	t.Lock()
	defer t.Unlock()
	if t.conns == nil {
		t.conns = make(map[net.Conn]struct{})
	}
	t.conns[c] = struct{}{}
}

// remove forgets a connection once it has been served
func (t *connTable) remove(c net.Conn) {
	t.Lock()
	defer t.Unlock()
	delete(t.conns, c)
}

// snapshot returns the connections that are open at the time of the call
func (t *connTable) snapshot() map[net.Conn]struct{} {
	t.Lock()
	defer t.Unlock()
	return t.conns
}

// closeAll closes every connection that is still open and reports how many there were.
// The table is not kept locked meanwhile: closing a connection makes its serve goroutine
// return, and that goroutine needs the lock to take itself out of the table.
func (t *connTable) closeAll() int {
	open := t.snapshot()
	for c := range open {
		c.Close()
	}
	return len(open)
}

// DeadlineListener is a net.Listener that supports Deadlines
`},
			{File: "server.go", Old: `		if err != nil {
			s.Errorf(ctx, "%s", err)
		}
		s.Infof(ctx, "waiting for [%v] connections to close prior to shutdown", atomic.LoadInt64(&s.active))
		s.Wait()
	}()
`, New: `		if err != nil {
			s.Errorf(ctx, "%s", err)
		}
		// nothing is accepted any more; hang up on the clients that are still connected
		// instead of waiting for them to go away or to run into their read deadline
		s.Debugf(ctx, "closed [%v] client connections", s.open.closeAll())
		s.Infof(ctx, "waiting for [%v] connections to close prior to shutdown", atomic.LoadInt64(&s.active))
		s.Wait()
	}()
`},
			{File: "server.go", Old: `				continue
			}
			s.Add(1)
			go s.serve(ctx, conn)
		}
	}
`, New: `				continue
			}
			s.Add(1)
			s.open.add(conn)
			go s.serve(ctx, conn)
		}
	}
`},
			{File: "server.go", Old: `
func (s *Server) serve(ctx context.Context, conn net.Conn) {
	defer s.Done()
	timer := prometheus.NewTimer(prometheus.ObserverFunc(func(v float64) {
		ms := v * 1000 // make milliseconds
		connectionDuration.Observe(ms)
`, New: `
func (s *Server) serve(ctx context.Context, conn net.Conn) {
	defer s.Done()
	defer s.open.remove(conn)
	timer := prometheus.NewTimer(prometheus.ObserverFunc(func(v float64) {
		ms := v * 1000 // make milliseconds
		connectionDuration.Observe(ms)
`}}})

}
