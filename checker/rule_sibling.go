package main

import (
	"fmt"
	"go/token"
	"go/types"
	"sort"
	"strings"

	"golang.org/x/tools/go/ssa"
)

// R-SIBLING: the key-mismatch detector, Request.Fields and the specification agree on which body types
// belong to which header type; the detector's thresholds, its exemption and its reply are right.

// bodiesByType is written from RFC 8907: which bodies travel under which header type.
var bodiesByType = map[string][]string{
	"Authenticate": {"AuthenContinue", "AuthenReply", "AuthenStart"},
	"Authorize":    {"AuthorReply", "AuthorRequest"},
	"Accounting":   {"AcctReply", "AcctRequest"},
}

var errorStatusOf = map[string][2]string{ // header type -> (reply constructor kind, ERROR constant)
	"Authenticate": {"Authen", "AuthenStatusError"},
	"Authorize":    {"Author", "AuthorStatusError"},
	"Accounting":   {"Acct", "AcctReplyStatusError"},
}

// caseBlocks: for a switch over Header.Type in fn, the entry block of each case by constant value.
func headerTypeCases(fn *ssa.Function) map[int64]*ssa.BasicBlock {
	out := map[int64]*ssa.BasicBlock{}
	for _, b := range fn.Blocks {
		iff, ok := b.Instrs[len(b.Instrs)-1].(*ssa.If)
		if !ok {
			continue
		}
		bo, ok := iff.Cond.(*ssa.BinOp)
		if !ok || bo.Op != token.EQL {
			continue
		}
		c, okc := constInt(bo.Y)
		if !okc {
			continue
		}
		f, _, okf := loadedField(bo.X)
		if !okf || f.Name() != "Type" || !typeIs(f.Type(), modPath, "HeaderType") {
			continue
		}
		out[c] = b.Succs[0]
	}
	return out
}

// decodersTriedUnder: body types decoded (Unmarshal into a fresh local) in blocks dominated by `start`.
func decodersTriedUnder(fn *ssa.Function, start *ssa.BasicBlock) ([]string, []*ssa.Call) {
	var names []string
	var calls []*ssa.Call
	for dc, a := range decodeCalls(fn, "") {
		if !(start == dc.Block() || start.Dominates(dc.Block())) {
			continue
		}
		pt, _ := a.Type().(*types.Pointer)
		if n := namedOf(pt.Elem()); n != nil {
			names = append(names, n.Obj().Name())
			calls = append(calls, dc)
		}
	}
	sort.Strings(names)
	return names, calls
}

func ruleSibling(p *Program, r *Result) {
	ro := rolesOK(p, r)
	typeVal := map[string]int64{}
	for t := range bodiesByType {
		if v, ok := p.rootConst(t); ok {
			typeVal[t] = v
		} else {
			r.undecided("R-SIBLING", "anchor:"+t, "-", "UNRESOLVED header type constant %s", t)
		}
	}
	unenc, _ := p.rootConst("UnencryptedFlag")
	typeNames := []string{"Accounting", "Authenticate", "Authorize"}
	for _, D := range ro.Detectors {
		key := fnKey(D)
		pos := p.Pos(D.Pos())
		// s1: clear-flag exemption first, then straight to the type dispatch
		s1 := false
		entry := D.Blocks[0]
		if iff, ok := entry.Instrs[len(entry.Instrs)-1].(*ssa.If); ok {
			// the flag test: Flags.Has(Unencrypted), or the same mask test written out
			var flagAddr ssa.Value
			var flagConst int64 = -1
			if call, ok := iff.Cond.(*ssa.Call); ok {
				if f := call.Common().StaticCallee(); f != nil && f.Name() == "Has" && hasIsMaskTest(f) && len(call.Common().Args) == 2 {
					if c, okc := constInt(call.Common().Args[1]); okc {
						flagAddr, flagConst = flagsOperand(call.Common().Args[0]), c
					}
				}
			} else if ne, ok := iff.Cond.(*ssa.BinOp); ok && ne.Op == token.NEQ {
				if z, okz := constInt(ne.Y); okz && z == 0 {
					if and, ok := ne.X.(*ssa.BinOp); ok && and.Op == token.AND {
						if c, okc := constInt(and.Y); okc {
							if u, ok := and.X.(*ssa.UnOp); ok && u.Op == token.MUL {
								flagAddr, flagConst = u.X, c
							}
						}
					}
				}
			}
			if flagAddr != nil {
				{
					if flagConst == unenc {
						if fl, _, okf := fieldAddrOf(flagAddr); okf && fl.Name() == "Flags" {
							tb := entry.Succs[0]
							if ret, ok := tb.Instrs[len(tb.Instrs)-1].(*ssa.Return); ok && len(ret.Results) == 2 && isNilConst(ret.Results[0]) && isNilConst(ret.Results[1]) {
								// the other successor goes directly to a comparison of Header.Type
								nb := entry.Succs[1]
								if i2, ok := nb.Instrs[len(nb.Instrs)-1].(*ssa.If); ok {
									if bo, ok := i2.Cond.(*ssa.BinOp); ok && bo.Op == token.EQL {
										if f2, _, ok := loadedField(bo.X); ok && f2.Name() == "Type" {
											s1 = true
										}
									}
								}
							}
						}
					}
				}
			}
		}
		r.cond(s1, "R-SIBLING", key+":clear-flag-exempt-then-dispatch", pos,
			"requests sent in the clear are exempted first; every other request goes straight to the per-type decoder trials (no other early exit)",
			"the detector does not start with 'clear flag -> no mismatch' followed directly by the dispatch on the header type: some obfuscated requests skip detection, or cleartext ones are judged")
		cases := headerTypeCases(D)
		table, tableOK, tableWhy := tableDrivenDetector(D, cases)
		for _, tn := range typeNames {
			ck := key + ":" + tn
			cb, ok := cases[typeVal[tn]]
			if !ok {
				r.bad("R-SIBLING", ck+":decoders", pos, "the detector has no case for header type %s", tn)
				continue
			}
			tried, calls := decodersTriedUnder(D, cb)
			want := bodiesByType[tn]
			if len(tried) == 0 && table != nil {
				// the per-type lists are data: one loop tries every entry of the list chosen by the header type
				tried = table[typeVal[tn]]
				r.cond(strings.Join(tried, ",") == strings.Join(want, ","), "R-SIBLING", ck+":decoders", p.Pos(cb.Instrs[0].Pos()),
					fmt.Sprintf("for %s packets the detector's candidate list is exactly %v, and one loop tries every candidate", tn, want),
					fmt.Sprintf("for %s packets the detector's candidate list is %v but the bodies of that type are %v: a valid request of an untried layout is flagged, or a mismatch goes unnoticed", tn, tried, want))
				r.cond(tableOK, "R-SIBLING", ck+":threshold", p.Pos(cb.Instrs[0].Pos()),
					fmt.Sprintf("a mismatch is declared iff the count of length-sum errors equals the length of the candidate list (%d): the count is incremented only on errors.As(err, *BadSecretErr) of each trial, and every candidate is tried once", len(want)),
					"the candidate loop does not count exactly the trials failing with the length-sum error against the length of the list: "+tableWhy)
				continue
			}
			r.cond(strings.Join(tried, ",") == strings.Join(want, ","), "R-SIBLING", ck+":decoders", p.Pos(cb.Instrs[0].Pos()),
				fmt.Sprintf("for %s packets the detector tries exactly %v", tn, want),
				fmt.Sprintf("for %s packets the detector tries %v but the bodies of that type are %v: a valid request of an untried layout is flagged, or a mismatch goes unnoticed", tn, tried, want))
			// threshold == number tried; count incremented only under errors.As(err of that decode, *BadSecretErr)
			thr := int64(-1)
			var cnt ssa.Value
			for _, b := range D.Blocks {
				if !(cb == b || cb.Dominates(b)) {
					continue
				}
				if iff, ok := b.Instrs[len(b.Instrs)-1].(*ssa.If); ok {
					if bo, ok := iff.Cond.(*ssa.BinOp); ok && bo.Op == token.EQL && isIntLike(bo.X.Type()) {
						if c, okc := constInt(bo.Y); okc {
							if _, isPhi := bo.X.(*ssa.Phi); isPhi {
								thr, cnt = c, bo.X
							}
						}
					}
				}
			}
			var cnts []ssa.Value
			if cnt == nil {
				// the comparison hoisted behind the switch: count and number of layouts are carried out of each case
				// (`errCnt != layouts` after the switch); for this case, the values on its edges into the join
				thr, cnts = hoistedThreshold(D, cb)
			}
			incOK := cnt != nil && countIncrementsUnderAs(cnt, calls)
			if len(cnts) > 0 {
				incOK = countIncrementsUnderAs(nil, calls, cnts...)
			}
			r.cond(thr == int64(len(want)) && incOK, "R-SIBLING", ck+":threshold", p.Pos(cb.Instrs[0].Pos()),
				fmt.Sprintf("a mismatch is declared iff all %d decoders report the length-sum error (count incremented only on errors.As(err, *BadSecretErr) of each trial)", len(want)),
				fmt.Sprintf("threshold %d vs %d decoders tried, or the count is not incremented exactly on each trial's BadSecretErr (%v)", thr, len(want), incOK))
		}
	}
	// s3: Request.Fields dispatcher agrees
	if F := p.view(p.LookupFunc("", "Request.Fields")); F != nil {
		cases := headerTypeCases(F)
		table, trial, _, tableOK, _ := candidateLists(F, cases, true)
		if tableOK && !isRequestBody(trial.Common().Args[0]) {
			tableOK = false
		}
		for _, tn := range typeNames {
			cb, ok := cases[typeVal[tn]]
			var tried []string
			if ok {
				tried, _ = decodersTriedUnder(F, cb)
			}
			if len(tried) == 0 && tableOK {
				// written with data: the case selects a literal list of fresh bodies, one loop tries them in turn
				tried, ok = table[typeVal[tn]], true
			}
			want := bodiesByType[tn]
			r.cond(ok && strings.Join(tried, ",") == strings.Join(want, ","), "R-SIBLING", "Request.Fields:"+tn, p.Pos(F.Pos()),
				fmt.Sprintf("Request.Fields tries exactly %v for %s packets, like the detector and the specification", want, tn),
				fmt.Sprintf("Request.Fields tries %v for %s packets; the specification lists %v", tried, tn, want))
		}
	} else {
		r.undecided("R-SIBLING", "Request.Fields", "-", "UNRESOLVED Request.Fields")
	}
	// s4: in each body decoder the mismatch error is produced only by the sum-of-lengths test, before Validate
	for _, t := range []string{"AuthenStart", "AuthenReply", "AuthenContinue", "AuthorRequest", "AuthorReply", "AcctRequest", "AcctReply"} {
		U := p.view(p.LookupFunc("", t+".UnmarshalBinary"))
		V := p.LookupFunc("", t+".Validate")
		if U == nil {
			r.undecided("R-SIBLING", t+":mismatch-producer", "-", "UNRESOLVED %s.UnmarshalBinary", t)
			continue
		}
		var producers []*ssa.Call
		for _, c := range allCalls(U) {
			if call, ok := c.(*ssa.Call); ok {
				if f := call.Common().StaticCallee(); f != nil && f.Name() == "NewBadSecretErr" {
					producers = append(producers, call)
				}
			}
		}
		good := len(producers) == 1
		why := fmt.Sprintf("%d producers of BadSecretErr", len(producers))
		if good {
			pr := producers[0]
			// under "a.Len() != sum": find the If dominating it
			ok := false
			var sumIfBlock *ssa.BasicBlock
			for d := pr.Block(); d != nil; d = d.Idom() {
				id := d.Idom()
				if id == nil {
					break
				}
				iff, isIf := id.Instrs[len(id.Instrs)-1].(*ssa.If)
				if !isIf {
					continue
				}
				bo, isB := iff.Cond.(*ssa.BinOp)
				if !isB || (bo.Op != token.NEQ && bo.Op != token.EQL) {
					continue
				}
				// the edge on which the two sizes differ (the test may be written either way round)
				diff := id.Succs[0]
				if bo.Op == token.EQL {
					diff = id.Succs[1]
				}
				size, sum := bo.X, bo.Y
				isLenCall := func(v ssa.Value) bool {
					c, isC := v.(*ssa.Call)
					if !isC {
						return false
					}
					f := c.Common().StaticCallee()
					return f != nil && f.Name() == "Len"
				}
				if !isLenCall(size) {
					size, sum = sum, size
				}
				if call, isC := size.(*ssa.Call); isC {
					if f := call.Common().StaticCallee(); f != nil && f.Name() == "Len" && len(diff.Preds) == 1 && (diff == pr.Block() || diff.Dominates(pr.Block())) {
						if sumOfLengthReads(sum) {
							ok = true
							sumIfBlock = id
						}
					}
				}
			}
			if !ok {
				good, why = false, "the mismatch error is not raised by 'decoded size != sum of the length fields read'"
			}
			// no other error can be returned before the length-sum test, except by the minimum-size guard
			// (a condition on len(input) alone): a wrong-key body that failed a content test first would
			// not be counted by the detector
			if ok && sumIfBlock != nil {
				for _, b := range U.Blocks {
					ret, isRet := b.Instrs[len(b.Instrs)-1].(*ssa.Return)
					if !isRet || b == U.Recover || len(ret.Results) != 1 || isNilConst(ret.Results[0]) {
						continue
					}
					if sumIfBlock == b || sumIfBlock.Dominates(b) {
						continue
					}
					if !underInputLengthGuard(b, U) {
						good, why = false, fmt.Sprintf("an error other than the mismatch error is returned at %s before the length-sum test and not by the minimum-size guard: a wrong-key body failing that test is not counted as a mismatch", p.Pos(ret.Pos()))
					}
				}
			}
			// precedes Validate
			if V != nil {
				for _, c := range allCalls(U) {
					if c.Common().StaticCallee() == V {
						if !reachableAfterBlock(pr.Block(), c) && !domInstr(pr, c) {
							// producer returns; validate is on the other edge: fine
						}
						if domInstr(c, pr) {
							good, why = false, "Validate runs before the length-sum test"
						}
					}
				}
			}
		}
		r.cond(good, "R-SIBLING", t+":mismatch-producer", p.Pos(U.Pos()),
			t+".UnmarshalBinary raises the key-mismatch error only from 'decoded size != sum of the length fields', before validation: content errors of a correctly keyed request are not mistaken for a wrong key",
			t+".UnmarshalBinary: "+why)
	}
	// s5: the error reply matches the header type
	ruleBadSecretReply(p, r, typeVal)
	// s6: the reader writes the detector's reply once and then fails
	for _, R := range ro.Readers {
		key := fnKey(R) + ":mismatch-path"
		var det *ssa.Call
		for _, c := range allCalls(R) {
			if call, ok := c.(*ssa.Call); ok && containsFn(ro.Detectors, call.Common().StaticCallee()) {
				det = call
			}
		}
		if det == nil {
			r.bad("R-SIBLING", key, p.Pos(R.Pos()), "the stream reader does not run the key-mismatch detector")
			continue
		}
		var reply ssa.Value
		for _, rf := range refsOf(det) {
			if e, ok := rf.(*ssa.Extract); ok && e.Index == 0 {
				reply = e
			}
		}
		var wr *ssa.Call
		n := 0
		for _, c := range allCalls(R) {
			if call, ok := c.(*ssa.Call); ok && containsFn(ro.Writers, call.Common().StaticCallee()) {
				for _, a := range call.Common().Args {
					if a == reply {
						wr = call
						n++
					}
				}
			}
		}
		good := wr != nil && n == 1 && reply != nil && nonNilGuarded(reply, wr) && !blockReachFromSelf(wr.Block())
		if good {
			// after the write every path returns (nil, error)
			for b := range blockReach(wr.Block(), nil) {
				if ret, ok := b.Instrs[len(b.Instrs)-1].(*ssa.Return); ok && len(ret.Results) == 2 {
					if !isNilConst(ret.Results[0]) || isNilConst(ret.Results[1]) {
						good = false
					}
				}
			}
			// detector error -> error
			eb, _ := errEdges(det)
			if len(eb) == 0 {
				good = false
			}
			// the success return is on the "no reply" edge
			for _, b := range R.Blocks {
				if ret, ok := b.Instrs[len(b.Instrs)-1].(*ssa.Return); ok && len(ret.Results) == 2 && !isNilConst(ret.Results[0]) {
					if blockReach(wr.Block(), nil)[b] {
						good = false
					}
					if g, _ := guardedBySuccess(det, ret, nil); !g {
						good = false
					}
				}
			}
		}
		r.cond(good, "R-SIBLING", key, p.Pos(det.Pos()),
			"when the detector returns a reply the reader writes it exactly once and returns (nil, error): the request never reaches a handler and the loop closes the connection; the packet is returned only when the detector returned neither reply nor error",
			"the key-mismatch path of the reader does not 'write one error packet, then fail': a mismatched request could reach a handler, or several packets be written")
	}
	r.floor("R-SIBLING", 18)
}

// countIncrementsUnderAs: the counter phi chain is incremented by 1 exactly under errors.As(result of each trial).
func countIncrementsUnderAs(cnt ssa.Value, trials []*ssa.Call, more ...ssa.Value) bool {
	used := map[*ssa.Call]bool{}
	seen := map[ssa.Value]bool{}
	okAll := true
	var walk func(v ssa.Value)
	walk = func(v ssa.Value) {
		if seen[v] {
			return
		}
		seen[v] = true
		switch x := v.(type) {
		case *ssa.Phi:
			for _, e := range x.Edges {
				walk(e)
			}
		case *ssa.BinOp:
			if x.Op != token.ADD {
				okAll = false
				return
			}
			if c, ok := constInt(x.Y); !ok || c != 1 {
				okAll = false
				return
			}
			// the block of the increment is the true successor of an If on errors.As(trial err, **BadSecretErr)
			b := x.Block()
			found := false
			if len(b.Preds) == 1 {
				if iff, ok := b.Preds[0].Instrs[len(b.Preds[0].Instrs)-1].(*ssa.If); ok && b.Preds[0].Succs[0] == b {
					if call, ok := iff.Cond.(*ssa.Call); ok && isFuncNamed(call.Common().StaticCallee(), "errors", "As") {
						for _, t := range trials {
							if call.Common().Args[0] == ssa.Value(t) {
								if mi, ok := call.Common().Args[1].(*ssa.MakeInterface); ok {
									if pt, ok := mi.X.Type().(*types.Pointer); ok && typeIs(pt.Elem(), modPath, "BadSecretErr") {
										found = true
										used[t] = true
									}
								}
							}
						}
					}
				}
			}
			if !found {
				okAll = false
			}
			walk(x.X)
		case *ssa.Const:
			if c, ok := constInt(x); !ok || c != 0 {
				okAll = false
			}
		default:
			okAll = false
		}
	}
	if cnt != nil {
		walk(cnt)
	}
	for _, m := range more {
		walk(m)
	}
	return okAll && len(used) == len(trials)
}

// sumOfLengthReads: v is a sum of integer locals (the length fields read from the input).
func sumOfLengthReads(v ssa.Value) bool {
	switch x := v.(type) {
	case *ssa.BinOp:
		return x.Op == token.ADD && sumOfLengthReads(x.X) && sumOfLengthReads(x.Y)
	case *ssa.Call, *ssa.Convert, *ssa.Phi, *ssa.UnOp:
		return isIntLike(v.Type())
	}
	return false
}

func reachableAfterBlock(b *ssa.BasicBlock, in ssa.Instruction) bool {
	return blockReach(b, nil)[in.Block()]
}

// ruleBadSecretReply: per header type the reply is the ERROR status of the matching reply type.
func ruleBadSecretReply(p *Program, r *Result, typeVal map[string]int64) {
	ro := p.Roles()
	found := false
	for _, fn := range p.FuncsIn(func(path string) bool { return path == modPath }) {
		// the function called by the detector that builds the reply
		called := false
		for _, D := range ro.Detectors {
			for _, c := range allCalls(D) {
				if c.Common().StaticCallee() == fn {
					called = true
				}
			}
		}
		if !called || !strings.Contains(strings.ToLower(fn.Name()), "reply") {
			continue
		}
		found = true
		// read with its helpers folded in when the representation is the views: the switch on the header type
		// may sit in a helper that hands back the reply body (badSecretBody(t) (reply, ok))
		asWritten := fn
		if p.useViews {
			fn = p.view(fn)
		}
		cases := headerTypeCases(fn)
		_ = asWritten
		for tn, pair := range errorStatusOf {
			key := fnKey(fn) + ":" + tn
			cb, ok := cases[typeVal[tn]]
			if !ok {
				r.bad("R-SIBLING", key, p.Pos(fn.Pos()), "no error reply is built for header type %s", tn)
				continue
			}
			want, _ := p.rootConst(pair[1])
			good := false
			n := 0
			for _, c := range allCalls(fn) {
				call, ok := c.(*ssa.Call)
				if !ok || !(cb == call.Block() || cb.Dominates(call.Block())) {
					continue
				}
				f := call.Common().StaticCallee()
				if f == nil {
					continue
				}
				if kind, isCtor := replyCtor[f.Name()]; isCtor {
					n++
					if kind != pair[0] {
						continue
					}
					if opts, ok := optionsOfCtor(call); ok {
						for _, o := range opts {
							s, _ := o[0].(*ssa.Function)
							if s != nil && strings.HasSuffix(s.Name(), "ReplyStatus") {
								if c, okc := constInt(o[1]); okc && c == want {
									good = true
								}
							}
						}
					}
				}
			}
			r.cond(good && n == 1, "R-SIBLING", key, p.Pos(cb.Instrs[0].Pos()),
				fmt.Sprintf("a key mismatch on a %s packet is answered with a %sReply of status %s", tn, pair[0], pair[1]),
				fmt.Sprintf("the key-mismatch reply for %s packets is not a %sReply with status %s", tn, pair[0], pair[1]))
		}
	}
	if !found {
		r.undecided("R-SIBLING", "mismatch-reply-builder", "-", "UNRESOLVED: the function building the key-mismatch reply was not found")
	}
}

// underInputLengthGuard: block b is reached only through the taken edge of a comparison between
// len(<the input parameter>) and a constant (the decoder's minimum-size guard).
func underInputLengthGuard(b *ssa.BasicBlock, fn *ssa.Function) bool {
	for d := b; d != nil; d = d.Idom() {
		id := d.Idom()
		if id == nil {
			return false
		}
		iff, ok := id.Instrs[len(id.Instrs)-1].(*ssa.If)
		if !ok {
			continue
		}
		bo, ok := iff.Cond.(*ssa.BinOp)
		if !ok {
			return false
		}
		isLenOfInput := func(v ssa.Value) bool {
			c, ok := v.(*ssa.Call)
			if !ok {
				return false
			}
			bi, ok := c.Common().Value.(*ssa.Builtin)
			if !ok || bi.Name() != "len" {
				return false
			}
			a := c.Common().Args[0]
			if len(fn.Params) < 2 {
				return false
			}
			return a == ssa.Value(fn.Params[1])
		}
		_, cx := constInt(bo.X)
		_, cy := constInt(bo.Y)
		return (isLenOfInput(bo.X) && cy) || (isLenOfInput(bo.Y) && cx)
	}
	return false
}

// candidateLists: the data-driven dispatch shared by the detector and Request.Fields: each header-type case selects a
// literal list of fresh body values, and one loop decodes into the elements of the selected list. Returns the body
// type names per header type value, the trial call and the list value.
func candidateLists(D *ssa.Function, cases map[int64]*ssa.BasicBlock, allowNone bool) (map[int64][]string, *ssa.Call, ssa.Value, bool, string) {
	// the literal lists
	litNames := func(v ssa.Value) ([]string, bool) {
		sl, ok := v.(*ssa.Slice)
		if !ok || sl.Low != nil || sl.High != nil {
			return nil, false
		}
		arr, ok := sl.X.(*ssa.Alloc)
		if !ok {
			return nil, false
		}
		at, ok := arr.Type().(*types.Pointer).Elem().Underlying().(*types.Array)
		if !ok {
			return nil, false
		}
		names := make([]string, at.Len())
		for _, rf := range refsOf(arr) {
			switch x := rf.(type) {
			case *ssa.IndexAddr:
				k, okk := constInt(x.Index)
				if !okk || k < 0 || k >= at.Len() {
					return nil, false
				}
				for _, r2 := range refsOf(x) {
					st, ok := r2.(*ssa.Store)
					if !ok || st.Addr != ssa.Value(x) {
						return nil, false
					}
					mi, ok := st.Val.(*ssa.MakeInterface)
					if !ok {
						return nil, false
					}
					a, ok := mi.X.(*ssa.Alloc)
					if !ok || len(allocStores(a)) > 0 {
						return nil, false
					}
					n := namedOf(a.Type().(*types.Pointer).Elem())
					if n == nil || names[k] != "" {
						return nil, false
					}
					names[k] = n.Obj().Name()
				}
			case *ssa.Slice, *ssa.DebugRef:
			default:
				return nil, false
			}
		}
		for _, n := range names {
			if n == "" {
				return nil, false
			}
		}
		return names, true
	}
	// the trial: Unmarshal(p.Body, list[i]) inside a loop over the whole list
	var trial *ssa.Call
	var list ssa.Value
	for _, c := range allCalls(D) {
		call, ok := c.(*ssa.Call)
		if !ok {
			continue
		}
		f := call.Common().StaticCallee()
		if f == nil || f.Name() != "Unmarshal" || f.Signature.Recv() != nil || f.Pkg == nil || f.Pkg.Pkg.Path() != modPath || len(call.Common().Args) != 2 {
			continue
		}
		u, ok := call.Common().Args[1].(*ssa.UnOp)
		if !ok || u.Op != token.MUL {
			continue
		}
		ia, ok := u.X.(*ssa.IndexAddr)
		if !ok || !isAscendingIndex(ia.Index) {
			continue
		}
		if trial != nil {
			return nil, nil, nil, false, "more than one trial loop"
		}
		trial, list = call, ia.X
	}
	if trial == nil {
		return nil, nil, nil, false, ""
	}
	out := map[int64][]string{}
	srcs := phiSources(list)
	for _, src := range srcs {
		if allowNone && isNilConst(src) {
			continue // no candidates for the remaining header types
		}
		names, ok := litNames(src)
		if !ok {
			return nil, nil, nil, false, "the candidate list is not chosen among literal lists of fresh body values"
		}
		sort.Strings(names)
		blk := src.(ssa.Instruction).Block()
		found := false
		for tv, cb := range cases {
			if cb == blk || cb.Dominates(blk) {
				if _, dup := out[tv]; dup {
					return nil, nil, nil, false, "two candidate lists for one header type"
				}
				out[tv] = names
				found = true
			}
		}
		if !found {
			return nil, nil, nil, false, "a candidate list is built outside the header-type cases"
		}
	}
	return out, trial, list, true, ""
}

// tableDrivenDetector recognises the detector written with data: each header-type case selects a literal list
// of fresh body values ([]EncoderDecoder{&T1{}, &T2{}}), one loop decodes the packet body into every element
// of the selected list, counts the trials whose error is a BadSecretErr, and the count is compared with the
// length of the list. Returns the body type names per header type value, and whether the loop and the
// comparison have that exact shape.
func tableDrivenDetector(D *ssa.Function, cases map[int64]*ssa.BasicBlock) (map[int64][]string, bool, string) {
	out, trial, list, ok, why := candidateLists(D, cases, false)
	if !ok {
		return nil, false, why
	}
	if !fieldIsBodyOfParamPacket(trial.Common().Args[0]) {
		return out, false, "the trials do not decode the packet's body"
	}
	// the loop visits every index below len(list): its head test compares the index with len(list)
	visitsAll := false
	var exitBlock *ssa.BasicBlock
	for _, b := range D.Blocks {
		iff, ok := b.Instrs[len(b.Instrs)-1].(*ssa.If)
		if !ok || !blockReachFromSelf(b) {
			continue
		}
		bo, ok := iff.Cond.(*ssa.BinOp)
		if !ok || bo.Op != token.LSS || !isAscendingIndex(bo.X) {
			continue
		}
		if lc, ok := bo.Y.(*ssa.Call); ok {
			if bi, ok := lc.Common().Value.(*ssa.Builtin); ok && bi.Name() == "len" && lc.Common().Args[0] == list {
				if b.Succs[0] == trial.Block() || b.Succs[0].Dominates(trial.Block()) {
					visitsAll = true
					exitBlock = b.Succs[1]
				}
			}
		}
	}
	if !visitsAll {
		return out, false, "the loop does not run over every index below len(list)"
	}
	// no other way out of the loop than its head
	for _, b := range D.Blocks {
		if !blockReachFromSelf(b) || !(trial.Block() == b || blockReach(b, nil)[trial.Block()]) {
			continue
		}
		if _, isRet := b.Instrs[len(b.Instrs)-1].(*ssa.Return); isRet {
			return out, false, "the loop is left early"
		}
	}
	// the comparison after the loop: count == len(list) leads to the reply
	okCmp := false
	for _, b := range D.Blocks {
		if !(exitBlock == b || exitBlock.Dominates(b)) {
			continue
		}
		iff, ok := b.Instrs[len(b.Instrs)-1].(*ssa.If)
		if !ok {
			continue
		}
		bo, ok := iff.Cond.(*ssa.BinOp)
		if !ok || (bo.Op != token.EQL && bo.Op != token.NEQ) {
			continue
		}
		cnt, ln := bo.X, bo.Y
		if _, isCall := cnt.(*ssa.Call); isCall {
			cnt, ln = ln, cnt
		}
		lc, ok := ln.(*ssa.Call)
		if !ok {
			continue
		}
		if bi, ok := lc.Common().Value.(*ssa.Builtin); !ok || bi.Name() != "len" || lc.Common().Args[0] != list {
			continue
		}
		if _, isPhi := cnt.(*ssa.Phi); !isPhi || !countIncrementsUnderAs(cnt, []*ssa.Call{trial}) {
			return out, false, "the value compared with len(list) is not the count of trials failing with the length-sum error"
		}
		eq := b.Succs[0]
		ne := b.Succs[1]
		if bo.Op == token.NEQ {
			eq, ne = ne, eq
		}
		// the unequal edge answers 'no mismatch'
		if ret, ok := ne.Instrs[len(ne.Instrs)-1].(*ssa.Return); ok && len(ret.Results) == 2 && isNilConst(ret.Results[0]) && isNilConst(ret.Results[1]) && len(ne.Instrs) <= 2 {
			okCmp = true
		}
		_ = eq
	}
	if !okCmp {
		return out, false, "no 'count == len(list)' test after the loop whose unequal edge answers 'no mismatch'"
	}
	return out, true, ""
}

// fieldIsBodyOfParamPacket: v is p.Body of a *Packet parameter.
func fieldIsBodyOfParamPacket(v ssa.Value) bool {
	f, base, ok := loadedField(v)
	if !ok || f.Name() != "Body" {
		return false
	}
	_, isParam := base.(*ssa.Parameter)
	return isParam && isPacketPtr(base.Type())
}

// hoistedThreshold: the detector compares two values merged behind the type switch, count ==/!= layouts, where the
// unequal side answers 'no mismatch'. Returns, for the case starting at cb, the constant number of layouts and the
// count value that flow in from that case.
func hoistedThreshold(D *ssa.Function, cb *ssa.BasicBlock) (int64, []ssa.Value) {
	for _, b := range D.Blocks {
		iff, ok := b.Instrs[len(b.Instrs)-1].(*ssa.If)
		if !ok {
			continue
		}
		bo, ok := iff.Cond.(*ssa.BinOp)
		if !ok || (bo.Op != token.EQL && bo.Op != token.NEQ && bo.Op != token.LSS && bo.Op != token.GEQ) {
			continue
		}
		px, okx := bo.X.(*ssa.Phi)
		py, oky := bo.Y.(*ssa.Phi)
		if !okx || !oky || px.Block() != py.Block() || !(px.Block() == b || px.Block().Dominates(b)) {
			continue
		}
		// the unequal side answers (nil, nil); 'count < layouts' is the same test, the count being raised at most
		// once per trial (checked by the caller)
		ordered := bo.Op == token.LSS || bo.Op == token.GEQ
		ne := b.Succs[1]
		if bo.Op == token.NEQ || bo.Op == token.LSS {
			ne = b.Succs[0]
		}
		ret, ok := ne.Instrs[len(ne.Instrs)-1].(*ssa.Return)
		if !ok || len(ret.Results) != 2 || !isNilConst(ret.Results[0]) || !isNilConst(ret.Results[1]) || len(ne.Instrs) > 2 {
			continue
		}
		thr := int64(-1)
		var cnts []ssa.Value
		consistent := true
		for i, pred := range px.Block().Preds {
			if !(pred == cb || cb.Dominates(pred)) {
				continue
			}
			cx, isCx := constInt(px.Edges[i])
			cy, isCy := constInt(py.Edges[i])
			var k int64
			var v ssa.Value
			switch {
			case isCy && !isCx:
				k, v = cy, px.Edges[i]
			case isCx && !isCy && !ordered:
				k, v = cx, py.Edges[i]
			default:
				consistent = false
				continue
			}
			if thr >= 0 && thr != k {
				consistent = false
			}
			thr = k
			cnts = append(cnts, v)
		}
		if consistent && len(cnts) > 0 {
			return thr, cnts
		}
	}
	return -1, nil
}
