package main

import (
	"fmt"
	"go/token"
	"go/types"

	"golang.org/x/tools/go/ssa"
)

// R-NOBLOCK (C17): a connection goroutine must not be able to block forever on a channel, or Serve's Wait
// never returns. For every blocking channel operation (plain send or receive, not a select state) in the
// functions a connection goroutine can execute:
//   - a send on a channel held in a struct field: every function that receives from that field does so in a
//     goroutine whose function has no reachable return (the service loop lives as long as the process), so
//     the send always finds its receiver;
//   - a receive from a channel that was made in the same function and handed over inside a value sent on
//     such a service channel (the per-request reply channel): the goroutine the service loop starts for a
//     request sends on that channel on every path to its return.
func ruleNoBlock(p *Program, r *Result) {
	rp := p.requestPath()
	n := 0
	for fn := range rp {
		if p.isTestFile(fn.Pos()) {
			continue
		}
		for _, b := range fn.Blocks {
			for _, in := range b.Instrs {
				switch x := in.(type) {
				case *ssa.Send:
					f, _, ok := loadedField(x.Chan)
					if !ok {
						continue // local channel: not a rendez-vous with a service
					}
					n++
					key := fmt.Sprintf("%s:send:%s", fnKey(fn), f.Name())
					recvFns := channelReceivers(p, f)
					if len(recvFns) == 0 {
						r.bad("R-NOBLOCK", key, p.Pos(x.Pos()), "blocking send on field channel %s which nothing receives from", f.Name())
						continue
					}
					bad := ""
					for _, g := range recvFns {
						if ex := exitBlocks(g); len(ex) > 0 {
							last := ex[0].Instrs[len(ex[0].Instrs)-1]
							bad = fmt.Sprintf("%s, which receives from it, can return (at %s)", fnKey(g), p.Pos(last.Pos()))
						}
					}
					r.cond(bad == "", "R-NOBLOCK", key, p.Pos(x.Pos()),
						fmt.Sprintf("the blocking send on %s always finds its receiver: the %d function(s) receiving from that field never return", f.Name(), len(recvFns)),
						fmt.Sprintf("the connection goroutine sends on %s without an alternative, but %s: a connection accepted after that blocks forever, never calls Done and Serve never returns", f.Name(), bad))
					// the reply: a receive in this function from a channel made here and sent along
					ruleReplyChannel(p, r, fn, x)
				}
			}
		}
	}
	if n == 0 {
		r.undecided("R-NOBLOCK", "sends", "-", "no blocking send on a service channel found on the connection path (the lookup rendez-vous moved out of reach)")
	}
}

// channelReceivers: functions of the universe that receive (select state or plain receive) from field f.
func channelReceivers(p *Program, f *types.Var) []*ssa.Function {
	var out []*ssa.Function
	seen := map[*ssa.Function]bool{}
	for _, g := range p.UUnits() {
		for _, b := range g.Blocks {
			for _, in := range b.Instrs {
				var ch ssa.Value
				switch x := in.(type) {
				case *ssa.Select:
					for _, st := range x.States {
						if st.Dir == types.RecvOnly {
							if ff, _, ok := loadedField(st.Chan); ok && ff == f && !seen[g] {
								seen[g] = true
								out = append(out, g)
							}
						}
					}
				case *ssa.UnOp:
					if x.Op == token.ARROW {
						ch = x.X
					}
				}
				if ch != nil {
					if ff, _, ok := loadedField(ch); ok && ff == f && !seen[g] {
						seen[g] = true
						out = append(out, g)
					}
				}
			}
		}
	}
	return out
}

// ruleReplyChannel: fn sends a request value on a service channel and then blocks receiving the answer from
// a channel it made itself and placed in that value; the goroutine the service starts per request must send
// on that field on every path.
func ruleReplyChannel(p *Program, r *Result, fn *ssa.Function, send *ssa.Send) {
	for _, b := range fn.Blocks {
		for _, in := range b.Instrs {
			u, ok := in.(*ssa.UnOp)
			if !ok || u.Op != token.ARROW || !domInstr(send, u) {
				continue
			}
			cf, _, ok := loadedField(u.X)
			if !ok {
				continue
			}
			key := fmt.Sprintf("%s:reply:%s", fnKey(fn), cf.Name())
			// the answering goroutines: go-started functions in the universe that send on field cf
			answered := 0
			bad := ""
			for _, e := range p.goEntries() {
				g := p.view(e.fn)
				var sends []*ssa.Send
				for _, gb := range g.Blocks {
					for _, gi := range gb.Instrs {
						if s, ok := gi.(*ssa.Send); ok {
							if ff, _, ok := loadedField(s.Chan); ok && ff == cf {
								sends = append(sends, s)
							}
						}
					}
				}
				if len(sends) == 0 {
					continue
				}
				answered++
				// every return is preceded by one of the sends
				sb := map[*ssa.BasicBlock]bool{}
				for _, s := range sends {
					sb[s.Block()] = true
				}
				for _, ex := range exitBlocks(g) {
					if !sb[ex] && blockReach(g.Blocks[0], sb)[ex] {
						bad = fmt.Sprintf("%s can return (at %s) without answering", fnKey(g), p.Pos(ex.Instrs[len(ex.Instrs)-1].Pos()))
					}
				}
			}
			if answered == 0 {
				r.bad("R-NOBLOCK", key, p.Pos(u.Pos()), "the connection goroutine waits on %s but no goroutine sends on it", cf.Name())
				continue
			}
			r.cond(bad == "", "R-NOBLOCK", key, p.Pos(u.Pos()),
				fmt.Sprintf("the goroutine started for each request sends on %s on every path to its return: the waiting connection goroutine is always released", cf.Name()),
				fmt.Sprintf("the connection goroutine waits on %s, but %s: it would block forever and Serve would never return", cf.Name(), bad))
		}
	}
}
