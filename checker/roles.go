package main

import (
	"fmt"
	"go/types"
	"sort"

	"golang.org/x/tools/go/ssa"
)

// Roles are the anchors of DESIGN §2.3, found through the resolved program
// (callee identity, types), never by file position or by the names of module functions.
type Roles struct {
	Readers   []*ssa.Function // root functions calling io.ReadFull (the stream reader)
	Writers   []*ssa.Function // root functions invoking net.Conn.Write (the stream writer)
	Loops     []*ssa.Function // functions calling a reader and invoking Handler.Handle (the connection loop)
	Serves    []*ssa.Function // functions invoking Accept and spawning a goroutine
	ConnFns   []*ssa.Function // goroutine entry functions spawned by a Serve function
	PadFns    []*ssa.Function // functions calling crypto/md5.New
	Detectors []*ssa.Function // functions that try body decoders and call errors.As on *BadSecretErr
	err       []string
}

func isFuncNamed(f *ssa.Function, pkg, name string) bool {
	return f != nil && f.Pkg != nil && f.Pkg.Pkg.Path() == pkg && f.Name() == name && f.Signature.Recv() == nil
}

func callsPkgFunc(fn *ssa.Function, pkg, name string) []ssa.CallInstruction {
	var out []ssa.CallInstruction
	for _, c := range allCalls(fn) {
		if f := c.Common().StaticCallee(); f != nil && isFuncNamed(f, pkg, name) {
			out = append(out, c)
		}
	}
	return out
}

// invokesOn lists interface calls of method name on a value whose type's method set comes from iface pkg.type.
func invokesNamed(fn *ssa.Function, method string) []ssa.CallInstruction {
	var out []ssa.CallInstruction
	for _, c := range allCalls(fn) {
		if cc := c.Common(); cc.IsInvoke() && cc.Method.Name() == method {
			out = append(out, c)
		}
	}
	return out
}

func isNetConn(t types.Type) bool     { return typeIs(t, "net", "Conn") }
func isNetListener(t types.Type) bool { return typeIs(t, "net", "Listener") }

func (p *Program) Roles() *Roles {
	if p.roles != nil {
		return p.roles
	}
	ro := &Roles{}
	rootFns := p.FuncsIn(func(path string) bool { return path == modPath })
	isReader := map[*ssa.Function]bool{}
	for _, f := range rootFns {
		if len(callsPkgFunc(f, "io", "ReadFull")) > 0 {
			ro.Readers = append(ro.Readers, f)
			isReader[f] = true
		}
		for _, c := range invokesNamed(f, "Write") {
			if isNetConn(c.Common().Value.Type()) {
				ro.Writers = append(ro.Writers, f)
				break
			}
		}
		if len(callsPkgFunc(f, "crypto/md5", "New")) > 0 {
			ro.PadFns = append(ro.PadFns, f)
		}
	}
	hn := p.lookupType("", "Handler")
	for _, f := range rootFns {
		callsReader := false
		for _, c := range allCalls(f) {
			if isReader[c.Common().StaticCallee()] {
				callsReader = true
			}
		}
		if callsReader && hn != nil {
			for _, c := range invokesNamed(f, "Handle") {
				if types.Identical(c.Common().Value.Type(), hn) {
					ro.Loops = append(ro.Loops, f)
					break
				}
			}
		}
		acc := false
		for _, c := range invokesNamed(f, "Accept") {
			_ = c
			acc = true
		}
		if acc {
			var gos []*ssa.Function
			for _, b := range f.Blocks {
				for _, in := range b.Instrs {
					if g, ok := in.(*ssa.Go); ok {
						if cf := g.Call.StaticCallee(); cf != nil {
							gos = append(gos, cf)
						}
					}
				}
			}
			if len(gos) > 0 {
				ro.Serves = append(ro.Serves, f)
				ro.ConnFns = append(ro.ConnFns, gos...)
			}
		}
		// bad-secret detector: errors.As calls with a **BadSecretErr target
		n := 0
		for _, c := range callsPkgFunc(f, "errors", "As") {
			args := c.Common().Args
			if len(args) == 2 {
				if mi, ok := args[1].(*ssa.MakeInterface); ok {
					if pt, ok := mi.X.Type().(*types.Pointer); ok && typeIs(pt.Elem(), modPath, "BadSecretErr") {
						n++
					}
				}
			}
		}
		if n > 0 {
			ro.Detectors = append(ro.Detectors, f)
		}
	}
	need := func(name string, n int) {
		if n == 0 {
			ro.err = append(ro.err, "UNRESOLVED role: "+name)
		}
	}
	need("stream reader (root function calling io.ReadFull)", len(ro.Readers))
	need("stream writer (root function invoking net.Conn.Write)", len(ro.Writers))
	need("connection loop (calls the reader and invokes Handler.Handle)", len(ro.Loops))
	need("accept loop (invokes Accept and spawns a goroutine)", len(ro.Serves))
	need("pad function (calls crypto/md5.New)", len(ro.PadFns))
	need("bad-secret detector (errors.As on *BadSecretErr)", len(ro.Detectors))
	for _, l := range [][]*ssa.Function{ro.Readers, ro.Writers, ro.Loops, ro.Serves, ro.ConnFns, ro.PadFns, ro.Detectors} {
		sort.Slice(l, func(i, j int) bool { return l[i].String() < l[j].String() })
	}
	p.roles = ro
	return ro
}

// rolesOK records unresolved anchors as undecided obligations.
func rolesOK(p *Program, r *Result) *Roles {
	ro := p.Roles()
	for _, e := range ro.err {
		r.undecided("ROLES", e, "-", "%s: an anchor of this property could not be found in the type-checked program; the property is undecided", e)
	}
	return ro
}

func fnList(fs []*ssa.Function) string {
	s := ""
	for i, f := range fs {
		if i > 0 {
			s += ", "
		}
		s += fnKey(f)
	}
	return fmt.Sprintf("[%s]", s)
}
