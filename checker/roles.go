package main

import (
	"fmt"
	"go/types"
	"sort"

	"golang.org/x/tools/go/ssa"
)

// Roles are the anchors of DESIGN §2.3, found through the resolved program
// (callee identity, types), never by file position or by the names of module functions.
type Roles struct {
	Readers   []*ssa.Function // root functions calling io.ReadFull (the stream reader)
	Writers   []*ssa.Function // root functions invoking net.Conn.Write (the stream writer)
	Loops     []*ssa.Function // functions calling a reader and invoking Handler.Handle (the connection loop)
	Serves    []*ssa.Function // functions invoking Accept and spawning a goroutine
	ConnFns   []*ssa.Function // goroutine entry functions spawned by a Serve function
	PadFns    []*ssa.Function // functions calling crypto/md5.New
	Detectors []*ssa.Function // functions that try body decoders and call errors.As on *BadSecretErr
	err       []string
}

func isFuncNamed(f *ssa.Function, pkg, name string) bool {
	return f != nil && f.Pkg != nil && f.Pkg.Pkg.Path() == pkg && f.Name() == name && f.Signature.Recv() == nil
}

func callsPkgFunc(fn *ssa.Function, pkg, name string) []ssa.CallInstruction {
	var out []ssa.CallInstruction
	for _, c := range allCalls(fn) {
		if f := c.Common().StaticCallee(); f != nil && isFuncNamed(f, pkg, name) {
			out = append(out, c)
		}
	}
	return out
}

// invokesOn lists interface calls of method name on a value whose type's method set comes from iface pkg.type.
func invokesNamed(fn *ssa.Function, method string) []ssa.CallInstruction {
	var out []ssa.CallInstruction
	for _, c := range allCalls(fn) {
		if cc := c.Common(); cc.IsInvoke() && cc.Method.Name() == method {
			out = append(out, c)
		}
	}
	return out
}

func isNetConn(t types.Type) bool     { return typeIs(t, "net", "Conn") }
func isNetListener(t types.Type) bool { return typeIs(t, "net", "Listener") }

// sigHas reports whether f's signature has a parameter (receiver excluded) / result of the given shape.
func resultsAre(f *ssa.Function, preds ...func(types.Type) bool) bool {
	res := f.Signature.Results()
	if res.Len() != len(preds) {
		return false
	}
	for i, pr := range preds {
		if !pr(res.At(i).Type()) {
			return false
		}
	}
	return true
}

func isPacketPtr(t types.Type) bool {
	pt, ok := t.(*types.Pointer)
	return ok && typeIs(pt.Elem(), modPath, "Packet")
}

func isIntType(t types.Type) bool {
	b, ok := t.Underlying().(*types.Basic)
	return ok && b.Kind() == types.Int
}

func hasParam(f *ssa.Function, pred func(types.Type) bool) bool {
	ps := f.Signature.Params()
	for i := 0; i < ps.Len(); i++ {
		if pred(ps.At(i).Type()) {
			return true
		}
	}
	return false
}

func isByteSlice(t types.Type) bool {
	sl, ok := t.Underlying().(*types.Slice)
	if !ok {
		return false
	}
	b, ok := sl.Elem().Underlying().(*types.Basic)
	return ok && b.Kind() == types.Uint8
}

// computeProtected: functions the rules address as units of their own, decided from their signatures and
// types only (never from names): stream endpoints, constructors, session-table methods, handler entry
// points and states, goroutine targets.
func (p *Program) computeProtected() {
	sid := p.lookupType("", "SessionID")
	respI := p.lookupType("", "Response")
	reqT := p.lookupType("", "Request")
	goTargets := map[*ssa.Function]bool{}
	for _, f := range p.UFuncs() {
		for _, b := range f.Blocks {
			for _, in := range b.Instrs {
				if g, ok := in.(*ssa.Go); ok {
					if cf := g.Call.StaticCallee(); cf != nil {
						goTargets[cf] = true
					}
				}
			}
		}
	}
	for _, f := range p.UFuncs() {
		sig := f.Signature
		prot := false
		switch {
		case goTargets[f]:
			prot = true
		case resultsAre(f, isPacketPtr, isErrorType):
			// reader, detector, mismatch reply builder: the innermost function of that shape that does the
			// work itself (a wrapper that merely calls another function of the same shape is a helper)
			same := func(g *ssa.Function) bool { return resultsAre(g, isPacketPtr, isErrorType) }
			// detector and reply builder: the innermost function that does the work itself
			prot = p.reachesPrimitive(f, same, func(c ssa.CallInstruction) bool {
				cf := c.Common().StaticCallee()
				return isFuncNamed(cf, "errors", "As") || isFuncNamed(cf, modPath, "NewPacket")
			}, 4)
			// stream reader: the outermost function of the shape that gets to io.ReadFull - a reader split into
			// steps (strip the proxy line, read the frame, reject a bad key) is one reader, its steps are helpers
			// (a function of the shape on another object that merely calls this object's reader is a wrapper)
			readsFull := func(g *ssa.Function) bool {
				otherObjectsReader := func(h *ssa.Function) bool {
					if !same(h) {
						return false
					}
					if h.Signature.Recv() == nil || g.Signature.Recv() == nil {
						return h.Signature.Recv() != g.Signature.Recv()
					}
					return !types.Identical(derefT(h.Signature.Recv().Type()), derefT(g.Signature.Recv().Type()))
				}
				return p.reachesPrimitive(g, otherObjectsReader, func(c ssa.CallInstruction) bool {
					return isFuncNamed(c.Common().StaticCallee(), "io", "ReadFull")
				}, 4)
			}
			if readsFull(f) {
				inner := false
				if node := p.cgNode(f); node != nil {
					for _, e := range node.In {
						g := e.Caller.Func
						if g == nil || e.Site == nil || p.isTestFile(g.Pos()) || e.Site.Common().StaticCallee() != f {
							continue
						}
						// a step of another method of the same object
						if g.Pkg == f.Pkg && same(g) && g != f && g.Signature.Recv() != nil && f.Signature.Recv() != nil &&
							types.Identical(derefT(g.Signature.Recv().Type()), derefT(f.Signature.Recv().Type())) {
							inner = true
						}
					}
				}
				if !inner {
					prot = true
				}
			}
		case resultsAre(f, isIntType, isErrorType) && hasParam(f, isPacketPtr):
			same := func(g *ssa.Function) bool { return resultsAre(g, isIntType, isErrorType) && hasParam(g, isPacketPtr) }
			prot = p.reachesPrimitive(f, same, func(c ssa.CallInstruction) bool {
				cc := c.Common()
				return cc.IsInvoke() && cc.Method.Name() == "Write" && isNetConn(cc.Value.Type())
			}, 4) // writer
		case resultsAre(f, isErrorType) && hasParam(f, isPacketPtr) && hasParam(f, isByteSlice):
			prot = true // pad function
		}
		// handler entry points and continuation states: (Response, Request)
		// (a function of that parameter list that returns something - "did I answer?" - is a step of a state, not a state)
		if respI != nil && reqT != nil && sig.Params().Len() == 2 && sig.Results().Len() == 0 && types.Identical(sig.Params().At(0).Type(), respI) && types.Identical(sig.Params().At(1).Type(), reqT) {
			prot = true
		}
		// verdict functions of a handler object: methods without parameters, returning values (not just an
		// error), on a type that has a Handle(Response, Request) method - the policy evaluators
		if rv := sig.Recv(); rv != nil && sig.Params().Len() == 0 && sig.Results().Len() >= 1 && !isErrorType(sig.Results().At(0).Type()) && respI != nil && reqT != nil {
			ms := p.SSA.MethodSets.MethodSet(rv.Type())
			if sel := ms.Lookup(f.Pkg.Pkg, "Handle"); sel != nil {
				if hs, ok := sel.Type().(*types.Signature); ok && hs.Params().Len() == 2 && types.Identical(hs.Params().At(0).Type(), respI) {
					if f.Name() != "Context" && !tinyPure(f) {
						prot = true
					}
				}
			}
		}
		// primitives of a byte cursor: methods on a named []byte type that index or reslice the receiver
		// themselves (their bounds are proved once, in their own body, from what their callers guarantee)
		if rv := sig.Recv(); rv != nil && isByteSlice(derefT(rv.Type())) && len(f.Params) > 0 {
			for _, b := range f.Blocks {
				for _, in := range b.Instrs {
					var base ssa.Value
					switch x := in.(type) {
					case *ssa.IndexAddr:
						base = x.X
					case *ssa.Slice:
						base = x.X
					}
					if u, ok := base.(*ssa.UnOp); ok && u.X == ssa.Value(f.Params[0]) {
						prot = true
					}
				}
			}
		}
		// constructors: return a pointer to a struct of their own package that they allocate
		if sig.Results().Len() >= 1 {
			if pt, ok := sig.Results().At(0).Type().(*types.Pointer); ok {
				if n, ok := pt.Elem().(*types.Named); ok && f.Pkg != nil && n.Obj().Pkg() == f.Pkg.Pkg {
					if _, isStruct := n.Underlying().(*types.Struct); isStruct && sig.Recv() == nil && allocatesType(f, n) {
						prot = true
						// an unexported constructor with a single call site is that caller's own literal moved
						// into a function: a helper
						// (only when that site lies in a loop: objects made once per function call - the
						// per-connection table, the stream wrapper - are addressed by the rules as calls)
						if f.Object() != nil && !f.Object().Exported() && p.staticCallSites(f) == 1 {
							prot = false
						}
					}
				}
			}
		}
		// methods of the session table (a struct holding a map keyed by the session id)
		if rv := sig.Recv(); rv != nil && sid != nil {
			if st, ok := derefT(rv.Type()).Underlying().(*types.Struct); ok {
				for i := 0; i < st.NumFields(); i++ {
					if m, ok := st.Field(i).Type().Underlying().(*types.Map); ok && types.Identical(m.Key(), sid) {
						// only the methods that the connection loop itself calls are units; helpers of
						// those (called only by other methods of the table) are folded
						prot = p.calledFromOutsideType(f, rv.Type())
					}
				}
			}
		}
		if prot {
			p.prot[f] = true
		}
	}
}

// staticCallSites: the number of static calls of f outside tests; -1 if f is also reached dynamically or by go/defer.
func (p *Program) staticCallSites(f *ssa.Function) int {
	node := p.CallGraph().Nodes[f]
	if node == nil {
		return 0
	}
	n := 0
	for _, e := range node.In {
		c := e.Caller.Func
		if c == nil || e.Site == nil || p.isTestFile(c.Pos()) {
			continue
		}
		if _, isCall := e.Site.(*ssa.Call); !isCall || e.Site.Common().StaticCallee() != f {
			return -1
		}
		n++
	}
	return n
}

// allocatesType: f itself allocates a value of the named struct type (a wrapper around another constructor does not).
func allocatesType(f *ssa.Function, n *types.Named) bool {
	for _, b := range f.Blocks {
		for _, in := range b.Instrs {
			if a, ok := in.(*ssa.Alloc); ok {
				if pt, ok := a.Type().(*types.Pointer); ok && types.Identical(pt.Elem(), n) {
					return true
				}
			}
		}
	}
	return false
}

func (p *Program) soleSiteInLoop(f *ssa.Function) bool {
	node := p.CallGraph().Nodes[f]
	if node == nil {
		return false
	}
	for _, e := range node.In {
		c := e.Caller.Func
		if c == nil || e.Site == nil || p.isTestFile(c.Pos()) {
			continue
		}
		return p.runsPerIteration(e.Site, 3)
	}
	return false
}

// runsPerIteration: the call site lies in a loop, or in an unexported function every call of which does.
func (p *Program) runsPerIteration(site ssa.CallInstruction, depth int) bool {
	if blockReachFromSelf(site.Block()) {
		return true
	}
	if depth == 0 {
		return false
	}
	g := site.Parent()
	if g == nil || g.Object() == nil || g.Object().Exported() {
		return false
	}
	node := p.CallGraph().Nodes[g]
	if node == nil {
		return false
	}
	n := 0
	for _, e := range node.In {
		c := e.Caller.Func
		if c == nil || e.Site == nil || p.isTestFile(c.Pos()) {
			continue
		}
		if e.Site.Common().StaticCallee() != g {
			return false
		}
		if _, isCall := e.Site.(*ssa.Call); !isCall {
			return false
		}
		if !p.runsPerIteration(e.Site, depth-1) {
			return false
		}
		n++
	}
	return n > 0
}

// reachesPrimitive: f performs a call satisfying prim itself or through unexported callees of its package
// that do not have the same endpoint shape.
func (p *Program) reachesPrimitive(f *ssa.Function, sameShape func(*ssa.Function) bool, prim func(ssa.CallInstruction) bool, depth int) bool {
	if f == nil || depth == 0 || len(f.Blocks) == 0 {
		return false
	}
	for _, c := range allCalls(f) {
		if prim(c) {
			return true
		}
		g := c.Common().StaticCallee()
		if g == nil || g == f || g.Pkg != f.Pkg || sameShape(g) {
			continue
		}
		if p.reachesPrimitive(g, sameShape, prim, depth-1) {
			return true
		}
	}
	return false
}

// calledFromOutsideType: f has a static caller that is not a method of the same receiver type.
func (p *Program) calledFromOutsideType(f *ssa.Function, recv types.Type) bool {
	node := p.cgNode(f)
	if node == nil {
		return true
	}
	for _, e := range node.In {
		c := e.Caller.Func
		if c == nil || p.isTestFile(c.Pos()) || e.Site == nil || e.Site.Common().StaticCallee() != f {
			continue
		}
		if c.Signature.Recv() == nil || !types.Identical(derefT(c.Signature.Recv().Type()), derefT(recv)) {
			return true
		}
	}
	return false
}

func (p *Program) Roles() *Roles {
	if p.roles != nil {
		return p.roles
	}
	gProg = p
	ro := &Roles{}
	rootFns := p.FuncsIn(func(path string) bool { return path == modPath })
	isReader := map[*ssa.Function]bool{}
	for _, f0 := range rootFns {
		if p.useViews && p.folded(f0) {
			continue // a step of another function: it has no role of its own
		}
		f := p.view(f0)
		if resultsAre(f0, isPacketPtr, isErrorType) && len(callsPkgFunc(f, "io", "ReadFull")) > 0 {
			ro.Readers = append(ro.Readers, f)
			isReader[f0] = true
		}
		if resultsAre(f0, isIntType, isErrorType) && hasParam(f0, isPacketPtr) {
			for _, c := range invokesNamed(f, "Write") {
				if isNetConn(c.Common().Value.Type()) {
					ro.Writers = append(ro.Writers, f)
					break
				}
			}
		}
		if resultsAre(f0, isErrorType) && hasParam(f0, isPacketPtr) && hasParam(f0, isByteSlice) && len(callsPkgFunc(f, "crypto/md5", "New")) > 0 {
			ro.PadFns = append(ro.PadFns, f)
		}
	}
	hn := p.lookupType("", "Handler")
	for _, f0 := range rootFns {
		f := p.view(f0)
		callsReader := false
		for _, c := range allCalls(f) {
			if isReader[c.Common().StaticCallee()] {
				callsReader = true
			}
		}
		if callsReader && hn != nil && !p.isHelper(f0, f0) {
			for _, c := range invokesNamed(f, "Handle") {
				if types.Identical(c.Common().Value.Type(), hn) {
					ro.Loops = append(ro.Loops, f)
					break
				}
			}
		}
		acc := false
		for _, c := range invokesNamed(f, "Accept") {
			_ = c
			acc = true
		}
		if acc && !p.isHelper(f0, f0) {
			var gos []*ssa.Function
			for _, b := range f.Blocks {
				for _, in := range b.Instrs {
					if g, ok := in.(*ssa.Go); ok {
						if cf := g.Call.StaticCallee(); cf != nil {
							gos = append(gos, p.view(cf))
						}
					}
				}
			}
			if len(gos) > 0 {
				ro.Serves = append(ro.Serves, f)
				ro.ConnFns = append(ro.ConnFns, gos...)
			}
		}
		// bad-secret detector: errors.As calls with a **BadSecretErr target
		n := 0
		for _, c := range callsPkgFunc(f, "errors", "As") {
			args := c.Common().Args
			if len(args) == 2 {
				if mi, ok := args[1].(*ssa.MakeInterface); ok {
					if pt, ok := mi.X.Type().(*types.Pointer); ok && typeIs(pt.Elem(), modPath, "BadSecretErr") {
						n++
					}
				}
			}
		}
		if n > 0 && resultsAre(f0, isPacketPtr, isErrorType) {
			ro.Detectors = append(ro.Detectors, f)
		}
	}
	need := func(name string, n int) {
		if n == 0 {
			ro.err = append(ro.err, "UNRESOLVED role: "+name)
		}
	}
	need("stream reader (function returning (*Packet, error) that calls io.ReadFull)", len(ro.Readers))
	need("stream writer (function taking a *Packet that invokes net.Conn.Write)", len(ro.Writers))
	need("connection loop (calls the reader and invokes Handler.Handle)", len(ro.Loops))
	need("accept loop (invokes Accept and spawns a goroutine)", len(ro.Serves))
	need("pad function (calls crypto/md5.New)", len(ro.PadFns))
	need("bad-secret detector (errors.As on *BadSecretErr)", len(ro.Detectors))
	for _, l := range [][]*ssa.Function{ro.Readers, ro.Writers, ro.Loops, ro.Serves, ro.ConnFns, ro.PadFns, ro.Detectors} {
		sort.Slice(l, func(i, j int) bool { return l[i].String() < l[j].String() })
	}
	p.roles = ro
	return ro
}

// gProg lets identity helpers map views back to the functions they were made from.
var gProg *Program

// rolesOK records unresolved anchors as undecided obligations.
func rolesOK(p *Program, r *Result) *Roles {
	ro := p.Roles()
	for _, e := range ro.err {
		r.undecided("ROLES", e, "-", "%s: an anchor of this property could not be found in the type-checked program; the property is undecided", e)
	}
	return ro
}

func fnList(fs []*ssa.Function) string {
	s := ""
	for i, f := range fs {
		if i > 0 {
			s += ", "
		}
		s += fnKey(f)
	}
	return fmt.Sprintf("[%s]", s)
}
