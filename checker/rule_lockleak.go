package main

import (
	"go/token"
	"go/types"

	"golang.org/x/tools/go/ssa"
)

// R-LOCKLEAK (C15): a method that takes its receiver's lock and returns one of the receiver's map fields as it is
// hands the protected container out from under the lock: the caller iterates or reads it unlocked while other
// goroutines update it under the lock (a "snapshot" that is not a copy). Concurrent map iteration and map write is
// also a fatal runtime error.
func ruleLockLeak(p *Program, r *Result) {
	n, nLocked := 0, 0
	for _, f := range p.UFuncs() {
		if p.isTestFile(f.Pos()) || f.Signature.Recv() == nil || len(f.Params) == 0 || f.Blocks == nil {
			continue
		}
		recv := f.Params[0]
		locks := false
		for _, c := range allCalls(f) {
			g := c.Common().StaticCallee()
			if g == nil || g.Pkg == nil || g.Pkg.Pkg.Path() != "sync" || (g.Name() != "Lock" && g.Name() != "RLock") || len(c.Common().Args) == 0 {
				continue
			}
			if pr, ok := rootParam(c.Common().Args[0]); ok && pr == recv {
				locks = true
			}
		}
		if !locks {
			continue
		}
		nLocked++
		for _, b := range f.Blocks {
			ret, ok := b.Instrs[len(b.Instrs)-1].(*ssa.Return)
			if !ok {
				continue
			}
			for i := range ret.Results {
				if _, isMap := ret.Results[i].Type().Underlying().(*types.Map); !isMap {
					continue
				}
				for _, rv := range returnedValues(f, ret, i) {
					for _, src := range phiSources(rv) {
						ld, ok := src.(*ssa.UnOp)
						if !ok || ld.Op != token.MUL {
							continue
						}
						if _, isFA := ld.X.(*ssa.FieldAddr); !isFA {
							continue
						}
						if pr, ok := rootParam(ld.X); ok && pr == recv {
							n++
							r.bad("R-LOCKLEAK", fnKey(f)+":returns-the-protected-map", p.Pos(ret.Pos()),
								"%s takes the receiver's lock and returns its map field as it is (not a copy): callers read or range over it without the lock while other goroutines update it under the lock - a data race, and 'concurrent map iteration and map write' is fatal", fnKey(f))
						}
					}
				}
			}
		}
	}
	if n == 0 {
		r.ok("R-LOCKLEAK", "no-map-handed-out-from-under-a-lock", "-", false, "no method that locks its receiver returns one of the receiver's map fields uncopied (%d locking methods examined)", nLocked)
	}
}
