package main

import (
	"fmt"
	"go/token"
	"go/types"
	"sort"
	"strings"

	"golang.org/x/tools/go/callgraph"
	"golang.org/x/tools/go/ssa"
)

// ---------------------------------------------------------------------------
// R-GOCAPTURE

// ruleGoCapture: a goroutine closure must not capture (by reference) a variable that the
// spawning function can reassign after the go statement.
func ruleGoCapture(p *Program, r *Result, scope func(*ssa.Function) bool) {
	n := 0
	for _, fn := range p.UFuncs() {
		if scope != nil && !scope(fn) {
			continue
		}
		ord := 0
		for _, b := range fn.Blocks {
			for _, in := range b.Instrs {
				g, ok := in.(*ssa.Go)
				if !ok {
					continue
				}
				ord++
				n++
				key := fmt.Sprintf("%s:go#%d", fnKey(fn), ord)
				mc, ok := g.Call.Value.(*ssa.MakeClosure)
				if !ok {
					r.ok("R-GOCAPTURE", key, p.Pos(g.Pos()), false, "go statement on a named function: arguments are evaluated in the spawning goroutine, nothing is captured")
					continue
				}
				var racy []string
				for i, bnd := range mc.Bindings {
					a, ok := bnd.(*ssa.Alloc)
					if !ok {
						continue
					}
					if pt, ok := a.Type().(*types.Pointer); ok && isSyncOrChan(pt.Elem()) {
						continue
					}
					// stores to the captured cell reachable from the go statement without re-executing the Alloc
					for _, st := range allocStores(a) {
						if reachableAfter(g, st, a) {
							name := mc.Fn.(*ssa.Function).FreeVars[i].Name()
							racy = append(racy, fmt.Sprintf("%s (reassigned at %s)", name, p.Pos(st.Pos())))
						}
					}
					// stores through field addresses of the cell
					for _, rf := range refsOf(a) {
						if fa, ok := rf.(*ssa.FieldAddr); ok {
							for _, r2 := range refsOf(fa) {
								if st, ok := r2.(*ssa.Store); ok && st.Addr == fa && reachableAfter(g, st, a) {
									name := mc.Fn.(*ssa.Function).FreeVars[i].Name()
									racy = append(racy, fmt.Sprintf("%s.%s (written at %s)", name, fieldName(fa), p.Pos(st.Pos())))
								}
							}
						}
					}
				}
				if len(racy) == 0 {
					r.ok("R-GOCAPTURE", key, p.Pos(g.Pos()), true, "the goroutine closure captures %d variables, none of which the spawning function can write after the go statement (fresh per-iteration cells and never-reassigned variables only)", len(mc.Bindings))
				} else {
					sort.Strings(racy)
					r.bad("R-GOCAPTURE", key, p.Pos(g.Pos()), "the goroutine started here reads variables that the spawning function reassigns afterwards without synchronisation: %s — a data race, and the goroutine can observe a mixture of old and new values", strings.Join(dedupStrings(racy), ", "))
				}
			}
		}
	}
	if n == 0 {
		r.undecided("R-GOCAPTURE", "go-statements", "-", "no go statement found in scope")
	}
}

func dedupStrings(xs []string) []string {
	var out []string
	for i, x := range xs {
		if i == 0 || x != xs[i-1] {
			out = append(out, x)
		}
	}
	return out
}

func fieldName(fa *ssa.FieldAddr) string {
	f, _, ok := fieldAddrOf(fa)
	if ok {
		return f.Name()
	}
	return "?"
}

func isSyncOrChan(t types.Type) bool {
	if _, ok := t.Underlying().(*types.Chan); ok {
		return true
	}
	if n := namedOf(t); n != nil && n.Obj().Pkg() != nil {
		pp := n.Obj().Pkg().Path()
		return pp == "sync" || pp == "sync/atomic"
	}
	return false
}

// reachableAfter: instruction target can execute after instruction from, on a path that does not
// re-execute `fresh` (an Alloc: re-executing it creates a new cell).
func reachableAfter(from, target, fresh ssa.Instruction) bool {
	if from.Block() == target.Block() && instrIndex(target) > instrIndex(from) {
		// same block, later: reachable unless fresh lies between (impossible for an alloc defined before from)
		return true
	}
	blocked := map[*ssa.BasicBlock]bool{}
	freshInLoop := false
	if fresh != nil {
		fb := fresh.Block()
		// if the alloc's block is re-entered, a new cell is created: block it unless it is the entry path
		if blockReachFromSelf(fb) {
			blocked[fb] = true
			freshInLoop = true
		}
	}
	_ = freshInLoop
	for _, s := range from.Block().Succs {
		if blockReach(s, blocked)[target.Block()] {
			return true
		}
	}
	return false
}

// ---------------------------------------------------------------------------
// R-FRESHDECODE

func isServerConfigPtr(t types.Type) bool {
	pt, ok := t.(*types.Pointer)
	return ok && typeIs(pt.Elem(), modPath+"/cmds/server/config", "ServerConfig")
}

var decoderFuncs = map[string]bool{
	"gopkg.in/yaml.v3.Unmarshal": true, "encoding/json.Unmarshal": true,
	"(*gopkg.in/yaml.v3.Decoder).Decode": true, "(*encoding/json.Decoder).Decode": true,
}

// ruleFreshDecode: a configuration document is decoded into a fresh local and exactly that value is published.
// ruleFreshDecode: with delivery=false only what race freedom and immutability of published values need is
// decided (fresh destination, the value published is the fresh one); with delivery=true also that a
// successful load always delivers it (blocking send on every success path) after the content checks.
func ruleFreshDecode(p *Program, r *Result, delivery bool) {
	n := 0
	for _, fn := range p.UUnits() {
		for _, c := range allCalls(fn) {
			call, ok := c.(*ssa.Call)
			if !ok {
				continue
			}
			f := call.Common().StaticCallee()
			if f == nil || !decoderFuncs[f.String()] {
				continue
			}
			args := call.Common().Args
			dst := stripConv(args[len(args)-1])
			if !isServerConfigPtr(dst.Type()) {
				continue
			}
			n++
			key := fnKey(fn)
			a, isLocal := dst.(*ssa.Alloc)
			if !isLocal {
				where := "a value that outlives this call"
				if fld, _, ok := fieldAddrOf(dst); ok {
					where = "the long-lived field " + fld.Name() + " of the loader"
				}
				r.bad("R-FRESHDECODE", key+":fresh-destination", p.Pos(call.Pos()), "the document is decoded into %s: keys the new document omits keep their previous values, list elements are merged index by index (JSON), residue of a refused document survives, and memory of an already published configuration is rewritten", where)
				continue
			}
			// zero at decode time: no store to the local (or its fields) can precede the decode
			dirty := false
			for _, st := range allocStores(a) {
				if !domInstr(call, st) {
					dirty = true
				}
			}
			for _, rf := range refsOf(a) {
				if fa, ok := rf.(*ssa.FieldAddr); ok {
					for _, r2 := range refsOf(fa) {
						if st, ok := r2.(*ssa.Store); ok && st.Addr == fa && !domInstr(call, st) {
							dirty = true
						}
					}
				}
				// the local passed to another function before the decode
				if c2, ok := rf.(ssa.CallInstruction); ok && c2 != ssa.CallInstruction(call) && !domInstr(call, c2.(ssa.Instruction)) {
					dirty = true
				}
			}
			if blockReachFromSelf(call.Block()) && !blockReachFromSelf(a.Block()) {
				dirty = true // decoded repeatedly into one cell
			}
			r.cond(!dirty, "R-FRESHDECODE", key+":fresh-destination", p.Pos(call.Pos()),
				"the document is decoded into a local ServerConfig that is zero when the decoder sees it (declared in this call, nothing stored into it before)",
				"the local decode destination is written or shared before the decode, or reused across iterations: the published value depends on earlier documents")
			// publication: a blocking send of exactly this local, on the success edges only, before return nil
			var sends []*ssa.Send
			nonBlocking := false
			var sent []ssa.Value
			for _, b := range fn.Blocks {
				for _, in := range b.Instrs {
					switch x := in.(type) {
					case *ssa.Send:
						if typeIs(x.X.Type(), modPath+"/cmds/server/config", "ServerConfig") {
							sends = append(sends, x)
							sent = append(sent, x.X)
						}
					case *ssa.Select:
						for _, st := range x.States {
							if st.Dir == types.SendOnly && st.Send != nil && typeIs(st.Send.Type(), modPath+"/cmds/server/config", "ServerConfig") {
								nonBlocking = true
								sent = append(sent, st.Send)
							}
						}
					}
				}
			}
			if !delivery {
				allFresh := len(sent) > 0
				for _, v := range sent {
					if !isCopyOfLocal(v, a, 4) {
						allFresh = false
					}
				}
				r.cond(allFresh, "R-FRESHDECODE", key+":published", p.Pos(call.Pos()),
					fmt.Sprintf("every publication in this function (%d) sends a copy of the freshly decoded local: no consumer ever holds memory a later load writes", len(sent)),
					"a value other than the freshly decoded local is published")
				continue
			}
			if nonBlocking {
				r.bad("R-FRESHDECODE", key+":published", p.Pos(call.Pos()), "the configuration is published through a select (non-blocking or racing send): a successfully loaded document can be dropped while Load reports success, leaving the previous configuration in force")
				continue
			}
			if len(sends) != 1 {
				r.bad("R-FRESHDECODE", key+":published", p.Pos(call.Pos()), "expected exactly one publication of the decoded configuration, found %d", len(sends))
				continue
			}
			sd := sends[0]
			isLocalVal := isCopyOfLocal(sd.X, a, 4)
			g, why := guardedBySuccess(call, sd, nil)
			// every nil-error return passes the send
			allPass := true
			for _, b := range fn.Blocks {
				ret, ok := b.Instrs[len(b.Instrs)-1].(*ssa.Return)
				if !ok || b == fn.Recover || len(ret.Results) == 0 {
					continue
				}
				if isNilConst(ret.Results[len(ret.Results)-1]) && !domInstr(sd, ret) {
					allPass = false
				}
			}
			if isLocalVal && g && allPass {
				r.ok("R-FRESHDECODE", key+":published", p.Pos(sd.Pos()), true, "exactly the freshly decoded value is published, by a blocking send on the success edge of the decode, and every nil-error return passes it; a failed decode or content check publishes nothing")
			} else {
				r.bad("R-FRESHDECODE", key+":published", p.Pos(sd.Pos()), "the value published is not the freshly decoded local (%v), or the send is not guarded by the decode's success (%s), or a success return skips it (%v)", isLocalVal, why, !allPass)
			}
			// content checks read the fresh value and precede the send
			nchk := 0
			for _, b := range fn.Blocks {
				iff, ok := b.Instrs[len(b.Instrs)-1].(*ssa.If)
				if !ok {
					continue
				}
				bo, ok := iff.Cond.(*ssa.BinOp)
				if !ok {
					continue
				}
				if lc, ok := bo.X.(*ssa.Call); ok {
					if bi, ok := lc.Common().Value.(*ssa.Builtin); ok && bi.Name() == "len" {
						if _, base, ok := loadedField(lc.Common().Args[0]); ok && domInstr(iff, sd) {
							// on the fresh value itself, or on a by-value copy of it handed to a folded check
							same := base == ssa.Value(a)
							if b2, isAlloc := base.(*ssa.Alloc); isAlloc && !same {
								if st := allocStores(b2); len(st) == 1 && isCopyOfLocal(st[0].Val, a, 3) {
									same = true
								}
							}
							if same {
								nchk++
							}
						}
					}
				}
			}
			// the checks as a method of the configuration type, called on the fresh value with its error guarding
			// the send: the method's own length tests on its receiver count
			for _, c := range allCalls(fn) {
				cc, isCall := c.(*ssa.Call)
				mf := c.Common().StaticCallee()
				if !isCall || mf == nil || mf.Signature.Recv() == nil || len(mf.Blocks) == 0 || !isErrorType(cc.Type()) || len(cc.Common().Args) != 1 {
					continue
				}
				if !typeIs(derefT(mf.Signature.Recv().Type()), modPath+"/cmds/server/config", "ServerConfig") {
					continue
				}
				arg := cc.Common().Args[0]
				onFresh := arg == ssa.Value(a) || isCopyOfLocal(arg, a, 3)
				if !onFresh {
					continue
				}
				if g, _ := guardedBySuccess(cc, sd, nil); !g {
					continue
				}
				recvP := mf.Params[0]
				for _, b := range mf.Blocks {
					iff, ok := b.Instrs[len(b.Instrs)-1].(*ssa.If)
					if !ok {
						continue
					}
					bo, ok := iff.Cond.(*ssa.BinOp)
					if !ok {
						continue
					}
					lc, ok := bo.X.(*ssa.Call)
					if !ok {
						continue
					}
					if bi, ok := lc.Common().Value.(*ssa.Builtin); !ok || bi.Name() != "len" {
						continue
					}
					if _, base, ok := loadedField(lc.Common().Args[0]); ok && sameObject(base, recvP) {
						// the failing side returns an error
						if errOnlyBlock(mf, b.Succs[0]) || errOnlyBlock(mf, b.Succs[1]) {
							nchk++
						}
					}
				}
			}
			r.cond(nchk >= 2, "R-FRESHDECODE", key+":content-checks", p.Pos(call.Pos()),
				fmt.Sprintf("%d minimum-content checks on the fresh value dominate the publication", nchk),
				"the minimum-content checks (at least one secret, at least one user) on the fresh value no longer dominate the publication")
		}
	}
	if n == 0 {
		r.undecided("R-FRESHDECODE", "decoders", "-", "no decode into a *config.ServerConfig found")
	}
	if delivery {
		r.floor("R-FRESHDECODE", 6)
	} else {
		r.floor("R-FRESHDECODE", 4)
	}
}

// ruleConsumerReplaces: the loader's update loop replaces (does not merge) providers and filters.
func ruleConsumerReplaces(p *Program, r *Result) {
	for _, fn := range p.FuncsIn(func(path string) bool { return path == modPath+"/cmds/server/loader" }) {
		// the function that selects on Config()
		var sel *ssa.Select
		for _, b := range fn.Blocks {
			for _, in := range b.Instrs {
				if s, ok := in.(*ssa.Select); ok {
					for _, st := range s.States {
						if st.Dir == types.RecvOnly {
							if ch, ok := st.Chan.Type().Underlying().(*types.Chan); ok && typeIs(ch.Elem(), modPath+"/cmds/server/config", "ServerConfig") {
								sel = s
							}
						}
					}
				}
			}
		}
		if sel == nil {
			continue
		}
		key := fnKey(fn)
		// values flowing around the loop (phis or captured cells) of provider-slice / filter type
		good := true
		nvars := 0
		var why []string
		check := func(v ssa.Value, name string) {
			nvars++
			switch x := v.(type) {
			case *ssa.Call:
				if bi, ok := x.Common().Value.(*ssa.Builtin); ok && bi.Name() == "append" {
					good = false
					why = append(why, name+" is appended to across updates")
				}
			case *ssa.Extract:
			default:
				_ = x
			}
		}
		for _, b := range fn.Blocks {
			for _, in := range b.Instrs {
				if ph, ok := in.(*ssa.Phi); ok && blockReachFromSelf(b) && (isProviderSlice(ph.Type()) || isFilterPtr(ph.Type())) {
					for _, e := range ph.Edges {
						if e != ssa.Value(ph) {
							check(e, ph.Comment)
						}
					}
				}
				if st, ok := in.(*ssa.Store); ok {
					if a, ok := st.Addr.(*ssa.Alloc); ok {
						if pt, ok := a.Type().(*types.Pointer); ok && (isProviderSlice(pt.Elem()) || isFilterPtr(pt.Elem())) {
							check(st.Val, a.Comment)
						}
					}
					// the parts kept in one local struct value
					if fa, ok := st.Addr.(*ssa.FieldAddr); ok {
						if a, ok := fa.X.(*ssa.Alloc); ok {
							if _, _, isB := stateBundle(a.Type().(*types.Pointer).Elem()); isB && (isProviderSlice(st.Val.Type()) || isFilterPtr(st.Val.Type())) {
								check(st.Val, a.Comment)
							}
						}
					}
				}
			}
		}
		r.cond(good && nvars > 0, "R-FRESHDECODE", key+":consumer-replaces", p.Pos(fn.Pos()),
			fmt.Sprintf("the update loop assigns providers and filters from builder results for each published configuration (%d assignments, none appending to state kept across updates)", nvars),
			"the update loop merges into state kept across updates: "+strings.Join(why, "; "))
		// the builder allocates per call
		for _, c := range allCalls(fn) {
			f := c.Common().StaticCallee()
			if f == nil || f.Blocks == nil || !isProviderSlice(resultType(f, 0)) {
				continue
			}
			// a wrapper that hands on what the real builder returns (reload -> build): look at the builder
			for d := 0; d < 3; d++ {
				var inner *ssa.Function
				wraps := true
				for _, b := range f.Blocks {
					ret, ok := b.Instrs[len(b.Instrs)-1].(*ssa.Return)
					if !ok || b == f.Recover || len(ret.Results) == 0 {
						continue
					}
					for _, rv := range returnedValues(f, ret, 0) {
						var call *ssa.Call
						if cc, ok := rv.(*ssa.Call); ok {
							call = cc
						} else if cc, _, ok := extractOf(rv); ok {
							call = cc
						}
						g := (*ssa.Function)(nil)
						if call != nil {
							g = call.Common().StaticCallee()
						}
						if g == nil || g.Blocks == nil || !isProviderSlice(resultType(g, 0)) || (inner != nil && inner != g) {
							wraps = false
							continue
						}
						inner = g
					}
				}
				if !wraps || inner == nil {
					break
				}
				f = inner
			}
			fresh := false
			for _, b := range f.Blocks {
				for _, in := range b.Instrs {
					if ms, ok := in.(*ssa.MakeSlice); ok && isProviderSlice(ms.Type()) {
						fresh = true
					}
				}
			}
			r.cond(fresh, "R-FRESHDECODE", fnKey(f)+":builder-allocates", p.Pos(f.Pos()),
				"the provider list is a slice made anew on every build",
				"the provider list is not allocated anew on every build")
		}
	}
}

func resultType(f *ssa.Function, i int) types.Type {
	if f.Signature.Results().Len() <= i {
		return types.Typ[types.Invalid]
	}
	return f.Signature.Results().At(i).Type()
}

func isProviderSlice(t types.Type) bool {
	s, ok := t.Underlying().(*types.Slice)
	return ok && typeIs(s.Elem(), modPath, "SecretProvider")
}

func isFilterPtr(t types.Type) bool {
	pt, ok := t.(*types.Pointer)
	return ok && typeIs(pt.Elem(), modPath+"/cmds/server/loader", "prefixFilter")
}

// stateBundle: a struct type of the loader holding the provider list and both prefix filters (the lookup state
// kept as one value instead of three variables). Returns the field indices.
func stateBundle(t types.Type) (prov int, filters []int, ok bool) {
	st, isStruct := t.Underlying().(*types.Struct)
	if !isStruct {
		return 0, nil, false
	}
	prov = -1
	for i := 0; i < st.NumFields(); i++ {
		ft := st.Field(i).Type()
		if isProviderSlice(ft) {
			if prov >= 0 {
				return 0, nil, false
			}
			prov = i
		}
		if isFilterPtr(ft) {
			filters = append(filters, i)
		}
	}
	return prov, filters, prov >= 0 && len(filters) >= 2
}

// bundleFieldStores: v is the load of a local struct built field by field; returns, per field index, the values
// stored, the local itself, and whether the local is written in any other way (a whole-value store, an escape).
func bundleFieldStores(v ssa.Value) (map[int][]*ssa.Store, *ssa.Alloc, bool) {
	u, ok := v.(*ssa.UnOp)
	if !ok || u.Op != token.MUL {
		return nil, nil, false
	}
	al, ok := u.X.(*ssa.Alloc)
	if !ok {
		return nil, nil, false
	}
	out := map[int][]*ssa.Store{}
	clean := true
	for _, ref := range *al.Referrers() {
		switch x := ref.(type) {
		case *ssa.FieldAddr:
			for _, r2 := range *x.Referrers() {
				switch y := r2.(type) {
				case *ssa.Store:
					if y.Addr == ssa.Value(x) {
						out[x.Field] = append(out[x.Field], y)
					} else {
						clean = false
					}
				case *ssa.UnOp, *ssa.DebugRef:
				default:
					clean = false
				}
			}
		case *ssa.UnOp, *ssa.DebugRef:
		default:
			clean = false
		}
	}
	return out, al, clean
}

// ---------------------------------------------------------------------------
// R-SHAREDWRITE

// requestPath: universe functions reachable (CHA) from the connection goroutine, handler entry
// points, SecretProvider.Get implementations and goroutines they spawn.
func (p *Program) requestPath() map[*ssa.Function]bool {
	if p.rp != nil {
		return p.rp
	}
	cg := p.CallGraph()
	roots := map[*ssa.Function]bool{}
	ro := p.Roles()
	for _, f := range ro.ConnFns {
		roots[p.orig(f)] = true
	}
	for _, f := range ro.Loops {
		roots[p.orig(f)] = true
	}
	if ra, err := newReplyAnalysis(p); err == nil {
		for f := range ra.entries {
			roots[f] = true
		}
	}
	spI := p.lookupIface("", "SecretProvider")
	for _, fn := range p.UFuncs() {
		if fn.Name() == "Get" && fn.Signature.Recv() != nil && spI != nil && implementsIface(fn.Signature.Recv().Type(), spI) {
			roots[fn] = true
		}
	}
	seen := map[*ssa.Function]bool{}
	var walk func(f *ssa.Function)
	walk = func(f *ssa.Function) {
		if f == nil || seen[f] {
			return
		}
		if f.Pkg == nil && f.Parent() == nil {
			return
		}
		pk := f.Pkg
		if pk == nil {
			pk = outermost(f).Pkg
		}
		if pk == nil || !inUniverse(pk.Pkg.Path()) || p.isTestFile(f.Pos()) {
			return
		}
		seen[f] = true
		if n := cgNodeOf(cg, f); n != nil {
			for _, e := range n.Out {
				walk(e.Callee.Func)
			}
		}
		for _, a := range f.AnonFuncs {
			walk(a)
		}
	}
	for f := range roots {
		walk(f)
	}
	p.rp = seen
	return seen
}

var _ = callgraph.CalleesOf

// threadSafeLib: library receiver types whose methods are safe for concurrent use by contract.
var threadSafeLib = map[string]string{
	"sync.Mutex": "sync", "sync.RWMutex": "sync", "sync.WaitGroup": "sync", "sync.Once": "sync", "sync.Map": "sync",
	"log.Logger": "log.Logger serialises its output", "log/syslog.Writer": "syslog.Writer locks internally",
	"github.com/prometheus/client_golang/prometheus.Timer": "per-call timer object",
	"net.TCPConn": "net.Conn methods are safe for concurrent use", "net.OpError": "read-only", "time.Timer": "safe",
	"regexp.Regexp": "safe for concurrent use", "context.Context": "safe",
	"net.IPNet": "read-only methods", "net.Resolver": "safe", "hash.Hash": "local", "strings.Builder": "local",
}

// confined types: allocated per connection / per request and never published to another goroutine.
// The table is checked: no allocation site outside the request path (see ruleConfined).
var confinedTypes = map[string]string{
	"":                                       "response sessions sessionContext crypter Packet Header AuthenStart AuthenReply AuthenContinue AuthorRequest AuthorReply AcctRequest AcctReply readBuffer Request Version Client",
	"cmds/server/handlers":                   "AuthenticateASCII AuthenticatePAP AuthenticateStart AuthorizeRequest AccountingRequest ctxLogger ResponseLogger writer authenActionStart",
	"cmds/server/config/authorizers/stringy": "CommandBasedAuthorizer SessionBasedAuthorizer",
	"proxy":                                  "Header",
}

func isConfinedType(t types.Type) bool {
	n := namedOf(t)
	if n == nil || n.Obj().Pkg() == nil {
		return false
	}
	pp := n.Obj().Pkg().Path()
	rel := strings.TrimPrefix(strings.TrimPrefix(pp, modPath), "/")
	if !isModulePath(pp) {
		return false
	}
	for _, nm := range strings.Fields(confinedTypes[rel]) {
		if nm == n.Obj().Name() {
			return true
		}
	}
	return false
}

// addrRoot walks an address expression to its root and reports what it is.
type rootKind int

const (
	rootLocal rootKind = iota
	rootGlobal
	rootForeign
)

func addrRoot(v ssa.Value, depth int) (rootKind, ssa.Value, []string) {
	var path []string
	for depth > 0 {
		depth--
		switch x := v.(type) {
		case *ssa.Alloc:
			return rootLocal, x, path
		case *ssa.Global:
			return rootGlobal, x, path
		case *ssa.FieldAddr:
			path = append(path, fieldName(x))
			v = x.X
		case *ssa.IndexAddr:
			path = append(path, "[]")
			v = x.X
		case *ssa.Slice:
			v = x.X
		case *ssa.ChangeType:
			v = x.X
		case *ssa.Convert:
			v = x.X
		case *ssa.MakeSlice, *ssa.MakeMap:
			return rootLocal, v, path
		case *ssa.Phi:
			// a slice or pointer chosen among alternatives (b := p.Body[off:]; if .. { b = b[:n] }): the
			// root is decided only when every alternative has the same one
			var k0 rootKind
			var r0 ssa.Value
			first := true
			for _, e := range x.Edges {
				if stripSlices(e) == ssa.Value(x) {
					continue // the loop-carried remainder of the same slice: b = b[n:]
				}
				k, rt, _ := addrRoot(e, depth)
				if first {
					k0, r0, first = k, rt, false
					continue
				}
				if k != k0 || (k != rootLocal && rt != r0) {
					return rootForeign, v, path
				}
			}
			if first {
				return rootForeign, v, path
			}
			return k0, r0, path
		case *ssa.UnOp:
			if x.Op != token.MUL {
				return rootForeign, v, path
			}
			// a pointer/slice/map value loaded from memory: the memory written is whatever that value
			// points to. If it was loaded from a local cell, follow what was stored into the cell; a
			// struct copied from elsewhere (value receiver, range variable) still shares its slice, map
			// and pointer fields with the original (copy is one level deep only).
			path = append(path, "*")
			cell := x.X
			var fieldsDown []int
			for {
				if fa, ok := cell.(*ssa.FieldAddr); ok {
					fieldsDown = append(fieldsDown, fa.Field)
					cell = fa.X
					continue
				}
				break
			}
			a, isAlloc := cell.(*ssa.Alloc)
			if !isAlloc {
				v = x.X
				continue
			}
			// the cell of a parameter (spilled, or captured by a closure of this function): the value loaded
			// is the parameter itself
			if len(fieldsDown) == 0 {
				if sts := allocStores(a); len(sts) == 1 {
					if pr, isParam := sts[0].Val.(*ssa.Parameter); isParam {
						path = path[:len(path)-1]
						v = pr
						continue
					}
				}
			}
			worst := rootLocal
			var worstRoot ssa.Value = a
			consider := func(val ssa.Value, viaCopy bool) {
				var k rootKind
				var rt ssa.Value
				if viaCopy {
					// val is the address the struct was copied from
					k, rt, _ = addrRoot(val, depth)
					if k == rootLocal {
						// copied from another local: its own indirect fields may still come from elsewhere
						if u, ok := val.(*ssa.Alloc); ok && u != a {
							k2, rt2, _ := addrRoot(&ssa.UnOp{Op: token.MUL, X: u}, 0)
							_ = k2
							_ = rt2
						}
					}
				} else {
					k, rt, _ = addrRoot(val, depth)
				}
				if k > worst {
					worst, worstRoot = k, rt
				}
			}
			nst := 0
			if len(fieldsDown) == 0 {
				for _, st := range allocStores(a) {
					nst++
					consider(st.Val, false)
				}
			} else {
				// stores to exactly this field of the local
				for _, rf := range refsOf(a) {
					if fa, ok := rf.(*ssa.FieldAddr); ok && fa.Field == fieldsDown[len(fieldsDown)-1] {
						for _, r2 := range refsOf(fa) {
							if st, ok := r2.(*ssa.Store); ok && st.Addr == fa && len(fieldsDown) == 1 {
								nst++
								consider(st.Val, false)
							}
						}
					}
				}
				// whole-struct stores: a copy of a struct living elsewhere
				for _, st := range allocStores(a) {
					nst++
					if u, ok := st.Val.(*ssa.UnOp); ok && u.Op == token.MUL {
						consider(u.X, true)
					} else if freshValue(st.Val) {
						// composite literal / zero value / fresh call result
					} else if _, isParam := st.Val.(*ssa.Parameter); isParam {
						// value parameter (e.g. value receiver): a copy of the caller's struct
						if worst < rootForeign {
							worst, worstRoot = rootForeign, st.Val
						}
					} else {
						if worst < rootForeign {
							worst, worstRoot = rootForeign, st.Val
						}
					}
				}
			}
			_ = nst
			return worst, worstRoot, path
		default:
			return rootForeign, v, path
		}
	}
	return rootForeign, v, path
}

// freshValue: a struct value built in place.
func freshValue(v ssa.Value) bool {
	switch x := v.(type) {
	case *ssa.Const:
		return true
	case *ssa.Call:
		_ = x
		return false
	}
	return false
}

// heldLock: an exclusive Lock() on a sync.Mutex/RWMutex dominates `at` in fn, with the matching Unlock deferred or later.
func heldLock(fn *ssa.Function, at ssa.Instruction) (exclusive bool, shared bool) {
	for _, c := range allCalls(fn) {
		f := c.Common().StaticCallee()
		if f == nil || f.Signature.Recv() == nil {
			continue
		}
		if !(typeIsRecv(f, "sync", "Mutex") || typeIsRecv(f, "sync", "RWMutex")) {
			continue
		}
		if _, isDefer := c.(*ssa.Defer); isDefer {
			continue
		}
		if !domInstr(c, at) {
			continue
		}
		if releasedBetween(fn, c, at) {
			continue
		}
		switch f.Name() {
		case "Lock":
			exclusive = true
		case "RLock":
			shared = true
		}
	}
	return
}

// releasedBetween: a non-deferred Unlock/RUnlock lies after the lock call and before at on every path.
func releasedBetween(fn *ssa.Function, lock ssa.CallInstruction, at ssa.Instruction) bool {
	for _, c := range allCalls(fn) {
		f := c.Common().StaticCallee()
		if f == nil || !(f.Name() == "Unlock" || f.Name() == "RUnlock") {
			continue
		}
		if !(typeIsRecv(f, "sync", "Mutex") || typeIsRecv(f, "sync", "RWMutex")) {
			continue
		}
		if _, isDefer := c.(*ssa.Defer); isDefer {
			continue
		}
		if domInstr(lock, c) && domInstr(c, at) {
			return true
		}
	}
	return false
}

// ruleSharedWrite: no unsynchronised write to long-lived state on the request path.
func ruleSharedWrite(p *Program, r *Result) { ruleSharedWriteOpt(p, r, false) }

// ruleSharedWriteOpt: with sessionsApart (C09) a write on the request path into state that outlives the connection
// is reported even when it is properly locked: the lock makes it race-free, but the object is still a place where
// one session's data meets another's (a table keyed by session id alone, a cache keyed by user name, ...).
// Metrics, loggers and the library's thread-safe types are not written through this rule at all.
func ruleSharedWriteOpt(p *Program, r *Result, sessionsApart bool) {
	rp := p.requestPath()
	var fns []*ssa.Function
	for f := range rp {
		fns = append(fns, f)
	}
	sort.Slice(fns, func(i, j int) bool { return fns[i].String() < fns[j].String() })
	nStores := 0
	for _, fn := range fns {
		ord := 0
		for _, b := range fn.Blocks {
			for _, in := range b.Instrs {
				var addr ssa.Value
				what := ""
				switch x := in.(type) {
				case *ssa.Store:
					addr, what = x.Addr, "store"
				case *ssa.MapUpdate:
					addr, what = x.Map, "map update"
				case *ssa.Call:
					if bi, ok := x.Common().Value.(*ssa.Builtin); ok && bi.Name() == "delete" {
						addr, what = x.Common().Args[0], "map delete"
					} else if s, ok := appendInPlace(in); ok {
						addr, what = s, "append into the backing array of a resliced slice"
					} else if f := x.Common().StaticCallee(); f != nil && f.Signature.Recv() != nil && f.Blocks == nil && len(x.Common().Args) > 0 {
						// library method with pointer receiver on a non-local object
						if _, isPtr := f.Signature.Recv().Type().(*types.Pointer); isPtr {
							rt := namedOf(f.Signature.Recv().Type())
							if rt != nil && rt.Obj().Pkg() != nil {
								full := rt.Obj().Pkg().Path() + "." + rt.Obj().Name()
								if _, safe := threadSafeLib[full]; !safe {
									addr, what = x.Common().Args[0], "call of "+f.String()
								}
							}
						}
					}
				}
				if addr == nil {
					continue
				}
				kind, root, path := addrRoot(addr, 12)
				if kind == rootLocal {
					continue
				}
				if kind == rootForeign && freshCallResult(p, root, 3) {
					continue // a map/slice/object freshly made by the callee for this call
				}
				if fv, ok := root.(*ssa.FreeVar); ok && privateCapturedCell(fn, fv) {
					continue // the closure's own captured cell: one per closure instance, not handed to a goroutine
				}
				if kind == rootForeign {
					// a write through a parameter: judged at the call sites (bounded lifting)
					if pi := paramIndex(fn, root); pi >= 0 && !isConfinedType(root.Type()) {
						if ok, where := callersPassLocal(p, rp, fn, pi, 3, pathHasDeref(path)); ok {
							continue
						} else if where != "" {
							nStores++
							ord++
							key := fmt.Sprintf("%s:%s#%d", fnKey(fn), strings.Fields(what)[0], ord)
							ex, _ := heldLock(fn, in)
							if ex && sessionsApart {
								r.bad("R-CONFINED", key+":state-shared-by-sessions", p.Pos(in.Pos()), "%s on the request path through parameter %s, which %s passes long-lived state for (.%s): the lock makes it race-free, but every connection writes into this one object, so what one session stores there can be read or overwritten by another", what, root.Name(), where, strings.Join(path, "."))
							} else if ex {
								r.ok("R-SHAREDWRITE", key, p.Pos(in.Pos()), true, "%s through parameter %s under an exclusive lock", what, root.Name())
							} else {
								r.bad("R-SHAREDWRITE", key, p.Pos(in.Pos()), "unsynchronised %s on the request path through parameter %s, which %s passes long-lived state for (.%s): connection goroutines share that object, so this is a data race", what, root.Name(), where, strings.Join(path, "."))
							}
							continue
						}
					}
				}
				nStores++
				ord++
				key := fmt.Sprintf("%s:%s#%d", fnKey(fn), strings.Fields(what)[0], ord)
				// which object is written?
				desc := ""
				var objT types.Type
				switch kind {
				case rootGlobal:
					desc = "package-level variable " + root.Name()
					if isPromMetric(root.Type()) {
						continue
					}
				default:
					objT = root.Type()
					desc = "object of type " + typeName(objT) + " reached through " + root.Name()
				}
				if kind == rootForeign && isConfinedType(objT) && !pathLeavesConfined(addr) {
					r.ok("R-SHAREDWRITE", key, p.Pos(in.Pos()), true, "%s to %s (.%s): a connection-confined type (allocated per connection/request, see R-CONFINED)", what, desc, strings.Join(path, "."))
					continue
				}
				ex, _ := heldLock(fn, in)
				if ex && sessionsApart {
					r.bad("R-CONFINED", key+":state-shared-by-sessions", p.Pos(in.Pos()), "%s on the request path to long-lived state: %s (.%s): the lock makes it race-free, but every connection writes into this one object, so what one session stores there can be read or overwritten by another", what, desc, strings.Join(path, "."))
					continue
				}
				if ex {
					r.ok("R-SHAREDWRITE", key, p.Pos(in.Pos()), true, "%s to %s under an exclusive lock taken in this function", what, desc)
					continue
				}
				if what == "store" || strings.HasPrefix(what, "map") {
					r.bad("R-SHAREDWRITE", key, p.Pos(in.Pos()), "unsynchronised %s on the request path to long-lived state: %s (.%s). Connection goroutines run concurrently and share this object; without an exclusive lock or an atomic operation this is a data race (and state carried from one session to another)", what, desc, strings.Join(path, "."))
				} else {
					r.bad("R-SHAREDWRITE", key, p.Pos(in.Pos()), "%s mutates long-lived state on the request path without synchronisation: %s (.%s); the receiver type is not safe for concurrent use", what, desc, strings.Join(path, "."))
				}
			}
		}
	}
	r.Analysed["request_path_functions"] = len(fns)
	r.Analysed["request_path_nonlocal_writes"] = nStores
	r.floor("R-SHAREDWRITE", 10)
}

func isPromMetric(t types.Type) bool {
	if pt, ok := t.(*types.Pointer); ok {
		t = pt.Elem()
	}
	n := namedOf(t)
	return n != nil && n.Obj().Pkg() != nil && strings.HasPrefix(n.Obj().Pkg().Path(), "github.com/prometheus/")
}

// pathLeavesConfined: the address passes through a slice/map/pointer FIELD value that was loaded
// from the confined object: that memory may be shared (copy one level deep rule).
func pathLeavesConfined(addr ssa.Value) bool {
	v := addr
	for i := 0; i < 12; i++ {
		switch x := v.(type) {
		case *ssa.FieldAddr:
			v = x.X
		case *ssa.IndexAddr:
			// indexing a slice value: where does the slice come from?
			if u, ok := x.X.(*ssa.UnOp); ok && u.Op == token.MUL {
				if fa, ok := u.X.(*ssa.FieldAddr); ok {
					// slice field of some struct: confined only if that struct's type is confined and the field is its own buffer
					if f, base, ok := fieldAddrOf(fa); ok {
						if !isConfinedType(base.Type()) {
							return true
						}
						_ = f
					}
				}
			}
			v = x.X
		case *ssa.UnOp:
			v = x.X
		default:
			return false
		}
	}
	return false
}

// ruleConfined: every confined type is allocated only on the request path (or in client/test programs),
// never by the configuration build.
func ruleConfined(p *Program, r *Result) {
	rp := p.requestPath()
	build := p.buildPath()
	count := map[string]int{}
	for _, fn := range p.UFuncs() {
		for _, b := range fn.Blocks {
			for _, in := range b.Instrs {
				a, ok := in.(*ssa.Alloc)
				if !ok {
					continue
				}
				pt, ok := a.Type().(*types.Pointer)
				if !ok || !isConfinedType(pt.Elem()) {
					continue
				}
				tn := typeName(pt.Elem())
				count[tn]++
				if build[fn] && !rp[fn] {
					r.bad("R-CONFINED", tn+":"+fnKey(fn), p.Pos(a.Pos()), "type %s is treated as connection-confined but is allocated by the configuration build (%s): such an object is shared by every connection", tn, fnKey(fn))
				}
			}
		}
	}
	var names []string
	for k := range count {
		names = append(names, k)
	}
	sort.Strings(names)
	for _, tn := range names {
		r.ok("R-CONFINED", tn, "-", true, "%d allocation sites of %s, none in functions reachable only from the configuration build", count[tn], tn)
	}
	// no confined object is stored into a global or into a field of a non-confined type
	for _, fn := range p.UFuncs() {
		for _, b := range fn.Blocks {
			for _, in := range b.Instrs {
				st, ok := in.(*ssa.Store)
				if !ok {
					continue
				}
				v := stripConv(st.Val)
				pt, ok := v.Type().(*types.Pointer)
				if !ok || !isConfinedType(pt.Elem()) {
					continue
				}
				kind, root, _ := addrRoot(st.Addr, 12)
				if kind == rootGlobal {
					r.bad("R-CONFINED", "escape:"+fnKey(fn), p.Pos(st.Pos()), "a %s is stored into package-level variable %s: it is no longer confined to its connection", typeName(pt.Elem()), root.Name())
				}
				if kind == rootForeign && !isConfinedType(root.Type()) {
					if _, isParam := root.(*ssa.Parameter); isParam || true {
						// storing into a local spill of a parameter is fine; into a field of a shared object is not
						if f, base, ok := fieldAddrOf(st.Addr); ok && !isConfinedType(base.Type()) && !isLocalBase(base) {
							r.bad("R-CONFINED", "escape:"+fnKey(fn)+":"+f.Name(), p.Pos(st.Pos()), "a %s is stored into field %s of the long-lived %s: per-session state would be shared between sessions", typeName(pt.Elem()), f.Name(), typeName(base.Type()))
						}
					}
				}
			}
		}
	}
}

func isLocalBase(v ssa.Value) bool {
	k, _, _ := addrRoot(v, 8)
	return k == rootLocal
}

// buildPath: functions reachable from the loader's build function(s) (configuration build).
func (p *Program) buildPath() map[*ssa.Function]bool {
	if p.bp != nil {
		return p.bp
	}
	cg := p.CallGraph()
	seen := map[*ssa.Function]bool{}
	var walk func(f *ssa.Function)
	walk = func(f *ssa.Function) {
		if f == nil || seen[f] || f.Blocks == nil {
			return
		}
		pk := outermost(f).Pkg
		if pk == nil || !inUniverse(pk.Pkg.Path()) {
			return
		}
		seen[f] = true
		if n := cgNodeOf(cg, f); n != nil {
			for _, e := range n.Out {
				walk(e.Callee.Func)
			}
		}
	}
	for _, fn := range p.FuncsIn(func(path string) bool { return path == modPath+"/cmds/server/loader" }) {
		if isProviderSlice(resultType(fn, 0)) && len(fn.Params) >= 2 {
			walk(fn)
		}
	}
	p.bp = seen
	return seen
}

// paramIndex: v is parameter #i of fn (or a free variable: -1).
func paramIndex(fn *ssa.Function, v ssa.Value) int {
	for i, pr := range fn.Params {
		if ssa.Value(pr) == v {
			return i
		}
	}
	return -1
}

// freshCallResult: v is the result of a module function that returns, on every path, a value it
// allocated itself (make/new/composite literal) or nil.
func freshCallResult(p *Program, v ssa.Value, depth int) bool {
	if depth == 0 {
		return false
	}
	var call *ssa.Call
	idx := 0
	switch x := v.(type) {
	case *ssa.Call:
		call = x
	case *ssa.Extract:
		c, ok := x.Tuple.(*ssa.Call)
		if !ok {
			return false
		}
		call, idx = c, x.Index
	default:
		return false
	}
	f := call.Common().StaticCallee()
	if f == nil || f.Blocks == nil {
		return false
	}
	n := 0
	for _, b := range f.Blocks {
		ret, ok := b.Instrs[len(b.Instrs)-1].(*ssa.Return)
		if !ok || b == f.Recover || idx >= len(ret.Results) {
			continue
		}
		for _, rv := range returnedValues(f, ret, idx) {
			n++
			if isNilConst(rv) {
				continue
			}
			k, root, _ := addrRoot(rv, 8)
			if k == rootLocal {
				continue
			}
			if k == rootForeign && freshCallResult(p, root, depth-1) {
				continue
			}
			return false
		}
	}
	return n > 0
}

// callersPassLocal: at every call site of fn on the request path, argument #pi is rooted in a
// local allocation, a confined object or a fresh callee result. Returns (false, description) at the first offender.
func pathHasDeref(path []string) bool {
	for _, s := range path {
		if s == "*" {
			return true
		}
	}
	return false
}

// allocAliasesShared: local struct a was filled by copying a struct that lives in non-local memory,
// so its slice/map/pointer fields alias that memory.
func allocAliasesShared(a *ssa.Alloc) (bool, string) {
	for _, st := range allocStores(a) {
		if u, ok := st.Val.(*ssa.UnOp); ok && u.Op == token.MUL {
			if k, rt, _ := addrRoot(u.X, 10); k != rootLocal {
				return true, "a copy of " + rt.Name() + " (" + typeName(rt.Type()) + ")"
			}
		}
		if pr, ok := st.Val.(*ssa.Parameter); ok {
			if _, isStruct := pr.Type().Underlying().(*types.Struct); isStruct {
				return true, "a by-value copy of parameter " + pr.Name()
			}
		}
	}
	return false, ""
}

func callersPassLocal(p *Program, rp map[*ssa.Function]bool, fn *ssa.Function, pi int, depth int, deref bool) (bool, string) {
	if depth == 0 {
		return false, "a caller chain deeper than the lifting bound"
	}
	node := p.cgNode(fn)
	if node == nil || len(node.In) == 0 {
		// closures called directly are not always in the CHA graph: look at the parent
		if fn.Parent() != nil {
			return closureCallersPassLocal(p, rp, fn, pi, depth, deref)
		}
		return true, ""
	}
	n := 0
	for _, e := range node.In {
		caller := e.Caller.Func
		if e.Site == nil || caller == nil || caller.Blocks == nil {
			continue
		}
		if pk := outermost(caller).Pkg; pk == nil || !inUniverse(pk.Pkg.Path()) || p.isTestFile(caller.Pos()) {
			continue
		}
		if _, isGo := e.Site.(*ssa.Go); isGo {
			// an object handed to a new goroutine is shared between the spawner and the goroutine
			return false, fmt.Sprintf("the go statement in %s (at %s)", fnKey(caller), p.Pos(e.Site.Pos()))
		}
		args := e.Site.Common().Args
		ai := pi
		if e.Site.Common().IsInvoke() {
			ai = pi - 1 // receiver is not in Args for invoke
			if ai < 0 {
				// the receiver is whatever object was published under the interface: long-lived unless its type is confined
				if fn.Signature.Recv() != nil && isConfinedType(fn.Signature.Recv().Type()) {
					continue
				}
				return false, fmt.Sprintf("interface dispatch in %s (at %s): the receiver is an object published under an interface", fnKey(caller), p.Pos(e.Site.Pos()))
			}
		}
		if ai >= len(args) {
			continue
		}
		n++
		k, root, apath := addrRoot(args[ai], 12)
		switch {
		case k == rootLocal:
			if a, ok := root.(*ssa.Alloc); ok && deref {
				if al, what := allocAliasesShared(a); al {
					return false, fmt.Sprintf("%s (at %s), where the local is %s whose slice/map/pointer fields still alias the original", fnKey(caller), p.Pos(e.Site.Pos()), what)
				}
			}
		case k == rootForeign && (isConfinedType(root.Type()) || freshCallResult(p, root, 3)):
			// a pointer kept in a per-session object is only as private as what it points at: a pointer field
			// whose pointee type is not itself per-session may hold an object every session shares (a table
			// handed to each handler by its constructor)
			if isConfinedType(root.Type()) && pathHasDeref(apath) {
				if pt, isPtr := args[ai].Type().Underlying().(*types.Pointer); isPtr && !isConfinedType(pt.Elem()) && !isSyncOrChan(pt.Elem()) {
					if _, isStruct := pt.Elem().Underlying().(*types.Struct); isStruct && namedOf(pt.Elem()) != nil && isModulePath(namedOf(pt.Elem()).Obj().Pkg().Path()) {
						return false, fmt.Sprintf("%s (at %s), through a pointer field of the per-session %s whose pointee (%s) is not a per-session type", fnKey(caller), p.Pos(e.Site.Pos()), typeName(root.Type()), typeName(pt.Elem()))
					}
				}
			}
		case k == rootForeign && paramIndex(caller, root) >= 0:
			if ok, where := callersPassLocal(p, rp, caller, paramIndex(caller, root), depth-1, deref || pathHasDeref(apath)); !ok {
				return false, where
			}
		default:
			return false, fmt.Sprintf("%s (at %s)", fnKey(caller), p.Pos(e.Site.Pos()))
		}
	}
	_ = n
	return true, ""
}

func closureCallersPassLocal(p *Program, rp map[*ssa.Function]bool, fn *ssa.Function, pi int, depth int, deref bool) (bool, string) {
	parent := fn.Parent()
	for _, c := range allCalls(parent) {
		if c.Common().StaticCallee() != fn {
			continue
		}
		args := c.Common().Args
		if pi >= len(args) {
			continue
		}
		k, root, _ := addrRoot(args[pi], 12)
		switch {
		case k == rootLocal:
		case k == rootForeign && (isConfinedType(root.Type()) || freshCallResult(p, root, 3)):
		case k == rootForeign && paramIndex(parent, root) >= 0:
			if ok, where := callersPassLocal(p, rp, parent, paramIndex(parent, root), depth-1, deref); !ok {
				return false, where
			}
		default:
			return false, fmt.Sprintf("%s (at %s)", fnKey(parent), p.Pos(c.Pos()))
		}
	}
	return true, ""
}

// ruleAtomicReload: in the loader's update loop the provider list and both filters are replaced
// together, in the case that receives a configuration, and by no other case: a lookup can only be
// handed the values of one configuration.
func ruleAtomicReload(p *Program, r *Result) {
	found := false
	for _, fn := range p.FuncsIn(func(path string) bool { return path == modPath+"/cmds/server/loader" }) {
		var sel *ssa.Select
		cfgIdx := -1
		for _, b := range fn.Blocks {
			for _, in := range b.Instrs {
				if s, ok := in.(*ssa.Select); ok {
					for i, st := range s.States {
						if st.Dir == types.RecvOnly {
							if ch, ok := st.Chan.Type().Underlying().(*types.Chan); ok && typeIs(ch.Elem(), modPath+"/cmds/server/config", "ServerConfig") {
								sel, cfgIdx = s, i
							}
						}
					}
				}
			}
		}
		if sel == nil {
			continue
		}
		found = true
		key := fnKey(fn) + ":atomic-reload"
		// the block taken when the config case fires: successor of "index == cfgIdx"
		var caseBlock *ssa.BasicBlock
		for _, rf := range refsOf(sel) {
			e, ok := rf.(*ssa.Extract)
			if !ok || e.Index != 0 {
				continue
			}
			for _, r2 := range refsOf(e) {
				bo, ok := r2.(*ssa.BinOp)
				if !ok || bo.Op != token.EQL {
					continue
				}
				if c, ok := constInt(bo.Y); ok && int(c) == cfgIdx {
					for _, r3 := range refsOf(bo) {
						if iff, ok := r3.(*ssa.If); ok {
							caseBlock = iff.Block().Succs[0]
						}
					}
				}
			}
		}
		if caseBlock == nil {
			r.undecided("R-ATOMICRELOAD", key, p.Pos(sel.Pos()), "the configuration case of the select could not be located")
			continue
		}
		var phis []*ssa.Phi
		for _, in := range sel.Block().Instrs {
			if ph, ok := in.(*ssa.Phi); ok && (isProviderSlice(ph.Type()) || isFilterPtr(ph.Type())) {
				phis = append(phis, ph)
			}
		}
		if len(phis) < 3 {
			// the three values kept as one struct value
			if done := atomicReloadBundle(p, r, key, sel, caseBlock); done {
				continue
			}
		}
		if len(phis) < 3 {
			r.bad("R-ATOMICRELOAD", key, p.Pos(sel.Pos()), "the update loop does not carry the provider list and both prefix filters as loop-local values (%d found): lookups cannot be handed one consistent set", len(phis))
			continue
		}
		good := true
		var why []string
		for _, ph := range phis {
			replacedInCase := false
			for i, e := range ph.Edges {
				pred := ph.Block().Preds[i]
				inCase := pred == caseBlock || caseBlock.Dominates(pred)
				switch {
				case e == ssa.Value(ph):
					if inCase {
						good = false
						why = append(why, ph.Comment+" is not replaced when a configuration arrives")
					}
				case inCase:
					replacedInCase = true
					// ... on every path through the case: the incoming value is not a merge that can still
					// be the old one
					if phiReaches(e, ph) {
						good = false
						why = append(why, ph.Comment+" keeps its previous value on some path through the configuration case")
					}
				default:
					// initial value from before the loop is fine; a new value from another case is not
					if ph.Block().Dominates(pred) {
						good = false
						why = append(why, ph.Comment+" is replaced outside the configuration case (at a different moment than the other values)")
					}
				}
			}
			if !replacedInCase {
				good = false
				why = append(why, ph.Comment+" is never replaced in the configuration case")
			}
		}
		if good {
			r.ok("R-ATOMICRELOAD", key, p.Pos(sel.Pos()), true, "providers, deny filter and allow filter (%d loop-carried values) are all replaced in the case that receives a configuration and in no other case; a lookup goroutine is started with the three current values as arguments", len(phis))
		} else {
			r.bad("R-ATOMICRELOAD", key, p.Pos(sel.Pos()), "the parts of a configuration are not installed together: %s — a lookup can observe the filters of one configuration with the providers of another", strings.Join(why, "; "))
		}
	}
	if !found {
		r.undecided("R-ATOMICRELOAD", "update-loop", "-", "UNRESOLVED: no select receiving a config.ServerConfig in the loader")
	}
}

// atomicReloadBundle: the loop carries one struct value holding the provider list and both filters. It must be
// replaced in the configuration case, and only there, by a value all of whose three parts are built in that case.
func atomicReloadBundle(p *Program, r *Result, key string, sel *ssa.Select, caseBlock *ssa.BasicBlock) bool {
	var bundle *ssa.Phi
	for _, in := range sel.Block().Instrs {
		if ph, ok := in.(*ssa.Phi); ok {
			if _, _, isB := stateBundle(ph.Type()); isB {
				if bundle != nil {
					return false
				}
				bundle = ph
			}
		}
	}
	if bundle == nil {
		return atomicReloadCell(p, r, key, sel, caseBlock)
	}
	prov, filters, _ := stateBundle(bundle.Type())
	need := append([]int{prov}, filters...)
	good := true
	var why []string
	replacedInCase := false
	for i, e := range bundle.Edges {
		pred := bundle.Block().Preds[i]
		inCase := pred == caseBlock || caseBlock.Dominates(pred)
		switch {
		case e == ssa.Value(bundle):
			if inCase {
				good = false
				why = append(why, "the state is not replaced when a configuration arrives")
			}
		case inCase:
			replacedInCase = true
			if phiReaches(e, bundle) {
				good = false
				why = append(why, "the state keeps its previous value on some path through the configuration case")
				continue
			}
			for _, src := range phiSources(e) {
				stores, al, clean := bundleFieldStores(src)
				if al == nil || !clean {
					good = false
					why = append(why, "the new state is not a local value built field by field in the configuration case")
					continue
				}
				for _, f := range need {
					okField := false
					for _, st := range stores[f] {
						inC := st.Block() == caseBlock || caseBlock.Dominates(st.Block())
						if inC && domInstr(st, src.(ssa.Instruction)) && !derivesFromPhi(st.Val, bundle) {
							okField = true
						} else if !inC || derivesFromPhi(st.Val, bundle) {
							okField = false
							break
						}
					}
					if !okField {
						good = false
						why = append(why, fmt.Sprintf("field #%d of the new state is not built from the arriving configuration on every path", f))
					}
				}
			}
		default:
			if bundle.Block().Dominates(pred) {
				good = false
				why = append(why, "the state is replaced outside the configuration case")
			}
		}
	}
	if !replacedInCase {
		good = false
		why = append(why, "the state is never replaced in the configuration case")
	}
	if good {
		r.ok("R-ATOMICRELOAD", key, p.Pos(sel.Pos()), true, "providers, deny filter and allow filter are carried as one loop-local struct value (%s) that is replaced, all three parts newly built, in the case that receives a configuration and in no other case", bundle.Comment)
	} else {
		r.bad("R-ATOMICRELOAD", key, p.Pos(sel.Pos()), "the parts of a configuration are not installed together: %s — a lookup can observe the filters of one configuration with the providers of another", strings.Join(why, "; "))
	}
	return true
}

// bundleAllocs: the local struct values that v (a load of a local of bundle type) can hold: the local itself and,
// through whole-value stores, the locals it is assigned from.
func bundleAllocs(v ssa.Value) []*ssa.Alloc {
	var out []*ssa.Alloc
	seen := map[*ssa.Alloc]bool{}
	var walk func(x ssa.Value)
	walk = func(x ssa.Value) {
		for _, s := range phiSources(x) {
			u, ok := s.(*ssa.UnOp)
			if !ok || u.Op != token.MUL {
				continue
			}
			al, ok := u.X.(*ssa.Alloc)
			if !ok || seen[al] {
				continue
			}
			seen[al] = true
			out = append(out, al)
			for _, ref := range *al.Referrers() {
				if st, ok := ref.(*ssa.Store); ok && st.Addr == ssa.Value(al) {
					walk(st.Val)
				}
			}
		}
	}
	walk(v)
	return out
}

// fieldStoresOf: the stores into field #f of the local struct al.
func fieldStoresOf(al *ssa.Alloc, f int) []*ssa.Store {
	var out []*ssa.Store
	for _, ref := range *al.Referrers() {
		if fa, ok := ref.(*ssa.FieldAddr); ok && fa.Field == f {
			for _, r2 := range *fa.Referrers() {
				if st, ok := r2.(*ssa.Store); ok && st.Addr == ssa.Value(fa) {
					out = append(out, st)
				}
			}
		}
	}
	return out
}

// atomicReloadCell: the state is one local struct variable (not lifted to a register because its fields are
// addressed). Inside the loop it may be written only in the configuration case, on every path through it, and
// all three parts of what is written must be built there.
func atomicReloadCell(p *Program, r *Result, key string, sel *ssa.Select, caseBlock *ssa.BasicBlock) bool {
	fn := sel.Parent()
	var cell *ssa.Alloc
	for _, b := range fn.Blocks {
		for _, in := range b.Instrs {
			if al, ok := in.(*ssa.Alloc); ok && !blockReachFromSelf(b) {
				if _, _, isB := stateBundle(al.Type().(*types.Pointer).Elem()); isB {
					// the variable that lives across iterations: read in the loop
					readInLoop := false
					for _, ref := range *al.Referrers() {
						if blockReachFromSelf(ref.Block()) {
							readInLoop = true
						}
					}
					if readInLoop {
						if cell != nil {
							return false
						}
						cell = al
					}
				}
			}
		}
	}
	if cell == nil {
		return false
	}
	prov, filters, _ := stateBundle(cell.Type().(*types.Pointer).Elem())
	need := append([]int{prov}, filters...)
	good := true
	var why []string
	inCase := func(b *ssa.BasicBlock) bool { return b == caseBlock || caseBlock.Dominates(b) }
	// every path through the case passes block b
	onEveryPath := func(b *ssa.BasicBlock) bool {
		if b == caseBlock {
			return true
		}
		return !blockReach(caseBlock, map[*ssa.BasicBlock]bool{b: true})[sel.Block()]
	}
	builtInCase := func(st *ssa.Store) bool {
		if !inCase(st.Block()) {
			return false
		}
		for _, s := range phiSources(st.Val) {
			if f, _, ok := loadedField(s); ok && f != nil {
				if _, base, _ := loadedField(s); base == ssa.Value(cell) {
					return false // copied from the state being replaced
				}
			}
			if in, ok := s.(ssa.Instruction); !ok || !inCase(in.Block()) {
				return false
			}
		}
		return true
	}
	replaced := map[int]bool{}
	for _, ref := range *cell.Referrers() {
		switch x := ref.(type) {
		case *ssa.Store:
			if x.Addr != ssa.Value(cell) || !blockReachFromSelf(x.Block()) {
				continue
			}
			if !inCase(x.Block()) {
				good = false
				why = append(why, "the state is replaced outside the configuration case")
				continue
			}
			allBuilt := true
			for _, al := range bundleAllocs(x.Val) {
				if al == cell {
					continue
				}
				for _, f := range need {
					sts := fieldStoresOf(al, f)
					if len(sts) == 0 {
						allBuilt = false
					}
					for _, st := range sts {
						if !builtInCase(st) {
							allBuilt = false
						}
					}
				}
			}
			if len(bundleAllocs(x.Val)) == 0 {
				allBuilt = false
			}
			if !allBuilt {
				good = false
				why = append(why, "a part of the new state is not built from the arriving configuration")
			}
			if onEveryPath(x.Block()) {
				for _, f := range need {
					replaced[f] = true
				}
			}
		case *ssa.FieldAddr:
			for _, r2 := range *x.Referrers() {
				st, ok := r2.(*ssa.Store)
				if !ok || st.Addr != ssa.Value(x) || !blockReachFromSelf(st.Block()) {
					continue
				}
				isNeeded := false
				for _, f := range need {
					if f == x.Field {
						isNeeded = true
					}
				}
				if !isNeeded {
					continue
				}
				if !builtInCase(st) {
					good = false
					why = append(why, fmt.Sprintf("field #%d of the state is written outside the configuration case or from the old state", x.Field))
					continue
				}
				if onEveryPath(st.Block()) {
					replaced[x.Field] = true
				}
			}
		case *ssa.UnOp, *ssa.DebugRef:
		default:
			if blockReachFromSelf(ref.Block()) {
				good = false
				why = append(why, "the state variable escapes inside the loop")
			}
		}
	}
	for _, f := range need {
		if !replaced[f] {
			good = false
			why = append(why, fmt.Sprintf("field #%d of the state is not replaced on every path through the configuration case", f))
		}
	}
	if good {
		r.ok("R-ATOMICRELOAD", key, p.Pos(sel.Pos()), true, "providers, deny filter and allow filter are kept in one loop-local struct variable (%s); inside the loop it is written only in the case that receives a configuration, on every path through it, with all three parts newly built there", cell.Comment)
	} else {
		sort.Strings(why)
		r.bad("R-ATOMICRELOAD", key, p.Pos(sel.Pos()), "the parts of a configuration are not installed together: %s — a lookup can observe the filters of one configuration with the providers of another", strings.Join(why, "; "))
	}
	return true
}

// derivesFromPhi: v is read out of the loop-carried value ph (a field of it, possibly through phis).
func derivesFromPhi(v ssa.Value, ph *ssa.Phi) bool {
	for _, s := range phiSources(v) {
		if s == ssa.Value(ph) {
			return true
		}
		if f, ok := s.(*ssa.Field); ok && phiReaches(f.X, ph) {
			return true
		}
	}
	return false
}

// phiReaches: v is target, or a phi one of whose (transitive) alternatives is target.
func phiReaches(v ssa.Value, target *ssa.Phi) bool {
	seen := map[ssa.Value]bool{}
	var walk func(x ssa.Value) bool
	walk = func(x ssa.Value) bool {
		if x == ssa.Value(target) {
			return true
		}
		if seen[x] {
			return false
		}
		seen[x] = true
		if ph, ok := x.(*ssa.Phi); ok {
			for _, e := range ph.Edges {
				if walk(e) {
					return true
				}
			}
		}
		return false
	}
	return walk(v)
}

// privateCapturedCell: fv is a variable of the enclosing call captured by closure fn, the cell is a local of
// that call (parameter spill or local), and the closure value is only returned or passed on as an argument
// by the enclosing function - never started as a goroutine there and never stored into a field or global.
// Each call of the enclosing function then has its own cell and its own closure.
func privateCapturedCell(fn *ssa.Function, fv *ssa.FreeVar) bool {
	parent := fn.Parent()
	if parent == nil {
		return false
	}
	idx := -1
	for i, f := range fn.FreeVars {
		if f == fv {
			idx = i
		}
	}
	if idx < 0 {
		return false
	}
	n := 0
	for _, b := range parent.Blocks {
		for _, in := range b.Instrs {
			mc, ok := in.(*ssa.MakeClosure)
			if !ok || mc.Fn != ssa.Value(fn) {
				continue
			}
			n++
			if _, isAlloc := mc.Bindings[idx].(*ssa.Alloc); !isAlloc {
				return false
			}
			for _, rf := range refsOf(mc) {
				switch x := rf.(type) {
				case *ssa.Return, *ssa.DebugRef:
				case *ssa.ChangeType, *ssa.MakeInterface:
					for _, r2 := range refsOf(x.(ssa.Value)) {
						switch r2.(type) {
						case *ssa.Return, *ssa.DebugRef, *ssa.Call:
						default:
							return false
						}
					}
				case *ssa.Call:
				default:
					return false
				}
			}
		}
	}
	return n > 0
}

// stripSlices removes reslicing and type changes: s[a:b] has the backing array of s.
func stripSlices(v ssa.Value) ssa.Value {
	for {
		switch x := v.(type) {
		case *ssa.Slice:
			v = x.X
		case *ssa.ChangeType:
			v = x.X
		default:
			return v
		}
	}
}

// isCopyOfLocal: v is the value of local a: a load of a, or a load of another local whose only store is such
// a value (a struct handed on by value through a folded helper).
func isCopyOfLocal(v ssa.Value, a *ssa.Alloc, depth int) bool {
	if depth == 0 {
		return false
	}
	u, ok := v.(*ssa.UnOp)
	if !ok || u.Op != token.MUL {
		return false
	}
	if u.X == ssa.Value(a) {
		return true
	}
	b, ok := u.X.(*ssa.Alloc)
	if !ok {
		return false
	}
	st := allocStores(b)
	return len(st) == 1 && isCopyOfLocal(st[0].Val, a, depth-1)
}

// rulePublishedNotWritten (C16): a configuration that was published stays as it is. The loaders keep the last
// published value in a field; nothing may be stored through that field (into its slices' elements, its maps, its
// nested structs) - the only write allowed is replacing the field as a whole with a freshly decoded value. Calls
// that hand the field's address to a function that writes through it count as such stores.
func rulePublishedNotWritten(p *Program, r *Result) {
	n := 0
	cfgT := modPath + "/cmds/server/config"
	for _, fn := range p.UFuncs() {
		pk := outermost(fn).Pkg
		if pk == nil || !strings.HasPrefix(pk.Pkg.Path(), modPath+"/cmds/server/loader") || p.isTestFile(fn.Pos()) {
			continue
		}
		// the long-lived copies: fields of type config.ServerConfig of objects this function did not create
		isKept := func(v ssa.Value) bool {
			fa, ok := v.(*ssa.FieldAddr)
			if !ok || !typeIs(fa.Type().(*types.Pointer).Elem(), cfgT, "ServerConfig") {
				return false
			}
			if _, isNamed := fa.Type().(*types.Pointer).Elem().(*types.Named); !isNamed {
				return false
			}
			_, local := fa.X.(*ssa.Alloc)
			return !local
		}
		// reaches: addr is derived from a kept field by field/index/deref steps
		var reaches func(v ssa.Value, d int) bool
		reaches = func(v ssa.Value, d int) bool {
			if d == 0 || v == nil {
				return false
			}
			if isKept(v) {
				return true
			}
			switch x := v.(type) {
			case *ssa.FieldAddr:
				return reaches(x.X, d-1)
			case *ssa.IndexAddr:
				return reaches(x.X, d-1)
			case *ssa.UnOp:
				if x.Op == token.MUL {
					return reaches(x.X, d-1)
				}
			case *ssa.Slice:
				return reaches(x.X, d-1)
			case *ssa.Phi:
				for _, e := range x.Edges {
					if reaches(e, d-1) {
						return true
					}
				}
			}
			return false
		}
		ord := 0
		for _, b := range fn.Blocks {
			for _, in := range b.Instrs {
				switch x := in.(type) {
				case *ssa.Store:
					if isKept(x.Addr) {
						n++
						continue // replacing the kept value as a whole
					}
					if reaches(x.Addr, 8) {
						ord++
						r.bad("R-FRESHDECODE", fmt.Sprintf("%s:published-written#%d", fnKey(fn), ord), p.Pos(x.Pos()), "a store reaches into the configuration kept from the last publication (it shares its slices and maps with the value that was sent to the consumers): an already published configuration is modified by a later load")
					}
				case *ssa.MapUpdate:
					if reaches(x.Map, 8) {
						ord++
						r.bad("R-FRESHDECODE", fmt.Sprintf("%s:published-written#%d", fnKey(fn), ord), p.Pos(x.Pos()), "a map of the configuration kept from the last publication is updated: an already published configuration is modified by a later load")
					}
				case ssa.CallInstruction:
					f := x.Common().StaticCallee()
					if f == nil || len(f.Blocks) == 0 {
						continue
					}
					for i, a := range x.Common().Args {
						if i >= len(f.Params) || !reaches(a, 8) {
							continue
						}
						if _, isPtr := a.Type().Underlying().(*types.Pointer); !isPtr {
							if _, isSl := a.Type().Underlying().(*types.Slice); !isSl {
								if _, isMap := a.Type().Underlying().(*types.Map); !isMap {
									continue
								}
							}
						}
						if writesThroughParam(f, f.Params[i], 3) {
							ord++
							r.bad("R-FRESHDECODE", fmt.Sprintf("%s:published-written#%d", fnKey(fn), ord), p.Pos(x.Pos()), "%s writes through its argument, which here is (part of) the configuration kept from the last publication: an already published configuration is modified by a later load", fnKey(f))
						}
					}
				}
			}
		}
	}
	if n == 0 {
		r.undecided("R-FRESHDECODE", "published-written", "-", "no loader keeps its last configuration in a field (nothing to check)")
	} else {
		r.ok("R-FRESHDECODE", "published-not-written", "-", true, "the loaders write the configuration kept from the last publication only by replacing it as a whole (%d whole-value stores); no store, map update or writing callee reaches into it", n)
	}
}

// writesThroughParam: f (or a function of its package it hands the value on to, depth levels) stores into memory
// reached from parameter pr.
func writesThroughParam(f *ssa.Function, pr *ssa.Parameter, depth int) bool {
	if f == nil || depth == 0 || len(f.Blocks) == 0 {
		return false
	}
	var from func(v ssa.Value, d int) bool
	from = func(v ssa.Value, d int) bool {
		if d == 0 || v == nil {
			return false
		}
		if v == ssa.Value(pr) {
			return true
		}
		switch x := v.(type) {
		case *ssa.FieldAddr:
			return from(x.X, d-1)
		case *ssa.IndexAddr:
			return from(x.X, d-1)
		case *ssa.UnOp:
			if x.Op == token.MUL {
				return from(x.X, d-1)
			}
		case *ssa.Slice:
			return from(x.X, d-1)
		case *ssa.Phi:
			for _, e := range x.Edges {
				if from(e, d-1) {
					return true
				}
			}
		}
		return false
	}
	for _, b := range f.Blocks {
		for _, in := range b.Instrs {
			switch x := in.(type) {
			case *ssa.Store:
				if x.Addr != ssa.Value(pr) && from(x.Addr, 8) {
					return true
				}
				if _, isPtr := pr.Type().Underlying().(*types.Pointer); isPtr && x.Addr == ssa.Value(pr) {
					return true
				}
			case *ssa.MapUpdate:
				if from(x.Map, 8) {
					return true
				}
			case ssa.CallInstruction:
				g := x.Common().StaticCallee()
				if g == nil || g == f {
					continue
				}
				for i, a := range x.Common().Args {
					if i < len(g.Params) && from(a, 8) && writesThroughParam(g, g.Params[i], depth-1) {
						return true
					}
				}
			}
		}
	}
	return false
}
