package main

func init() { register("C05", checkC05, cfgLinux386) }

func checkC05(p *Program, tier string) *Result {
	r := newResult("C05")
	r.Explanation = "R-FRAMING: in the stream reader every consumer of the connection's buffered reader is io.ReadFull (header: fresh 12-byte buffer; body: fresh buffer of BigEndian.Uint32(header[8:]) bytes) on one *bufio.Reader field that is created once in the wrapper's constructor around the wrapper's own connection; the oversize test on the announced length (compared at full width, R-ALLOC) dominates the body allocation and the second read and its error edge returns at once; every error edge of either read returns (nil, error); the packet is decoded from exactly header++body and returned only on the success edges. Writer: exactly one Conn.Write per call, of Packet.MarshalBinary of the given packet, after the length store and the pad, and no exit without a write other than nil guards and pad/marshal errors. Who-may-call: nothing else in the library reads or writes a served connection. Given the documented contracts of io.ReadFull and bufio.Reader these conditions imply independence from segmentation."
	ruleFramingReader(p, r)
	ruleFramingWriter(p, r)
	ruleConnWhoMayCall(p, r)
	// a failed read leaves the stream at an unknown offset: it must be terminal (no further read, no handler)
	ruleLoop(p, r, "c")
	r.floor("R-LOOP", 2)
	r.floor("R-FRAMING", 14)
	r.Trusted = append(r.Trusted, "io.ReadFull returns an error unless the buffer was filled", "bufio.Reader delivers the bytes of the underlying reader in order, keeping unread bytes for the next call", "append, make, encoding/binary.BigEndian")
	r.Assumptions = append(r.Assumptions, "'a stream that stalls produces an error' additionally needs the read deadline to fire (C17 decides that it is armed)")
	return r
}
