package main

func init() { register("C02", checkC02, cfgLinux386) }

func checkC02(p *Program, tier string) *Result {
	r := newResult("C02")
	r.Explanation = "R-DECODEDONCE: every decoder stores each scalar field once, with what it read, and no module function writes through a pointer to it afterwards (no masking of reserved bits, no normalising setter). R-VALIDATE-PASS: for the header and the seven bodies, every nil-error return of MarshalBinary and of UnmarshalBinary is dominated by the success edge of the type's Validate; no byte is produced before it, no field is assigned after it. R-NARROW: every narrowing conversion and every 2-octet write in an encoder is classified by its subject (length of field F, count of F, length of an element of F, value of F) and must be covered by an upper bound that Validate enforces on every accept path (bounds are derived from Validate's own SSA: direct comparisons with an error edge, element validators, field validators reached through the []Field loop). R-LAYOUT (shared with C01): encoder layout = decoder layout per type, every length bound to the field it measures, decoded fields are assigned only from reads of the input. R-ENUM(b): Validate accepts exactly the declared constants. Together: a value that encodes decodes to the same fields, and a value that does not fit is refused."
	validators := ruleValidatePass(p, r)
	ruleNarrowEncoders(p, r, validators)
	ruleLayout(p, r, "ed", true)
	ruleEnum(p, r)
	ruleDecodedOnce(p, r)
	// the text validators' "all octets are ASCII" test looks at every octet
	ruleASCIIPredicates(p, r)
	r.Trusted = append(r.Trusted, "append/copy/len semantics")
	r.Assumptions = append(r.Assumptions, "trailing bytes after the last announced field are ignored by the decoders; re-encoding drops them, which the statement allows")
	return r
}
