package main

func init() { register("C03", checkC03) }

func checkC03(p *Program, tier string) *Result {
	r := newResult("C03")
	r.Explanation = "R-PADSHAPE: in the function that calls md5.New — (a) the first decision is Header.Flags.Has(UnencryptedFlag) returning nil at once; (b) inside the pad loop the hash calls are exactly Reset, Write(session id big-endian), Write(secret parameter), Write(version octet), Write(one octet byte(Header.SeqNo)), Write(previous digest; empty on the first round), Sum(nil); (c) digests are concatenated while len(pad) < int(Header.Length) and the pad is truncated to Header.Length; (d) the only write to the body is Body[i] = Body[i] ^ pad[i]; (e) nothing else (no header field, not Header.Length) is stored and the packet is not passed on; (f) the reader applies it after the packet decode and before the key-mismatch detector, the writer before MarshalBinary, both with the wrapper's secret field, set once from the constructor's parameter. R-LAYOUT (header) ties the octets fed to the hash to the octets on the wire; R-BOUNDS covers pad[i]; R-FRAMING (writer) orders length store, pad and marshal. Reversibility follows: the function XORs with a pad that depends only on header and secret, which it does not modify."
	rulePadShape(p, r, "abcdef")
	// the header bytes on the wire are the header fields the pad is computed from
	for _, t := range []string{"Header"} {
		want := rfcLayouts[t]
		enc, eerrs := extractEncoder(p, t)
		dec, derrs := extractDecoder(p, t)
		r.cond(len(eerrs) == 0 && equalStrings(enc, want), "R-LAYOUT", t+":encoder", "-", "the header encoder writes exactly the header's own fields (version octet from the same Version.MarshalBinary the pad uses)", "the header encoder does not write exactly the header's own fields: the pad would be computed from a different version/sequence/session than the wire carries")
		r.cond(len(derrs) == 0 && equalStrings(dec, want), "R-LAYOUT", t+":decoder", "-", "the header decoder reads exactly the header's own fields", "the header decoder does not read exactly the header's own fields")
	}
	ruleFramingWriter(p, r)
	r.discard("R-FRAMING", ":no-silent-drop") // whether a reply is written at all is C07's clause
	rulePadPrecondition(p, r)
	r.Trusted = append(r.Trusted, "crypto/md5", "hash.Hash Reset/Write/Sum contracts")
	r.Assumptions = append(r.Assumptions, "client.go passes the dialer's secret argument to the wrapper constructor (constructor parameter tracing covers the store, not the caller's choice of key)")
	return r
}

func equalStrings(a, b []string) bool {
	if len(a) != len(b) {
		return false
	}
	for i := range a {
		if a[i] != b[i] {
			return false
		}
	}
	return true
}
