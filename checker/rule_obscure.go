package main

import (
	"go/token"
	"go/types"

	"golang.org/x/tools/go/ssa"
)

// ruleObscure (C18): R-TAINT trusts Record(ctx, m, obscure...) to hide the values of the listed keys. This rule
// reads every implementation of that method in the module: a loop over the whole obscure list overwrites m[key]
// with a constant whenever the key is present (no other condition, no way out of the loop before the list is
// exhausted), and what is handed to the logger afterwards is that same map.
func ruleObscure(p *Program, r *Result) {
	n := 0
	for _, orig := range p.UFuncs() {
		if orig.Name() != "Record" || orig.Signature.Recv() == nil || !orig.Signature.Variadic() || p.isTestFile(orig.Pos()) || orig.Synthetic != "" {
			continue
		}
		sig := orig.Signature
		if sig.Params().Len() != 3 {
			continue
		}
		if _, isMap := sig.Params().At(1).Type().Underlying().(*types.Map); !isMap {
			continue
		}
		n++
		key := fnKey(orig) + ":obscures-listed-keys"
		fn := p.localInlined(orig)
		if len(fn.Blocks) == 0 || len(fn.Params) != 4 {
			r.undecided("R-OBSCURE", key, p.Pos(orig.Pos()), "no body")
			continue
		}
		list := fn.Params[3]
		good, why := true, ""
		fail := func(w string) {
			if good {
				good, why = false, w
			}
		}
		// the overwriting store
		var mu *ssa.MapUpdate
		for _, b := range fn.Blocks {
			for _, in := range b.Instrs {
				x, ok := in.(*ssa.MapUpdate)
				if !ok {
					continue
				}
				if _, isConst := x.Value.(*ssa.Const); !isConst {
					continue
				}
				if elemOfList(x.Key, list) == nil {
					continue
				}
				if mu != nil {
					fail("more than one overwriting store")
				}
				mu = x
			}
		}
		if mu == nil {
			r.bad("R-OBSCURE", key, p.Pos(orig.Pos()), "%s does not overwrite m[key] with a constant for the keys of its obscure list: the values R-TAINT relies on being hidden are logged", fnKey(orig))
			continue
		}
		ia := elemOfList(mu.Key, list)
		// the loop: index runs over the whole list
		var header, bodySucc *ssa.BasicBlock
		for _, b := range fn.Blocks {
			iff, ok := b.Instrs[len(b.Instrs)-1].(*ssa.If)
			if !ok {
				continue
			}
			bo, ok := iff.Cond.(*ssa.BinOp)
			if !ok || bo.Op != token.LSS || !isAscendingIndex(bo.X) {
				continue
			}
			lc, ok := bo.Y.(*ssa.Call)
			if !ok {
				continue
			}
			if bi, ok := lc.Common().Value.(*ssa.Builtin); !ok || bi.Name() != "len" || lc.Common().Args[0] != ssa.Value(list) {
				continue
			}
			if bo.X == ia.Index || sameIndexVar(bo.X, ia.Index) {
				header, bodySucc = b, b.Succs[0]
			}
		}
		if header == nil {
			fail("the overwriting store is not in a loop over the whole obscure list")
		} else {
			// no way out of the loop other than its head
			body := blockReach(bodySucc, map[*ssa.BasicBlock]bool{header: true})
			for b := range body {
				if _, isRet := b.Instrs[len(b.Instrs)-1].(*ssa.Return); isRet {
					fail("the loop over the obscure list can be left before the list is exhausted (at " + p.Pos(b.Instrs[len(b.Instrs)-1].Pos()) + "): later keys stay in clear")
				}
				for _, s := range b.Succs {
					if s != header && !body[s] {
						fail("the loop over the obscure list can be left before the list is exhausted: later keys stay in clear")
					}
				}
			}
			if !body[mu.Block()] {
				fail("the overwriting store is outside the loop")
			}
			// conditions between the loop body's entry and the store: only 'key present in the same map'
			for d := mu.Block(); d != nil && d != header; d = d.Idom() {
				id := d.Idom()
				if id == nil || !body[id] && id != header {
					break
				}
				if id == header {
					break
				}
				iff, ok := id.Instrs[len(id.Instrs)-1].(*ssa.If)
				if !ok {
					continue
				}
				okCond := false
				if ex, ok := iff.Cond.(*ssa.Extract); ok && ex.Index == 1 {
					if lk, ok := ex.Tuple.(*ssa.Lookup); ok && lk.CommaOk && lk.X == mu.Map && elemOfList(lk.Index, list) != nil {
						if id.Succs[0] == d || id.Succs[0].Dominates(d) {
							okCond = true
						}
					}
				}
				if !okCond {
					fail("the overwriting store is under a condition other than 'the key is present in the map' (at " + p.Pos(iff.Pos()) + ")")
				}
			}
			// every iteration reaches the store or finds the key absent: the store's block, or the absent edge,
			// lies on every path through the body - implied by the dominator walk above when the body is entered at
			// bodySucc; make sure nothing else branches around it
			if !(bodySucc == mu.Block() || bodySucc.Dominates(mu.Block())) {
				fail("the loop body is not entered at the presence test")
			}
		}
		// what is logged is the map that was overwritten
		logged := 0
		for _, c := range allCalls(fn) {
			cc := c.Common()
			name := ""
			if cc.IsInvoke() {
				name = cc.Method.Name()
			} else if f := cc.StaticCallee(); f != nil {
				name = f.Name()
			}
			if !isLoggerMethod(name) {
				continue
			}
			for _, a := range cc.Args {
				elems := []ssa.Value{a}
				if es, ok := varargElems(a); ok {
					elems = es
				}
				for _, e := range elems {
					if mi, ok := e.(*ssa.MakeInterface); ok {
						e = mi.X
					}
					if _, isMap := e.Type().Underlying().(*types.Map); !isMap {
						continue
					}
					logged++
					if e != mu.Map {
						fail("a map other than the one whose keys were overwritten is handed to the logger at " + p.Pos(c.Pos()))
					}
					if header != nil && !(header.Succs[1] == c.Block() || header.Succs[1].Dominates(c.Block())) {
						fail("the logger is called before the loop over the obscure list has finished")
					}
				}
			}
		}
		if logged == 0 {
			fail("no logger call receiving the map was found")
		}
		r.cond(good, "R-OBSCURE", key, p.Pos(orig.Pos()),
			fnKey(orig)+" overwrites m[key] with a constant for every key of its obscure list that is present (one loop over the whole list, no other condition, no early exit) and hands that same map to the logger afterwards",
			fnKey(orig)+" does not hide every listed key before logging: "+why)
	}
	if n == 0 {
		r.undecided("R-OBSCURE", "record-implementations", "-", "no implementation of Record(ctx, map, obscure...) found in the module")
	}
}

// elemOfList: v is list[i]; returns the IndexAddr.
func elemOfList(v ssa.Value, list ssa.Value) *ssa.IndexAddr {
	u, ok := v.(*ssa.UnOp)
	if !ok || u.Op != token.MUL {
		return nil
	}
	ia, ok := u.X.(*ssa.IndexAddr)
	if !ok || ia.X != list {
		return nil
	}
	return ia
}

// sameIndexVar: a and b are the same induction variable (phi) or its increment.
func sameIndexVar(a, b ssa.Value) bool {
	base := func(v ssa.Value) ssa.Value {
		if bo, ok := v.(*ssa.BinOp); ok && bo.Op == token.ADD {
			return bo.X
		}
		return v
	}
	return base(a) == base(b)
}
