package main

func init() { register("C07", checkC07) }

func checkC07(p *Program, tier string) *Result {
	r := newResult("C07")
	r.Explanation = "R-REPLYCOUNT: forward dataflow over the SSA CFG of every handler entry point in the server universe with abstract state 'set of possible numbers of reply invocations so far' (subset of {0,1,2+}); delegations (static calls, closures, Handler.Handle dispatch to every implementation) are resolved by summaries; an entry point is good iff the state at every return is exactly {1}."
	ruleReplyCount(p, r)
	r.floor("R-REPLYCOUNT", 18)
	return r
}
