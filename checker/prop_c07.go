package main

func init() { register("C07", checkC07) }

func checkC07(p *Program, tier string) *Result {
	r := newResult("C07")
	r.Explanation = "R-REPLYCOUNT: forward dataflow over the SSA CFG of every handler entry point in the server universe with abstract state 'set of possible numbers of reply invocations so far' (subset of {0,1,2+}); delegations (static calls, closures, Handler.Handle dispatch to every implementation) are resolved by summaries; an entry point is good iff the state at every return is exactly {1}. " +
		"R-LOOP (a,b,c,g): in the connection loop, Close is deferred before the first read; every Handle invoke is dominated by the success edges of the stream read and of the session lookup and no error edge reaches it, a write or another read; exactly one Handle invoke lies between two reads. R-SEQ: the session lookup applies parity and progression validators whose error edges return (nil, error). R-FRAMING (writer): one Conn.Write per reply, no exit without a write other than nil guards and pad/marshal errors."
	ruleReplyCount(p, r)
	r.floor("R-REPLYCOUNT", 18)
	ruleLoop(p, r, "abcg")
	r.floor("R-LOOP", 5)
	// rejection half: the validators are applied (R-SEQ) ; reply half: the writer never drops a marshalable packet
	ruleSeq(p, r)
	ruleFramingWriter(p, r)
	r.floor("R-FRAMING", 4)
	// key-mismatch rejection: the reader writes the detector's reply once and returns an error (never the packet)
	sub := newResult("C19")
	ruleSibling(p, sub)
	if r.takeFrom(sub, "R-SIBLING", "mismatch-path") == 0 {
		r.undecided("R-SIBLING", "mismatch-path", "-", "the reader's key-mismatch path was not found")
	}
	// ... and the signature is recognised: per-type decoder trials, threshold, and the decoders raise the
	// mismatch error before any content test (a mismatched request must not slip through to a handler)
	if r.takeFrom(sub, "R-SIBLING", "detectBadSecret")+r.takeFrom(sub, "R-SIBLING", "mismatch-producer") < 14 {
		r.undecided("R-SIBLING", "mismatch-detection", "-", "the key-mismatch detector's clauses were not produced")
	}
	// rejection half, the header: a request is 'invalid' by the header validator's rules; that validator must refuse
	// every packet type, version and sequence number RFC 8907 does not define (R-ENUM on the header's own fields)
	esub := newResult("C01")
	ruleEnum(p, esub)
	if r.takeFrom(esub, "R-ENUM", "validate:HeaderType")+r.takeFrom(esub, "R-ENUM", "validate:Version") < 2 {
		r.undecided("R-ENUM", "validate:header-fields", "-", "the validators of the header's packet type and version were not found")
	}
	// the reply marshals: text echoed into reply fields is ASCII on every execution
	ruleEcho(p, r)
	r.floor("R-ECHO", 30)
	r.Assumptions = append(r.Assumptions,
		"each reply invocation puts one packet on the wire provided the reply body marshals; bodies built from configuration values (session authorization arguments) are assumed to marshal",
		"handlers outside the module (third-party Handler implementations injected through the loader) are not analysed")
	return r
}
