package main

import (
	"fmt"
	"sort"
	"strings"

	"golang.org/x/tools/go/ssa"
)

// appendInPlace: v = append(s[:k], ...) - the elements of s beyond k are overwritten in s's own backing
// array whenever its capacity allows (always for k < len). Returns the resliced operand.
func appendInPlace(in ssa.Instruction) (ssa.Value, bool) {
	call, ok := in.(*ssa.Call)
	if !ok {
		return nil, false
	}
	bi, ok := call.Common().Value.(*ssa.Builtin)
	if !ok || bi.Name() != "append" || len(call.Common().Args) < 1 {
		return nil, false
	}
	sl, ok := call.Common().Args[0].(*ssa.Slice)
	if !ok || sl.High == nil {
		return nil, false
	}
	return sl.X, true
}

// ruleBuildKeepsConfig (R-BUILDWRITE): while the loader turns a published configuration into providers it
// does not write into memory reachable from that configuration value - not through pointers, not through
// the backing arrays of its slices (copies of a User made per scope share them), not into its maps - nor
// into any other long-lived object (the registered factories, the keychain): only into what it allocates
// itself. A write there would change what an already built scope holds (users stay scoped, each scope
// bound to its own secret: C10, C11, C13), make the result of a load depend on earlier loads (C16) and
// modify a configuration after it was published (C15).
func ruleBuildKeepsConfig(p *Program, r *Result) {
	bp := p.buildPath()
	var fns []*ssa.Function
	for f := range bp {
		if p.isTestFile(f.Pos()) {
			continue
		}
		fns = append(fns, f)
	}
	sort.Slice(fns, func(i, j int) bool { return fns[i].String() < fns[j].String() })
	n, bad := 0, 0
	for _, fn := range fns {
		ord := 0
		for _, b := range fn.Blocks {
			for _, in := range b.Instrs {
				var addr ssa.Value
				what := ""
				switch x := in.(type) {
				case *ssa.Store:
					addr, what = x.Addr, "store"
				case *ssa.MapUpdate:
					addr, what = x.Map, "map update"
				case *ssa.Call:
					if bi, ok := x.Common().Value.(*ssa.Builtin); ok && bi.Name() == "delete" {
						addr, what = x.Common().Args[0], "map delete"
					} else if s, ok := appendInPlace(in); ok {
						addr, what = s, "append into the backing array of a resliced slice"
					}
				}
				if addr == nil {
					continue
				}
				kind, root, path := addrRoot(addr, 12)
				if what != "store" {
					path = append(path, "*")
				}
				if kind == rootLocal && !pathHasDeref(path) {
					continue
				}
				if kind == rootLocal {
					// a local whose indirect parts may still come from the configuration
					if a, ok := root.(*ssa.Alloc); ok {
						if shared, _ := allocAliasesShared(a); !shared {
							continue
						}
					} else {
						continue
					}
				}
				if kind == rootForeign && freshCallResult(p, root, 3) {
					continue
				}
				n++
				if kind == rootForeign {
					if pi := paramIndex(fn, root); pi >= 0 {
						if ok, _ := callersPassLocal(p, bp, fn, pi, 3, pathHasDeref(path)); ok {
							continue
						}
					}
				}
				if kind == rootGlobal && isPromMetric(root.Type()) {
					continue
				}
				ord++
				bad++
				if derivesFromConfig(root, path) {
					r.bad("R-BUILDWRITE", fmt.Sprintf("%s:%s#%d", fnKey(fn), strings.Fields(what)[0], ord), p.Pos(in.Pos()),
						"%s into memory reachable from the configuration being built (through %s .%s): per-scope copies of users, groups and commands share that memory, and the configuration was already published", what, root.Name(), strings.Join(path, "."))
				} else {
					r.bad("R-BUILDWRITE", fmt.Sprintf("%s:%s#%d", fnKey(fn), strings.Fields(what)[0], ord), p.Pos(in.Pos()),
						"%s into a long-lived object during the build (through %s of type %s, .%s): the factories are shared by every scope and every reload, so what is built for one scope or load can change what was built for another", what, root.Name(), typeName(root.Type()), strings.Join(path, "."))
				}
			}
		}
	}
	r.Analysed["build_path_functions"] = len(fns)
	if bad == 0 {
		r.ok("R-BUILDWRITE", "build-keeps-config", "-", true, "%d functions reachable from the provider build, %d non-local writes examined: none goes into memory reachable from the configuration value", len(fns), n)
	}
}

// derivesFromConfig: the root is (part of) a value of a configuration type.
func derivesFromConfig(root ssa.Value, path []string) bool {
	n := namedOf(root.Type())
	if n == nil || n.Obj().Pkg() == nil {
		return true // unknown: be conservative
	}
	return strings.HasSuffix(n.Obj().Pkg().Path(), "/cmds/server/config")
}
